#!/bin/bash
# usage: tools/confirm_seed.sh <prop> <X> [srcroot] [tag]   (reads <srcroot:/tmp/seedout>/<prop>/<X>, writes /verif/seeded/<prop>-<tag><X>/)
# Confirms a sub-agent's seeded change independently in a scratch worktree of /repo:
#  patched: builds, demo FAILS, existing tests of touched packages PASS; unpatched: demo PASSES.
set -u
PROP=$1; X=$2
ROOT=${3:-/tmp/seedout}; TAG=${4:-}
SRC=$ROOT/$PROP/$X
DST=/verif/seeded/$PROP-$TAG$X
[ -f "$SRC/patch.diff" ] || { echo "no patch in $SRC"; exit 2; }
mkdir -p "$DST/demo"
cp "$SRC/patch.diff" "$DST/patch.diff"; cp -r "$SRC/demo/." "$DST/demo/"; cp "$SRC/meta.json" "$DST/agent_meta.json"
LOG=$DST/confirm.log; : > "$LOG"
W=$(mktemp -d /tmp/seedconf.XXXXXX); rmdir "$W"
git -C /repo worktree add --detach "$W" HEAD >>"$LOG" 2>&1 || exit 3
cleanup() { git -C /repo worktree remove --force "$W" >/dev/null 2>&1; rm -rf "$W"; }
trap cleanup EXIT
cd "$W"
copy_demo() { for f in "$DST"/demo/*; do dest=$(grep -m1 -oE 'Copy (this file )?to:?\s+\S+' "$f" | awk '{print $NF}'); [ -n "$dest" ] || dest="$(dirname "$(jq -r '.touched_files[0]' "$DST/agent_meta.json")")/$(basename "$f")"; mkdir -p "$(dirname "$dest")"; cp "$f" "$dest"; echo "$dest"; done; }
rm_demo() { git clean -fdq; }
DEMO_CMD=$(grep -h -m1 -oE 'Run with:\s+.*' "$DST"/demo/* | head -1 | sed -E 's/Run with:\s+//')
[ -n "$DEMO_CMD" ] || DEMO_CMD=$(jq -r .demo_cmd "$DST/agent_meta.json" | sed -E 's/^cp [^&]*&& *//')
DEMO_CMD=$(echo "$DEMO_CMD" | sed -E 's/^cd <[^>]*> *&& *//; s/^cp [^&]*&& *//; s/^cd <[^>]*> *&& *//')
PKGS=$(git apply --numstat "$DST/patch.diff" | awk '{print "./"$3}' | xargs -n1 dirname | sort -u | tr '\n' ' ')
echo "demo_cmd: $DEMO_CMD" >>"$LOG"; echo "touched pkgs: $PKGS" >>"$LOG"
# 1. unpatched + demo -> PASS
copy_demo >>"$LOG"
( eval "$DEMO_CMD" ) >>"$LOG" 2>&1; U=$?
rm_demo
# 2. patched: build, existing tests pass
git apply "$DST/patch.diff" >>"$LOG" 2>&1 || { echo "RESULT apply-failed" | tee -a "$LOG"; exit 4; }
go build ./... >>"$LOG" 2>&1; B=$?
go test -vet=off -count=1 -timeout 25m $PKGS >"$LOG.tests" 2>&1; T=$?
cat "$LOG.tests" >>"$LOG"
if [ $T -ne 0 ]; then
  # machine is shared and loaded: re-run only the failed top-level tests twice to separate load flakes from real failures
  FAILED=$(grep -E '^--- FAIL: ' "$LOG.tests" | awk '{print $3}' | sort -u | paste -sd'|')
  if [ -n "$FAILED" ]; then
    echo "re-running failed tests (possible load flake): $FAILED" >>"$LOG"
    go test -vet=off -count=2 -timeout 25m -run "^($FAILED)\$" $PKGS >>"$LOG" 2>&1 && { T=0; echo "existing-test failures were load flakes (pass on re-run x2)" >>"$LOG"; }
  fi
fi
rm -f "$LOG.tests"
# 3. patched + demo -> FAIL
copy_demo >>"$LOG"
( eval "$DEMO_CMD" ) >>"$LOG" 2>&1; P=$?
echo "RESULT unpatched_demo_exit=$U build_exit=$B existing_tests_exit=$T patched_demo_exit=$P" | tee -a "$LOG"
if [ $U -eq 0 ] && [ $B -eq 0 ] && [ $T -eq 0 ] && [ $P -ne 0 ]; then echo CONFIRMED | tee -a "$LOG"; else echo NOT-CONFIRMED | tee -a "$LOG"; fi
