#!/bin/sh
# usage: tools/benign.sh [Cxx ...] — every behaviour-preserving refactoring kept in benign/ must leave the checks silent.
# Prints "silent"/"ALARM" per patch and property; exit 1 if any alarm.
cd "$(dirname "$0")/.."
props="$*"
rc=0
for f in benign/*.diff; do
  b=$(basename "$f"); p=${b%%-*}
  if [ -n "$props" ] && ! echo " $props " | grep -q " $p "; then continue; fi
  also=""
  case $p in C08) also=C09;; C03) also=C04;; C05) also="C08 C09";; C13) also=C12;; esac
  for q in $p $also; do
    out=$(tools/mut.sh "$f" $q 2>&1); code=$?
    if [ $code -eq 0 ]; then echo "silent $b [$q]"; else echo "ALARM  $b [$q] (exit $code)"; echo "$out" | grep -E "^  (VIOL|UNDEC|ANCHOR)|FATAL|PATCH" | cut -c1-260 | sed 's/^/    /'; rc=1; fi
  done
done
exit $rc
