#!/bin/bash
# usage: tools/benign.sh [Cxx ...] — every behaviour-preserving refactoring kept in benign/ must leave the checks silent.
# Each patch is applied to a scratch worktree and the property's check (plus sibling checks that look at the same
# functions) must exit 0. VERIF_JOBS patches in parallel (default 6). Prints "silent"/"ALARM"; exit 1 if any alarm.
cd "$(dirname "$0")/.."
props="$*"
if [ -z "${VERIF_BIN:-}" ]; then ./setup.sh >/dev/null 2>&1 || { echo "BUILD FAILED"; exit 2; }; fi
one() {
  f=$1; q=$2; b=$(basename "$f")
  out=$(tools/mut.sh "$f" $q 2>&1); code=$?
  if [ $code -eq 0 ]; then echo "silent $b [$q]"; else echo "ALARM  $b [$q] (exit $code)"; echo "$out" | grep -E "^  (VIOL|UNDEC|ANCHOR)|FATAL|PATCH" | cut -c1-260 | sed 's/^/    /'; fi
}
export -f one
list=$(mktemp)
for f in benign/*.diff; do
  b=$(basename "$f"); p=${b%%-*}
  if [ -n "$props" ] && ! echo " $props " | grep -q " $p "; then continue; fi
  also=""
  case $p in C08) also=C09;; C09) also=C08;; C03) also="C04 C05 C06";; C04) also="C03 C06";; C05) also="C08 C09 C03 C13";; C06) also="C03 C04";; C13) also=C12;; C12) also="C13 C01 C05";; C14) also="C15 C04 C05 C13";; C15) also="C14 C13";; C17) also=C18;; esac
  for q in $p $also; do echo "$f $q" >> "$list"; done
done
res=$(xargs -a "$list" -P "${VERIF_JOBS:-6}" -L 1 bash -c 'one "$0" "$1"')
rm -f "$list"
echo "$res" | grep -v "^ " | sort
echo "$res" | grep -A4 "^ALARM" | grep "^ " 
echo "$res" | grep -q "^ALARM" && exit 1
exit 0
