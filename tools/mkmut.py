#!/usr/bin/env python3
"""usage: tools/mkmut.py <out.patch> <file-relative-to-repo> <old> <new> [<file> <old> <new> ...]
Creates a patch against /repo HEAD by exact string replacement (each <old> must occur exactly once) in a scratch worktree;
checks that the result still builds (go build of the touched packages)."""
import subprocess, sys, os, tempfile, shutil
out = os.path.abspath(sys.argv[1]); args = sys.argv[2:]
w = tempfile.mkdtemp(prefix='mkmut.', dir='/tmp'); os.rmdir(w)
subprocess.run(['git', '-C', '/repo', 'worktree', 'add', '--detach', w, 'HEAD'], check=True, capture_output=True)
try:
    pkgs = set()
    for i in range(0, len(args), 3):
        f, old, new = args[i], args[i+1], args[i+2]
        p = os.path.join(w, f); s = open(p).read()
        if s.count(old) != 1:
            sys.exit(f'{f}: old text occurs {s.count(old)} times')
        open(p, 'w').write(s.replace(old, new)); pkgs.add('./' + os.path.dirname(f))
    r = subprocess.run(['go', 'build'] + sorted(pkgs), cwd=w, capture_output=True, text=True)
    if r.returncode != 0:
        sys.exit('does not build:\n' + r.stderr)
    r = subprocess.run(['go', 'vet'] + sorted(pkgs), cwd=w, capture_output=True, text=True)
    if r.returncode != 0:
        print('vet complains:\n' + r.stderr)
    d = subprocess.run(['git', 'diff'], cwd=w, capture_output=True, text=True).stdout
    open(out, 'w').write(d); print('wrote', out, len(d.splitlines()), 'lines')
finally:
    subprocess.run(['git', '-C', '/repo', 'worktree', 'remove', '--force', w], capture_output=True); shutil.rmtree(w, ignore_errors=True)
