#!/bin/bash
# usage: tools/selftest.sh [Cxx ...]   — sensitivity self-test: every stored mutant (mutants/<prop>/*.patch) and every confirmed
# seeded change (seeded/<prop>-*/patch.diff) must make the property's check exit 1; the unchanged tree must exit 0.
# One scratch worktree per mutant, removed immediately; VERIF_JOBS mutants in parallel (default 6).
# Prints one line per mutant; exit 0 iff all detected.
cd "$(dirname "$0")/.."
PROPS="$@"
[ -n "$PROPS" ] || PROPS=$(ls mutants | sort)
fail=0
# build once, so that parallel jobs never rebuild
if [ -z "${VERIF_BIN:-}" ]; then ./setup.sh >/dev/null 2>&1 || { echo "BUILD FAILED"; exit 2; }; fi
one() {
  P=$1; m=$2
  out=$(tools/mut.sh "$m" $P quick 2>&1); rc=$?
  rule=$(echo "$out" | grep -E "^  (VIOLATED|UNDECIDED|ANCHOR-MISSING)" | head -1 | awk '{print $1, $2}')
  case $rc in
    1) echo "detected   $P $m  [$rule]";;
    4) echo "SKIPPED    $P $m  (patch does not apply to the current tree)";;
    *) echo "MISSED     $P $m  (exit $rc)";;
  esac
}
export -f one
list=$(mktemp)
for P in $PROPS; do
  if [ -z "${VERIF_SELFTEST:-}" ]; then
    out=$(./run.sh $P quick 2>&1); rc=$?
    if [ $rc -ne 0 ]; then echo "BASE $P: exit $rc (expected 0)"; fail=1; fi
  fi
  for m in mutants/$P/*.patch seeded/$P-*/patch.diff; do
    [ -f "$m" ] && echo "$P $m" >> "$list"
  done
done
res=$(xargs -a "$list" -P "${VERIF_JOBS:-6}" -L 1 bash -c 'one "$0" "$1"' | sort -k2,3)
rm -f "$list"
echo "$res"
echo "$res" | grep -q "^MISSED" && fail=1
exit $fail
