#!/bin/bash
# usage: tools/blind.sh <patch.diff> [own-prop]  — applies the patch to one scratch worktree and runs EVERY property's quick
# check against it with the frozen checker binary $VERIF_BIN (default bin/dsv); prints which checks report it.
PATCH=$(readlink -f "$1"); OWN=${2:-}
cd "$(dirname "$0")/.."
W=$(mktemp -d /tmp/dsvblind.XXXXXX); rmdir "$W"
git -C /repo worktree add --detach "$W" HEAD >/dev/null 2>&1 || { echo "worktree failed"; exit 3; }
trap 'git -C /repo worktree remove --force "$W" >/dev/null 2>&1; rm -rf "$W"' EXIT
git -C "$W" apply "$PATCH" || { echo "PATCH DOES NOT APPLY"; exit 4; }
export VERIF_BIN=${VERIF_BIN:-bin/dsv}
hits=""
for p in C01 C03 C04 C05 C06 C07 C08 C09 C10 C11 C12 C13 C14 C15 C16 C17 C18 C19 C20; do
  out=$(VERIF_REPO="$W" VERIF_OUT="$W/.dsvout" ./run.sh $p quick 2>&1); rc=$?
  if [ $rc -ne 0 ]; then
    first=$(echo "$out" | grep -E "^  (VIOLATED|UNDECIDED|ANCHOR-MISSING)" | head -1 | cut -c1-300)
    hits="$hits $p"
    echo "  $p rc=$rc $first"
  fi
done
own="missed"; case " $hits " in *" $OWN "*) own="detected";; esac
echo "BLIND own=$OWN:$own reported_by:${hits:- none}"
