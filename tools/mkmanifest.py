#!/usr/bin/env python3
"""Regenerates /verif/MANIFEST.json from tools/checks.json (claimed checks) and properties.jsonl.
Properties without an entry in checks.json are listed under not_applicable with the reason given in
checks.json["not_applicable"] (or 'check not built yet')."""
import json, os, sys
root = os.path.dirname(os.path.dirname(os.path.abspath(__file__)))
props = [json.loads(l) for l in open(os.path.join(root, "properties.jsonl"))]
src = json.load(open(os.path.join(root, "tools", "checks.json")))
import subprocess
expl = json.loads(subprocess.run([os.path.join(root, "bin", "dsv"), "-explain"], capture_output=True, text=True, check=True).stdout)
def rules_of(pid):
    """rule ids and texts as registered by the checker on its last run (evidence file)"""
    try:
        ev = json.load(open(os.path.join(root, "evidence", pid + ".json")))
        rs = ev["coverage"]["rules"]
        return "; ".join(r.split(".", 1)[-1] if isinstance(r, str) else str(r) for r in rs)
    except Exception as e:
        return ""
checks, na = [], []
for p in props:
    pid = p["id"]
    ck = src["checks"].get(pid)
    if ck and pid in expl:
        ck = dict(ck)
        rl = rules_of(pid)
        ex = expl[pid]["explanation"]
        ck["text"] = ex + (" Rules as registered by the checker: " + rl + "." if rl else "")
        # the note is derived from the checker's own statement of what it does not decide
        tail = ex.split("NOT decided:", 1)[1].strip() if "NOT decided:" in ex else ""
        ck["note"] = ("Not decided: " + tail + " " if tail else "") + "Trusted: go/types, go/cfg and the frozen tables listed in DESIGN.md 9.4 (one symbol, one reason each). Restructurings the rules do not recognise are reported as undecided (VIOLATION channel), see DESIGN.md 9.9."
    if ck:
        checks.append({
            "property_id": pid,
            "quick_cmd": f"./run.sh {pid} quick",
            "thorough_cmd": f"./run.sh {pid} thorough",
            "evidence_file": f"/verif/evidence/{pid}.json",
            "replay_cmd_template": f"./run.sh {pid} quick   # static check: re-analyses /repo; the replay file {{path}} names the violating construct",
            "engine": "dsv",
            "level_claimed": {"category": "other", "text": ck["text"], "design_ref": f"DESIGN.md section 4, {pid}"},
            "level_note": ck["note"],
            "technique": ck["technique"],
        })
    else:
        na.append({"property_id": pid, "reason": src["not_applicable"].get(pid, "check not built yet (plan: DESIGN.md section 4)")})
m = {
    "version": 1,
    "setup_cmd": "./setup.sh",
    "hooks": {"guard": "verif", "enable": "none needed: static analysis reads /repo's sources; no hooks are compiled into grafana/dskit",
              "baseline_off_cmd": "cd /repo && go test -vet=off -count=1 -timeout 25m ./...", "source_commits": [], "add_only": True},
    "engines": [{"name": "dsv", "path": "/verif/cmd/dsv", "serves_properties": [c["property_id"] for c in checks],
                 "kind_free_text": "repository-specific static analyser (go/packages + go/types + go/cfg; no SSA, no solver): finite-domain guard tables, path/dominance rules, census/provenance, lockset, effect cones, table extraction"}],
    "checks": checks,
    "notes": src.get("notes", ""),
    "not_applicable": na,
}
json.dump(m, open(os.path.join(root, "MANIFEST.json"), "w"), indent=1)
print(f"{len(checks)} checks, {len(na)} not_applicable")
