#!/usr/bin/env python3
"""Writes /verif/seeded/<id>/meta.json from the sub-agent's report (agent_meta.json), the independent confirmation
log (confirm.log) and a selftest log (detected/MISSED lines)."""
import json, os, re, sys
root = os.path.dirname(os.path.dirname(os.path.abspath(__file__)))
log = sys.argv[1] if len(sys.argv) > 1 else None
det = {}
if log and os.path.exists(log):
    for line in open(log):
        m = re.match(r'(detected|MISSED|SKIPPED)\s+(C\d+)\s+seeded/(\S+)/patch.diff\s*(.*)', line)
        if m:
            det[m.group(3)] = (m.group(1), m.group(4).strip())
blind = {}
for bt in [os.path.join(root, 'seeded', 'round2_blind.tsv'), os.path.join(root, 'seeded', 'round3_blind.tsv'), os.path.join(root, 'seeded', 'round4_blind.tsv'), os.path.join(root, 'seeded', 'round5_blind.tsv'), os.path.join(root, 'seeded', 'round6_blind.tsv'), os.path.join(root, 'seeded', 'round7_blind.tsv')]:
  if os.path.exists(bt):
    for line in open(bt):
          if line.startswith('#') or line.startswith('id\t') or not line.strip():
              continue
          f = line.rstrip('\n').split('\t')
          blind[f[0]] = {'result_with_the_checks_committed_when_it_arrived': f[1], 'reported_by_or_rule_added_afterwards': f[2] if len(f) > 2 else ''}
for d in sorted(os.listdir(os.path.join(root, 'seeded'))):
    p = os.path.join(root, 'seeded', d)
    am = os.path.join(p, 'agent_meta.json')
    if not os.path.isfile(am):
        continue
    a = json.load(open(am))
    conf = open(os.path.join(p, 'confirm.log')).read() if os.path.exists(os.path.join(p, 'confirm.log')) else ''
    res = re.search(r'RESULT (.*)', conf)
    status, rule = det.get(d, ('not-run', ''))
    prev = {}
    if os.path.exists(os.path.join(p, 'meta.json')):
        prev = json.load(open(os.path.join(p, 'meta.json')))
    meta = {
        'id': d,
        'property': a.get('property', d.split('-')[0]),
        'round': int(re.search(r'-([2-9])[AB]$', d).group(1)) if re.search(r'-[2-9][AB]$', d) else 1,
        'written_by': 'fresh sub-agent given only the property text and a scratch worktree of /repo',
        'summary': a.get('summary'),
        'why_it_breaks': a.get('why_it_breaks'),
        'needs_to_manifest': a.get('needs_to_manifest'),
        'touched_files': a.get('touched_files'),
        'demo': sorted(os.listdir(os.path.join(p, 'demo'))) if os.path.isdir(os.path.join(p, 'demo')) else [],
        'demo_cmd': a.get('demo_cmd'),
        'confirmed_here': {
            'how': 'tools/confirm_seed.sh: scratch worktree of /repo HEAD; (1) demo on unchanged tree must pass; (2) patch applied: go build ./... and go test -vet=off -count=1 of the touched packages (failed tests re-run x2 to filter load flakes) must pass; (3) patch + demo: demo must fail',
            'result': res.group(1) if res else 'not run',
            'verdict': 'CONFIRMED' if 'CONFIRMED' in conf.splitlines()[-1:] and 'NOT-CONFIRMED' not in conf else ('NOT-CONFIRMED' if conf else 'not run'),
        },
        'detection': {'status': status, 'first_reported_obligation': rule,
                      'how': 'tools/mut.sh: patch applied to a scratch worktree, ./run.sh <property> quick, exit 1 = reported'},
    }
    if d in blind:
        meta['blind'] = blind[d]
    json.dump(meta, open(os.path.join(p, 'meta.json'), 'w'), indent=1)
print('ok')
