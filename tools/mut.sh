#!/bin/sh
# usage: tools/mut.sh <patch-file> <prop> [tier]   — apply a patch to a scratch worktree of /repo, run the check there, clean up.
# exit code = exit code of the check (1 = detected).
set -u
PATCH=$(readlink -f "$1"); PROP=$2; TIER=${3:-quick}
cd "$(dirname "$0")/.."
W=$(mktemp -d /tmp/dsvmut.XXXXXX)
rmdir "$W"
git -C /repo worktree add --detach "$W" HEAD >/dev/null 2>&1 || { echo "worktree failed"; exit 3; }
if ! git -C "$W" apply "$PATCH"; then echo "PATCH DOES NOT APPLY: $PATCH"; git -C /repo worktree remove --force "$W"; exit 4; fi
VERIF_REPO="$W" VERIF_OUT="$W/.dsvout" ./run.sh "$PROP" "$TIER"
rc=$?
git -C /repo worktree remove --force "$W" >/dev/null 2>&1
rm -rf "$W"
exit $rc
