#!/usr/bin/env python3
"""Prints a markdown table of the seeded changes of a round from seeded/*/meta.json: usage mkseedtable.py <round>"""
import json, os, re, sys
root = os.path.dirname(os.path.dirname(os.path.abspath(__file__)))
rnd = int(sys.argv[1])
print("| seeded | what it changes | blind | reported by (checks as committed) |")
print("|--------|-----------------|-------|-----------------------------------|")
for d in sorted(os.listdir(os.path.join(root, 'seeded'))):
    mp = os.path.join(root, 'seeded', d, 'meta.json')
    if not os.path.isfile(mp):
        continue
    m = json.load(open(mp))
    if m.get('round') != rnd:
        continue
    s = (m.get('summary') or '').replace('\n', ' ').replace('|', '/')
    s = re.sub(r'\s+', ' ', s)
    if len(s) > 170:
        s = s[:167] + '…'
    b = m.get('blind', {}).get('result_with_the_checks_committed_when_it_arrived', '—')
    det = m.get('detection', {})
    rule = det.get('first_reported_obligation', '').strip('[]')
    rule = re.sub(r'^(VIOLATED|UNDECIDED|ANCHOR-MISSING) ', lambda mm: {'VIOLATED': '', 'UNDECIDED': 'undecided: ', 'ANCHOR-MISSING': 'anchor: '}[mm.group(1)], rule)
    rule = rule.replace('|', '/')
    print(f"| {d} | {s} | {b} | {rule if det.get('status') == 'detected' else det.get('status')} |")
