#!/bin/sh
# builds the checker from files on disk only (offline)
set -e
cd "$(dirname "$0")"
. ./env.sh
mkdir -p bin evidence replay
go build -o bin/dsv ./cmd/dsv
