# sourced by run.sh / setup.sh: offline Go environment for the checker (see DESIGN.md 2.1)
export PATH=/opt/veriftools/go1.26.8/bin:$PATH
export GOFLAGS=-mod=mod GOPROXY=off GOSUMDB=off GOTOOLCHAIN=local CGO_ENABLED=0
unset GOWORK
