package an

import (
	"fmt"
	"go/ast"
	"go/token"
	"go/types"
	"sort"
	"strings"

	"golang.org/x/tools/go/cfg"
	"golang.org/x/tools/go/packages"
)

// ---------------------------------------------------------------------------------------------
// Engine E3: lockset / guarded-by analysis on go/cfg.

// Guard describes one mutex field of a struct type and the fields it protects.
type Guard struct {
	Type   *types.Named
	Mutex  string
	Fields []string
	// ReadOK: fields that may be read without the lock (e.g. immutable after construction); writes still need it.
	ReadOK map[string]bool
}

type lockMode int8

const (
	lockR lockMode = 1
	lockW lockMode = 2
)

type lockState map[string]lockMode // "canon(base).mutex" -> mode

func (s lockState) clone() lockState {
	n := lockState{}
	for k, v := range s {
		n[k] = v
	}
	return n
}

func meet(a, b lockState) lockState {
	n := lockState{}
	for k, v := range a {
		if w, ok := b[k]; ok {
			if w < v {
				v = w
			}
			n[k] = v
		}
	}
	return n
}

func equalState(a, b lockState) bool {
	if len(a) != len(b) {
		return false
	}
	for k, v := range a {
		if b[k] != v {
			return false
		}
	}
	return true
}

// LockFinding is one access that is not protected.
type LockFinding struct {
	Fn     string
	Pos    token.Pos
	Field  string
	Write  bool
	Need   string
	Held   []string
	Reason string
}

// LockReport summarises an analysis run.
type LockReport struct {
	Accesses  int
	Protected int
	Exempt    int
	Findings  []LockFinding
	Requires  map[string][]string // function -> lock requirements on entry (inferred helpers)
	Functions int
}

// LockOpts tunes the analysis.
type LockOpts struct {
	// ExemptFuncs: functions (display names) whose accesses are exempt, with a reason (constructors, documented exceptions).
	ExemptFuncs map[string]string
	// ExemptAccess: "func:canon(base).field" accesses exempt, with reason.
	ExemptAccess map[string]string
	// SyncCallbacks: callee display names ("pkg.Func" or "(*T).M") whose function-literal arguments run synchronously
	// under the caller's locks (std helpers such as sort.Slice are built in).
	SyncCallbacks map[string]bool
}

type lockFnInfo struct {
	fn       *Fn
	requires map[string]lockMode // "recv.mutex" style keys relative to this function's own names
	entry    lockState
	// locks held (relative to recv) when each func-typed parameter is invoked
	paramLocks map[types.Object]lockState
}

type locksetRun struct {
	pkg    *packages.Package
	guards []Guard
	opts   LockOpts
	fld    map[*types.Var]*Guard // guarded field -> guard
	mutex  map[*types.Var]*Guard // mutex field -> guard
	infos  map[string]*lockFnInfo
	order  []*lockFnInfo
	report *LockReport
}

var builtinSync = map[string]bool{
	"sort.Slice": true, "sort.SliceStable": true, "sort.Search": true, "slices.SortFunc": true, "slices.DeleteFunc": true,
	"slices.IndexFunc": true, "slices.ContainsFunc": true, "slices.SortStableFunc": true, "slices.BinarySearchFunc": true,
	"sync.(*Once).Do": true, "strings.Map": true, "strings.FieldsFunc": true,
}

// Lockset checks that every access to a guarded field happens with its mutex held on the same base object.
func Lockset(pkg *packages.Package, guards []Guard, opts LockOpts) *LockReport {
	r := &locksetRun{pkg: pkg, guards: guards, opts: opts, fld: map[*types.Var]*Guard{}, mutex: map[*types.Var]*Guard{}, infos: map[string]*lockFnInfo{},
		report: &LockReport{Requires: map[string][]string{}}}
	for i := range guards {
		g := &guards[i]
		st, ok := g.Type.Underlying().(*types.Struct)
		if !ok {
			continue
		}
		for j := 0; j < st.NumFields(); j++ {
			f := st.Field(j)
			if f.Name() == g.Mutex {
				r.mutex[f] = g
			}
			for _, name := range g.Fields {
				if f.Name() == name {
					r.fld[f] = g
				}
			}
		}
	}
	for _, root := range Funcs(pkg) {
		var add func(f *Fn)
		add = func(f *Fn) {
			info := &lockFnInfo{fn: f, requires: map[string]lockMode{}, entry: lockState{}, paramLocks: map[types.Object]lockState{}}
			r.infos[f.Name] = info
			r.order = append(r.order, info)
			for _, l := range f.Lits() {
				add(l)
			}
		}
		add(root)
	}
	r.report.Functions = len(r.order)
	// fixpoint: requirements and literal entry states can change
	for round := 0; round < 8; round++ {
		changed := false
		for _, info := range r.order {
			if r.analyse(info, false) {
				changed = true
			}
		}
		if !changed {
			break
		}
	}
	for _, info := range r.order {
		r.analyse(info, true)
	}
	for name, info := range r.infos {
		for k, m := range info.requires {
			mode := "R"
			if m == lockW {
				mode = "W"
			}
			r.report.Requires[name] = append(r.report.Requires[name], k+"("+mode+")")
		}
		sort.Strings(r.report.Requires[name])
	}
	sort.Slice(r.report.Findings, func(i, j int) bool { return r.report.Findings[i].Pos < r.report.Findings[j].Pos })
	return r.report
}

// mayCarry: can this function have a requires-lock-on-entry summary?
func (r *locksetRun) mayCarry(f *Fn) bool {
	if f.Lit != nil {
		return false
	}
	if f.Decl != nil && ast.IsExported(f.Decl.Name.Name) {
		return false
	}
	return true
}

type lockOp struct {
	pos    token.Pos
	key    string
	mode   lockMode
	unlock bool
}

// lockOps extracts Lock/RLock/Unlock/RUnlock calls on guarded mutexes in node n (not descending into literals; defers ignored).
func (r *locksetRun) lockOps(f *Fn, n ast.Node) []lockOp {
	var ops []lockOp
	if _, isDefer := n.(*ast.DeferStmt); isDefer {
		return nil
	}
	ast.Inspect(n, func(x ast.Node) bool {
		if _, ok := x.(*ast.FuncLit); ok {
			return false
		}
		call, ok := x.(*ast.CallExpr)
		if !ok {
			return true
		}
		sel, ok := call.Fun.(*ast.SelectorExpr)
		if !ok {
			return true
		}
		msel, ok := Unparen(sel.X).(*ast.SelectorExpr)
		if !ok {
			return true
		}
		s := f.Info().Selections[msel]
		if s == nil {
			return true
		}
		mf, _ := s.Obj().(*types.Var)
		if _, guarded := r.mutex[mf]; !guarded {
			return true
		}
		key := f.Canon(msel.X) + "." + mf.Name()
		switch sel.Sel.Name {
		case "Lock":
			ops = append(ops, lockOp{call.Pos(), key, lockW, false})
		case "RLock":
			ops = append(ops, lockOp{call.Pos(), key, lockR, false})
		case "Unlock", "RUnlock":
			ops = append(ops, lockOp{call.Pos(), key, 0, true})
		}
		return true
	})
	return ops
}

func (r *locksetRun) analyse(info *lockFnInfo, final bool) (changed bool) {
	f := info.fn
	g := f.Graph()
	if g.Entry == nil {
		return false
	}
	// dataflow
	in := map[*cfg.Block]lockState{g.Entry: info.entry.clone()}
	// a function with requirements holds them on entry
	for k, m := range info.requires {
		if in[g.Entry][k] < m {
			in[g.Entry][k] = m
		}
	}
	out := map[*cfg.Block]lockState{}
	work := []*cfg.Block{g.Entry}
	transfer := func(b *cfg.Block, st lockState) lockState {
		st = st.clone()
		for _, n := range b.Nodes {
			for _, op := range r.lockOps(f, n) {
				if op.unlock {
					delete(st, op.key)
				} else {
					st[op.key] = op.mode
				}
			}
		}
		return st
	}
	for len(work) > 0 {
		b := work[len(work)-1]
		work = work[:len(work)-1]
		o := transfer(b, in[b])
		if prev, ok := out[b]; ok && equalState(prev, o) {
			continue
		}
		out[b] = o
		for _, s := range b.Succs {
			if cur, ok := in[s]; ok {
				m := meet(cur, o)
				if !equalState(m, cur) {
					in[s] = m
					work = append(work, s)
				}
			} else {
				in[s] = o.clone()
				work = append(work, s)
			}
		}
	}
	// state at a node
	stateAt := func(loc Loc) lockState {
		st := in[loc.B].clone()
		for i := 0; i < loc.I && i < len(loc.B.Nodes); i++ {
			for _, op := range r.lockOps(f, loc.B.Nodes[i]) {
				if op.unlock {
					delete(st, op.key)
				} else {
					st[op.key] = op.mode
				}
			}
		}
		return st
	}
	// within the node itself: lock ops positioned before pos also apply
	stateAtPos := func(n ast.Node) (lockState, bool) {
		loc := g.Locate(n)
		if !loc.Valid() {
			return nil, false
		}
		st := stateAt(loc)
		for _, op := range r.lockOps(f, loc.B.Nodes[loc.I]) {
			if op.pos < n.Pos() {
				if op.unlock {
					delete(st, op.key)
				} else {
					st[op.key] = op.mode
				}
			}
		}
		return st, true
	}

	fresh := freshLocals(f)
	noCarry := false
	need := func(key string, mode lockMode, pos token.Pos, field string, write bool, st lockState, why string) {
		if st[key] >= mode {
			if final {
				r.report.Protected++
			}
			return
		}
		// can this function carry the requirement? only for locks on its own receiver / parameters
		if !noCarry && r.mayCarry(f) && (strings.HasPrefix(key, "recv.") || strings.HasPrefix(key, "p")) {
			if info.requires[key] < mode {
				info.requires[key] = mode
				changed = true
			}
			if final {
				r.report.Protected++
			}
			return
		}
		if final {
			held := []string{}
			for k := range st {
				held = append(held, k)
			}
			sort.Strings(held)
			r.report.Findings = append(r.report.Findings, LockFinding{Fn: f.Name, Pos: pos, Field: field, Write: write, Need: key, Held: held, Reason: why})
		}
	}

	// accesses
	exemptFn := ""
	root := f.Root()
	if reason, ok := r.opts.ExemptFuncs[root.Name]; ok {
		exemptFn = reason
	}
	f.InspectShallow(func(n ast.Node) bool {
		sel, ok := n.(*ast.SelectorExpr)
		if !ok {
			return true
		}
		s := f.Info().Selections[sel]
		if s == nil {
			return true
		}
		fv, _ := s.Obj().(*types.Var)
		gd := r.fld[fv]
		if gd == nil {
			return true
		}
		if final {
			r.report.Accesses++
		}
		write := isWriteAccess(f, sel)
		if exemptFn != "" {
			if final {
				r.report.Exempt++
			}
			return true
		}
		if _, ok := r.opts.ExemptAccess[root.Name+":"+f.Canon(sel.X)+"."+fv.Name()]; ok {
			if final {
				r.report.Exempt++
			}
			return true
		}
		if !write && gd.ReadOK[fv.Name()] {
			if final {
				r.report.Exempt++
			}
			return true
		}
		if obj := f.ObjOf(sel.X); obj != nil && fresh[obj] {
			if final {
				r.report.Exempt++
			}
			return true
		}
		st, ok := stateAtPos(sel)
		if !ok {
			if final {
				r.report.Findings = append(r.report.Findings, LockFinding{Fn: f.Name, Pos: sel.Pos(), Field: fv.Name(), Write: write, Reason: "access not found in CFG"})
			}
			return true
		}
		mode := lockR
		if write {
			mode = lockW
		}
		need(f.Canon(sel.X)+"."+gd.Mutex, mode, sel.Pos(), fv.Name(), write, st, "field access")
		return true
	})
	// calls: callee requirements, literal entry states
	f.InspectShallow(func(n ast.Node) bool {
		call, ok := n.(*ast.CallExpr)
		if !ok {
			return true
		}
		st, ok := stateAtPos(call)
		if !ok {
			return true
		}
		callee, _ := Callee(f.Info(), call).(*types.Func)
		var ci *lockFnInfo
		calleeName := ""
		if callee != nil {
			calleeName = FuncDisplay(callee)
			if callee.Pkg() == r.pkg.Types {
				ci = r.infos[calleeName]
			}
		}
		// is this call a go statement / defer target? (then the callee does not run under our locks)
		stmt := EnclosingStmt(f.Body(), call)
		async := false
		if gs, ok := stmt.(*ast.GoStmt); ok && gs.Call == call {
			async = true
		}
		if ds, ok := stmt.(*ast.DeferStmt); ok && ds.Call == call {
			// deferred call runs at exit: locks released by earlier defers may be gone; treat conservatively as no locks
			async = true
		}
		recvCanon := ""
		if sel, ok := call.Fun.(*ast.SelectorExpr); ok {
			recvCanon = f.Canon(sel.X)
		}
		translate := func(key string) string {
			if strings.HasPrefix(key, "recv.") && recvCanon != "" {
				return recvCanon + strings.TrimPrefix(key, "recv")
			}
			if strings.HasPrefix(key, "p") {
				// pN.mutex: translate to the canon of argument N
				var idx int
				var rest string
				if _, err := fmt.Sscanf(key, "p%d", &idx); err == nil {
					if dot := strings.Index(key, "."); dot > 0 {
						rest = key[dot:]
					}
					if idx < len(call.Args) {
						return f.Canon(call.Args[idx]) + rest
					}
				}
			}
			return key
		}
		recvFresh := false
		if sel, ok := call.Fun.(*ast.SelectorExpr); ok {
			if obj := f.ObjOf(sel.X); obj != nil && fresh[obj] {
				recvFresh = true
			}
		}
		if ci != nil && !recvFresh {
			for k, m := range ci.requires {
				held := st
				if async {
					// a go/defer target does not run under the spawner's locks: the spawner cannot discharge the requirement
					held = lockState{}
					noCarry = true
				}
				need(translate(k), m, call.Pos(), "call:"+calleeName, m == lockW, held, "callee "+calleeName+" requires "+k)
				noCarry = false
			}
		}
		// function literal arguments
		for ai, a := range call.Args {
			lit, ok := Unparen(a).(*ast.FuncLit)
			if !ok {
				continue
			}
			li := r.infos[f.LitFn0(lit)]
			if li == nil {
				continue
			}
			entry := lockState{}
			sync := false
			full := calleeName
			if callee != nil && callee.Pkg() != nil {
				full = callee.Pkg().Name() + "." + strings.TrimPrefix(calleeName, "")
			}
			if builtinSync[full] || r.opts.SyncCallbacks[calleeName] || r.opts.SyncCallbacks[full] {
				sync = true
			}
			if ci != nil && callee != nil {
				sig := callee.Type().(*types.Signature)
				if ai < sig.Params().Len() {
					if pl, ok := ci.paramLocks[sig.Params().At(ai)]; ok {
						sync = true
						for k, m := range pl {
							entry[translate(k)] = m
						}
					}
				}
			}
			if sync && !async {
				for k, m := range st {
					if entry[k] < m {
						entry[k] = m
					}
				}
			}
			if !equalState(entry, li.entry) {
				li.entry = entry
				changed = true
			}
		}
		// a func-typed parameter of f forwarded to a callee that invokes it under a lock: f invokes it under that lock too
		if ci != nil && callee != nil && f.Decl != nil && !async {
			sig := callee.Type().(*types.Signature)
			for ai, a := range call.Args {
				pv, ok := f.ObjOf(a).(*types.Var)
				if !ok || ai >= sig.Params().Len() {
					continue
				}
				d, isParam := f.SingleDef(pv)
				if !isParam || d.kind != defParam {
					continue
				}
				pl, ok := ci.paramLocks[sig.Params().At(ai)]
				if !ok {
					continue
				}
				rel := lockState{}
				for k, m := range pl {
					rel[translate(k)] = m
				}
				for k, m := range st {
					if strings.HasPrefix(k, "recv.") && rel[k] < m {
						rel[k] = m
					}
				}
				if prev, ok := info.paramLocks[pv]; ok {
					rel = meet(prev, rel)
				}
				if prev, ok := info.paramLocks[pv]; !ok || !equalState(prev, rel) {
					info.paramLocks[pv] = rel
					changed = true
				}
			}
		}
		// immediately invoked literal
		if lit, ok := Unparen(call.Fun).(*ast.FuncLit); ok && !async {
			if li := r.infos[f.LitFn0(lit)]; li != nil && !equalState(st, li.entry) {
				li.entry = st.clone()
				changed = true
			}
		}
		// call of a func-typed parameter: record locks held (for callers' literals)
		if v, ok := Callee(f.Info(), call).(*types.Var); ok && f.Decl != nil && !async {
			if d, isParam := f.SingleDef(v); isParam && d.kind == defParam {
				rel := lockState{}
				for k, m := range st {
					if strings.HasPrefix(k, "recv.") {
						rel[k] = m
					}
				}
				if prev, ok := info.paramLocks[v]; ok {
					rel = meet(prev, rel)
				}
				if prev, ok := info.paramLocks[v]; !ok || !equalState(prev, rel) {
					info.paramLocks[v] = rel
					changed = true
				}
			}
		}
		return true
	})
	return changed
}

// LitFn0 returns the display name of a literal nested anywhere in f's root.
func (f *Fn) LitFn0(lit *ast.FuncLit) string {
	if l := f.Root().LitFn(lit); l != nil {
		return l.Name
	}
	return ""
}

func isWriteAccess(f *Fn, sel *ast.SelectorExpr) bool {
	stmt := EnclosingStmt(f.Body(), sel)
	contains := func(e ast.Expr) bool {
		for {
			switch x := Unparen(e).(type) {
			case *ast.SelectorExpr:
				return x == sel
			case *ast.IndexExpr:
				e = x.X
			case *ast.StarExpr:
				e = x.X
			case *ast.SliceExpr:
				e = x.X
			default:
				return false
			}
		}
	}
	switch s := stmt.(type) {
	case *ast.AssignStmt:
		for _, l := range s.Lhs {
			if contains(l) {
				return true
			}
		}
	case *ast.IncDecStmt:
		if contains(s.X) {
			return true
		}
	case *ast.RangeStmt:
		if s.Tok == token.ASSIGN && ((s.Key != nil && contains(s.Key)) || (s.Value != nil && contains(s.Value))) {
			return true
		}
	}
	// delete(x.f, k), clear(x.f), &x.f
	w := false
	if stmt != nil {
		ast.Inspect(stmt, func(n ast.Node) bool {
			switch x := n.(type) {
			case *ast.CallExpr:
				if o := Callee(f.Info(), x); o != nil {
					if _, isB := o.(*types.Builtin); isB && (o.Name() == "delete" || o.Name() == "clear") && len(x.Args) > 0 && contains(x.Args[0]) {
						w = true
					}
				}
			case *ast.UnaryExpr:
				if x.Op == token.AND && contains(x.X) {
					w = true
				}
			}
			return true
		})
	}
	return w
}

// freshLocals: locals of f's root initialised from &T{…}, T{…} or new(T): objects not yet shared.
func freshLocals(f *Fn) map[types.Object]bool {
	out := map[types.Object]bool{}
	for obj, ds := range f.Defs() {
		if len(ds) != 1 || ds[0].kind != defExpr {
			continue
		}
		switch x := Unparen(ds[0].expr).(type) {
		case *ast.UnaryExpr:
			if x.Op == token.AND {
				if _, ok := Unparen(x.X).(*ast.CompositeLit); ok {
					out[obj] = true
				}
			}
		case *ast.CompositeLit:
			out[obj] = true
		case *ast.CallExpr:
			if id, ok := x.Fun.(*ast.Ident); ok && id.Name == "new" {
				out[obj] = true
			}
		}
	}
	return out
}
