package an

import (
	"fmt"
	"go/ast"
	"go/token"
	"go/types"
	"golang.org/x/tools/go/cfg"
	"sort"
	"strings"
)

// ---- definitions of local variables (AST-level reaching definitions for single-assignment locals)

type defKind int

const (
	defExpr   defKind = iota // x := e / x = e / var x = e
	defTuple                 // x is the i-th result of a multi-value expression
	defRangeK                // range key
	defRangeV                // range value
	defParam                 // parameter / receiver / named result
	defOpaque                // x++, x += e, &x taken, var x T (zero value), select recv
	defTypeSw                // switch x := y.(type)
)

type defSite struct {
	kind defKind
	expr ast.Expr // rhs / ranged expression / switch operand
	idx  int      // tuple index or parameter index
	name string   // for params: canonical name
	pos  token.Pos
	zero bool         // var x T without initialiser
	lit  *ast.FuncLit // innermost enclosing function literal of the definition (nil: root function)
}

// Defs returns the definition sites of every local object declared in the root function of f
// (including its nested literals).
func (f *Fn) Defs() map[types.Object][]defSite {
	r := f.Root()
	if r.defs != nil {
		return r.defs
	}
	info := r.Info()
	m := map[types.Object][]defSite{}
	var stack []*ast.FuncLit
	add := func(id *ast.Ident, d defSite) {
		if id == nil || id.Name == "_" {
			return
		}
		obj := info.Defs[id]
		if obj == nil {
			obj = info.Uses[id]
		}
		if obj == nil {
			return
		}
		d.pos = id.Pos()
		if len(stack) > 0 {
			d.lit = stack[len(stack)-1]
		}
		m[obj] = append(m[obj], d)
	}
	params := func(ft *ast.FuncType, recv *ast.FieldList, prefix string) {
		if recv != nil {
			for _, fl := range recv.List {
				for _, n := range fl.Names {
					add(n, defSite{kind: defParam, name: prefix + "recv"})
				}
			}
		}
		i := 0
		if ft.Params != nil {
			for _, fl := range ft.Params.List {
				if len(fl.Names) == 0 {
					i++
				}
				for _, n := range fl.Names {
					add(n, defSite{kind: defParam, name: fmt.Sprintf("%sp%d", prefix, i), idx: i})
					i++
				}
			}
		}
		if ft.Results != nil {
			j := 0
			for _, fl := range ft.Results.List {
				for _, n := range fl.Names {
					add(n, defSite{kind: defOpaque, zero: true, name: fmt.Sprintf("%sr%d", prefix, j)})
					j++
				}
			}
		}
	}
	if r.Decl != nil {
		params(r.Decl.Type, r.Decl.Recv, "")
	} else {
		params(r.Lit.Type, nil, "λ")
	}
	depth := map[*ast.FuncLit]int{}
	ast.Inspect(r.Body(), func(n ast.Node) bool {
		if n == nil {
			return true
		}
		for len(stack) > 0 && (n.Pos() >= stack[len(stack)-1].End()) {
			stack = stack[:len(stack)-1]
		}
		switch s := n.(type) {
		case *ast.FuncLit:
			stack = append(stack, s)
			depth[s] = len(stack)
			base := 0
			if r.Lit != nil {
				base = 1
			}
			params(s.Type, nil, strings.Repeat("λ", len(stack)+base))
		case *ast.AssignStmt:
			if s.Tok != token.ASSIGN && s.Tok != token.DEFINE {
				for _, l := range s.Lhs {
					if id, ok := Unparen(l).(*ast.Ident); ok {
						add(id, defSite{kind: defOpaque})
					}
				}
				break
			}
			for i, l := range s.Lhs {
				id, ok := Unparen(l).(*ast.Ident)
				if !ok {
					continue
				}
				if len(s.Lhs) == len(s.Rhs) {
					add(id, defSite{kind: defExpr, expr: s.Rhs[i]})
				} else if len(s.Rhs) == 1 {
					add(id, defSite{kind: defTuple, expr: s.Rhs[0], idx: i})
				}
			}
		case *ast.ValueSpec:
			for i, id := range s.Names {
				switch {
				case len(s.Values) == len(s.Names):
					add(id, defSite{kind: defExpr, expr: s.Values[i]})
				case len(s.Values) == 1:
					add(id, defSite{kind: defTuple, expr: s.Values[0], idx: i})
				default:
					add(id, defSite{kind: defOpaque, zero: true})
				}
			}
		case *ast.RangeStmt:
			if id, ok := s.Key.(*ast.Ident); ok {
				add(id, defSite{kind: defRangeK, expr: s.X})
			}
			if id, ok := s.Value.(*ast.Ident); ok {
				add(id, defSite{kind: defRangeV, expr: s.X})
			}
		case *ast.IncDecStmt:
			if id, ok := Unparen(s.X).(*ast.Ident); ok {
				add(id, defSite{kind: defOpaque})
			}
		case *ast.UnaryExpr:
			if s.Op == token.AND {
				if id, ok := Unparen(s.X).(*ast.Ident); ok {
					if _, isVar := info.Uses[id].(*types.Var); isVar {
						add(id, defSite{kind: defOpaque})
					}
				}
			}
		case *ast.TypeSwitchStmt:
			if as, ok := s.Assign.(*ast.AssignStmt); ok && len(as.Rhs) == 1 {
				if ta, ok := as.Rhs[0].(*ast.TypeAssertExpr); ok {
					for _, cl := range s.Body.List {
						if obj := info.Implicits[cl]; obj != nil {
							m[obj] = append(m[obj], defSite{kind: defTypeSw, expr: ta.X, pos: cl.Pos()})
						}
					}
				}
			}
		}
		return true
	})
	r.defs = m
	return m
}

// SingleDef returns the only definition of obj, if it has exactly one.
func (f *Fn) SingleDef(obj types.Object) (defSite, bool) {
	ds := f.Defs()[obj]
	if len(ds) == 1 {
		return ds[0], true
	}
	// a zero-value declaration plus exactly one real assignment: the variable holds that value whenever it
	// has been assigned (identity flow: "that value or still zero"). Path-sensitive rules see the zero value
	// through the path store, which takes precedence over this static expansion.
	var real []defSite
	for _, d := range ds {
		if !d.zero {
			real = append(real, d)
		}
	}
	if len(real) == 1 && len(ds) == 2 && (real[0].kind == defExpr || real[0].kind == defTuple) {
		return real[0], true
	}
	return defSite{}, false
}

// ClosureMutated reports whether obj is assigned in more than one function body (e.g. declared in the
// function and assigned inside a nested literal): path-local value tracking is unsound for such variables.
func (f *Fn) ClosureMutated(obj types.Object) bool {
	ds := f.Defs()[obj]
	for i := 1; i < len(ds); i++ {
		if ds[i].lit != ds[0].lit {
			return true
		}
	}
	return false
}

// AssignedOutside reports whether obj receives a real assignment (not its zero-value declaration) in a
// function body other than f's own: value tracking along f's paths cannot see those.
func (f *Fn) AssignedOutside(obj types.Object) bool {
	for _, d := range f.Defs()[obj] {
		if d.zero || d.kind == defParam {
			continue
		}
		if d.lit != f.Lit {
			return true
		}
	}
	return false
}

// DefInfo is the exported view of one definition site of a local.
type DefInfo struct {
	Canon string       // canonical form of the defined value ("zero", "pN", "expr", "expr#i", "each(x)", "?")
	Expr  ast.Expr     // right-hand side (nil for zero/param/opaque)
	Lit   *ast.FuncLit // innermost literal containing the definition (nil: root function)
	Pos   token.Pos
	Zero  bool
	Param bool
}

// DefSites lists the definition sites of obj in f's root function.
func (f *Fn) DefSites(obj types.Object) []DefInfo {
	var out []DefInfo
	for _, d := range f.Defs()[obj] {
		di := DefInfo{Expr: d.expr, Lit: d.lit, Pos: d.pos, Zero: d.zero}
		switch d.kind {
		case defParam:
			di.Canon, di.Param = d.name, true
		case defExpr, defTypeSw:
			di.Canon = f.Canon(d.expr)
		case defTuple:
			di.Canon = fmt.Sprintf("%s#%d", f.Canon(d.expr), d.idx)
		case defRangeK:
			di.Canon = "keyof(" + f.Canon(d.expr) + ")"
		case defRangeV:
			di.Canon = "each(" + f.Canon(d.expr) + ")"
		default:
			if d.zero {
				di.Canon = "zero"
			} else {
				di.Canon = "?"
			}
		}
		out = append(out, di)
	}
	return out
}

// SingleDefExpr returns the defining expression of a local with exactly one definition (for tuple
// definitions the multi-valued right-hand side).
func (f *Fn) SingleDefExpr(obj types.Object) (ast.Expr, bool) {
	d, ok := f.SingleDef(obj)
	if !ok || d.expr == nil {
		return nil, false
	}
	return d.expr, true
}

// DefCount returns how many definition sites obj has in the function.
func (f *Fn) DefCount(obj types.Object) int { return len(f.Defs()[obj]) }

// DefExprs returns the right-hand sides assigned to a local (only plain expression defs) and whether all defs are of that kind.
func (f *Fn) DefExprs(obj types.Object) (exprs []ast.Expr, allPlain bool) {
	allPlain = true
	for _, d := range f.Defs()[obj] {
		if d.kind == defExpr {
			exprs = append(exprs, d.expr)
		} else if !(d.kind == defOpaque && d.zero) {
			allPlain = false
		}
	}
	return
}

// Canon renders e with single-definition locals expanded to their defining expressions, parameters
// renamed positionally (recv, p0, p1, λp0 …), type assertions and conversions made transparent.
// Two expressions with the same Canon string denote the same value by identity flow (copies only),
// provided the fields read are not written in between (rules that need that check it separately).
func (f *Fn) Canon(e ast.Expr) string {
	return f.canon(e, 0, map[types.Object]bool{})
}

// CanonSt is Canon with a path store: locals present in the store are expanded to the expression
// the current path last assigned to them (this resolves multiply-assigned locals path-sensitively).
func (f *Fn) CanonSt(e ast.Expr, st map[types.Object]ast.Expr) string {
	if len(st) == 0 {
		return f.canon(e, 0, map[types.Object]bool{})
	}
	f.Root().store = st
	defer func() { f.Root().store = nil }()
	return f.canon(e, 0, map[types.Object]bool{})
}

func (f *Fn) canon(e ast.Expr, depth int, busy map[types.Object]bool) string {
	info := f.Info()
	if e == nil {
		return ""
	}
	if depth > 24 {
		return "…"
	}
	switch x := e.(type) {
	case *ast.ParenExpr:
		return f.canon(x.X, depth, busy)
	case *ast.BasicLit:
		return x.Value
	case *ast.Ident:
		obj := info.Uses[x]
		if obj == nil {
			obj = info.Defs[x]
		}
		switch o := obj.(type) {
		case nil:
			return x.Name
		case *types.Nil:
			return "nil"
		case *types.Const:
			if o.Pkg() != nil && o.Pkg() != f.Pkg.Types {
				return o.Pkg().Name() + "." + o.Name()
			}
			return o.Name()
		case *types.Var:
			if o.IsField() {
				return o.Name()
			}
			if o.Parent() != nil && o.Pkg() != nil && o.Parent() == o.Pkg().Scope() {
				if o.Pkg() != f.Pkg.Types {
					return o.Pkg().Name() + "." + o.Name()
				}
				return "pkg." + o.Name()
			}
			if busy[o] {
				return x.Name
			}
			if st := f.Root().store; st != nil {
				if se, ok := st[o]; ok {
					if se == nil {
						return x.Name
					}
					busy[o] = true
					defer delete(busy, o)
					return f.canon(se, depth+1, busy)
				}
			}
			d, ok := f.SingleDef(o)
			if !ok {
				return x.Name
			}
			if st := f.Root().store; st != nil && d.expr != nil && d.kind != defParam && f.definedBeforeRegion(d.expr) && f.mentionsStored(d.expr, st, 0) {
				// the local was defined before the path started from an expression whose variables were
				// assigned again on this path: its value is the one at definition time, not the expansion's
				return x.Name
			}
			busy[o] = true
			defer delete(busy, o)
			switch d.kind {
			case defParam:
				return d.name
			case defExpr:
				return f.canon(d.expr, depth+1, busy)
			case defTypeSw:
				return f.canon(d.expr, depth+1, busy)
			case defRangeK:
				return "keyof(" + f.canon(d.expr, depth+1, busy) + ")"
			case defRangeV:
				return "each(" + f.canon(d.expr, depth+1, busy) + ")"
			case defTuple:
				inner := Unparen(d.expr)
				switch r := inner.(type) {
				case *ast.IndexExpr, *ast.TypeAssertExpr:
					if d.idx == 0 {
						return f.canon(inner, depth+1, busy)
					}
					return "ok(" + f.canonNoAssert(inner, depth+1, busy) + ")"
				case *ast.UnaryExpr:
					if r.Op == token.ARROW {
						if d.idx == 0 {
							return f.canon(inner, depth+1, busy)
						}
						return "ok(" + f.canon(inner, depth+1, busy) + ")"
					}
				}
				return fmt.Sprintf("%s#%d", f.canon(inner, depth+1, busy), d.idx)
			default:
				return x.Name
			}
		case *types.Func:
			if o.Pkg() != nil && o.Pkg() != f.Pkg.Types {
				return o.Pkg().Name() + "." + o.Name()
			}
			return pinnedBareName(o)
		case *types.PkgName:
			return o.Imported().Name()
		case *types.TypeName:
			return o.Name()
		case *types.Builtin:
			return o.Name()
		}
		return x.Name
	case *ast.SelectorExpr:
		if id, ok := x.X.(*ast.Ident); ok {
			if pn, ok := info.Uses[id].(*types.PkgName); ok {
				return pn.Imported().Name() + "." + x.Sel.Name
			}
		}
		if fo, ok := info.Uses[x.Sel].(*types.Func); ok {
			return f.canon(x.X, depth, busy) + "." + pinnedBareName(fo) // a renamed helper prints under its pinned name
		}
		return f.canon(x.X, depth, busy) + "." + x.Sel.Name
	case *ast.StarExpr:
		return "*" + f.canon(x.X, depth, busy)
	case *ast.UnaryExpr:
		return x.Op.String() + f.canon(x.X, depth, busy)
	case *ast.BinaryExpr:
		return "(" + f.canon(x.X, depth, busy) + " " + x.Op.String() + " " + f.canon(x.Y, depth, busy) + ")"
	case *ast.TypeAssertExpr:
		return f.canon(x.X, depth, busy)
	case *ast.IndexExpr:
		if tv, ok := info.Types[x.X]; ok && tv.IsType() {
			return types.ExprString(x)
		}
		if _, isFunc := info.Uses[identOf(x.X)].(*types.Func); isFunc { // generic instantiation
			return f.canon(x.X, depth, busy)
		}
		return f.canon(x.X, depth, busy) + "[" + f.canon(x.Index, depth, busy) + "]"
	case *ast.SliceExpr:
		return f.canon(x.X, depth, busy) + "[" + f.canon(x.Low, depth, busy) + ":" + f.canon(x.High, depth, busy) + "]"
	case *ast.CallExpr:
		if id, ok := x.Fun.(*ast.Ident); ok && id.Name == "ok" && info.Uses[id] == nil && len(x.Args) == 1 {
			return "ok(" + f.canonNoAssert(Unparen(x.Args[0]), depth, busy) + ")"
		}
		if id, ok := x.Fun.(*ast.Ident); ok && strings.HasPrefix(id.Name, "tuple#") && info.Uses[id] == nil && len(x.Args) == 1 {
			return f.canon(x.Args[0], depth, busy) + strings.TrimPrefix(id.Name, "tuple")
		}
		if tv, ok := info.Types[x.Fun]; ok && tv.IsType() && len(x.Args) == 1 {
			return f.canon(x.Args[0], depth, busy) // conversion: transparent
		}
		args := make([]string, len(x.Args))
		for i, a := range x.Args {
			args[i] = f.canon(a, depth, busy)
		}
		return f.canon(x.Fun, depth, busy) + "(" + strings.Join(args, ", ") + ")"
	case *ast.CompositeLit:
		parts := make([]string, len(x.Elts))
		for i, el := range x.Elts {
			parts[i] = f.canon(el, depth, busy)
		}
		t := ""
		if x.Type != nil {
			t = types.ExprString(x.Type)
		}
		return t + "{" + strings.Join(parts, ", ") + "}"
	case *ast.KeyValueExpr:
		k := ""
		if id, ok := x.Key.(*ast.Ident); ok {
			k = id.Name
			if c, isConst := info.Uses[id].(*types.Const); isConst {
				k = c.Name()
			}
		} else {
			k = f.canon(x.Key, depth, busy)
		}
		return k + ": " + f.canon(x.Value, depth, busy)
	case *ast.FuncLit:
		return fmt.Sprintf("func@%d", f.Pkg.Fset.Position(x.Pos()).Line)
	}
	return types.ExprString(e)
}

func (f *Fn) canonNoAssert(e ast.Expr, depth int, busy map[types.Object]bool) string {
	if ta, ok := e.(*ast.TypeAssertExpr); ok {
		t := "type"
		if ta.Type != nil {
			t = types.ExprString(ta.Type)
		}
		return f.canon(ta.X, depth, busy) + ".(" + t + ")"
	}
	return f.canon(e, depth, busy)
}

func identOf(e ast.Expr) *ast.Ident {
	switch x := Unparen(e).(type) {
	case *ast.Ident:
		return x
	case *ast.SelectorExpr:
		return x.Sel
	}
	return nil
}

// ObjOf returns the object an identifier expression denotes (nil for non-identifiers).
func (f *Fn) ObjOf(e ast.Expr) types.Object {
	id, ok := Unparen(e).(*ast.Ident)
	if !ok {
		return nil
	}
	if o := f.Info().Uses[id]; o != nil {
		return o
	}
	return f.Info().Defs[id]
}

// ConstName returns the name of the constant e denotes, or "".
func (f *Fn) ConstName(e ast.Expr) string {
	switch x := Unparen(e).(type) {
	case *ast.Ident:
		if c, ok := f.Info().Uses[x].(*types.Const); ok {
			return c.Name()
		}
	case *ast.SelectorExpr:
		if c, ok := f.Info().Uses[x.Sel].(*types.Const); ok {
			return c.Name()
		}
	}
	return ""
}

// ConstNames returns the set of constants e may denote: the constant itself, or, for a local whose
// definitions are all plain assignments, the union over its right-hand sides. ok is false when some
// possible value is not a named constant.
func (f *Fn) ConstNames(e ast.Expr) (names []string, ok bool) {
	return f.constNames(e, 0)
}

func (f *Fn) constNames(e ast.Expr, depth int) ([]string, bool) {
	if n := f.ConstName(e); n != "" {
		return []string{n}, true
	}
	id, isID := Unparen(e).(*ast.Ident)
	if !isID || depth > 4 {
		return nil, false
	}
	v, isVar := f.ObjOf(id).(*types.Var)
	if !isVar || f.AssignedOutside(v) {
		return nil, false
	}
	exprs, plain := f.DefExprs(v)
	if !plain || len(exprs) == 0 {
		return nil, false
	}
	var out []string
	for _, x := range exprs {
		ns, ok := f.constNames(x, depth+1)
		if !ok {
			return nil, false
		}
		for _, n := range ns {
			dup := false
			for _, o := range out {
				dup = dup || o == n
			}
			if !dup {
				out = append(out, n)
			}
		}
	}
	sort.Strings(out)
	return out, true
}

// definedBeforeRegion: a path enumeration is in progress and the defining expression is not reachable
// from its start, i.e. the local got its value before the enumerated region was entered.
func (f *Fn) definedBeforeRegion(def ast.Expr) bool {
	r := f.Root()
	if r.execFrom == nil || r.execGraph == nil || r.execGraph.Fn != f {
		return false
	}
	if r.regionCache == nil {
		r.regionCache = map[*cfg.Block]bool{}
		var walk func(b *cfg.Block)
		walk = func(b *cfg.Block) {
			for _, s := range b.Succs {
				if !r.regionCache[s] {
					r.regionCache[s] = true
					walk(s)
				}
			}
		}
		walk(r.execFrom.B)
	}
	loc := r.execGraph.Locate(def)
	if !loc.Valid() {
		return false
	}
	if loc.B == r.execFrom.B && loc.I >= r.execFrom.I {
		return false
	}
	return !r.regionCache[loc.B]
}

// mentionsStored: e reads (directly or through single-definition locals) a variable that the current
// path store holds, i.e. one that was assigned on the path being enumerated.
func (f *Fn) mentionsStored(e ast.Expr, st map[types.Object]ast.Expr, depth int) bool {
	found := false
	ast.Inspect(e, func(n ast.Node) bool {
		if found {
			return false
		}
		if _, isLit := n.(*ast.FuncLit); isLit {
			return false
		}
		id, ok := n.(*ast.Ident)
		if !ok {
			return true
		}
		v, ok := f.Info().Uses[id].(*types.Var)
		if !ok || v.IsField() {
			return true
		}
		if _, in := st[v]; in {
			found = true
			return false
		}
		if depth < 4 {
			if d, ok := f.SingleDef(v); ok && d.expr != nil && d.kind != defParam {
				if f.mentionsStored(d.expr, st, depth+1) {
					found = true
				}
			}
		}
		return true
	})
	return found
}

// Roles rewrites canonical strings: every occurrence of a key of roles is replaced by its value
// (longest keys first).
type Roles []struct{ From, To string }

func (r Roles) Apply(s string) string {
	for _, kv := range r {
		s = strings.ReplaceAll(s, kv.From, kv.To)
	}
	return s
}
