package an

import (
	"fmt"
	"go/ast"
	"sort"
	"strings"
)

// Table describes one exhaustive guard evaluation: for every assignment of Atoms, abstractly execute
// from From and compare, per target, "target executes" with Want (U = don't care).
type Table struct {
	G       *Graph
	From    Loc
	Opts    ExecOpts
	Atoms   []Atom
	Binder  *Binder
	Targets []Loc
	Names   []string // display names of targets
	Want    func(row Row, target int) Tri
	// FreeUnknown: unrecognised conditions become free boolean atoms in a second pass (the
	// decision must then not depend on them where Want is T/F).
	FreeUnknown bool
	// MayOnly: compare with "may execute" instead of three-valued must/may (Want F => must not be reachable;
	// Want T => must be reachable on some path).
	MayOnly bool
}

type TableResult struct {
	Rows    int
	Bad     []string
	Undec   []string
	Unknown []string
	Paths   int
}

func (r TableResult) OK() bool { return len(r.Bad) == 0 && len(r.Undec) == 0 }

func (r TableResult) Summary() string {
	s := fmt.Sprintf("%d rows, %d paths", r.Rows, r.Paths)
	if len(r.Bad) > 0 {
		s += "; mismatches: " + strings.Join(headN(r.Bad, 5), "; ")
		if len(r.Unknown) > 0 {
			s += fmt.Sprintf(" (unrecognised conditions: %v)", headN(r.Unknown, 6))
		}
	}
	if len(r.Undec) > 0 {
		s += fmt.Sprintf("; undecidable rows: %s (unrecognised conditions: %v)", strings.Join(headN(r.Undec, 3), "; "), r.Unknown)
	}
	return s
}

func headN(s []string, n int) []string {
	if len(s) > n {
		return append(append([]string{}, s[:n]...), fmt.Sprintf("… (%d more)", len(s)-n))
	}
	return s
}

func RowString(r Row) string {
	ks := make([]string, 0, len(r))
	for k := range r {
		ks = append(ks, k)
	}
	sort.Strings(ks)
	parts := make([]string, len(ks))
	for i, k := range ks {
		parts[i] = k + "=" + r[k]
	}
	return strings.Join(parts, ",")
}

func (t *Table) Run() TableResult {
	res := t.run(t.Atoms)
	if t.FreeUnknown && len(res.Unknown) > 0 && len(res.Unknown) <= 4 {
		atoms := append([]Atom{}, t.Atoms...)
		if t.Binder.Bool == nil {
			t.Binder.Bool = map[string]string{}
		}
		for _, u := range res.Unknown {
			atoms = append(atoms, Atom{Name: "extra:" + u, Values: []string{"T", "F"}})
			t.Binder.Bool[u] = "extra:" + u
		}
		res = t.run(atoms)
		for _, u := range res.Unknown {
			delete(t.Binder.Bool, u)
		}
	}
	return res
}

func (t *Table) run(atoms []Atom) TableResult {
	var res TableResult
	t.Binder.Unknown = map[string]bool{}
	rows := Rows(atoms)
	res.Rows = len(rows)
	for _, row := range rows {
		t.Binder.Row = row
		ex := t.G.Exec(t.From, t.Targets, t.Binder.Leaf, t.Opts)
		res.Paths += ex.Paths
		if ex.Overflow {
			res.Undec = append(res.Undec, "path overflow")
			break
		}
		for i := range t.Targets {
			want := t.Want(row, i)
			if want == U {
				continue
			}
			name := fmt.Sprintf("#%d", i)
			if i < len(t.Names) {
				name = t.Names[i]
			}
			if t.MayOnly {
				if ex.May[i] != (want == T) {
					res.Bad = append(res.Bad, fmt.Sprintf("{%s} %s reachable=%v expected=%v", RowString(row), name, ex.May[i], want))
				}
				continue
			}
			got := ex.Tri(i)
			switch {
			case got == U:
				res.Undec = append(res.Undec, fmt.Sprintf("{%s} %s", RowString(row), name))
			case got != want:
				res.Bad = append(res.Bad, fmt.Sprintf("{%s} %s executes=%v expected=%v", RowString(row), name, got, want))
			}
		}
	}
	for u := range t.Binder.Unknown {
		res.Unknown = append(res.Unknown, u)
	}
	sort.Strings(res.Unknown)
	return res
}

// LocAfter returns the location just after the statement/expression node n.
func (g *Graph) LocAfter(n ast.Node) Loc {
	l := g.Locate(n)
	if !l.Valid() {
		return l
	}
	return Loc{l.B, l.I + 1}
}
