// Package an: analysis toolkit over the type-checked syntax of /repo: function discovery,
// callee resolution, definition-expanding canonical expressions, CFG queries (go/cfg),
// finite-domain guard evaluation, lockset, call-graph cones.
package an

import (
	"fmt"
	"go/ast"
	"go/token"
	"go/types"
	"sort"
	"strings"

	"golang.org/x/tools/go/cfg"
	"golang.org/x/tools/go/packages"
	"golang.org/x/tools/go/types/typeutil"
)

// Fn is a source function: a declaration or a function literal.
type Fn struct {
	Pkg    *packages.Package
	Obj    *types.Func // nil for literals
	Decl   *ast.FuncDecl
	Lit    *ast.FuncLit
	Name   string // "(*Ring).shuffleShard", "DoBatchWithOptions", "(*Lifecycler).initRing$1"
	Parent *Fn    // enclosing function for literals

	defs     map[types.Object][]defSite // lazily built: definitions of locals (shared with parent chain root)
	graph    *Graph
	lits     []*Fn
	litsDone bool
	store    map[types.Object]ast.Expr // transient: path store used by CanonSt
	// transient: start of the path enumeration in progress (Graph.Exec) and the blocks reachable from it
	execFrom    *Loc
	execGraph   *Graph
	regionCache map[*cfg.Block]bool
}

func (f *Fn) Body() *ast.BlockStmt {
	if f.Decl != nil {
		return f.Decl.Body
	}
	return f.Lit.Body
}
func (f *Fn) FuncType() *ast.FuncType {
	if f.Decl != nil {
		return f.Decl.Type
	}
	return f.Lit.Type
}
func (f *Fn) Pos() token.Pos {
	if f.Decl != nil {
		return f.Decl.Pos()
	}
	return f.Lit.Pos()
}
func (f *Fn) Info() *types.Info { return f.Pkg.TypesInfo }
func (f *Fn) Root() *Fn {
	r := f
	for r.Parent != nil {
		r = r.Parent
	}
	return r
}
func (f *Fn) String() string {
	return strings.TrimPrefix(f.Pkg.PkgPath, "github.com/grafana/dskit/") + "." + f.Name
}

// declName renders "(*T).M", "(T).M" or "F".
func declName(d *ast.FuncDecl) string {
	if d.Recv == nil || len(d.Recv.List) == 0 {
		return d.Name.Name
	}
	t := d.Recv.List[0].Type
	ptr := ""
	if s, ok := t.(*ast.StarExpr); ok {
		ptr = "*"
		t = s.X
	}
	// strip type params
	switch x := t.(type) {
	case *ast.IndexExpr:
		t = x.X
	case *ast.IndexListExpr:
		t = x.X
	}
	name := "?"
	if id, ok := t.(*ast.Ident); ok {
		name = id.Name
	}
	return fmt.Sprintf("(%s%s).%s", ptr, name, d.Name.Name)
}

// Funcs returns every declared function of the package with a body.
var funcsCache = map[*packages.Package][]*Fn{}

func Funcs(pkg *packages.Package) []*Fn {
	if fs, ok := funcsCache[pkg]; ok {
		return fs
	}
	out := funcsUncached(pkg)
	applyRenames(pkg, out)
	funcsCache[pkg] = out
	return out
}

func funcsUncached(pkg *packages.Package) []*Fn {
	var out []*Fn
	for _, f := range pkg.Syntax {
		for _, d := range f.Decls {
			if gd, isGen := d.(*ast.GenDecl); isGen && gd.Tok == token.VAR {
				// function literals in package-level variable initialisers (e.g. middleware values)
				for _, sp := range gd.Specs {
					vs, ok := sp.(*ast.ValueSpec)
					if !ok || len(vs.Names) == 0 {
						continue
					}
					k := 0
					for _, v := range vs.Values {
						ast.Inspect(v, func(n ast.Node) bool {
							if lit, ok := n.(*ast.FuncLit); ok {
								k++
								out = append(out, &Fn{Pkg: pkg, Lit: lit, Name: fmt.Sprintf("var %s$%d", vs.Names[0].Name, k)})
								return false
							}
							return true
						})
					}
				}
				continue
			}
			fd, ok := d.(*ast.FuncDecl)
			if !ok || fd.Body == nil {
				continue
			}
			obj, _ := pkg.TypesInfo.Defs[fd.Name].(*types.Func)
			out = append(out, &Fn{Pkg: pkg, Obj: obj, Decl: fd, Name: declName(fd)})
		}
	}
	return out
}

// FindFunc finds a declared function by display name; accepts "(*T).M", "T.M" (either receiver kind) or "F".
func FindFunc(pkg *packages.Package, name string) *Fn {
	if pkg == nil {
		return nil
	}
	for _, fn := range Funcs(pkg) {
		if fn.Name == name {
			return fn
		}
		if i := strings.Index(name, "."); i > 0 && !strings.HasPrefix(name, "(") {
			t, m := name[:i], name[i+1:]
			if fn.Name == "(*"+t+")."+m || fn.Name == "("+t+")."+m {
				return fn
			}
		}
	}
	return nil
}

// FnOf returns the Fn for a *types.Func declared in one of the loaded packages.
func FnOf(pkgs map[string]*packages.Package, obj *types.Func) *Fn {
	if obj == nil || obj.Pkg() == nil {
		return nil
	}
	obj = obj.Origin()
	pk := pkgs[obj.Pkg().Path()]
	if pk == nil || len(pk.Syntax) == 0 {
		return nil
	}
	for _, fn := range Funcs(pk) {
		if fn.Decl != nil && fn.Decl.Name.Pos() == obj.Pos() {
			return fn
		}
	}
	return nil
}

// Lits returns the function literals directly nested in f (not literals inside literals), in source order.
func (f *Fn) Lits() []*Fn {
	if f.litsDone {
		return f.lits
	}
	f.lits = f.litsUncached()
	f.litsDone = true
	return f.lits
}

func (f *Fn) litsUncached() []*Fn {
	var out []*Fn
	n := 0
	var visit func(node ast.Node) bool
	visit = func(node ast.Node) bool {
		if lit, ok := node.(*ast.FuncLit); ok {
			n++
			out = append(out, &Fn{Pkg: f.Pkg, Lit: lit, Name: fmt.Sprintf("%s$%d", f.Name, n), Parent: f})
			return false
		}
		return true
	}
	ast.Inspect(f.Body(), visit)
	return out
}

// AllLits returns literals nested at any depth.
func (f *Fn) AllLits() []*Fn {
	var out []*Fn
	for _, l := range f.Lits() {
		out = append(out, l)
		out = append(out, l.AllLits()...)
	}
	return out
}

// LitFn returns the Fn wrapper for a literal nested anywhere inside f.
func (f *Fn) LitFn(lit *ast.FuncLit) *Fn {
	for _, l := range f.AllLits() {
		if l.Lit == lit {
			return l
		}
	}
	return nil
}

// InspectShallow walks the body of f without descending into nested function literals.
func (f *Fn) InspectShallow(visit func(n ast.Node) bool) {
	ast.Inspect(f.Body(), func(n ast.Node) bool {
		if _, ok := n.(*ast.FuncLit); ok {
			return false
		}
		if n == nil {
			return true
		}
		return visit(n)
	})
}

// InspectDeep walks the body including nested literals.
func (f *Fn) InspectDeep(visit func(n ast.Node) bool) {
	ast.Inspect(f.Body(), func(n ast.Node) bool {
		if n == nil {
			return true
		}
		return visit(n)
	})
}

// Call is a resolved call site.
type Call struct {
	Expr   *ast.CallExpr
	Callee types.Object // *types.Func, *types.Builtin, *types.Var (func value) or nil
	In     *Fn
}

func (c Call) Func() *types.Func { f, _ := c.Callee.(*types.Func); return f }

// Is reports whether the callee is the function/method with the given package path suffix and name,
// e.g. Is("time", "Now"), Is("ring", "(*Desc).AddIngester") or method-name-only Is("", "Unix").
func (c Call) Is(pkgSuffix, name string) bool { return ObjIs(c.Callee, pkgSuffix, name) }

func ObjIs(o types.Object, pkgSuffix, name string) bool {
	if o == nil {
		return false
	}
	if _, ok := o.(*types.Builtin); ok {
		return pkgSuffix == "" && o.Name() == name
	}
	if pkgSuffix != "" {
		if o.Pkg() == nil {
			return false
		}
		p := o.Pkg().Path()
		if p != pkgSuffix && !strings.HasSuffix(p, "/"+pkgSuffix) && o.Pkg().Name() != pkgSuffix {
			return false
		}
	}
	if fn, ok := o.(*types.Func); ok {
		return FuncDisplay(fn) == name || fn.Name() == name
	}
	return o.Name() == name
}

// FuncDisplay renders "(*T).M", "(T).M", "(I).M" for interface methods, or "F".
func FuncDisplay(fn *types.Func) string {
	if old, ok := renamedObj[fn]; ok {
		return old
	}
	sig, _ := fn.Type().(*types.Signature)
	if sig == nil || sig.Recv() == nil {
		return fn.Name()
	}
	t := sig.Recv().Type()
	ptr := ""
	if p, ok := t.(*types.Pointer); ok {
		t = p.Elem()
		ptr = "*"
	}
	name := "?"
	switch n := t.(type) {
	case *types.Named:
		name = n.Obj().Name()
	case *types.Alias:
		name = n.Obj().Name()
	}
	return fmt.Sprintf("(%s%s).%s", ptr, name, fn.Name())
}

// Callee resolves the called object of a call expression.
func Callee(info *types.Info, call *ast.CallExpr) types.Object {
	if o := typeutil.Callee(info, call); o != nil {
		if f, ok := o.(*types.Func); ok {
			return f.Origin()
		}
		return o
	}
	return nil
}

// Calls lists call sites in f; deep=true includes nested literals (attributed to the literal Fn).
func (f *Fn) Calls(deep bool) []Call {
	var out []Call
	var walk func(fn *Fn)
	walk = func(fn *Fn) {
		fn.InspectShallow(func(n ast.Node) bool {
			if c, ok := n.(*ast.CallExpr); ok {
				out = append(out, Call{Expr: c, Callee: Callee(fn.Info(), c), In: fn})
			}
			return true
		})
		if deep {
			for _, l := range fn.Lits() {
				walk(l)
			}
		}
	}
	walk(f)
	sort.SliceStable(out, func(i, j int) bool { return out[i].Expr.Pos() < out[j].Expr.Pos() })
	return out
}

// CallsTo filters Calls by callee.
func (f *Fn) CallsTo(deep bool, pkgSuffix, name string) []Call {
	var out []Call
	for _, c := range f.Calls(deep) {
		if c.Is(pkgSuffix, name) {
			out = append(out, c)
		}
	}
	return out
}

// Unparen strips parentheses.
func Unparen(e ast.Expr) ast.Expr {
	for {
		p, ok := e.(*ast.ParenExpr)
		if !ok {
			return e
		}
		e = p.X
	}
}

// EnclosingStmt returns the innermost statement of f's body (not descending into literals unless the node is inside one) containing n.
func EnclosingStmt(root ast.Node, n ast.Node) ast.Stmt {
	var best ast.Stmt
	ast.Inspect(root, func(x ast.Node) bool {
		if x == nil {
			return true
		}
		if x.Pos() > n.Pos() || x.End() < n.End() {
			return false
		}
		if s, ok := x.(ast.Stmt); ok {
			if _, isBlock := s.(*ast.BlockStmt); !isBlock {
				best = s
			}
		}
		return true
	})
	return best
}

// Implements reports whether named type t (or *t) implements the interface iface.
func Implements(t types.Type, iface *types.Interface) bool {
	if iface == nil {
		return false
	}
	if types.Implements(t, iface) {
		return true
	}
	if _, ok := t.(*types.Pointer); !ok {
		return types.Implements(types.NewPointer(t), iface)
	}
	return false
}

// LookupType finds a named type in a package scope.
func LookupType(pkg *packages.Package, name string) *types.Named {
	if pkg == nil {
		return nil
	}
	o := pkg.Types.Scope().Lookup(name)
	if o == nil {
		return nil
	}
	n, _ := o.Type().(*types.Named)
	return n
}

// LookupIface returns the underlying interface of a named interface type.
func LookupIface(pkg *packages.Package, name string) *types.Interface {
	n := LookupType(pkg, name)
	if n == nil {
		return nil
	}
	i, _ := n.Underlying().(*types.Interface)
	return i
}

// NamedTypes lists all named (non-alias) types declared at package level.
func NamedTypes(pkg *packages.Package) []*types.Named {
	var out []*types.Named
	sc := pkg.Types.Scope()
	for _, n := range sc.Names() {
		if tn, ok := sc.Lookup(n).(*types.TypeName); ok && !tn.IsAlias() {
			if nt, ok := tn.Type().(*types.Named); ok {
				out = append(out, nt)
			}
		}
	}
	return out
}

// Method finds the Fn declaring method m on named type t (pointer or value receiver).
func Method(pkgs map[string]*packages.Package, t *types.Named, m string) *Fn {
	for i := 0; i < t.NumMethods(); i++ {
		if t.Method(i).Name() == m {
			return FnOf(pkgs, t.Method(i))
		}
	}
	return nil
}

// EnclosingCase returns the innermost case clause containing n.
func EnclosingCase(root ast.Node, n ast.Node) *ast.CaseClause {
	var best *ast.CaseClause
	ast.Inspect(root, func(x ast.Node) bool {
		if x == nil {
			return true
		}
		if x.Pos() > n.Pos() || x.End() < n.End() {
			return false
		}
		if cc, ok := x.(*ast.CaseClause); ok {
			best = cc
		}
		return true
	})
	return best
}

// LitFnAt returns the innermost function (f itself or one of its nested literals) containing node n.
func (f *Fn) LitFnAt(n ast.Node) *Fn {
	best := f
	for _, l := range f.AllLits() {
		if l.Lit.Pos() <= n.Pos() && n.End() <= l.Lit.End() {
			if best == f || (best.Lit != nil && l.Lit.Pos() >= best.Lit.Pos() && l.Lit.End() <= best.Lit.End()) {
				best = l
			}
		}
	}
	return best
}

// LitFnOf is LitFn on the root of f.
func (f *Fn) LitFnOf(lit *ast.FuncLit) *Fn { return f.Root().LitFn(lit) }
