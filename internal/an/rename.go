package an

// Rename-tolerant anchors. Rules name functions of the pinned tree ("(*moduleService).waitForModulesToStop").
// A clean-up that only renames an unexported function would make such an anchor disappear. Pinned
// (set by package props from the frozen list internal/props/known_funcs.txt) maps
// "<package dir>:<Recv.>Name" to the function's type-only signature on the pinned tree. When a pinned
// function is missing from a package and exactly one function of that package is new (not pinned), has
// the same receiver type and the same signature, and no other missing function competes for it, the
// new function is treated as the renamed one: its Fn.Name and FuncDisplay are those of the pinned
// name, so every rule keeps working on the renamed code. The alias is listed in Renamed (and in the
// evidence notes). A wrong guess cannot hide a violation of the real function: it only selects which
// body the anchored rules inspect, and they fail on a body that is not the one they describe.

import (
	"bytes"
	"fmt"
	"go/ast"
	"go/printer"
	"go/token"
	"go/types"
	"hash/fnv"
	"strings"

	"golang.org/x/tools/go/packages"
)

// Pinned: "<dir>:<Recv.>Name" -> signature text on the pinned tree.
var Pinned map[string]string

// ModPath is the module path prefix stripped to obtain the package dir.
var ModPath = "github.com/grafana/dskit"

// Renamed lists "old display name <- new display name" for every alias in use.
var Renamed []string

var renamedObj = map[*types.Func]string{} // new function -> pinned display name

// pinnedDisplay: display name to use for a function recognised across a receiver change.
var pinnedDisplay = map[*Fn]string{}

// pinnedDisplayName renders the pinned name of a method whose receiver kind is not known any more: rules
// look functions up as "T.m", "(*T).m" or "(T).m"; the pointer form is the common one.
func pinnedDisplayName(recv, name string, _ *Fn) string {
	if recv == "" {
		return name
	}
	return "(*" + recv + ")." + name
}

// PinnedName is the exported form of pinnedBareName for objects of any kind.
func PinnedName(o types.Object) string {
	if f, ok := o.(*types.Func); ok {
		return pinnedBareName(f)
	}
	if o == nil {
		return ""
	}
	return o.Name()
}

// pinnedBareName: the function's name as rules know it (the pinned one when it was renamed).
func pinnedBareName(f *types.Func) string {
	if old, ok := renamedObj[f]; ok {
		if i := strings.LastIndex(old, "."); i >= 0 {
			return old[i+1:]
		}
		return old
	}
	return f.Name()
}

// ShapeHash renders the structure of a function body without any identifier: node kinds, operators
// and basic literals. Two functions that differ only by renamings have the same shape; it separates
// several renamed functions of one receiver that share a signature.
func ShapeHash(body *ast.BlockStmt) string {
	if body == nil {
		return ""
	}
	var b strings.Builder
	ast.Inspect(body, func(n ast.Node) bool {
		switch x := n.(type) {
		case nil:
			b.WriteString(")")
			return true
		case *ast.Ident:
			b.WriteString("i")
		case *ast.BasicLit:
			b.WriteString(x.Value)
		case *ast.BinaryExpr:
			b.WriteString(x.Op.String())
		case *ast.UnaryExpr:
			b.WriteString(x.Op.String())
		case *ast.AssignStmt:
			b.WriteString(x.Tok.String())
		case *ast.IncDecStmt:
			b.WriteString(x.Tok.String())
		case *ast.BranchStmt:
			b.WriteString(x.Tok.String())
		case *ast.CommentGroup, *ast.Comment:
			return false
		default:
			t := strings.TrimPrefix(fmt.Sprintf("%T", n), "*ast.")
			b.WriteString(t)
		}
		b.WriteString("(")
		return true
	})
	h := fnv.New64a()
	h.Write([]byte(b.String()))
	return fmt.Sprintf("%x", h.Sum64())
}

// SigText renders the parameter and result types of a function type (names dropped).
func SigText(ft *ast.FuncType) string {
	var b bytes.Buffer
	list := func(fl *ast.FieldList) {
		b.WriteString("(")
		if fl != nil {
			first := true
			for _, f := range fl.List {
				n := len(f.Names)
				if n == 0 {
					n = 1
				}
				for i := 0; i < n; i++ {
					if !first {
						b.WriteString(",")
					}
					first = false
					printer.Fprint(&b, token.NewFileSet(), f.Type)
				}
			}
		}
		b.WriteString(")")
	}
	list(ft.Params)
	b.WriteString("->")
	list(ft.Results)
	return strings.Join(strings.Fields(b.String()), " ")
}

// RecvName returns the receiver's type name of a declaration ("" for functions).
func RecvName(d *ast.FuncDecl) string {
	if d.Recv == nil || len(d.Recv.List) != 1 {
		return ""
	}
	t := d.Recv.List[0].Type
	if s, ok := t.(*ast.StarExpr); ok {
		t = s.X
	}
	switch x := t.(type) {
	case *ast.IndexExpr:
		t = x.X
	case *ast.IndexListExpr:
		t = x.X
	}
	if id, ok := t.(*ast.Ident); ok {
		return id.Name
	}
	return ""
}

func pinnedKey(dir string, d *ast.FuncDecl) string {
	name := d.Name.Name
	if r := RecvName(d); r != "" {
		name = r + "." + name
	}
	return dir + ":" + name
}

func pkgDir(pkg *packages.Package) string {
	d := strings.TrimPrefix(strings.TrimPrefix(pkg.PkgPath, ModPath), "/")
	if d == "" {
		d = "."
	}
	return d
}

// applyRenames rewrites fn.Name of functions recognised as renamed pinned functions.
func applyRenames(pkg *packages.Package, fns []*Fn) {
	if Pinned == nil {
		return
	}
	dir := pkgDir(pkg)
	present := map[string]bool{}
	var fresh []*Fn
	for _, f := range fns {
		if f.Decl == nil {
			continue
		}
		k := pinnedKey(dir, f.Decl)
		present[k] = true
		if _, ok := Pinned[k]; !ok {
			fresh = append(fresh, f)
		}
	}
	if len(fresh) == 0 {
		return
	}
	// pinned functions of this package that are gone
	type miss struct{ key, recv, name, sig, shape string }
	var missing []miss
	for k, sig := range Pinned {
		if !strings.HasPrefix(k, dir+":") || present[k] {
			continue
		}
		rest := strings.TrimPrefix(k, dir+":")
		recv, name := "", rest
		if i := strings.Index(rest, "."); i >= 0 {
			recv, name = rest[:i], rest[i+1:]
		}
		shape := ""
		if i := strings.LastIndex(sig, "#"); i >= 0 {
			sig, shape = sig[:i], sig[i+1:]
		}
		missing = append(missing, miss{k, recv, name, sig, shape})
	}
	for _, m := range missing {
		var cands []*Fn
		for _, f := range fresh {
			if RecvName(f.Decl) == m.recv && SigText(f.Decl.Type) == m.sig && ast.IsExported(f.Decl.Name.Name) == ast.IsExported(m.name) {
				cands = append(cands, f)
			}
		}
		rivals := 0
		for _, m2 := range missing {
			if m2.recv == m.recv && m2.sig == m.sig {
				rivals++
			}
		}
		if len(cands) != 1 || rivals != 1 {
			// several renamed functions share receiver and signature: tell them apart by the shape of their bodies
			var byShape []*Fn
			for _, f := range cands {
				if m.shape != "" && ShapeHash(f.Decl.Body) == m.shape {
					byShape = append(byShape, f)
				}
			}
			shapeRivals := 0
			for _, m2 := range missing {
				if m2.recv == m.recv && m2.sig == m.sig && m2.shape == m.shape {
					shapeRivals++
				}
			}
			if len(byShape) != 1 || shapeRivals != 1 {
				// last resort: a method that did not use its receiver turned into a plain function (or the
				// reverse): same signature and exactly the same body shape, whatever the receiver
				var anyRecv []*Fn
				for _, f := range fresh {
					if m.shape != "" && SigText(f.Decl.Type) == m.sig && ShapeHash(f.Decl.Body) == m.shape && RecvName(f.Decl) != m.recv {
						anyRecv = append(anyRecv, f)
					}
				}
				if len(anyRecv) != 1 || shapeRivals > 1 {
					continue
				}
				cands = anyRecv
				pinnedDisplay[anyRecv[0]] = pinnedDisplayName(m.recv, m.name, anyRecv[0])
			} else {
				cands = byShape
			}
		}
		f := cands[0]
		newName := f.Name
		d2 := *f.Decl
		id := *f.Decl.Name
		id.Name = m.name
		d2.Name = &id
		f.Name = declName(&d2)
		if pd, ok := pinnedDisplay[f]; ok {
			f.Name = pd
		}
		if f.Obj != nil {
			renamedObj[f.Obj] = f.Name
		}
		Renamed = append(Renamed, f.Name+" <- "+newName)
	}
}
