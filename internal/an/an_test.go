package an

// Unit tests of the toolkit's primitives on small type-checked snippets: what Canon expands and what it
// must not expand, what Exec calls may/must, what the inliner rewrites (cases A–D) and refuses, and
// how a renamed helper is recognised. They protect the checks against regressions of the machinery
// itself (run with `go test ./internal/an/`; not part of any registered check).

import (
	"go/ast"
	"go/importer"
	"go/parser"
	"go/token"
	"go/types"
	"strings"
	"testing"

	"golang.org/x/tools/go/packages"
)

func load(t *testing.T, src string) *packages.Package {
	t.Helper()
	fset := token.NewFileSet()
	f, err := parser.ParseFile(fset, "/src/p/p.go", src, parser.SkipObjectResolution)
	if err != nil {
		t.Fatal(err)
	}
	info := &types.Info{Types: map[ast.Expr]types.TypeAndValue{}, Defs: map[*ast.Ident]types.Object{}, Uses: map[*ast.Ident]types.Object{},
		Implicits: map[ast.Node]types.Object{}, Selections: map[*ast.SelectorExpr]*types.Selection{}, Scopes: map[ast.Node]*types.Scope{}, Instances: map[*ast.Ident]types.Instance{}}
	conf := types.Config{Importer: importer.ForCompiler(fset, "source", nil)}
	tp, err := conf.Check("example.com/p", fset, []*ast.File{f}, info)
	if err != nil {
		t.Fatal(err)
	}
	return &packages.Package{ID: "example.com/p" + t.Name(), Name: "p", PkgPath: "example.com/p", Fset: fset, Syntax: []*ast.File{f}, Types: tp, TypesInfo: info,
		Imports: map[string]*packages.Package{}}
}

func unknown(ast.Expr, Store) Tri { return U }

func findCall(fn *Fn, name string) *ast.CallExpr {
	for _, c := range fn.Calls(true) {
		if id, ok := c.Expr.Fun.(*ast.Ident); ok && id.Name == name {
			return c.Expr
		}
	}
	return nil
}

func TestCanonExpandsSingleDefinitionLocals(t *testing.T) {
	pkg := load(t, `package p
type T struct{ a, b int }
func g(int) int { return 0 }
func f(x *T, n int) int {
	y := x.a
	z := g(y)
	m := map[string]int{}
	v, ok := m["k"]
	_ = ok
	w := n
	w = w + 1
	return z + v + w
}`)
	fn := FindFunc(pkg, "f")
	ret := fn.Body().List[len(fn.Body().List)-1].(*ast.ReturnStmt)
	got := fn.Canon(ret.Results[0])
	want := `((g(p0.a) + map[string]int{}["k"]) + w)`
	if got != want {
		t.Fatalf("canon = %s, want %s", got, want)
	}
}

func TestCanonKeepsLocalDefinedBeforeRegionWhenItsSourceIsReassigned(t *testing.T) {
	pkg := load(t, `package p
func cut(s string) (string, string, bool) { return s, s, false }
func trim(s string) string { return s }
func sink(bool) {}
func f(ids string) {
	id, rest, more := cut(ids)
	first := trim(id)
	for more {
		id, rest, more = cut(rest)
		sink(first != trim(id))
	}
}`)
	fn := FindFunc(pkg, "f")
	g := fn.Graph()
	call := findCall(fn, "sink")
	var loop *ast.ForStmt
	fn.InspectShallow(func(n ast.Node) bool {
		if fs, ok := n.(*ast.ForStmt); ok {
			loop = fs
		}
		return true
	})
	header, body, _ := g.LoopBlocks(loop)
	var seen []string
	leaf := func(e ast.Expr, st Store) Tri {
		return U
	}
	// evaluate the canonical form of the comparison at the call, with the path store of the loop body
	bd := &Binder{Fn: fn}
	_ = bd
	ex := g.Exec(Loc{B: body, I: 0}, []Loc{g.Locate(call)}, func(e ast.Expr, st Store) Tri {
		seen = append(seen, fn.CanonSt(e, st))
		return leaf(e, st)
	}, ExecOpts{Header: header})
	if !ex.Must[0] {
		t.Fatalf("the call must be reached in every iteration")
	}
	// the operands must not collapse to the same string: `first` was computed from the *old* id
	be := call.Args[0].(*ast.BinaryExpr)
	st := Store{}
	// simulate the store after the reassignment of id on the path
	st[fn.ObjOf(be.Y.(*ast.CallExpr).Args[0])] = &ast.Ident{Name: "newid"}
	fn.Root().execFrom, fn.Root().execGraph = &Loc{B: body, I: 0}, g
	x, y := fn.CanonSt(be.X, st), fn.CanonSt(be.Y, st)
	fn.Root().execFrom, fn.Root().execGraph, fn.Root().regionCache = nil, nil, nil
	if x == y {
		t.Fatalf("operands canonicalise to the same value %q although `first` was computed before `id` was reassigned", x)
	}
	if x != "first" {
		t.Fatalf("a local defined before the region from a reassigned variable must keep its name, got %q", x)
	}
}

func TestExecMayMustAndLoops(t *testing.T) {
	pkg := load(t, `package p
func a() {}
func b() {}
func c() {}
func f(x, y bool, xs []int) {
	if x {
		a()
		if y {
			return
		}
	}
	for range xs {
		c()
	}
	b()
}`)
	fn := FindFunc(pkg, "f")
	g := fn.Graph()
	ex := g.Exec(g.EntryLoc(), []Loc{g.Locate(findCall(fn, "a")), g.Locate(findCall(fn, "b")), g.Locate(findCall(fn, "c"))}, unknown, ExecOpts{})
	if !ex.May[0] || ex.Must[0] {
		t.Errorf("a: may=%v must=%v, want may only", ex.May[0], ex.Must[0])
	}
	if !ex.May[1] || ex.Must[1] {
		t.Errorf("b: may=%v must=%v, want may only (early return)", ex.May[1], ex.Must[1])
	}
	if !ex.May[2] || ex.Must[2] {
		t.Errorf("c: may=%v must=%v, want may only (zero iterations)", ex.May[2], ex.Must[2])
	}
	// with x false, b is on every path
	ex = g.Exec(g.EntryLoc(), []Loc{g.Locate(findCall(fn, "b"))}, func(e ast.Expr, _ Store) Tri {
		if id, ok := e.(*ast.Ident); ok && id.Name == "x" {
			return F
		}
		return U
	}, ExecOpts{})
	if !ex.Must[0] {
		t.Errorf("b must execute when x is false")
	}
}

func TestExecTracksBooleanFlagsPathSensitively(t *testing.T) {
	pkg := load(t, `package p
func hit() {}
func f(x bool) {
	changed := false
	if x {
		changed = true
	}
	if changed {
		hit()
	}
}`)
	fn := FindFunc(pkg, "f")
	g := fn.Graph()
	for _, v := range []Tri{T, F} {
		v := v
		ex := g.Exec(g.EntryLoc(), []Loc{g.Locate(findCall(fn, "hit"))}, func(e ast.Expr, _ Store) Tri {
			if id, ok := e.(*ast.Ident); ok && id.Name == "x" {
				return v
			}
			return U
		}, ExecOpts{})
		if ex.May[0] != (v == T) || ex.Must[0] != (v == T) {
			t.Errorf("x=%v: may=%v must=%v", v, ex.May[0], ex.Must[0])
		}
	}
}

func inlined(t *testing.T, src string) (*InlineResult, string) {
	t.Helper()
	pkg := load(t, src)
	old := InlineExclude
	InlineExclude = nil
	defer func() { InlineExclude = old }()
	res, err := Inline(pkg)
	if err != nil {
		t.Fatalf("inline: %v", err)
	}
	if res == nil {
		return nil, ""
	}
	fn := FindFunc(res.Pkg, "root")
	var sb strings.Builder
	ast.Inspect(fn.Body(), func(n ast.Node) bool {
		if id, ok := n.(*ast.Ident); ok {
			sb.WriteString(id.Name + " ")
		}
		return true
	})
	return res, sb.String()
}

func TestInlineVoidHelperWithReturnAndLoopControl(t *testing.T) {
	res, idents := inlined(t, `package p
var sink int
func helper(v int) {
	if v == 0 {
		return
	}
	sink += v
}
func root(xs []int) {
	for _, x := range xs {
		helper(x)
		sink++
	}
}`)
	if res == nil || len(res.Inlined) != 1 || res.Inlined[0] != "helper" {
		t.Fatalf("inlined = %+v", res)
	}
	if strings.Contains(idents, "helper ") {
		t.Fatalf("call to helper still present: %s", idents)
	}
	// the statement after the call is still reached when the helper returned early: sink++ must execute in every iteration
	fn := FindFunc(res.Pkg, "root")
	g := fn.Graph()
	var inc ast.Node
	var loop *ast.RangeStmt
	fn.InspectShallow(func(n ast.Node) bool {
		switch x := n.(type) {
		case *ast.IncDecStmt:
			inc = x
		case *ast.RangeStmt:
			loop = x
		}
		return true
	})
	h, b, _ := g.LoopBlocks(loop)
	ex := g.Exec(Loc{B: b, I: 0}, []Loc{g.Locate(inc)}, unknown, ExecOpts{Header: h})
	if !ex.Must[0] {
		t.Fatalf("after inlining, the early return of the helper must not skip the rest of the iteration")
	}
}

func TestInlineExpressionHelperAndResultHelperAndConditionHelper(t *testing.T) {
	res, _ := inlined(t, `package p
type T struct{ a, b int }
func (t *T) sum() int { return t.a + t.b }
func pick(x, y int) (int, bool) {
	if x > y {
		return x, true
	}
	return y, false
}
func all(xs []int, lim int) bool {
	for _, x := range xs {
		if x > lim {
			return false
		}
	}
	return true
}
func use(int, bool) {}
func root(t *T, xs []int) int {
	v, ok := pick(t.sum(), 3)
	use(v, ok)
	if !all(xs, v) {
		return 0
	}
	return t.sum()
}`)
	if res == nil {
		t.Fatal("nothing inlined")
	}
	want := map[string]bool{"(*T).sum": true, "pick": true, "all": true}
	for _, n := range res.Inlined {
		delete(want, n)
	}
	if len(want) != 0 {
		t.Fatalf("not inlined: %v (inlined %v)", want, res.Inlined)
	}
	fn := FindFunc(res.Pkg, "root")
	for _, c := range fn.Calls(true) {
		if id, ok := c.Expr.Fun.(*ast.Ident); ok && (id.Name == "pick" || id.Name == "all") {
			t.Fatalf("call to %s survived", id.Name)
		}
	}
}

func TestInlineRefusesDeferRecursionAndImpureArguments(t *testing.T) {
	res, _ := inlined(t, `package p
var n int
func next() int { n++; return n }
func withDefer() { defer func() {}(); n++ }
func rec(k int) { if k > 0 { rec(k - 1) } }
func twice(x int) int { return x + x }
func root() int {
	withDefer()
	rec(3)
	return twice(next())
}`)
	if res != nil {
		for _, name := range res.Inlined {
			if name == "withDefer" || name == "rec" || name == "twice" {
				t.Fatalf("%s must not be inlined", name)
			}
		}
	}
}

func TestRenamedHelperIsRecognisedBySignature(t *testing.T) {
	pkg := load(t, `package p
type S struct{}
func (s *S) waitForAll() {}
func (s *S) other(int) {}
func (s *S) stop() { s.waitForAll() }`)
	oldPinned, oldMod := Pinned, ModPath
	defer func() { Pinned, ModPath = oldPinned, oldMod; Renamed = nil }()
	ModPath = "example.com"
	Pinned = map[string]string{"p:S.awaitDependants": "()->()", "p:S.other": "(int)->()", "p:S.stop": "()->()"}
	fn := FindFunc(pkg, "S.awaitDependants")
	if fn == nil {
		t.Fatalf("the function renamed from the pinned awaitDependants was not resolved; renamed=%v", Renamed)
	}
	stop := FindFunc(pkg, "S.stop")
	if len(stop.CallsTo(false, "p", "(*S).awaitDependants")) != 1 {
		t.Fatalf("calls to the renamed helper are not matched under its pinned name")
	}
}

func TestInlineTailCallKeepsReturns(t *testing.T) {
	res, _ := inlined(t, `package p
type R struct{ n int }
func (r *R) walk(xs []int, lim int) ([]int, error) {
	var out []int
	for _, x := range xs {
		if x > lim {
			return nil, errBig
		}
		out = append(out, x)
	}
	return out, nil
}
var errBig error
func (r *R) root(xs []int) ([]int, error) {
	if len(xs) == 0 {
		return nil, nil
	}
	return r.walk(xs, r.n)
}
func root() {}`)
	if res == nil {
		t.Fatal("nothing inlined")
	}
	fn := FindFunc(res.Pkg, "R.root")
	nilErr := 0
	for _, b := range fn.Graph().Blocks {
		if r := ReturnOf(b); r != nil && len(r.Results) == 2 && fn.Canon(r.Results[1]) == "nil" {
			nilErr++
		}
	}
	if nilErr != 2 {
		t.Fatalf("expected the helper's `return out, nil` to stay a return of the enclosing function (2 nil-error returns), got %d", nilErr)
	}
	if FindFunc(res.Pkg, "R.walk") != nil {
		t.Fatalf("a helper whose only use was inlined must be dropped from the variant")
	}
}

func TestInlineHoistsHelperArgumentOfACall(t *testing.T) {
	// case E: a multi-statement helper as a direct argument of the call on the right-hand side
	res, _ := inlined(t, `package p
type inst struct{ toks []int }
func isSorted(xs ...int) bool { return len(xs) < 2 } // variadic: never inlined
func sortInts(xs ...int)      {}
func sortedToks(i inst) []int {
	t := i.toks
	if !isSorted(t...) {
		sortInts(t...)
	}
	return t
}
func root(m map[string]inst) map[string][][]int {
	out := map[string][][]int{}
	for k, i := range m {
		out[k] = append(out[k], sortedToks(i))
	}
	return out
}`)
	if res == nil {
		t.Fatal("nothing inlined")
	}
	fn := FindFunc(res.Pkg, "root")
	sorts := fn.CallsTo(true, "p", "sortInts")
	if len(sorts) != 1 {
		t.Fatalf("expected the helper's sort call inside root after hoisting, found %d", len(sorts))
	}
	if FindFunc(res.Pkg, "sortedToks") != nil {
		t.Fatalf("the fully inlined helper must be dropped")
	}
}

func TestInlineDoesNotHoistOverAnImpureOperand(t *testing.T) {
	res2, _ := inlined(t, `package p
func h(x int) int {
	if x > 0 {
		return x
	}
	return -x
}
var n int
func g(xs ...int) int { n++; return n } // variadic: never inlined, has a side effect
func pair(a, b int) int { return a + b }
func root() int {
	v := pair(g(), h(2))
	return v
}`)
	if res2 != nil {
		if fn := FindFunc(res2.Pkg, "root"); fn != nil && len(fn.CallsTo(true, "p", "h")) == 0 {
			t.Fatalf("h must not be hoisted over the call of g")
		}
	}
}

func TestBinderTreatsLenOfStringAsEmptiness(t *testing.T) {
	pkg := load(t, `package p
func f(s string) int {
	if len(s) == 0 {
		return 0
	}
	return 1
}`)
	fn := FindFunc(pkg, "f")
	g := fn.Graph()
	var zero Loc
	for _, b := range g.Blocks {
		if r := ReturnOf(b); r != nil && fn.Canon(r.Results[0]) == "0" {
			zero = g.Locate(r)
		}
	}
	for _, row := range []struct {
		v    string
		want bool
	}{{"T", true}, {"F", false}} {
		bd := &Binder{Fn: fn, Eq: map[string]string{`p0|""`: "empty"}, Row: Row{"empty": row.v}}
		ex := g.Exec(g.EntryLoc(), []Loc{zero}, bd.Leaf, ExecOpts{})
		if ex.Must[0] != row.want || ex.May[0] != row.want {
			t.Fatalf("empty=%s: return 0 may=%v must=%v, want %v", row.v, ex.May[0], ex.Must[0], row.want)
		}
	}
}

func TestInlineLockDeferHelperKeepsTheCriticalSection(t *testing.T) {
	res, idents := inlined(t, `package p
type locker interface{ Lock(); Unlock() }
type D int64
type R struct{ mu locker; m map[string]int }
func (r *R) refresh(from map[string]int) {
	r.mu.Lock()
	defer r.mu.Unlock()
	for k, v := range from {
		r.m[k] = v
	}
}
func wait(d D) int { x := int(d); if x > 1 { return x }; return 1 }
func root(r *R, from map[string]int) *R {
	r.refresh(from)
	_ = wait(0)
	return r
}`)
	if res == nil || len(res.Inlined) != 2 {
		t.Fatalf("inlined = %+v", res)
	}
	if strings.Contains(idents, "defer") || !strings.Contains(idents, "Unlock") {
		t.Fatalf("the deferred unlock must become a plain unlock after the body: %s", idents)
	}
	fn := FindFunc(res.Pkg, "root")
	g := fn.Graph()
	var lock, unlock, store ast.Node
	fn.InspectShallow(func(n ast.Node) bool {
		switch x := n.(type) {
		case *ast.CallExpr:
			if s, ok := x.Fun.(*ast.SelectorExpr); ok {
				switch s.Sel.Name {
				case "Lock":
					lock = x
				case "Unlock":
					unlock = x
				}
			}
		case *ast.AssignStmt:
			if _, ok := x.Lhs[0].(*ast.IndexExpr); ok {
				store = x
			}
		}
		return true
	})
	if lock == nil || unlock == nil || store == nil || !g.NodeBefore(lock, store) || !g.NodeBefore(lock, unlock) {
		t.Fatalf("lock, store, unlock not in order after inlining")
	}
	if g.ReachAvoiding(g.Locate(unlock), g.Locate(store), nil) {
		t.Fatalf("the store must not be reachable after the unlock")
	}
}

func TestReachAvoiding(t *testing.T) {
	pkg := load(t, `package p
func f(q []int) int {
	p := &q[0]
	for i := 0; i < 3; i++ {
		if *p > 2 {
			q = q[1:]
			continue
		}
		_ = *p
		p = &q[0]
	}
	return *p
}`)
	fn := FindFunc(pkg, "f")
	g := fn.Graph()
	var pop, redefine ast.Node
	var uses []ast.Node
	fn.InspectShallow(func(n ast.Node) bool {
		switch x := n.(type) {
		case *ast.AssignStmt:
			if id, ok := x.Lhs[0].(*ast.Ident); ok && id.Name == "q" {
				pop = x
			}
			if id, ok := x.Lhs[0].(*ast.Ident); ok && id.Name == "p" && x.Tok == token.ASSIGN {
				redefine = x
			}
		case *ast.StarExpr:
			uses = append(uses, x)
		}
		return true
	})
	if pop == nil || redefine == nil || len(uses) != 3 {
		t.Fatalf("fixture not found: %v %v %d", pop, redefine, len(uses))
	}
	// after the pop, the loop continues: `*p > 2` is reachable again without passing the redefinition
	if !g.ReachAvoiding(g.Locate(pop), g.Locate(uses[0]), []Loc{g.Locate(redefine)}) {
		t.Fatalf("the use in the loop condition is reachable from the pop through the back edge")
	}
}
