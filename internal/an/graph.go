package an

import (
	"fmt"
	"go/ast"
	"go/token"
	"go/types"
	"regexp"
	"strconv"

	"golang.org/x/tools/go/cfg"
)

// Graph wraps the go/cfg control-flow graph of one function body with dominance and
// node location queries. Nested function literals are opaque nodes (they have their own Graph).
type Graph struct {
	Fn     *Fn
	G      *cfg.CFG
	Blocks []*cfg.Block // live blocks
	Preds  map[*cfg.Block][]*cfg.Block
	idom   map[*cfg.Block]*cfg.Block
	order  map[*cfg.Block]int // reverse post-order index
	Entry  *cfg.Block
}

// noReturnCall: calls that never return (explicit panic, os.Exit, log.Fatal*, level.Error is NOT one).
func noReturnCall(info *types.Info, c *ast.CallExpr) bool {
	o := Callee(info, c)
	if o == nil {
		return false
	}
	if _, ok := o.(*types.Builtin); ok {
		return o.Name() == "panic"
	}
	if o.Pkg() == nil {
		return false
	}
	switch o.Pkg().Path() + "." + o.Name() {
	case "os.Exit", "log.Fatal", "log.Fatalf", "log.Fatalln", "log.Panic", "log.Panicf", "runtime.Goexit":
		return true
	}
	return false
}

// Graph builds (once) the CFG of f.
func (f *Fn) Graph() *Graph {
	if f.graph != nil {
		return f.graph
	}
	info := f.Info()
	g := cfg.New(f.Body(), func(c *ast.CallExpr) bool { return !noReturnCall(info, c) })
	gr := &Graph{Fn: f, G: g, Preds: map[*cfg.Block][]*cfg.Block{}, idom: map[*cfg.Block]*cfg.Block{}, order: map[*cfg.Block]int{}}
	if len(g.Blocks) == 0 {
		f.graph = gr
		return gr
	}
	gr.Entry = g.Blocks[0]
	for _, b := range g.Blocks {
		if !b.Live {
			continue
		}
		gr.Blocks = append(gr.Blocks, b)
		for _, s := range b.Succs {
			gr.Preds[s] = append(gr.Preds[s], b)
		}
	}
	// reverse post-order
	var post []*cfg.Block
	seen := map[*cfg.Block]bool{}
	var dfs func(b *cfg.Block)
	dfs = func(b *cfg.Block) {
		seen[b] = true
		for _, s := range b.Succs {
			if !seen[s] {
				dfs(s)
			}
		}
		post = append(post, b)
	}
	dfs(gr.Entry)
	for i := range post {
		gr.order[post[len(post)-1-i]] = i
	}
	// Cooper-Harvey-Kennedy iterative dominators
	rpo := make([]*cfg.Block, len(post))
	for i := range post {
		rpo[i] = post[len(post)-1-i]
	}
	gr.idom[gr.Entry] = gr.Entry
	changed := true
	for changed {
		changed = false
		for _, b := range rpo[1:] {
			var nd *cfg.Block
			for _, p := range gr.Preds[b] {
				if _, ok := gr.idom[p]; !ok {
					continue
				}
				if nd == nil {
					nd = p
				} else {
					nd = gr.intersect(p, nd)
				}
			}
			if nd != nil && gr.idom[b] != nd {
				gr.idom[b] = nd
				changed = true
			}
		}
	}
	f.graph = gr
	return gr
}

func (g *Graph) intersect(a, b *cfg.Block) *cfg.Block {
	for a != b {
		for g.order[a] > g.order[b] {
			a = g.idom[a]
		}
		for g.order[b] > g.order[a] {
			b = g.idom[b]
		}
	}
	return a
}

// Dom reports whether block a dominates block b.
func (g *Graph) Dom(a, b *cfg.Block) bool {
	for {
		if a == b {
			return true
		}
		n, ok := g.idom[b]
		if !ok || n == b {
			return false
		}
		b = n
	}
}

// Loc is a position in the CFG: block and index into its Nodes.
type Loc struct {
	B *cfg.Block
	I int
}

func (l Loc) Valid() bool { return l.B != nil }

// Locate finds the CFG node that contains n (not inside a nested literal unless n is/contains the literal).
func (g *Graph) Locate(n ast.Node) Loc {
	var best Loc
	bestSpan := token.Pos(1 << 40)
	for _, b := range g.Blocks {
		for i, nd := range b.Nodes {
			if nd.Pos() <= n.Pos() && n.End() <= nd.End() {
				if span := nd.End() - nd.Pos(); span < bestSpan {
					best, bestSpan = Loc{b, i}, span
				}
			}
		}
	}
	return best
}

// Before reports whether a is executed before b whenever b executes (a dominates b at node level).
func (g *Graph) Before(a, b Loc) bool {
	if !a.Valid() || !b.Valid() {
		return false
	}
	if a.B == b.B {
		return a.I < b.I
	}
	return g.Dom(a.B, b.B)
}

// NodeBefore: Locate both and test dominance.
func (g *Graph) NodeBefore(a, b ast.Node) bool { return g.Before(g.Locate(a), g.Locate(b)) }

// IsBackEdge reports whether from->to is a loop back edge (to dominates from).
func (g *Graph) IsBackEdge(from, to *cfg.Block) bool { return g.Dom(to, from) }

// Cond returns the branch condition of a two-successor block: the expression that is true on
// Succs[0]. For tagged switch cases a synthetic `tag == value` is returned. ok=false for
// two-way blocks without a condition (range header, select case, type switch case).
func (g *Graph) Cond(b *cfg.Block) (cond ast.Expr, ok bool) {
	if len(b.Succs) != 2 || len(b.Nodes) == 0 {
		return nil, false
	}
	last, isExpr := b.Nodes[len(b.Nodes)-1].(ast.Expr)
	if !isExpr {
		return nil, false
	}
	t := b.Succs[0]
	switch t.Kind {
	case cfg.KindIfThen:
		if s, ok := t.Stmt.(*ast.IfStmt); ok && s.Cond == last {
			return last, true
		}
	case cfg.KindForBody:
		if s, ok := t.Stmt.(*ast.ForStmt); ok && s.Cond == last {
			return last, true
		}
	case cfg.KindSwitchCaseBody:
		cc, ok := t.Stmt.(*ast.CaseClause)
		if !ok {
			return nil, false
		}
		found := false
		for _, e := range cc.List {
			if e == last {
				found = true
			}
		}
		if !found {
			return nil, false
		}
		if tv, ok := g.Fn.Info().Types[last]; ok && tv.IsType() {
			return nil, false
		}
		// find the enclosing switch to get the tag
		sw := g.switchOf(cc)
		if sw == nil {
			return nil, false
		}
		if sw.Tag == nil {
			return last, true
		}
		return &ast.BinaryExpr{X: sw.Tag, Op: token.EQL, Y: last, OpPos: last.Pos()}, true
	}
	return nil, false
}

func (g *Graph) switchOf(cc *ast.CaseClause) *ast.SwitchStmt {
	var out *ast.SwitchStmt
	ast.Inspect(g.Fn.Body(), func(n ast.Node) bool {
		if sw, ok := n.(*ast.SwitchStmt); ok {
			for _, c := range sw.Body.List {
				if c == cc {
					out = sw
				}
			}
		}
		return out == nil
	})
	return out
}

// Exits returns live blocks without successors. panicExit[b] is true when the block ends in a no-return call.
func (g *Graph) Exits() (exits []*cfg.Block, panicExit map[*cfg.Block]bool) {
	panicExit = map[*cfg.Block]bool{}
	for _, b := range g.Blocks {
		if len(b.Succs) == 0 {
			exits = append(exits, b)
			if len(b.Nodes) > 0 {
				if es, ok := b.Nodes[len(b.Nodes)-1].(*ast.ExprStmt); ok {
					if c, ok := es.X.(*ast.CallExpr); ok && noReturnCall(g.Fn.Info(), c) {
						panicExit[b] = true
					}
				}
			}
		}
	}
	return
}

// ReturnOf returns the return statement ending block b, if any.
func ReturnOf(b *cfg.Block) *ast.ReturnStmt {
	if len(b.Nodes) == 0 {
		return nil
	}
	r, _ := b.Nodes[len(b.Nodes)-1].(*ast.ReturnStmt)
	return r
}

// ---------------------------------------------------------------------------------------------
// Finite-domain abstract execution (engine E2): evaluate branch conditions under an assignment
// of atoms and ask whether a target location is reached.

type Tri int8

const (
	F Tri = iota
	T
	U
)

func (t Tri) String() string { return [...]string{"F", "T", "?"}[t] }

func Not(a Tri) Tri {
	switch a {
	case T:
		return F
	case F:
		return T
	}
	return U
}
func And(a, b Tri) Tri {
	if a == F || b == F {
		return F
	}
	if a == T && b == T {
		return T
	}
	return U
}
func Or(a, b Tri) Tri {
	if a == T || b == T {
		return T
	}
	if a == F && b == F {
		return F
	}
	return U
}
func FromBool(b bool) Tri {
	if b {
		return T
	}
	return F
}

// Leaf evaluates a non-logical boolean expression under the current row; U when not recognised.
// Store maps a local variable to the expression last assigned to it on the current path (nil = unknown).
type Store = map[types.Object]ast.Expr

type Leaf func(e ast.Expr, st Store) Tri

// EvalCond evaluates a boolean expression: &&, ||, !, parentheses, constants true/false are
// handled here; everything else is passed to leaf.
func EvalCond(info *types.Info, e ast.Expr, st Store, leaf Leaf) Tri {
	switch x := e.(type) {
	case *ast.ParenExpr:
		return EvalCond(info, x.X, st, leaf)
	case *ast.UnaryExpr:
		if x.Op == token.NOT {
			return Not(EvalCond(info, x.X, st, leaf))
		}
	case *ast.BinaryExpr:
		switch x.Op {
		case token.LAND:
			return And(EvalCond(info, x.X, st, leaf), EvalCond(info, x.Y, st, leaf))
		case token.LOR:
			return Or(EvalCond(info, x.X, st, leaf), EvalCond(info, x.Y, st, leaf))
		}
	case *ast.Ident:
		if c, ok := info.Uses[x].(*types.Const); ok && c.Pkg() == nil {
			if x.Name == "true" {
				return T
			}
			if x.Name == "false" {
				return F
			}
		}
	}
	if id, ok := Unparen(e).(*ast.Ident); ok && st != nil {
		if obj := info.Uses[id]; obj != nil {
			if val, ok := st[obj]; ok && val != nil {
				if t := boolLit(Unparen(val)); t != U {
					return t
				}
			}
		}
	}
	return leaf(e, st)
}

// ExecOpts configures Exec.
type ExecOpts struct {
	Stops       map[*cfg.Block]bool // entering one of these blocks completes the path (region exit)
	Header      *cfg.Block          // region loop header: a back edge to it completes the path
	IgnorePanic bool                // paths ending in a no-return call are not counted
	MaxPaths    int
	Watch       types.Object          // optional: record the expression this local holds when a target executes
	Record      bool                  // record, per complete path, the ordered target hits (ExecResult.Traces)
	NoTrack     map[types.Object]bool // locals whose value is not tracked in the path store (they keep their name)
	Unroll      int                   // how many times a path may re-enter a block (inner loops): 0 = back edges to inner headers end the path silently
}

// Hit is one target execution on a path.
type Hit struct {
	Target int
	Val    string // canonical value of Watch at that moment ("" when not watching)
}

// ExecResult: per target, whether some / every feasible complete path executes it.
type ExecResult struct {
	May, Must []bool
	Paths     int
	Overflow  bool
	Vals      []map[string]bool // per target: canonical expressions held by Watch when the target executed
	Traces    [][]Hit           // with Record: target hits of every complete path, in order
}

func (r ExecResult) Tri(i int) Tri { return Decide3(r.May[i], r.Must[i]) }

// Exec enumerates the feasible paths from `from` under leaf (branches whose condition evaluates to
// T/F follow one edge, unknown conditions fork), tracking local boolean flags assigned constants
// (`changed := false … changed = true … if changed`). A path completes at a function exit, at a
// Stops block or at a back edge to Header; back edges to other loop headers end the path silently
// (the zero-iteration path through that header is explored separately).
func (g *Graph) Exec(from Loc, targets []Loc, leaf Leaf, o ExecOpts) ExecResult {
	if root := g.Fn.Root(); root.execFrom == nil {
		fr := from
		root.execFrom, root.execGraph, root.regionCache = &fr, g, nil
		defer func() { root.execFrom, root.execGraph, root.regionCache = nil, nil, nil }()
	}
	opts := o
	info := g.Fn.Info()
	res := ExecResult{May: make([]bool, len(targets)), Must: make([]bool, len(targets)), Vals: make([]map[string]bool, len(targets))}
	if o.MaxPaths == 0 {
		o.MaxPaths = 50000
	}
	_, panicExit := g.Exits()
	hitAll := make([]bool, len(targets))
	for i := range hitAll {
		hitAll[i] = true
	}
	var trace []Hit
	visits := map[*cfg.Block]int{}
	complete := func(hit []bool) {
		res.Paths++
		if o.Record {
			res.Traces = append(res.Traces, append([]Hit(nil), trace...))
		}
		for i := range targets {
			if hit[i] {
				res.May[i] = true
			} else {
				hitAll[i] = false
			}
		}
	}
	type store = Store
	var walk func(b *cfg.Block, start int, st store, hit []bool, onPath map[*cfg.Block]bool)
	walk = func(b *cfg.Block, start int, st store, hit []bool, onPath map[*cfg.Block]bool) {
		if res.Paths > o.MaxPaths {
			res.Overflow = true
			return
		}
		// execute nodes
		for i := start; i < len(b.Nodes); i++ {
			for ti, t := range targets {
				if t.B == b && t.I == i {
					hit[ti] = true
				}
			}
			for ti, t := range targets {
				if t.B == b && t.I == i && o.Record && o.Watch == nil {
					trace = append(trace, Hit{Target: ti})
				}
				if t.B == b && t.I == i && o.Watch != nil {
					val := "?"
					if e, ok := st[o.Watch]; ok && e != nil {
						val = g.Fn.CanonSt(e, st)
					} else if !ok {
						val = "<entry>"
					}
					if res.Vals[ti] == nil {
						res.Vals[ti] = map[string]bool{}
					}
					res.Vals[ti][val] = true
					if o.Record {
						trace = append(trace, Hit{Target: ti, Val: val})
					}
				}
			}
			g.storeEffect(b.Nodes[i], st)
			for o := range opts.NoTrack {
				delete(st, o)
			}
		}
		if len(b.Succs) == 0 {
			if !(o.IgnorePanic && panicExit[b]) {
				complete(hit)
			}
			return
		}
		follow := func(s *cfg.Block) {
			if g.IsBackEdge(b, s) {
				if s == o.Header {
					complete(hit)
					return
				}
				if visits[s] > o.Unroll {
					// inner loop: remember hits as "may" but do not count the path
					for i := range targets {
						if hit[i] {
							res.May[i] = true
						}
					}
					return
				}
			}
			if o.Stops[s] {
				complete(hit)
				return
			}
			if onPath[s] && visits[s] > o.Unroll {
				return
			}
			st2 := store{}
			for k, v := range st {
				st2[k] = v
			}
			hit2 := append([]bool(nil), hit...)
			was := onPath[s]
			onPath[s] = true
			visits[s]++
			tl := len(trace)
			walk(s, 0, st2, hit2, onPath)
			trace = trace[:tl]
			visits[s]--
			if !was {
				delete(onPath, s)
			}
		}
		if len(b.Succs) == 1 {
			follow(b.Succs[0])
			return
		}
		v := U
		if c, ok := g.Cond(b); ok {
			v = EvalCond(info, c, st, leaf)
		}
		if v != F {
			follow(b.Succs[0])
		}
		if v != T {
			follow(b.Succs[1])
		}
	}
	visits[from.B] = 1
	walk(from.B, from.I, store{}, make([]bool, len(targets)), map[*cfg.Block]bool{from.B: true})
	for i := range targets {
		res.Must[i] = res.May[i] && hitAll[i] && res.Paths > 0
	}
	return res
}

// storeEffect updates the abstract store for assignments to plain local variables:
// the store maps a local to the expression last assigned to it on this path (nil = unknown).
func (g *Graph) storeEffect(n ast.Node, st map[types.Object]ast.Expr) {
	info := g.Fn.Info()
	set := func(lhs ast.Expr, rhs ast.Expr) {
		id, ok := Unparen(lhs).(*ast.Ident)
		if !ok || id.Name == "_" {
			return
		}
		obj := info.Defs[id]
		if obj == nil {
			obj = info.Uses[id]
		}
		v, ok := obj.(*types.Var)
		if !ok || v.IsField() || (v.Pkg() != nil && v.Parent() == v.Pkg().Scope()) {
			return
		}
		if g.Fn.AssignedOutside(obj) {
			st[obj] = nil
			return
		}
		if rhs != nil {
			if rid, ok := Unparen(rhs).(*ast.Ident); ok {
				if o2 := info.Uses[rid]; o2 != nil {
					if pv, ok := st[o2]; ok {
						st[obj] = pv
						return
					}
				}
			}
		}
		st[obj] = rhs
	}
	switch s := n.(type) {
	case *ast.AssignStmt:
		if len(s.Lhs) == len(s.Rhs) && (s.Tok == token.ASSIGN || s.Tok == token.DEFINE) {
			for i := range s.Lhs {
				set(s.Lhs[i], s.Rhs[i])
			}
		} else if len(s.Rhs) == 1 && len(s.Lhs) == 2 && (s.Tok == token.ASSIGN || s.Tok == token.DEFINE) && isCommaOk(s.Rhs[0]) {
			set(s.Lhs[0], s.Rhs[0])
			set(s.Lhs[1], &ast.CallExpr{Fun: ast.NewIdent("ok"), Args: []ast.Expr{s.Rhs[0]}})
		} else if len(s.Rhs) == 1 && (s.Tok == token.ASSIGN || s.Tok == token.DEFINE) {
			if _, isCall := Unparen(s.Rhs[0]).(*ast.CallExpr); isCall {
				for i := range s.Lhs {
					set(s.Lhs[i], &ast.CallExpr{Fun: ast.NewIdent(fmt.Sprintf("tuple#%d", i)), Args: []ast.Expr{s.Rhs[0]}})
				}
			} else {
				for i := range s.Lhs {
					set(s.Lhs[i], nil)
				}
			}
		} else {
			for i := range s.Lhs {
				set(s.Lhs[i], nil)
			}
		}
	case *ast.IncDecStmt:
		set(s.X, nil)
	case *ast.ValueSpec:
		for i, nm := range s.Names {
			if len(s.Values) == len(s.Names) {
				set(nm, s.Values[i])
			} else if len(s.Values) == 0 {
				if obj, ok := info.Defs[nm].(*types.Var); ok {
					if b, ok := obj.Type().Underlying().(*types.Basic); ok && b.Kind() == types.Bool {
						st[obj] = ast.NewIdent("false")
						continue
					}
				}
				set(nm, ast.NewIdent("zero"))
			} else {
				set(nm, nil)
			}
		}
	}
}

func boolLit(e ast.Expr) Tri {
	if id, ok := e.(*ast.Ident); ok {
		switch id.Name {
		case "true":
			return T
		case "false":
			return F
		}
	}
	return U
}

// Decide3 maps (may, must) to a three-valued "target executes".
func Decide3(may, must bool) Tri {
	if !may {
		return F
	}
	if must {
		return T
	}
	return U
}

// ---------------------------------------------------------------------------------------------
// Atoms and rows

type Atom struct {
	Name   string
	Values []string
}

type Row map[string]string

// Rows enumerates the cartesian product of the atom domains.
func Rows(atoms []Atom) []Row {
	rows := []Row{{}}
	for _, a := range atoms {
		var next []Row
		for _, r := range rows {
			for _, v := range a.Values {
				nr := Row{}
				for k, x := range r {
					nr[k] = x
				}
				nr[a.Name] = v
				next = append(next, nr)
			}
		}
		rows = next
	}
	return rows
}

// CmpTri evaluates `a op b` given the ordering ord ∈ {"lt","eq","gt"} of a relative to b.
func CmpTri(op token.Token, ord string) Tri {
	switch op {
	case token.LSS:
		return FromBool(ord == "lt")
	case token.LEQ:
		return FromBool(ord != "gt")
	case token.GTR:
		return FromBool(ord == "gt")
	case token.GEQ:
		return FromBool(ord != "lt")
	case token.EQL:
		return FromBool(ord == "eq")
	case token.NEQ:
		return FromBool(ord != "eq")
	}
	return U
}

func flipOrd(ord string) string {
	switch ord {
	case "lt":
		return "gt"
	case "gt":
		return "lt"
	}
	return ord
}

// Binder is a table-driven Leaf: it canonicalises operands (Fn.Canon + role rewriting) and looks
// them up in its atom tables.
type Binder struct {
	Fn    *Fn
	Roles Roles
	// Cmp: "A|B" -> atom name with domain lt/eq/gt (ordering of A relative to B)
	Cmp map[string]string
	// Eq: "A|B" -> atom name with domain T/F (A == B); B typically a constant
	Eq map[string]string
	// Enum: "A" -> atom name whose value is the constant name A equals (compared against constants only)
	Enum map[string]string
	// Bool: canonical boolean expression -> atom name with domain T/F
	Bool map[string]string
	Row  Row
	// Re: regular-expression rewrites applied to canonical strings after Roles (e.g. to abstract call arguments).
	Re []ReRole
	// Unknown collects the canonical text of leaves that were not recognised.
	Unknown map[string]bool
	// subst: when evaluating the body of an inlined helper, canonical parameter names of the helper
	// (p0, p1, recv) are replaced by the caller's canonical argument strings.
	subst map[string]string
	depth int
	// for inlined helpers: the helper's parameter objects bound to the caller's argument expressions
	parent      *Binder
	parentStore Store
	paramArgs   map[types.Object]ast.Expr
}

func (b *Binder) C(e ast.Expr, st Store) string {
	s := b.Fn.CanonSt(e, st)
	if b.subst != nil {
		s = paramRe.ReplaceAllStringFunc(s, func(m string) string {
			if r, ok := b.subst[m]; ok {
				return r
			}
			return m
		})
	}
	s = b.Roles.Apply(s)
	for _, r := range b.Re {
		s = r.Re.ReplaceAllString(s, r.To)
	}
	return s
}

// neighbourCmp evaluates an ordering atom registered against the constant c∓1 for a comparison with c.
func (b *Binder) neighbourCmp(be *ast.BinaryExpr, x, y string) (Tri, bool) {
	isInt := func(e ast.Expr) bool {
		t := b.Fn.Info().TypeOf(e)
		if t == nil {
			return false
		}
		bt, ok := t.Underlying().(*types.Basic)
		return ok && bt.Info()&types.IsInteger != 0
	}
	try := func(varSide, constSide string, op token.Token) (Tri, bool) {
		c, err := strconv.ParseInt(constSide, 10, 64)
		if err != nil {
			return U, false
		}
		type alt struct {
			c  int64
			op token.Token
		}
		var alts []alt
		switch op {
		case token.LSS:
			alts = []alt{{c - 1, token.LEQ}}
		case token.GEQ:
			alts = []alt{{c - 1, token.GTR}}
		case token.GTR:
			alts = []alt{{c + 1, token.GEQ}}
		case token.LEQ:
			alts = []alt{{c + 1, token.LSS}}
		}
		for _, a := range alts {
			k := strconv.FormatInt(a.c, 10)
			if atom, ok := b.Cmp[varSide+"|"+k]; ok {
				return CmpTri(a.op, b.Row[atom]), true
			}
		}
		return U, false
	}
	if !isInt(be.X) || !isInt(be.Y) {
		return U, false
	}
	if r, ok := try(x, y, be.Op); ok {
		return r, true
	}
	// constant on the left: c OP X  ≡  X OP' c
	flip := map[token.Token]token.Token{token.LSS: token.GTR, token.GTR: token.LSS, token.LEQ: token.GEQ, token.GEQ: token.LEQ}
	if op, ok := flip[be.Op]; ok {
		if r, ok := try(y, x, op); ok {
			return r, true
		}
	}
	return U, false
}

// ReRole is a regular-expression rewrite of canonical strings.
type ReRole struct {
	Re *regexp.Regexp
	To string
}

func RE(pattern, to string) ReRole { return ReRole{regexp.MustCompile(pattern), to} }

// emptyString recognises len(s) ⋈ c for a string s and c ∈ {0, 1} as an emptiness test bound through Eq[s|""].
func (b *Binder) emptyString(be *ast.BinaryExpr, st Store) (Tri, bool) {
	side := func(l, r ast.Expr, op token.Token) (Tri, bool) {
		call, ok := Unparen(l).(*ast.CallExpr)
		if !ok || len(call.Args) != 1 {
			return U, false
		}
		if id, ok := call.Fun.(*ast.Ident); !ok || id.Name != "len" {
			return U, false
		}
		if t, ok := b.Fn.Info().TypeOf(call.Args[0]).Underlying().(*types.Basic); !ok || t.Info()&types.IsString == 0 {
			return U, false
		}
		c := b.C(r, st)
		if c != "0" && c != "1" {
			return U, false
		}
		a, ok := b.Eq[b.C(call.Args[0], st)+`|""`]
		if !ok {
			return U, false
		}
		empty := b.Row[a] == "T"
		switch {
		case c == "0" && op == token.EQL, c == "0" && op == token.LEQ, c == "1" && op == token.LSS:
			return FromBool(empty), true
		case c == "0" && op == token.NEQ, c == "0" && op == token.GTR, c == "1" && op == token.GEQ:
			return FromBool(!empty), true
		}
		return U, false
	}
	if r, ok := side(be.X, be.Y, be.Op); ok {
		return r, true
	}
	flip := map[token.Token]token.Token{token.EQL: token.EQL, token.NEQ: token.NEQ, token.LSS: token.GTR, token.GTR: token.LSS, token.LEQ: token.GEQ, token.GEQ: token.LEQ}
	if op, ok := flip[be.Op]; ok {
		return side(be.Y, be.X, op)
	}
	return U, false
}

func (b *Binder) Leaf(e ast.Expr, st Store) Tri {
	e = Unparen(e)
	if b.parent != nil {
		if id, ok := e.(*ast.Ident); ok {
			if arg, isParam := b.paramArgs[b.Fn.Info().Uses[id]]; isParam {
				// a boolean parameter of an inlined helper: evaluate the caller's argument in the caller's context
				return EvalCond(b.parent.Fn.Info(), arg, b.parentStore, b.parent.Leaf)
			}
		}
	}
	if be, ok := e.(*ast.BinaryExpr); ok {
		x, y := b.C(be.X, st), b.C(be.Y, st)
		if a, ok := b.Cmp[x+"|"+y]; ok {
			return CmpTri(be.Op, b.Row[a])
		}
		if a, ok := b.Cmp[y+"|"+x]; ok {
			return CmpTri(be.Op, flipOrd(b.Row[a]))
		}
		// integer comparisons against a neighbouring constant: X < c ≡ X ≤ c−1, X ≥ c ≡ X > c−1,
		// X > c ≡ X ≥ c+1, X ≤ c ≡ X < c+1 (only for integer-typed operands, e.g. len(x) < 1 ≡ len(x) == 0
		// when the atom orders len(x) against 0 and lengths are never negative)
		if r, ok := b.neighbourCmp(be, x, y); ok {
			return r
		}
		// len(s) == 0 / != 0 / > 0 / < 1 on a string is a comparison of s with "" (bound as an Eq atom s|"")
		if r, ok := b.emptyString(be, st); ok {
			return r
		}
		if be.Op == token.EQL || be.Op == token.NEQ {
			var v Tri = U
			if x == y || (x == "zero" && y == "nil") || (x == "nil" && y == "zero") {
				v = T
			}
			if v == T {
			} else if a, ok := b.Eq[x+"|"+y]; ok {
				v = FromBool(b.Row[a] == "T")
			} else if a, ok := b.Eq[y+"|"+x]; ok {
				v = FromBool(b.Row[a] == "T")
			} else if a, ok := b.Enum[x]; ok && b.Fn.ConstName(be.Y) != "" {
				v = FromBool(b.Row[a] == b.Fn.ConstName(be.Y))
			} else if a, ok := b.Enum[y]; ok && b.Fn.ConstName(be.X) != "" {
				v = FromBool(b.Row[a] == b.Fn.ConstName(be.X))
			}
			if v != U {
				if be.Op == token.NEQ {
					return Not(v)
				}
				return v
			}
		}
	}
	s := b.C(e, st)
	if a, ok := b.Bool[s]; ok {
		return FromBool(b.Row[a] == "T")
	}
	if id, ok := e.(*ast.Ident); ok && b.depth < 6 {
		// a boolean local holding an expression (`localCAS := casVersion > 0`): evaluate the expression it holds
		if obj := b.Fn.Info().Uses[id]; obj != nil {
			var def ast.Expr
			if se, ok := st[obj]; ok && se != nil {
				def = se
			} else if _, tracked := st[obj]; !tracked {
				if d, ok := b.Fn.SingleDefExpr(obj); ok {
					if sd, _ := b.Fn.SingleDef(obj); sd.kind == defExpr {
						def = d
					}
				}
			}
			if def != nil && Unparen(def) != ast.Expr(id) {
				if _, isIdent := Unparen(def).(*ast.Ident); !isIdent || boolLit(Unparen(def)) == U {
					b.depth++
					v := EvalCond(b.Fn.Info(), def, st, b.Leaf)
					b.depth--
					if v != U {
						return v
					}
				}
			}
		}
	}
	if call, ok := e.(*ast.CallExpr); ok && b.depth < 3 {
		if v := b.inlineCall(call, st); v != U {
			return v
		}
	}
	if b.Unknown != nil {
		b.Unknown[s] = true
	}
	return U
}

func isCommaOk(e ast.Expr) bool {
	switch x := Unparen(e).(type) {
	case *ast.IndexExpr, *ast.TypeAssertExpr:
		return true
	case *ast.UnaryExpr:
		return x.Op == token.ARROW
	}
	return false
}

// LoopBlocks returns the header, body and done blocks of a for/range statement.
func (g *Graph) LoopBlocks(loop ast.Stmt) (header, body, done *cfg.Block) {
	for _, b := range g.G.Blocks {
		if b.Stmt != loop {
			continue
		}
		switch b.Kind {
		case cfg.KindRangeLoop, cfg.KindForLoop:
			header = b
		case cfg.KindRangeBody, cfg.KindForBody:
			body = b
		case cfg.KindRangeDone, cfg.KindForDone:
			done = b
		}
	}
	return
}

// EntryLoc is the first node of the function.
func (g *Graph) EntryLoc() Loc { return Loc{g.Entry, 0} }

// InLoop reports whether n lies lexically inside loop's body.
func InNode(outer ast.Node, n ast.Node) bool {
	return outer != nil && n != nil && outer.Pos() <= n.Pos() && n.End() <= outer.End()
}

// Before returns the same location (helper for readability when a table starts at a statement).
func (l Loc) Before() Loc { return l }

var paramRe = regexp.MustCompile(`\b(p\d+|recv)\b`)

// inlineCall evaluates a call to a small boolean helper of the same package by abstractly executing the
// helper's body with the caller's atoms (parameters substituted by the caller's canonical arguments).
// This keeps decision tables insensitive to "extract the condition into a helper" refactorings.
func (b *Binder) inlineCall(call *ast.CallExpr, st Store) Tri {
	callee, _ := Callee(b.Fn.Info(), call).(*types.Func)
	if callee == nil || callee.Pkg() != b.Fn.Pkg.Types {
		return U
	}
	sig := callee.Type().(*types.Signature)
	if sig.Results().Len() != 1 {
		return U
	}
	if bt, ok := sig.Results().At(0).Type().Underlying().(*types.Basic); !ok || bt.Kind() != types.Bool {
		return U
	}
	var target *Fn
	for _, f := range Funcs(b.Fn.Pkg) {
		if f.Obj == callee {
			target = f
		}
	}
	if target == nil || len(target.Body().List) > 12 {
		return U
	}
	sub := &Binder{Fn: target, Roles: b.Roles, Cmp: b.Cmp, Eq: b.Eq, Enum: b.Enum, Bool: b.Bool, Row: b.Row, Re: b.Re, Unknown: nil, depth: b.depth + 1, subst: map[string]string{},
		parent: b, parentStore: st, paramArgs: map[types.Object]ast.Expr{}}
	for i, a := range call.Args {
		if i < sig.Params().Len() {
			// bind the parameter object (as seen inside the helper's body) to the argument
			if target.Decl != nil && target.Decl.Type.Params != nil {
				k := 0
				for _, fl := range target.Decl.Type.Params.List {
					for _, nm := range fl.Names {
						if k == i {
							if po := target.Info().Defs[nm]; po != nil {
								sub.paramArgs[po] = a
							}
						}
						k++
					}
				}
			}
		}
		// the caller's canonical string without role renaming (roles are applied after substitution)
		cs := b.Fn.CanonSt(a, st)
		if b.subst != nil {
			cs = paramRe.ReplaceAllStringFunc(cs, func(m string) string {
				if r, ok := b.subst[m]; ok {
					return r
				}
				return m
			})
		}
		sub.subst[fmt.Sprintf("p%d", i)] = cs
	}
	if sel, ok := call.Fun.(*ast.SelectorExpr); ok && sig.Recv() != nil {
		sub.subst["recv"] = b.Fn.CanonSt(sel.X, st)
	}
	g := target.Graph()
	var rets []*ast.ReturnStmt
	var locs []Loc
	for _, blk := range g.Blocks {
		if r := ReturnOf(blk); r != nil && len(r.Results) == 1 {
			rets = append(rets, r)
			locs = append(locs, g.Locate(r))
		}
	}
	if len(rets) == 0 {
		return U
	}
	ex := g.Exec(g.EntryLoc(), locs, sub.Leaf, ExecOpts{IgnorePanic: true})
	if ex.Overflow {
		return U
	}
	result := Tri(-1)
	for i, r := range rets {
		if !ex.May[i] {
			continue
		}
		v := EvalCond(target.Info(), r.Results[0], nil, sub.Leaf)
		if v == U {
			return U
		}
		if result != Tri(-1) && result != v {
			return U
		}
		result = v
	}
	if result == Tri(-1) {
		return U
	}
	return result
}

// ReachAvoiding reports whether some CFG path leads from just after `from` to `to` without executing any of the
// `avoid` locations (back edges included: the walk is over the whole graph).
func (g *Graph) ReachAvoiding(from, to Loc, avoid []Loc) bool {
	if !from.Valid() || !to.Valid() {
		return false
	}
	blocked := func(b *cfg.Block, i int) bool {
		for _, a := range avoid {
			if a.B == b && a.I == i {
				return true
			}
		}
		return false
	}
	// scan a block from index i; returns (found, fellThrough)
	scan := func(b *cfg.Block, i int) (bool, bool) {
		for ; i < len(b.Nodes); i++ {
			if to.B == b && to.I == i {
				return true, false
			}
			if blocked(b, i) {
				return false, false
			}
		}
		return false, true
	}
	seen := map[*cfg.Block]bool{}
	var work []*cfg.Block
	found, through := scan(from.B, from.I+1)
	if found {
		return true
	}
	if through {
		work = append(work, from.B.Succs...)
	}
	for len(work) > 0 {
		b := work[len(work)-1]
		work = work[:len(work)-1]
		if seen[b] {
			continue
		}
		seen[b] = true
		found, through := scan(b, 0)
		if found {
			return true
		}
		if through {
			work = append(work, b.Succs...)
		}
	}
	return false
}
