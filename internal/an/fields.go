package an

import (
	"go/ast"
	"go/token"
	"go/types"

	"golang.org/x/tools/go/packages"
)

// FieldSel reports whether e is a selector of struct field fld.
func FieldSel(info *types.Info, e ast.Expr, fld *types.Var) bool {
	s, ok := Unparen(e).(*ast.SelectorExpr)
	if !ok {
		return false
	}
	if sel := info.Selections[s]; sel != nil {
		return sel.Obj() == fld
	}
	return false
}

// FieldAccess is one syntactic access to a struct field.
type FieldAccess struct {
	Fn    *Fn // top-level function (literals are attributed to their root)
	In    *Fn // innermost function (literal) containing the access
	Node  ast.Node
	Write bool
	Base  ast.Expr // the expression the field is selected from (nil for composite literal keys)
	Addr  bool     // the field's address is taken (&x.f); not counted as Write
}

// FieldAccesses lists every access to fld in the package's function bodies.
// Writes: assignment LHS (also through index/star of the field: x.f[i] = v is a write to the
// field's referent, reported as Write), inc/dec, address-of, composite literal keys, delete(x.f, k).
func FieldAccesses(pkg *packages.Package, fld *types.Var) []FieldAccess {
	var out []FieldAccess
	info := pkg.TypesInfo
	for _, root := range Funcs(pkg) {
		var walkFn func(fn *Fn)
		walkFn = func(fn *Fn) {
			writes := map[ast.Node]bool{}
			addrs := map[ast.Node]bool{}
			var markLHS func(e ast.Expr)
			markLHS = func(e ast.Expr) {
				switch x := Unparen(e).(type) {
				case *ast.SelectorExpr:
					writes[x] = true
				case *ast.IndexExpr:
					markLHS(x.X)
				case *ast.StarExpr:
					markLHS(x.X)
				case *ast.SliceExpr:
					markLHS(x.X)
				}
			}
			fn.InspectShallow(func(n ast.Node) bool {
				switch s := n.(type) {
				case *ast.AssignStmt:
					for _, l := range s.Lhs {
						markLHS(l)
					}
				case *ast.IncDecStmt:
					markLHS(s.X)
				case *ast.UnaryExpr:
					if s.Op == token.AND {
						if sel, ok := Unparen(s.X).(*ast.SelectorExpr); ok {
							addrs[sel] = true
						}
					}
				case *ast.CallExpr:
					if o := Callee(info, s); o != nil {
						if _, isB := o.(*types.Builtin); isB && (o.Name() == "delete" || o.Name() == "clear") && len(s.Args) > 0 {
							markLHS(s.Args[0])
						}
					}
				case *ast.RangeStmt:
					if s.Tok == token.ASSIGN {
						if s.Key != nil {
							markLHS(s.Key)
						}
						if s.Value != nil {
							markLHS(s.Value)
						}
					}
				}
				return true
			})
			fn.InspectShallow(func(n ast.Node) bool {
				switch s := n.(type) {
				case *ast.SelectorExpr:
					if sel := info.Selections[s]; sel != nil && sel.Obj() == fld {
						out = append(out, FieldAccess{Fn: root, In: fn, Node: s, Write: writes[s], Base: s.X, Addr: addrs[s]})
					}
				case *ast.KeyValueExpr:
					if id, ok := s.Key.(*ast.Ident); ok && info.Uses[id] == fld {
						out = append(out, FieldAccess{Fn: root, In: fn, Node: s, Write: true})
					}
				}
				return true
			})
			for _, l := range fn.Lits() {
				walkFn(l)
			}
		}
		walkFn(root)
	}
	return out
}
