package an

// Helper inlining: a semantics-preserving source-to-source normalisation used as a *fallback* by
// rules whose construct moved into an extracted helper. Inline(pkg, roots…) returns a variant of the
// package — re-type-checked from the rewritten syntax — in which, inside the root functions, calls to
// same-package helpers are replaced by the helper's body:
//
//	(A) a call statement `x.h(a, b)` to a helper without results becomes
//	        { recv, p0, p1 := x, a, b; L: switch { default: <body, return → break L> } }
//	(B) a call (in any expression) to a helper whose body is the single statement `return e` becomes (e)
//	    with the parameters replaced by the argument expressions, when these are side-effect free.
//
// Helpers that defer, recover, are recursive, variadic or reached through an interface are left alone.
// After re-type-checking, every identifier of an inlined body must resolve to the same package-level
// object (or a local of the inlined body) as in the helper; otherwise the variant is discarded.
// A rule that holds on the variant holds on the original: the transformation preserves behaviour.

import (
	"bytes"
	"fmt"
	"go/ast"
	"go/parser"
	"go/printer"
	"go/token"
	"go/types"
	"os"
	"reflect"
	"sort"

	"golang.org/x/tools/go/ast/astutil"
	"golang.org/x/tools/go/packages"
)

// InlineResult is the rewritten package and the helpers that were inlined (display names, sorted).
type InlineResult struct {
	Pkg     *packages.Package
	Inlined []string
}

type inliner struct {
	pkg         *packages.Package
	info        *types.Info
	decls       map[*types.Func]*ast.FuncDecl
	origOf      map[ast.Node]ast.Node // copy -> original (for type information)
	inlined     map[string]bool
	bodies      []inlinedBody
	label       int
	curImports  map[string]string // imports of the file being rewritten: local name -> path
	count       int               // number of inlinings performed
	inlinedObj  map[*types.Func]bool
	tail        bool // the call being inlined is the operand of a return statement
	dropped     []string
	droppedFile map[*ast.File]bool
	rewritten   map[*ast.FuncDecl]bool
}

type inlinedBody struct {
	copyRoot ast.Node
}

var inlineCache = map[string]*InlineResult{}

// InlineExclude, when set, names helpers that must never be inlined: the functions some rule refers
// to by name (an inlined call would hide the very construct a who-may-call or ordering rule inspects).
var InlineExclude func(f *types.Func) bool

// Inline returns the variant of pkg with helper calls inlined inside the named root functions
// (names as accepted by FindFunc). It returns nil when nothing could be inlined.
func Inline(pkg *packages.Package, roots ...string) (*InlineResult, error) {
	key := pkg.ID + "|" + fmt.Sprint(roots)
	if r, ok := inlineCache[key]; ok {
		return r, nil
	}
	in := &inliner{pkg: pkg, info: pkg.TypesInfo, decls: map[*types.Func]*ast.FuncDecl{}, origOf: map[ast.Node]ast.Node{}, inlined: map[string]bool{}, rewritten: map[*ast.FuncDecl]bool{}, inlinedObj: map[*types.Func]bool{}, droppedFile: map[*ast.File]bool{}}
	for _, f := range pkg.Syntax {
		for _, d := range f.Decls {
			if fd, ok := d.(*ast.FuncDecl); ok {
				if o, ok := pkg.TypesInfo.Defs[fd.Name].(*types.Func); ok {
					in.decls[o] = fd
				}
			}
		}
	}
	rootDecl := map[*ast.FuncDecl]bool{}
	for _, r := range roots {
		if fn := FindFunc(pkg, r); fn != nil && fn.Decl != nil && fn.Decl.Body != nil {
			rootDecl[fn.Decl] = true
		}
	}
	if len(roots) == 0 { // every function of the package
		for _, d := range in.decls {
			if d.Body != nil {
				rootDecl[d] = true
			}
		}
	}
	if len(rootDecl) == 0 {
		inlineCache[key] = nil
		return nil, nil
	}
	files := make([]*ast.File, len(pkg.Syntax))
	for i, f := range pkg.Syntax {
		nf := *f
		nf.Decls = append([]ast.Decl(nil), f.Decls...)
		nf.Scope, nf.Unresolved = nil, nil
		for j, d := range nf.Decls {
			fd, ok := d.(*ast.FuncDecl)
			if !ok || !rootDecl[fd] {
				continue
			}
			in.curImports = map[string]string{}
			for _, is := range f.Imports {
				var pn *types.PkgName
				if is.Name != nil {
					pn, _ = pkg.TypesInfo.Defs[is.Name].(*types.PkgName)
				} else {
					pn, _ = pkg.TypesInfo.Implicits[is].(*types.PkgName)
				}
				if pn != nil {
					in.curImports[pn.Name()] = pn.Imported().Path()
				}
			}
			cp := in.clone(fd).(*ast.FuncDecl)
			stack := map[*ast.FuncDecl]bool{fd: true}
			before := in.count
			in.rewriteBlock(cp.Body, stack, 0)
			if in.count == before {
				continue // nothing was inlined into this function: keep the declaration as written
			}
			in.rewritten[cp] = true
			nf.Decls[j] = cp
		}
		files[i] = &nf
	}
	if len(in.inlined) == 0 {
		inlineCache[key] = nil
		return nil, nil
	}
	// a helper all of whose uses were inlined is dead code in the variant (it is unexported and no
	// identifier with its name remains outside its own declaration): drop its declaration, so that rules
	// do not analyse the extracted fragment a second time out of its context
	for f, d := range in.decls {
		if !in.inlinedObj[f] || ast.IsExported(f.Name()) {
			continue
		}
		uses := 0
		for _, file := range files {
			for _, decl := range file.Decls {
				if decl == ast.Decl(d) {
					continue
				}
				ast.Inspect(decl, func(n ast.Node) bool {
					if id, ok := n.(*ast.Ident); ok && id.Name == f.Name() {
						uses++
					}
					return true
				})
			}
		}
		if uses > 0 {
			continue
		}
		for _, file := range files {
			for j, decl := range file.Decls {
				if decl == ast.Decl(d) {
					file.Decls = append(append([]ast.Decl(nil), file.Decls[:j]...), file.Decls[j+1:]...)
					in.dropped = append(in.dropped, FuncDisplay(f))
					in.droppedFile[file] = true
					break
				}
			}
		}
	}
	// re-type-check
	info := &types.Info{Types: map[ast.Expr]types.TypeAndValue{}, Defs: map[*ast.Ident]types.Object{}, Uses: map[*ast.Ident]types.Object{},
		Implicits: map[ast.Node]types.Object{}, Selections: map[*ast.SelectorExpr]*types.Selection{}, Scopes: map[ast.Node]*types.Scope{}, Instances: map[*ast.Ident]types.Instance{}}
	var hard []error
	conf := types.Config{Importer: mapImporter{pkg}, Sizes: pkg.TypesSizes, Error: func(err error) {
		if te, ok := err.(types.Error); ok && te.Soft {
			return
		}
		hard = append(hard, err)
	}}
	tp, _ := conf.Check(pkg.PkgPath, pkg.Fset, files, info)
	if len(hard) > 0 {
		return nil, fmt.Errorf("inlined variant of %s does not type-check: %v", pkg.PkgPath, hard[0])
	}
	// resolution check: identifiers of the rewritten functions resolve as in the code they came from
	var resErr error
	for _, f := range files {
		for _, d := range f.Decls {
			fd, ok := d.(*ast.FuncDecl)
			if !ok {
				continue
			}
			if !in.rewritten[fd] {
				continue
			}
			ast.Inspect(fd, func(n ast.Node) bool {
				id, ok := n.(*ast.Ident)
				if !ok || resErr != nil {
					return true
				}
				oid, ok := in.origOf[id].(*ast.Ident)
				if !ok {
					return true
				}
				oo := in.info.Uses[oid]
				if oo == nil || oo.Pkg() == nil {
					return true
				}
				if oo.Parent() == pkg.Types.Scope() {
					no := info.Uses[id]
					if no == nil || no.Parent() != tp.Scope() || no.Name() != oo.Name() {
						resErr = fmt.Errorf("inlined identifier %s at %s resolves differently after inlining", id.Name, pkg.Fset.Position(id.Pos()))
					}
				}
				return true
			})
		}
	}
	if resErr != nil {
		return nil, resErr
	}
	if want := os.Getenv("VERIF_DUMP_INLINE"); want != "" {
		for _, f := range files {
			for _, d := range f.Decls {
				if fd, ok := d.(*ast.FuncDecl); ok && fd.Name.Name == want {
					printer.Fprint(os.Stderr, pkg.Fset, fd)
					fmt.Fprintln(os.Stderr)
				}
			}
		}
	}
	// second phase: the rewritten files are printed and parsed again so that positions are consistent
	// (rules use lexical containment), then the package is type-checked once more
	for i, f := range files {
		touched := in.droppedFile[f]
		for _, d := range f.Decls {
			if fd, ok := d.(*ast.FuncDecl); ok && in.rewritten[fd] {
				touched = true
			}
		}
		if !touched {
			continue
		}
		pf := *f
		pf.Comments = nil
		var buf bytes.Buffer
		if err := printer.Fprint(&buf, pkg.Fset, &pf); err != nil {
			return nil, fmt.Errorf("printing the inlined variant: %v", err)
		}
		name := pkg.Fset.Position(f.Package).Filename + "#inlined"
		nf, err := parser.ParseFile(pkg.Fset, name, buf.Bytes(), parser.SkipObjectResolution)
		if err != nil {
			return nil, fmt.Errorf("re-parsing the inlined variant: %v", err)
		}
		files[i] = nf
	}
	info = &types.Info{Types: map[ast.Expr]types.TypeAndValue{}, Defs: map[*ast.Ident]types.Object{}, Uses: map[*ast.Ident]types.Object{},
		Implicits: map[ast.Node]types.Object{}, Selections: map[*ast.SelectorExpr]*types.Selection{}, Scopes: map[ast.Node]*types.Scope{}, Instances: map[*ast.Ident]types.Instance{}}
	hard = nil
	tp, _ = conf.Check(pkg.PkgPath, pkg.Fset, files, info)
	if len(hard) > 0 {
		return nil, fmt.Errorf("re-parsed inlined variant of %s does not type-check: %v", pkg.PkgPath, hard[0])
	}
	np := &packages.Package{ID: pkg.ID + "#inlined", Name: pkg.Name, PkgPath: pkg.PkgPath, GoFiles: pkg.GoFiles, CompiledGoFiles: pkg.CompiledGoFiles,
		Imports: pkg.Imports, Types: tp, Fset: pkg.Fset, Syntax: files, TypesInfo: info, TypesSizes: pkg.TypesSizes, Module: pkg.Module}
	res := &InlineResult{Pkg: np}
	for n := range in.inlined {
		res.Inlined = append(res.Inlined, n)
	}
	sort.Strings(res.Inlined)
	inlineCache[key] = res
	return res, nil
}

type mapImporter struct{ pkg *packages.Package }

func (m mapImporter) Import(path string) (*types.Package, error) {
	if path == "unsafe" {
		return types.Unsafe, nil
	}
	if p, ok := m.pkg.Imports[path]; ok && p.Types != nil {
		return p.Types, nil
	}
	return nil, fmt.Errorf("import %q not available", path)
}

// clone deep-copies an AST subtree, recording copy→original for every node.
func (in *inliner) clone(n ast.Node) ast.Node {
	v := in.cloneValue(reflect.ValueOf(n))
	return v.Interface().(ast.Node)
}

var (
	objPtrType   = reflect.TypeOf((*ast.Object)(nil))
	scopePtrType = reflect.TypeOf((*ast.Scope)(nil))
	nodeType     = reflect.TypeOf((*ast.Node)(nil)).Elem()
)

func (in *inliner) cloneValue(v reflect.Value) reflect.Value {
	switch v.Kind() {
	case reflect.Ptr:
		if v.IsNil() {
			return v
		}
		if v.Type() == objPtrType || v.Type() == scopePtrType {
			return reflect.Zero(v.Type())
		}
		nv := reflect.New(v.Type().Elem())
		in.cloneStruct(v.Elem(), nv.Elem())
		if v.Type().Implements(nodeType) {
			orig := v.Interface().(ast.Node)
			if o2, ok := in.origOf[orig]; ok {
				orig = o2 // copy of a copy: keep pointing at the type-checked original
			}
			in.origOf[nv.Interface().(ast.Node)] = orig
		}
		return nv
	case reflect.Interface:
		if v.IsNil() {
			return v
		}
		c := in.cloneValue(v.Elem())
		nv := reflect.New(v.Type()).Elem()
		nv.Set(c)
		return nv
	case reflect.Slice:
		if v.IsNil() {
			return v
		}
		nv := reflect.MakeSlice(v.Type(), v.Len(), v.Len())
		for i := 0; i < v.Len(); i++ {
			nv.Index(i).Set(in.cloneValue(v.Index(i)))
		}
		return nv
	case reflect.Struct:
		nv := reflect.New(v.Type()).Elem()
		in.cloneStruct(v, nv)
		return nv
	default:
		return v
	}
}

func (in *inliner) cloneStruct(src, dst reflect.Value) {
	for i := 0; i < src.NumField(); i++ {
		if !dst.Field(i).CanSet() {
			continue
		}
		dst.Field(i).Set(in.cloneValue(src.Field(i)))
	}
}

// orig returns the type-checked original of a (possibly copied) node.
func (in *inliner) orig(n ast.Node) ast.Node {
	if o, ok := in.origOf[n]; ok {
		return o
	}
	return n
}

func (in *inliner) calleeDecl(call *ast.CallExpr) (*types.Func, *ast.FuncDecl) {
	oc, _ := in.orig(call).(*ast.CallExpr)
	if oc == nil {
		return nil, nil
	}
	f, _ := Callee(in.info, oc).(*types.Func)
	if f == nil || f.Pkg() != in.pkg.Types {
		return nil, nil
	}
	sig := f.Type().(*types.Signature)
	if sig.Variadic() || sig.TypeParams().Len() > 0 || sig.RecvTypeParams().Len() > 0 {
		return nil, nil
	}
	if sel, ok := Unparen(oc.Fun).(*ast.SelectorExpr); ok {
		if s := in.info.Selections[sel]; s != nil {
			if s.Kind() != types.MethodVal || len(s.Index()) != 1 {
				return nil, nil // promoted through embedding or method expression
			}
			if types.IsInterface(s.Recv()) {
				return nil, nil
			}
		}
	}
	d := in.decls[f]
	if d == nil || d.Body == nil {
		return nil, nil
	}
	if InlineExclude != nil && InlineExclude(f) {
		return nil, nil
	}
	// directly recursive helpers are left alone
	selfCall := false
	ast.Inspect(d.Body, func(n ast.Node) bool {
		if c, ok := n.(*ast.CallExpr); ok && Callee(in.info, c) == types.Object(f) {
			selfCall = true
		}
		return true
	})
	if selfCall {
		return nil, nil
	}
	// imported package names used by the helper must mean the same in the file being rewritten
	okImports := true
	ast.Inspect(d, func(n ast.Node) bool {
		if id, ok := n.(*ast.Ident); ok {
			if pn, ok := in.info.Uses[id].(*types.PkgName); ok && in.curImports[pn.Name()] != pn.Imported().Path() {
				okImports = false
			}
		}
		return true
	})
	if !okImports {
		return nil, nil
	}
	return f, d
}

// inlinableBody: no defer/recover/goto/labels that could clash; returns whether the body contains a return.
func inlinableBody(d *ast.FuncDecl) (ok bool, hasReturn bool) {
	ok = true
	allowed := lockDeferOf(d)
	ast.Inspect(d.Body, func(n ast.Node) bool {
		switch x := n.(type) {
		case *ast.FuncLit:
			return false
		case *ast.DeferStmt:
			if x != allowed {
				ok = false
			}
		case *ast.ReturnStmt:
			hasReturn = true
		case *ast.BranchStmt:
			if x.Tok == token.GOTO {
				ok = false
			}
		case *ast.CallExpr:
			if id, isID := x.Fun.(*ast.Ident); isID && id.Name == "recover" {
				ok = false
			}
		}
		return true
	})
	return
}

// lockDeferOf: the helper starts with `X.Lock(); defer X.Unlock()` (or the read-lock pair) on the same X, and that
// is its only defer. Such a helper is inlined as `X.Lock(); body; X.Unlock()` with the unlock placed behind the
// labelled block every return leaves through — the same critical section when nothing panics (a panic inside would
// leave the lock held where the defer released it; no rule reasons about panics while a lock is held).
func lockDeferOf(d *ast.FuncDecl) *ast.DeferStmt {
	if d.Body == nil || len(d.Body.List) < 2 {
		return nil
	}
	es, ok := d.Body.List[0].(*ast.ExprStmt)
	if !ok {
		return nil
	}
	lc, ok := es.X.(*ast.CallExpr)
	if !ok || len(lc.Args) != 0 {
		return nil
	}
	ls, ok := lc.Fun.(*ast.SelectorExpr)
	if !ok {
		return nil
	}
	df, ok := d.Body.List[1].(*ast.DeferStmt)
	if !ok || len(df.Call.Args) != 0 {
		return nil
	}
	us, ok := df.Call.Fun.(*ast.SelectorExpr)
	if !ok || types.ExprString(us.X) != types.ExprString(ls.X) {
		return nil
	}
	if !(ls.Sel.Name == "Lock" && us.Sel.Name == "Unlock" || ls.Sel.Name == "RLock" && us.Sel.Name == "RUnlock") {
		return nil
	}
	n := 0
	ast.Inspect(d.Body, func(x ast.Node) bool {
		if _, isLit := x.(*ast.FuncLit); isLit {
			return false
		}
		if _, isD := x.(*ast.DeferStmt); isD {
			n++
		}
		return true
	})
	if n != 1 {
		return nil
	}
	return df
}

func (in *inliner) rewriteBlock(b *ast.BlockStmt, stack map[*ast.FuncDecl]bool, depth int) {
	if b == nil {
		return
	}
	in.rewriteList(&b.List, stack, depth)
}

func (in *inliner) rewriteList(list *[]ast.Stmt, stack map[*ast.FuncDecl]bool, depth int) {
	var out []ast.Stmt
	for _, s := range *list {
		switch x := s.(type) {
		case *ast.ExprStmt:
			// (A) call statement to a helper without results
			if call, ok := Unparen(x.X).(*ast.CallExpr); ok {
				if _, blk := in.inlineCallStmt(call, stack, depth, false); blk != nil {
					out = append(out, blk)
					continue
				}
			}
		case *ast.AssignStmt:
			// (C) v… := h(…) / v… = h(…) with a multi-statement helper
			if len(x.Rhs) == 1 && (x.Tok == token.DEFINE || x.Tok == token.ASSIGN) {
				if call, ok := Unparen(x.Rhs[0]).(*ast.CallExpr); ok {
					if pre, blk := in.inlineCallStmt(call, stack, depth, true); blk != nil && len(pre.names) == len(x.Lhs) {
						out = append(out, pre.decls...)
						out = append(out, blk)
						x.Rhs = pre.idents(call.Pos())
						out = append(out, x)
						continue
					}
					// (E) v = g(a, h(…), b): a multi-statement helper as one argument of the call on the right-hand
					// side, every other operand a plain variable/selector/literal. Go leaves the order between
					// reading those operands and calling h unspecified, so h may be hoisted in front of the statement.
					if hoisted := in.hoistArg(call, stack, depth); hoisted != nil {
						out = append(out, hoisted...)
						in.rewriteStmt(x, stack, depth)
						out = append(out, x)
						continue
					}
				}
			}
		case *ast.ReturnStmt:
			// `return h(…)` is a tail call: the helper's body replaces the statement and its own return
			// statements return from the enclosing function (no result variables needed)
			if len(x.Results) == 1 {
				if call, ok := Unparen(x.Results[0]).(*ast.CallExpr); ok {
					in.tail = true
					_, blk := in.inlineCallStmt(call, stack, depth, true)
					in.tail = false
					if blk != nil {
						out = append(out, blk)
						continue
					}
				}
			}
		case *ast.DeclStmt:
			// var x = h(…) (also inside a grouped var (...) declaration, which is split into its specs first:
			// local variable specs are evaluated in order, so the split preserves behaviour)
			if gd, ok := x.Decl.(*ast.GenDecl); ok && gd.Tok == token.VAR {
				inlinable := false
				for _, sp := range gd.Specs {
					if vs, ok := sp.(*ast.ValueSpec); ok && len(vs.Values) == 1 && len(vs.Names) >= 1 {
						if call, ok := Unparen(vs.Values[0]).(*ast.CallExpr); ok {
							if _, d := in.calleeDecl(call); d != nil && !stack[d] {
								inlinable = true
							}
						}
					}
				}
				if inlinable {
					for _, sp := range gd.Specs {
						vs, isVS := sp.(*ast.ValueSpec)
						one := &ast.DeclStmt{Decl: &ast.GenDecl{TokPos: gd.TokPos, Tok: token.VAR, Specs: []ast.Spec{sp}}}
						if isVS && len(vs.Values) == 1 {
							if call, ok := Unparen(vs.Values[0]).(*ast.CallExpr); ok {
								if pre, blk := in.inlineCallStmt(call, stack, depth, true); blk != nil && len(pre.names) == len(vs.Names) {
									out = append(out, pre.decls...)
									out = append(out, blk)
									vs.Values = pre.idents(call.Pos())
									out = append(out, one)
									continue
								}
							}
						}
						in.rewriteStmt(one, stack, depth)
						out = append(out, one)
					}
					continue
				}
			}
		case *ast.IfStmt:
			// (D) if h(…) / if !h(…) with a multi-statement helper returning one value: the call is the
			// first thing the statement evaluates, so it can be hoisted in front of it
			if x.Init == nil {
				slot := &x.Cond
				for {
					if p, ok := (*slot).(*ast.ParenExpr); ok {
						slot = &p.X
						continue
					}
					if u, ok := (*slot).(*ast.UnaryExpr); ok && u.Op == token.NOT {
						slot = &u.X
						continue
					}
					break
				}
				if call, ok := (*slot).(*ast.CallExpr); ok {
					if pre, blk := in.inlineCallStmt(call, stack, depth, true); blk != nil && len(pre.names) == 1 {
						out = append(out, pre.decls...)
						out = append(out, blk)
						*slot = pre.idents(call.Pos())[0]
						in.rewriteStmt(x, stack, depth)
						out = append(out, x)
						continue
					}
				}
			}
		}
		in.rewriteStmt(s, stack, depth)
		out = append(out, s)
	}
	*list = out
}

// hoistArg inlines one helper call that is a direct argument of outer (case E) and returns the statements to
// put in front of the enclosing statement; outer's argument is replaced by the result variable.
func (in *inliner) hoistArg(outer *ast.CallExpr, stack map[*ast.FuncDecl]bool, depth int) []ast.Stmt {
	switch Unparen(outer.Fun).(type) {
	case *ast.Ident, *ast.SelectorExpr:
	default:
		return nil
	}
	if sel, ok := Unparen(outer.Fun).(*ast.SelectorExpr); ok && !pureArg(sel.X) {
		return nil
	}
	at := -1
	for i, a := range outer.Args {
		if c, ok := Unparen(a).(*ast.CallExpr); ok {
			if _, d := in.calleeDecl(c); d != nil && !stack[d] && at < 0 {
				at = i
				continue
			}
		}
		if !pureArg(a) && !in.pureMapRead(a) {
			return nil
		}
	}
	if at < 0 {
		return nil
	}
	call := Unparen(outer.Args[at]).(*ast.CallExpr)
	pre, blk := in.inlineCallStmt(call, stack, depth, true)
	if blk == nil || len(pre.names) != 1 {
		return nil
	}
	outer.Args[at] = pre.idents(call.Pos())[0]
	return append(append([]ast.Stmt{}, pre.decls...), blk)
}

// pureMapRead: m[k] with plain m and k on a map (never panics, no side effect).
func (in *inliner) pureMapRead(e ast.Expr) bool {
	ix, ok := Unparen(e).(*ast.IndexExpr)
	if !ok || !pureArg(ix.X) || !pureArg(ix.Index) {
		return false
	}
	oix, _ := in.orig(ix).(*ast.IndexExpr)
	if oix == nil {
		return false
	}
	t := in.info.TypeOf(oix.X)
	if t == nil {
		return false
	}
	_, isMap := t.Underlying().(*types.Map)
	return isMap
}

// resultVars are the fresh variables receiving the results of an inlined helper.
type resultVars struct {
	names []string
	decls []ast.Stmt
}

func (r resultVars) idents(pos token.Pos) []ast.Expr {
	var out []ast.Expr
	for _, n := range r.names {
		out = append(out, &ast.Ident{Name: n, NamePos: pos})
	}
	return out
}

func (in *inliner) rewriteStmt(s ast.Stmt, stack map[*ast.FuncDecl]bool, depth int) {
	// (B) expression-bodied helpers anywhere in the statement (not inside nested statement lists, handled below)
	astutil.Apply(s, func(c *astutil.Cursor) bool {
		switch x := c.Node().(type) {
		case *ast.FuncLit:
			in.rewriteBlock(x.Body, stack, depth)
			return false
		case *ast.BlockStmt:
			if ast.Node(x) != ast.Node(s) {
				in.rewriteList(&x.List, stack, depth)
				return false
			}
			in.rewriteList(&x.List, stack, depth)
			return false
		case *ast.CaseClause:
			for _, e := range x.List {
				_ = e
			}
			in.rewriteList(&x.Body, stack, depth)
			return false
		case *ast.CommClause:
			if x.Comm != nil {
				in.rewriteStmt(x.Comm, stack, depth)
			}
			in.rewriteList(&x.Body, stack, depth)
			return false
		}
		return true
	}, func(c *astutil.Cursor) bool {
		if call, ok := c.Node().(*ast.CallExpr); ok {
			if e := in.inlineExpr(call, stack, depth); e != nil {
				c.Replace(e)
			}
		}
		return true
	})
}

// inlineCallStmt builds the block replacing a statement-level call of a helper. withResults=false
// accepts only helpers without results; withResults=true only helpers with (unnamed) results, whose
// values are left in fresh variables declared by the returned resultVars.
func (in *inliner) inlineCallStmt(call *ast.CallExpr, stack map[*ast.FuncDecl]bool, depth int, withResults bool) (resultVars, ast.Stmt) {
	rv, blk := in.inlineCallStmt0(call, stack, depth, withResults)
	if blk == nil {
		return rv, nil
	}
	return rv, blk
}

func (in *inliner) inlineCallStmt0(call *ast.CallExpr, stack map[*ast.FuncDecl]bool, depth int, withResults bool) (rv resultVars, _ ast.Stmt) {
	tail := in.tail
	in.tail = false
	if depth > 3 {
		return rv, nil
	}
	f, d := in.calleeDecl(call)
	if d == nil || stack[d] {
		return rv, nil
	}
	sig := f.Type().(*types.Signature)
	if (sig.Results().Len() != 0) != withResults {
		return rv, nil
	}
	if withResults {
		if len(d.Body.List) == 1 {
			if r, ok := d.Body.List[0].(*ast.ReturnStmt); ok && len(r.Results) == 1 {
				return rv, nil // expression-bodied: handled by substitution (B)
			}
		}
		for _, fld := range d.Type.Results.List {
			if len(fld.Names) > 0 {
				return rv, nil // named results (bare returns, deferred updates): not handled
			}
		}
	}
	ok, hasRet := inlinableBody(d)
	if !ok {
		return rv, nil
	}
	lockDefer := lockDeferOf(d)
	if lockDefer != nil && tail {
		return rv, nil
	}
	if withResults && !tail {
		in.label++
		for _, fld := range d.Type.Results.List {
			name := fmt.Sprintf("inlined%dr%d", in.label, len(rv.names))
			rv.names = append(rv.names, name)
			spec := &ast.ValueSpec{Names: []*ast.Ident{{Name: name, NamePos: call.Pos()}}, Type: in.clone(fld.Type).(ast.Expr)}
			rv.decls = append(rv.decls, &ast.DeclStmt{Decl: &ast.GenDecl{TokPos: call.Pos(), Tok: token.VAR, Specs: []ast.Spec{spec}}})
		}
	}
	var lhs []ast.Expr
	var rhs []ast.Expr
	pos := call.Pos()
	mk := func(name string) *ast.Ident {
		if name == "" {
			name = "_"
		}
		return &ast.Ident{Name: name, NamePos: pos}
	}
	if d.Recv != nil && len(d.Recv.List) == 1 {
		sel, ok := Unparen(call.Fun).(*ast.SelectorExpr)
		if !ok {
			return rv, nil
		}
		name := ""
		if len(d.Recv.List[0].Names) == 1 {
			name = d.Recv.List[0].Names[0].Name
		}
		x := sel.X
		// automatic & / * on the receiver
		osel := in.orig(sel).(*ast.SelectorExpr)
		xt := in.info.TypeOf(osel.X)
		rt := sig.Recv().Type()
		_, xPtr := xt.Underlying().(*types.Pointer)
		_, rPtr := rt.(*types.Pointer)
		switch {
		case xPtr && !rPtr:
			x = &ast.StarExpr{Star: pos, X: x}
		case !xPtr && rPtr:
			x = &ast.UnaryExpr{OpPos: pos, Op: token.AND, X: x}
		}
		if !in.sameNameUnassigned(d, name, x) {
			lhs = append(lhs, mk(name))
			rhs = append(rhs, x)
		}
	}
	ai := 0
	for _, fld := range d.Type.Params.List {
		names := fld.Names
		if len(names) == 0 {
			names = []*ast.Ident{{Name: "_"}}
		}
		for _, n := range names {
			if ai >= len(call.Args) {
				return rv, nil
			}
			if !in.sameNameUnassigned(d, n.Name, call.Args[ai]) {
				lhs = append(lhs, mk(n.Name))
				arg := call.Args[ai]
				// an untyped constant argument takes the parameter's type in the call; in `p := 0` it would become int
				if tv, ok := in.info.Types[in.orig(arg).(ast.Expr)]; ok && tv.Value != nil {
					if _, isEllipsis := fld.Type.(*ast.Ellipsis); !isEllipsis {
						arg = &ast.CallExpr{Fun: &ast.ParenExpr{X: in.clone(fld.Type).(ast.Expr)}, Lparen: pos, Args: []ast.Expr{arg}, Rparen: pos}
					}
				}
				rhs = append(rhs, arg)
			}
			ai++
		}
	}
	if ai != len(call.Args) {
		return rv, nil
	}
	blk := &ast.BlockStmt{Lbrace: pos, Rbrace: call.End()}
	allBlank := true
	for _, l := range lhs {
		if l.(*ast.Ident).Name != "_" {
			allBlank = false
		}
	}
	if len(lhs) > 0 {
		tok := token.DEFINE
		if allBlank {
			tok = token.ASSIGN
		}
		blk.List = append(blk.List, &ast.AssignStmt{Lhs: lhs, TokPos: pos, Tok: tok, Rhs: rhs})
	}
	body := in.clone(d.Body).(*ast.BlockStmt)
	var unlock ast.Stmt
	if lockDefer != nil {
		unlock = &ast.ExprStmt{X: body.List[1].(*ast.DeferStmt).Call}
		body.List = append(body.List[:1:1], body.List[2:]...)
	}
	nstack := map[*ast.FuncDecl]bool{d: true}
	for k := range stack {
		nstack[k] = true
	}
	if tail {
		// returns stay returns
		blk.List = append(blk.List, body)
		in.rewriteList(&body.List, nstack, depth+1)
	} else if hasRet {
		in.label++
		lab := fmt.Sprintf("inlined%d", in.label)
		replaceReturns(body, lab, rv.names)
		sw := &ast.SwitchStmt{Switch: pos, Body: &ast.BlockStmt{Lbrace: pos, Rbrace: call.End(), List: []ast.Stmt{&ast.CaseClause{Case: pos, Colon: pos, Body: body.List}}}}
		blk.List = append(blk.List, &ast.LabeledStmt{Label: &ast.Ident{Name: lab, NamePos: pos}, Colon: pos, Stmt: sw})
		in.rewriteList(&sw.Body.List[0].(*ast.CaseClause).Body, nstack, depth+1)
	} else {
		blk.List = append(blk.List, body)
		in.rewriteList(&body.List, nstack, depth+1)
	}
	if unlock != nil {
		blk.List = append(blk.List, unlock)
	}
	in.inlined[FuncDisplay(f)] = true
	in.inlinedObj[f] = true
	in.count++
	return rv, blk
}

// sameNameUnassigned: the argument is a plain identifier spelled like the parameter, and the helper never
// assigns that parameter (nor takes its address): the helper's body can then read the caller's variable
// directly, and no rebinding `x := x` is needed — rules that recognise a parameter of the enclosing
// function (a flag, a clock) keep recognising it inside the inlined body.
func (in *inliner) sameNameUnassigned(d *ast.FuncDecl, param string, arg ast.Expr) bool {
	id, ok := Unparen(arg).(*ast.Ident)
	if !ok || param == "" || param == "_" || id.Name != param {
		return false
	}
	var pobj types.Object
	check := func(fl *ast.FieldList) {
		if fl == nil {
			return
		}
		for _, f := range fl.List {
			for _, n := range f.Names {
				if n.Name == param {
					pobj = in.info.Defs[n]
				}
			}
		}
	}
	check(d.Recv)
	check(d.Type.Params)
	if pobj == nil {
		return false
	}
	assigned := false
	ast.Inspect(d.Body, func(n ast.Node) bool {
		switch x := n.(type) {
		case *ast.AssignStmt:
			for _, l := range x.Lhs {
				if li, ok := Unparen(l).(*ast.Ident); ok && (in.info.Uses[li] == pobj || in.info.Defs[li] == pobj) {
					assigned = true
				}
			}
		case *ast.IncDecStmt:
			if li, ok := Unparen(x.X).(*ast.Ident); ok && in.info.Uses[li] == pobj {
				assigned = true
			}
		case *ast.UnaryExpr:
			if li, ok := Unparen(x.X).(*ast.Ident); ok && x.Op == token.AND && in.info.Uses[li] == pobj {
				assigned = true
			}
		case *ast.RangeStmt:
			for _, e := range []ast.Expr{x.Key, x.Value} {
				if li, ok := e.(*ast.Ident); ok && e != nil && in.info.Uses[li] == pobj {
					assigned = true
				}
			}
		}
		return true
	})
	return !assigned
}

func replaceReturns(body *ast.BlockStmt, label string, res []string) {
	astutil.Apply(body, func(c *astutil.Cursor) bool {
		switch x := c.Node().(type) {
		case *ast.FuncLit:
			return false
		case *ast.ReturnStmt:
			br := &ast.BranchStmt{TokPos: x.Pos(), Tok: token.BREAK, Label: &ast.Ident{Name: label, NamePos: x.Pos()}}
			if len(res) == 0 || len(x.Results) == 0 {
				c.Replace(br)
				return false
			}
			var lhs []ast.Expr
			for _, n := range res {
				lhs = append(lhs, &ast.Ident{Name: n, NamePos: x.Pos()})
			}
			as := &ast.AssignStmt{Lhs: lhs, TokPos: x.Pos(), Tok: token.ASSIGN, Rhs: x.Results}
			c.Replace(&ast.BlockStmt{Lbrace: x.Pos(), List: []ast.Stmt{as, br}, Rbrace: x.End()})
			return false
		}
		return true
	}, nil)
}

// pureArg: evaluating the expression has no effect and its value cannot change between uses within a statement.
func pureArg(e ast.Expr) bool {
	switch x := Unparen(e).(type) {
	case *ast.Ident, *ast.BasicLit:
		return true
	case *ast.SelectorExpr:
		return pureArg(x.X)
	case *ast.UnaryExpr:
		return (x.Op == token.AND || x.Op == token.SUB || x.Op == token.NOT) && pureArg(x.X)
	case *ast.StarExpr:
		return pureArg(x.X)
	}
	return false
}

func (in *inliner) inlineExpr(call *ast.CallExpr, stack map[*ast.FuncDecl]bool, depth int) ast.Expr {
	if depth > 3 {
		return nil
	}
	f, d := in.calleeDecl(call)
	if d == nil || stack[d] || len(d.Body.List) != 1 {
		return nil
	}
	ret, ok := d.Body.List[0].(*ast.ReturnStmt)
	if !ok || len(ret.Results) != 1 {
		return nil
	}
	sig := f.Type().(*types.Signature)
	if sig.Results().Len() != 1 {
		return nil
	}
	hasLit := false
	ast.Inspect(ret.Results[0], func(n ast.Node) bool {
		if _, ok := n.(*ast.FuncLit); ok {
			hasLit = true
		}
		return true
	})
	if hasLit {
		return nil
	}
	subst := map[types.Object]ast.Expr{}
	if d.Recv != nil && len(d.Recv.List) == 1 {
		sel, ok := Unparen(call.Fun).(*ast.SelectorExpr)
		if !ok || !pureArg(sel.X) {
			return nil
		}
		osel := in.orig(sel).(*ast.SelectorExpr)
		xt := in.info.TypeOf(osel.X)
		_, xPtr := xt.Underlying().(*types.Pointer)
		_, rPtr := sig.Recv().Type().(*types.Pointer)
		x := sel.X
		switch {
		case xPtr && !rPtr:
			x = &ast.StarExpr{Star: call.Pos(), X: x}
		case !xPtr && rPtr:
			x = &ast.UnaryExpr{OpPos: call.Pos(), Op: token.AND, X: x}
		}
		if len(d.Recv.List[0].Names) == 1 {
			if o := in.info.Defs[d.Recv.List[0].Names[0]]; o != nil {
				subst[o] = x
			}
		}
	}
	ai := 0
	for _, fld := range d.Type.Params.List {
		names := fld.Names
		if len(names) == 0 {
			names = []*ast.Ident{nil}
		}
		for _, n := range names {
			if ai >= len(call.Args) || !pureArg(call.Args[ai]) {
				return nil
			}
			if n != nil {
				if o := in.info.Defs[n]; o != nil {
					subst[o] = call.Args[ai]
				}
			}
			ai++
		}
	}
	if ai != len(call.Args) {
		return nil
	}
	body := in.clone(ret.Results[0]).(ast.Expr)
	holder := &ast.ParenExpr{Lparen: call.Pos(), X: body, Rparen: call.End()}
	astutil.Apply(holder, nil, func(c *astutil.Cursor) bool {
		if id, ok := c.Node().(*ast.Ident); ok {
			if oid, ok := in.orig(id).(*ast.Ident); ok {
				if o := in.info.Uses[oid]; o != nil {
					if e, ok := subst[o]; ok {
						if _, isField := c.Parent().(*ast.SelectorExpr); isField && c.Name() == "Sel" {
							return true
						}
						c.Replace(&ast.ParenExpr{Lparen: id.Pos(), X: in.clone(e).(ast.Expr), Rparen: id.End()})
					}
				}
			}
		}
		return true
	})
	in.inlined[FuncDisplay(f)] = true
	in.inlinedObj[f] = true
	in.count++
	return holder
}
