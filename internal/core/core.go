// Package core: loader, obligations, verdicts, evidence and known-findings handling
// shared by every property check (DESIGN.md section 2).
package core

import (
	"bufio"
	"encoding/json"
	"fmt"
	"go/ast"
	"go/token"
	"go/types"
	"os"
	"path/filepath"
	"sort"
	"strconv"
	"strings"
	"time"

	"golang.org/x/tools/go/packages"
)

const ModPath = "github.com/grafana/dskit"

// Status of one obligation.
const (
	Holds     = "holds"
	Violated  = "violated"
	Undecided = "undecided"
	Missing   = "anchor-missing"
)

// Obligation is one rule instance, keyed by rule+construct (never by line).
type Obligation struct {
	Key        string `json:"key"`
	Rule       string `json:"rule"`
	Status     string `json:"status"`
	Pos        string `json:"pos,omitempty"`
	Func       string `json:"func,omitempty"`
	Detail     string `json:"detail,omitempty"`
	Evals      int    `json:"evaluations,omitempty"` // truth-table rows / paths / sites evaluated for this instance
	Nontrivial bool   `json:"nontrivial,omitempty"`
	Known      bool   `json:"known_finding,omitempty"`
}

// Program is the loaded, type-checked source of /repo.
type Program struct {
	Fset   *token.FileSet
	Pkgs   []*packages.Package          // roots
	ByPath map[string]*packages.Package // all packages reachable (import path -> pkg)
	Repo   string
	Whole  bool // whole module loaded from source (thorough)
	// Override substitutes behaviour-preserving normal forms (helpers inlined) of packages during the
	// fallback evaluation of a property (import path -> variant).
	Override map[string]*packages.Package
}

// Ctx is the state of one check run.
type Ctx struct {
	Prop   string
	Tier   string
	Repo   string
	Verif  string
	Out    string // directory receiving evidence/ and replay/ (default: Verif)
	Prog   *Program
	Obs    []*Obligation
	keys   map[string]int
	alias  map[string]string
	Rules  map[string]string // rule id -> rule text
	Mins   map[string]int    // rule id -> hand-confirmed minimum instance count
	Funcs  map[string]bool   // functions analysed
	Notes  []string
	Extra  map[string]any
	start  time.Time
	Fatal  []string
	Expl   string
	Assume []string
}

func NewCtx(prop, tier, repo, verif string) *Ctx {
	return &Ctx{Prop: prop, Tier: tier, Repo: repo, Verif: verif, keys: map[string]int{}, Rules: map[string]string{},
		Mins: map[string]int{}, Funcs: map[string]bool{}, Extra: map[string]any{}, start: time.Now()}
}

// Load type-checks the given package patterns (relative to the repo root, e.g. "./ring").
// whole=true loads every dependency from source (needed for SSA/VTA over the whole module).
func Load(repo string, whole bool, patterns ...string) (*Program, error) {
	mode := packages.NeedName | packages.NeedFiles | packages.NeedCompiledGoFiles | packages.NeedImports |
		packages.NeedTypes | packages.NeedTypesSizes | packages.NeedSyntax | packages.NeedTypesInfo | packages.NeedModule
	if whole {
		mode |= packages.NeedDeps
	}
	fset := token.NewFileSet()
	cfg := &packages.Config{Mode: mode, Dir: repo, Fset: fset, Tests: false,
		Env: append(os.Environ(), "GOWORK=off")}
	pkgs, err := packages.Load(cfg, patterns...)
	if err != nil {
		return nil, err
	}
	if len(pkgs) == 0 {
		return nil, fmt.Errorf("no packages loaded for %v", patterns)
	}
	p := &Program{Fset: fset, Pkgs: pkgs, ByPath: map[string]*packages.Package{}, Repo: repo, Whole: whole}
	var errs []string
	packages.Visit(pkgs, nil, func(pk *packages.Package) {
		p.ByPath[pk.PkgPath] = pk
		if strings.HasPrefix(pk.PkgPath, ModPath) {
			for _, e := range pk.Errors {
				errs = append(errs, e.Error())
			}
		}
	})
	for _, pk := range pkgs {
		if len(pk.GoFiles) == 0 {
			continue // test-only package
		}
		if len(pk.Syntax) == 0 {
			errs = append(errs, "no syntax for "+pk.PkgPath)
		}
		if pk.Types == nil || pk.TypesInfo == nil {
			errs = append(errs, "no types for "+pk.PkgPath)
		}
	}
	if len(errs) > 0 {
		if len(errs) > 10 {
			errs = errs[:10]
		}
		return nil, fmt.Errorf("load/type errors: %s", strings.Join(errs, "; "))
	}
	return p, nil
}

// Pkg returns the root package with the module-relative path (e.g. "ring", "kv/memberlist").
func (p *Program) Pkg(rel string) *packages.Package {
	full := ModPath
	if rel != "" && rel != "." {
		full += "/" + rel
	}
	pk := p.ByPath[full]
	if v := p.Override[full]; v != nil {
		pk = v
	}
	if pk == nil || len(pk.Syntax) == 0 {
		return nil
	}
	return pk
}

func (p *Program) PosStr(pos token.Pos) string {
	if !pos.IsValid() {
		return ""
	}
	ps := p.Fset.Position(pos)
	rel, err := filepath.Rel(p.Repo, ps.Filename)
	if err != nil {
		rel = ps.Filename
	}
	return fmt.Sprintf("%s:%d", rel, ps.Line)
}

// ---------------------------------------------------------------- obligations

func (c *Ctx) Rule(id, text string, min int) {
	c.Rules[id] = text
	c.Mins[id] = min
}

// As runs f with every obligation it records under rule id `from` recorded under `to` instead: a rule written for
// one property is evaluated as a rule of another property whose statement depends on the same fact.
func (c *Ctx) As(from, to string, f func()) {
	if c.alias == nil {
		c.alias = map[string]string{}
	}
	old, had := c.alias[from]
	c.alias[from] = to
	defer func() {
		if had {
			c.alias[from] = old
		} else {
			delete(c.alias, from)
		}
	}()
	f()
}

func (c *Ctx) add(rule, construct, status string, pos token.Pos, detail string, evals int, nontrivial bool) *Obligation {
	if to, ok := c.alias[rule]; ok {
		rule = to
	}
	key := c.Prop + "." + rule + ":" + construct
	if n := c.keys[key]; n > 0 {
		c.keys[key] = n + 1
		key = fmt.Sprintf("%s#%d", key, n+1)
	} else {
		c.keys[key] = 1
	}
	ps := ""
	if c.Prog != nil {
		ps = c.Prog.PosStr(pos)
	}
	o := &Obligation{Key: key, Rule: c.Prop + "." + rule, Status: status, Pos: ps, Detail: detail, Evals: evals, Nontrivial: nontrivial}
	c.Obs = append(c.Obs, o)
	return o
}

func (c *Ctx) Hold(rule, construct string, pos token.Pos, detail string, evals int) {
	c.add(rule, construct, Holds, pos, detail, evals, true)
}
func (c *Ctx) HoldTrivial(rule, construct string, pos token.Pos, detail string) {
	c.add(rule, construct, Holds, pos, detail, 1, false)
}
func (c *Ctx) Viol(rule, construct string, pos token.Pos, detail string) {
	c.add(rule, construct, Violated, pos, detail, 1, true)
}
func (c *Ctx) Undec(rule, construct string, pos token.Pos, detail string) {
	c.add(rule, construct, Undecided, pos, detail, 1, true)
}
func (c *Ctx) Miss(rule, construct string, detail string) {
	c.add(rule, construct, Missing, token.NoPos, detail, 1, true)
}

// Check records holds when ok, violated otherwise.
func (c *Ctx) Check(ok bool, rule, construct string, pos token.Pos, detail string, evals int) bool {
	if ok {
		c.Hold(rule, construct, pos, detail, evals)
	} else {
		c.Viol(rule, construct, pos, detail)
	}
	return ok
}

func (c *Ctx) Analysed(fn string) { c.Funcs[fn] = true }

// Mark / Rollback / HoldSince make a group of obligations transactional: a rule can be evaluated on
// the tree as written and, when something does not hold, re-evaluated on a behaviour-preserving
// normal form (helpers inlined); the second result replaces the first only when it holds entirely.
type Mark struct {
	n    int
	keys map[string]int
}

func (c *Ctx) Mark() Mark {
	k := make(map[string]int, len(c.keys))
	for a, b := range c.keys {
		k[a] = b
	}
	return Mark{n: len(c.Obs), keys: k}
}

// Dropped is what a Rollback removed; Restore puts it back.
type Dropped struct {
	obs  []*Obligation
	keys map[string]int
}

func (c *Ctx) Rollback(m Mark) Dropped {
	d := Dropped{obs: append([]*Obligation(nil), c.Obs[m.n:]...), keys: c.keys}
	c.Obs = c.Obs[:m.n]
	c.keys = m.keys
	return d
}

// Restore re-appends obligations removed by Rollback (after rolling back the later attempt).
func (c *Ctx) Restore(d Dropped) {
	c.Obs = append(c.Obs, d.obs...)
	c.keys = d.keys
}

func (c *Ctx) HoldSince(m Mark) bool {
	perRule := map[string]int{}
	for _, o := range c.Obs[m.n:] {
		if o.Status != Holds {
			return false
		}
		perRule[o.Rule]++
	}
	// a rule that matched fewer instances than its hand-confirmed minimum does not hold either
	// (only meaningful for a mark taken before the property's rules ran)
	if m.n == 0 {
		for id, min := range c.Mins {
			if perRule[c.Prop+"."+id] < min {
				return false
			}
		}
	}
	return true
}

// Note records a free-text note in the evidence.
func (c *Ctx) Note(s string) { c.Notes = append(c.Notes, s) }

// ---------------------------------------------------------------- known findings

type finding struct {
	prop, key, text string
}

func loadFindings(path string) ([]finding, error) {
	f, err := os.Open(path)
	if err != nil {
		if os.IsNotExist(err) {
			return nil, nil
		}
		return nil, err
	}
	defer f.Close()
	var out []finding
	sc := bufio.NewScanner(f)
	sc.Buffer(make([]byte, 1<<20), 1<<20)
	for sc.Scan() {
		line := strings.TrimSpace(sc.Text())
		if !strings.HasPrefix(line, "finding:") {
			continue
		}
		fs := strings.Fields(strings.TrimPrefix(line, "finding:"))
		var fd finding
		rest := []string{}
		for _, w := range fs {
			switch {
			case strings.HasPrefix(w, "property=") && fd.prop == "":
				fd.prop = strings.TrimPrefix(w, "property=")
			case strings.HasPrefix(w, "key=") && fd.key == "":
				fd.key = strings.TrimPrefix(w, "key=")
			default:
				rest = append(rest, w)
			}
		}
		fd.text = strings.Join(rest, " ")
		if fd.prop != "" && fd.key != "" {
			out = append(out, fd)
		}
	}
	return out, sc.Err()
}

// ---------------------------------------------------------------- finish: verdict, evidence, replay

type evidence struct {
	PropertyID  string         `json:"property_id"`
	Tier        string         `json:"tier"`
	Seed        int            `json:"seed"`
	Level       string         `json:"level"`
	Coverage    map[string]any `json:"coverage"`
	Assumptions []string       `json:"assumptions"`
	WallS       float64        `json:"wall_s"`
	Violations  int            `json:"violations"`
}

// Finish evaluates min counts, applies known findings, writes evidence and replay, prints the verdict
// and returns the process exit code.
func (c *Ctx) Finish() int {
	// fatal (loader/type errors, panics) -> exit 2, still write evidence for diagnosability
	findings, ferr := loadFindings(filepath.Join(c.Verif, "known_findings.txt"))
	if ferr != nil {
		c.Fatal = append(c.Fatal, "known_findings.txt: "+ferr.Error())
	}
	perRule := map[string]int{}
	for _, o := range c.Obs {
		if o.Status == Holds || o.Status == Violated {
			perRule[o.Rule]++
		}
	}
	ruleIDs := make([]string, 0, len(c.Rules))
	for id := range c.Rules {
		ruleIDs = append(ruleIDs, id)
	}
	sort.Strings(ruleIDs)
	for _, id := range ruleIDs {
		full := c.Prop + "." + id
		if perRule[full] < c.Mins[id] {
			c.add(id, "min-instances", Undecided, token.NoPos,
				fmt.Sprintf("rule matched %d instances, hand-confirmed minimum is %d: the rule would pass vacuously (anchor moved or idiom no longer recognised)", perRule[full], c.Mins[id]), 1, true)
		}
	}
	bad := []*Obligation{}
	known := []*Obligation{}
	for _, o := range c.Obs {
		if o.Status == Holds {
			continue
		}
		matched := false
		for _, f := range findings {
			if f.prop == c.Prop && f.key == o.Key {
				o.Known = true
				matched = true
				fmt.Printf("KNOWN-FINDING: property=%s %s [%s %s]\n", c.Prop, f.text, o.Key, o.Pos)
				break
			}
		}
		if matched {
			known = append(known, o)
		} else {
			bad = append(bad, o)
		}
	}
	evals, nontriv, discharged := 0, 0, 0
	seen := map[string]bool{}
	for _, o := range c.Obs {
		evals += max(o.Evals, 1)
		if o.Status == Holds {
			discharged++
		}
		if o.Nontrivial && !seen[o.Key] {
			seen[o.Key] = true
			nontriv++
		}
	}
	samples := []any{}
	// sample: first two obligations of each rule (all non-holding ones are always included)
	cnt := map[string]int{}
	for _, o := range c.Obs {
		if o.Status != Holds || cnt[o.Rule] < 2 {
			samples = append(samples, o)
			cnt[o.Rule]++
		}
	}
	rules := []string{}
	for _, id := range ruleIDs {
		rules = append(rules, fmt.Sprintf("%s.%s [instances=%d, min=%d]: %s", c.Prop, id, perRule[c.Prop+"."+id], c.Mins[id], c.Rules[id]))
	}
	fns := make([]string, 0, len(c.Funcs))
	for f := range c.Funcs {
		fns = append(fns, f)
	}
	sort.Strings(fns)
	pk := []string{}
	if c.Prog != nil {
		for _, p := range c.Prog.Pkgs {
			pk = append(pk, p.PkgPath)
		}
		sort.Strings(pk)
	}
	cov := map[string]any{
		"explanation":         c.Expl,
		"obligations":         len(c.Obs),
		"discharged":          discharged,
		"evaluations":         evals,
		"distinct_nontrivial": nontriv,
		"rule": "one obligation per rule+construct found in the current source of /repo; evaluations = truth-table rows, CFG paths/blocks or sites evaluated across obligations; " +
			"distinct_nontrivial = distinct obligation keys whose check had content (a guard table, a path query, a census site), excluding bookkeeping obligations",
		"rules":              rules,
		"samples":            samples,
		"packages":           pk,
		"functions_analysed": fns,
		"trusted_base":       []string{"go/types (go1.26.8)", "golang.org/x/tools v0.50.0 go/packages, go/cfg, go/ssa, callgraph/vta", "the rule tables in /verif/internal/props"},
		"checker_cmd":        fmt.Sprintf("./run.sh %s %s", c.Prop, c.Tier),
		"known_findings":     len(known),
		"notes":              c.Notes,
		"fatal":              c.Fatal,
	}
	for k, v := range c.Extra {
		cov[k] = v
	}
	seed := 0
	if v, err := strconv.Atoi(os.Getenv("VERIF_SEED")); err == nil {
		seed = v // recorded only: the analysis makes no random choices
	}
	ev := evidence{PropertyID: c.Prop, Tier: c.Tier, Seed: seed, Level: "other", Coverage: cov, Assumptions: c.Assume,
		WallS: time.Since(c.start).Seconds(), Violations: len(bad)}
	if ev.Assumptions == nil {
		ev.Assumptions = []string{}
	}
	if c.Out == "" {
		c.Out = c.Verif
	}
	_ = os.MkdirAll(filepath.Join(c.Out, "evidence"), 0o755)
	writeJSON(filepath.Join(c.Out, "evidence", c.Prop+".json"), ev)

	fmt.Printf("%s %s: %d obligations, %d hold, %d known findings, %d not holding; %d functions analysed; %.1fs\n",
		c.Prop, c.Tier, len(c.Obs), discharged, len(known), len(bad), len(fns), ev.WallS)
	for _, id := range ruleIDs {
		fmt.Printf("  rule %s.%s: %d instances (min %d)\n", c.Prop, id, perRule[c.Prop+"."+id], c.Mins[id])
	}
	if len(c.Fatal) > 0 {
		for _, f := range c.Fatal {
			fmt.Printf("FATAL %s: %s\n", c.Prop, f)
		}
		return 2
	}
	if len(bad) > 0 {
		_ = os.MkdirAll(filepath.Join(c.Out, "replay"), 0o755)
		rp := filepath.Join(c.Out, "replay", c.Prop+"-"+c.Tier+".json")
		writeJSON(rp, map[string]any{"property": c.Prop, "tier": c.Tier, "not_holding": bad,
			"how_to_replay": fmt.Sprintf("cd %s && ./run.sh %s %s   (re-analyses /repo's current source; the obligations below name the construct)", c.Verif, c.Prop, c.Tier)})
		for _, o := range bad {
			fmt.Printf("  %s %s at %s: %s\n", strings.ToUpper(o.Status), o.Key, o.Pos, o.Detail)
		}
		fmt.Printf("VIOLATION property=%s replay=%s\n", c.Prop, rp)
		return 1
	}
	return 0
}

func writeJSON(path string, v any) {
	b, err := json.MarshalIndent(v, "", " ")
	if err != nil {
		fmt.Fprintln(os.Stderr, "marshal:", err)
		return
	}
	if err := os.WriteFile(path, append(b, '\n'), 0o644); err != nil {
		fmt.Fprintln(os.Stderr, "write:", err)
	}
}

// ---------------------------------------------------------------- small shared helpers

// FuncName returns a stable display name: pkg.(*T).M or pkg.F
func FuncName(fn *types.Func) string {
	if fn == nil {
		return "<nil>"
	}
	sig, _ := fn.Type().(*types.Signature)
	pk := ""
	if fn.Pkg() != nil {
		pk = strings.TrimPrefix(fn.Pkg().Path(), ModPath+"/")
	}
	if sig != nil && sig.Recv() != nil {
		t := sig.Recv().Type()
		ptr := ""
		if p, ok := t.(*types.Pointer); ok {
			t = p.Elem()
			ptr = "*"
		}
		name := t.String()
		if n, ok := t.(*types.Named); ok {
			name = n.Obj().Name()
		}
		return fmt.Sprintf("%s.(%s%s).%s", pk, ptr, name, fn.Name())
	}
	return pk + "." + fn.Name()
}

var _ = ast.Inspect
