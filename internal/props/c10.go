package props

import (
	"fmt"
	"go/ast"
	"go/constant"
	"go/types"
	"strings"

	"dsverif/internal/an"
	"dsverif/internal/core"
)

func init() {
	Registry["C10"] = Prop{
		Patterns: []string{"./ring", "./concurrency", "./grpcutil"},
		Run:      runC10,
		Explanation: "Decides structural necessary conditions of 'batched quorum writes always finish, with quorum per key' in ring.DoBatchWithOptions and batchTracker.record: (R1) the completion latch cannot be armed with a zero count: the wait is unreachable for an empty key list and the pending counter is initialised with the number of keys; " +
			"(R2) every send on the done/err channels is guarded by the single-winner atomic test and the channels have capacity ≥ 1, so no recording goroutine can block; (R3) on every entry→return path Cleanup is invoked exactly once (directly, or by the one goroutine that first waits for the wait group); " +
			"(R4) wg.Add(len(instances)) dominates the spawn loop over the same collection and each spawned closure calls the callback once, records, then Done on every path, with the loop instance's own descriptor/indexes/trackers; (R5) fields used by record are atomics or written only before the first spawn; (R6) no error return after the first spawn; " +
			"(R7) per-instance slices are freshly allocated or appended (no un-capped sub-slice of a shared array); (R8) per-key counters are initialised from the same replication set whose instances are iterated. Also: (R9) DoBatch is a pure delegation to DoBatchWithOptions (no second batching path); (R12) the default error classifier sees through wrapped errors and is what DoBatch and defaulted options use; (R13) spawners handed to DoBatch never run the workload on the caller's goroutine; the emptiness guard counts every registered instance. NOT decided: the quorum arithmetic beyond the decision tables of R10/R11 (orderings of the counters against minSuccess/maxFailures), which of several errors is returned.",
	}
}

func runC10(c *core.Ctx) {
	c.Rule("R1", "zero-count latch: wait unreachable with no keys; pending counter = number of keys", 2)
	c.Rule("R2", "single-winner signalling on buffered channels", 4)
	c.Rule("R3", "Cleanup exactly once on every path; the deferred cleanup waits for the wait group", 2)
	c.Rule("R4", "wait-group balance and per-instance argument identity in the spawn loop", 3)
	c.Rule("R5", "record touches only atomics or write-once-before-spawn fields", 1)
	c.Rule("R6", "no return between the first spawn and the final wait", 1)
	c.Rule("R7", "per-instance slices are fresh allocations or appends", 2)
	c.Rule("R8", "per-key counters initialised from the replication set that is iterated", 3)
	c.Rule("R9", "DoBatch is a pure delegation to DoBatchWithOptions (no second batching path)", 1)
	c.Rule("R10", "per-key decision table of batchTracker.record (immediate error on tolerance exceeded, error at the last replica, success at quorum)", 1)
	c.Rule("R13", "spawners handed to DoBatch never run the workload on the caller's goroutine; the emptiness guard counts every registered instance", 3)
	c.Rule("R12", "the default error classifier sees through every wrapper (errors.As), is what DoBatch and defaulted options use, and is never wrapped", 3)
	c.Rule("R11", "recordError stores every error and counts it in exactly one family", 1)
	pkg := c.Prog.Pkg("ring")
	defer c10Decision(c)
	defer c10Classifier(c)
	defer c10Spawners(c)
	fn := an.FindFunc(pkg, "DoBatchWithOptions")
	rec := an.FindFunc(pkg, "batchTracker.record")
	if fn == nil || rec == nil {
		c.Miss("R1", "func=DoBatchWithOptions/batchTracker.record", "not found")
		return
	}
	c.Analysed(fn.String())
	c.Analysed(rec.String())
	if db := an.FindFunc(pkg, "DoBatch"); db != nil {
		c.Analysed(db.String())
		ok, rc := false, ""
		for _, b := range db.Graph().Blocks {
			if r := an.ReturnOf(b); r != nil && len(r.Results) == 1 {
				rc = db.Canon(r.Results[0])
				ok = strings.HasPrefix(rc, "DoBatchWithOptions(p0, p1, p2, p3, p4, DoBatchOptions{") && strings.Contains(rc, "Cleanup: p5")
			}
		}
		c.Check(ok && len(db.Body().List) == 1, "R9", "func=DoBatch", db.Pos(), "DoBatch = return DoBatchWithOptions(ctx, op, r, keys, callback, {Cleanup: cleanup, …}): "+rc, 1)
	} else {
		c.Miss("R9", "func=DoBatch", "not found")
	}
	g := fn.Graph()
	sig := fn.Obj.Type().(*types.Signature)
	keysP, optP, cbP := "", "", ""
	for i := 0; i < sig.Params().Len(); i++ {
		p := sig.Params().At(i)
		switch {
		case p.Type().String() == "[]uint32":
			keysP = fmt.Sprintf("p%d", i)
		case strings.HasSuffix(p.Type().String(), "ring.DoBatchOptions"):
			optP = fmt.Sprintf("p%d", i)
		}
		if _, ok := p.Type().Underlying().(*types.Signature); ok {
			cbP = fmt.Sprintf("p%d", i)
		}
	}
	if keysP == "" || optP == "" || cbP == "" {
		c.Miss("R1", "func=DoBatchWithOptions:params", "keys / options / callback parameters not recognised")
		return
	}
	// the final select
	var sel *ast.SelectStmt
	fn.InspectShallow(func(n ast.Node) bool {
		if s, ok := n.(*ast.SelectStmt); ok {
			sel = s
		}
		return true
	})
	if sel == nil || len(sel.Body.List) == 0 {
		c.Undec("R1", "func=DoBatchWithOptions:wait", fn.Pos(), "final select not found")
		return
	}
	var selLoc an.Loc
	waitsDone := false
	for _, cl := range sel.Body.List {
		cc := cl.(*ast.CommClause)
		if cc.Comm != nil {
			if !selLoc.Valid() {
				selLoc = g.Locate(cc.Comm)
			}
			if strings.Contains(fn.Canon(commRecv(cc.Comm)), ".done") {
				waitsDone = true
			}
		}
	}
	// R1
	t := an.Table{G: g, From: g.EntryLoc(), MayOnly: true, Atoms: []an.Atom{{Name: "nkeys", Values: []string{"eq", "gt"}}},
		Binder: &an.Binder{Fn: fn, Cmp: map[string]string{"len(" + keysP + ")|0": "nkeys"}}, Targets: []an.Loc{selLoc}, Names: []string{"wait for done/err"},
		Want: func(r an.Row, _ int) an.Tri { return an.FromBool(r["nkeys"] == "gt") }}
	res := t.Run()
	c.Check(res.OK() && waitsDone, "R1", "func=DoBatchWithOptions:zero-keys", sel.Pos(), "the blocking wait is unreachable when len(keys)==0 (nothing would ever signal done): "+res.Summary(), res.Rows)
	var pendingInit string
	for _, call := range fn.Calls(false) {
		if s, ok := call.Expr.Fun.(*ast.SelectorExpr); ok && s.Sel.Name == "Store" && strings.HasSuffix(fn.Canon(s.X), ".rpcsPending") && len(call.Expr.Args) == 1 {
			pendingInit = fn.Canon(call.Expr.Args[0])
		}
	}
	c.Check(pendingInit == "len(make([]itemTracker, len("+keysP+")))", "R1", "func=DoBatchWithOptions:pending-init", fn.Pos(), "rpcsPending initialised with "+pendingInit+" (must be the number of keys = number of item trackers)", 1)

	// R2
	rg := rec.Graph()
	var sends []*ast.SendStmt
	rec.InspectShallow(func(n ast.Node) bool {
		if s, ok := n.(*ast.SendStmt); ok {
			sends = append(sends, s)
		}
		return true
	})
	loops := []*ast.RangeStmt{}
	rec.InspectShallow(func(n ast.Node) bool {
		if rs, ok := n.(*ast.RangeStmt); ok {
			loops = append(loops, rs)
		}
		return true
	})
	if len(loops) != 1 || len(sends) < 2 {
		c.Undec("R2", "func=record", rec.Pos(), fmt.Sprintf("expected one loop and ≥2 sends in record, found %d/%d", len(loops), len(sends)))
	} else {
		header, body, _ := rg.LoopBlocks(loops[0])
		for i, s := range sends {
			ch := rec.Canon(s.Chan)
			var guard, atomKey string
			switch ch {
			case "recv.err":
				guard, atomKey = "rpcsFailed.Inc() == 1", "recv.rpcsFailed.Inc()|1"
			case "recv.done":
				guard, atomKey = "rpcsPending.Dec() == 0", "recv.rpcsPending.Dec()|0"
			default:
				c.Undec("R2", fmt.Sprintf("send#%d", i), s.Pos(), "send on unexpected channel "+ch)
				continue
			}
			tb := an.Table{G: rg, From: an.Loc{B: body, I: 0}, Opts: an.ExecOpts{Header: header}, MayOnly: true,
				Atoms: []an.Atom{{Name: "winner", Values: []string{"T", "F"}}}, Binder: &an.Binder{Fn: rec, Eq: map[string]string{atomKey: "winner"}},
				Targets: []an.Loc{rg.Locate(s)}, Names: []string{"send on " + ch},
				Want: func(r an.Row, _ int) an.Tri { return an.FromBool(r["winner"] == "T") }}
			r := tb.Run()
			c.Check(r.OK(), "R2", fmt.Sprintf("send=%s#%d", ch, i), s.Pos(), "send is control-dependent on "+guard+": "+r.Summary(), r.Rows)
		}
	}
	// capacities
	for _, call := range fn.CallsTo(false, "", "make") {
		if _, isChan := fn.Info().TypeOf(call.Expr.Args[0]).Underlying().(*types.Chan); !isChan {
			continue
		}
		capOK := false
		if len(call.Expr.Args) == 2 {
			if tv, ok := fn.Info().Types[call.Expr.Args[1]]; ok && tv.Value != nil {
				if v, ok := constant.Int64Val(tv.Value); ok && v >= 1 {
					capOK = true
				}
			}
		}
		c.Check(capOK, "R2", "chan="+types.ExprString(call.Expr.Args[0]), call.Expr.Pos(), "signalling channel has constant capacity ≥ 1 (the single winner never blocks)", 1)
	}

	// R3 cleanup exactly once
	var cleanLocs []an.Loc
	var spawnCleanup *an.Call
	spawnCalls := []an.Call{}
	for _, call := range fn.Calls(false) {
		cf := fn.Canon(call.Expr.Fun)
		if cf == optP+".Cleanup" {
			cleanLocs = append(cleanLocs, g.Locate(call.Expr))
		}
		if cf == optP+".Go" && len(call.Expr.Args) == 1 {
			if lit, ok := call.Expr.Args[0].(*ast.FuncLit); ok {
				lf := fn.LitFn(lit)
				cl := []an.Call{}
				for _, c2 := range lf.Calls(false) {
					if lf.Canon(c2.Expr.Fun) == optP+".Cleanup" {
						cl = append(cl, c2)
					}
				}
				if len(cl) > 0 {
					cc := call
					spawnCleanup = &cc
					// Wait dominates Cleanup inside
					lg := lf.Graph()
					okWait := false
					for _, w := range lf.Calls(false) {
						if s, ok := w.Expr.Fun.(*ast.SelectorExpr); ok && s.Sel.Name == "Wait" && lg.NodeBefore(w.Expr, cl[0].Expr) {
							okWait = true
						}
					}
					ex := lg.Exec(lg.EntryLoc(), []an.Loc{lg.Locate(cl[0].Expr)}, func(ast.Expr, an.Store) an.Tri { return an.U }, an.ExecOpts{})
					c.Check(okWait && len(cl) == 1 && ex.Must[0], "R3", "cleanup-goroutine", cl[0].Expr.Pos(), "the cleanup goroutine calls Cleanup exactly once, on every path, after wg.Wait()", ex.Paths)
				} else {
					spawnCalls = append(spawnCalls, call)
				}
			}
		}
	}
	if spawnCleanup == nil {
		c.Viol("R3", "cleanup-goroutine", fn.Pos(), "no goroutine that waits for the wait group and then calls Cleanup")
	} else {
		targets := append(append([]an.Loc{}, cleanLocs...), g.Locate(spawnCleanup.Expr))
		ex := g.Exec(g.EntryLoc(), targets, func(ast.Expr, an.Store) an.Tri { return an.U }, an.ExecOpts{Record: true, IgnorePanic: true})
		bad := 0
		example := ""
		for _, tr := range ex.Traces {
			if len(tr) != 1 {
				bad++
				example = fmt.Sprintf("a path with %d cleanup invocations", len(tr))
			}
		}
		c.Check(bad == 0 && len(ex.Traces) > 0 && !ex.Overflow, "R3", "func=DoBatchWithOptions:cleanup-once", fn.Pos(), fmt.Sprintf("%d entry→return paths, each with exactly one of {%d direct Cleanup calls, the cleanup goroutine}; offending: %d %s", len(ex.Traces), len(cleanLocs), bad, example), len(ex.Traces))
	}

	// R4 spawn loop
	if len(spawnCalls) != 1 {
		c.Undec("R4", "spawn-loop", fn.Pos(), fmt.Sprintf("expected exactly one callback spawn site, found %d", len(spawnCalls)))
		return
	}
	sp := spawnCalls[0]
	loop, _ := loopOf(fn, sp.Expr).(*ast.RangeStmt)
	var addCall *an.Call
	for _, call := range fn.Calls(false) {
		if s, ok := call.Expr.Fun.(*ast.SelectorExpr); ok && s.Sel.Name == "Add" && strings.HasSuffix(fn.Info().TypeOf(s.X).String(), "sync.WaitGroup") {
			cc := call
			addCall = &cc
		}
	}
	if loop == nil || addCall == nil {
		c.Undec("R4", "spawn-loop", sp.Expr.Pos(), "spawn loop or wg.Add not found")
		return
	}
	coll := fn.Canon(loop.X)
	c.Check(fn.Canon(addCall.Expr.Args[0]) == "len("+coll+")" && g.NodeBefore(addCall.Expr, loop.X), "R4", "wg.Add", addCall.Expr.Pos(),
		fmt.Sprintf("wg.Add(%s) dominates the spawn loop over %s", fn.Canon(addCall.Expr.Args[0]), coll), 1)
	lf := fn.LitFn(sp.Expr.Args[0].(*ast.FuncLit))
	lg := lf.Graph()
	var cb, rc, dn []an.Call
	for _, call := range lf.Calls(false) {
		cf := lf.Canon(call.Expr.Fun)
		switch {
		case cf == cbP:
			cb = append(cb, call)
		case strings.HasSuffix(cf, ".record"):
			rc = append(rc, call)
		case strings.HasSuffix(cf, ".Done"):
			dn = append(dn, call)
		}
	}
	if len(cb) != 1 || len(rc) != 1 || len(dn) != 1 {
		c.Viol("R4", "spawn-closure", lf.Pos(), fmt.Sprintf("spawned closure must call callback, record and Done exactly once each: %d/%d/%d", len(cb), len(rc), len(dn)))
	} else {
		ex := lg.Exec(lg.EntryLoc(), []an.Loc{lg.Locate(cb[0].Expr), lg.Locate(rc[0].Expr), lg.Locate(dn[0].Expr)}, func(ast.Expr, an.Store) an.Tri { return an.U }, an.ExecOpts{})
		order := lg.NodeBefore(cb[0].Expr, rc[0].Expr) && lg.NodeBefore(rc[0].Expr, dn[0].Expr)
		c.Check(ex.Must[0] && ex.Must[1] && ex.Must[2] && order, "R4", "spawn-closure", lf.Pos(), "callback ≺ record ≺ wg.Done, each on every path of the spawned closure", ex.Paths)
		// argument identity: all from the same loop element
		elem := "each(" + coll + ")"
		a0, a1 := lf.Canon(cb[0].Expr.Args[0]), lf.Canon(cb[0].Expr.Args[1])
		r0, r1 := lf.Canon(rc[0].Expr.Args[0]), lf.Canon(rc[0].Expr.Args[1])
		c.Check(a0 == elem+".desc" && a1 == elem+".indexes" && r0 == elem+".itemTrackers" && r1 == "callback-result" || (a0 == elem+".desc" && a1 == elem+".indexes" && r0 == elem+".itemTrackers" && r1 == lf.Canon(cb[0].Expr)),
			"R4", "spawn-args", cb[0].Expr.Pos(), fmt.Sprintf("callback(%s, %s); record(%s, %s): descriptor, indexes and trackers of the same loop element, error = the callback's result", a0, a1, r0, r1), 1)
	}

	// R5
	it := an.LookupType(pkg, "itemTracker")
	bt := an.LookupType(pkg, "batchTracker")
	bad := []string{}
	nf := 0
	for _, nt := range []*types.Named{it, bt} {
		if nt == nil {
			continue
		}
		st := nt.Underlying().(*types.Struct)
		for i := 0; i < st.NumFields(); i++ {
			f := st.Field(i)
			usedInRecord := false
			for _, a := range an.FieldAccesses(pkg, f) {
				if a.Fn.Name == "(*batchTracker).record" || a.Fn.Name == "(*itemTracker).recordError" {
					usedInRecord = true
					if a.Write {
						bad = append(bad, f.Name()+" written in "+a.Fn.Name)
					}
				}
			}
			if !usedInRecord {
				continue
			}
			nf++
			ts := f.Type().String()
			if strings.Contains(ts, "atomic.") || strings.HasPrefix(ts, "chan ") {
				continue
			}
			// plain field: all writes must be in DoBatchWithOptions before the spawn loop
			for _, a := range an.FieldAccesses(pkg, f) {
				if !a.Write {
					continue
				}
				after := true
				if a.Fn.Name == "DoBatchWithOptions" {
					ex := g.Exec(g.Locate(sp.Expr), []an.Loc{g.Locate(a.Node)}, func(ast.Expr, an.Store) an.Tri { return an.U }, an.ExecOpts{})
					after = ex.May[0]
				}
				if after {
					bad = append(bad, fmt.Sprintf("plain field %s written at %s (not before the first spawn)", f.Name(), c.Prog.PosStr(a.Node.Pos())))
				}
			}
		}
	}
	c.Check(len(bad) == 0 && nf >= 6, "R5", "tracker-fields", rec.Pos(), fmt.Sprintf("%d tracker fields used by record: atomics/channels, or plain fields written only before the first spawn; offending: %v", nf, bad), nf)

	// R6
	exr := g.Exec(g.Locate(sp.Expr), nil, func(ast.Expr, an.Store) an.Tri { return an.U }, an.ExecOpts{})
	_ = exr
	badRet := []string{}
	nret := 0
	for _, b := range g.Blocks {
		r := an.ReturnOf(b)
		if r == nil {
			continue
		}
		nret++
		if an.InNode(sel, r) {
			continue
		}
		ex := g.Exec(g.Locate(sp.Expr), []an.Loc{g.Locate(r)}, func(ast.Expr, an.Store) an.Tri { return an.U }, an.ExecOpts{})
		if ex.May[0] {
			badRet = append(badRet, c.Prog.PosStr(r.Pos()))
		}
	}
	c.Check(len(badRet) == 0, "R6", "returns-after-spawn", fn.Pos(), fmt.Sprintf("%d return statements; none outside the final wait is reachable once a callback has been spawned; offending: %v", nret, badRet), nret)

	// R7 fresh slices
	inst := an.LookupType(pkg, "instance")
	if inst != nil {
		for _, fname := range []string{"itemTrackers", "indexes"} {
			f := fieldOf(inst, fname)
			if f == nil {
				c.Miss("R7", "field=instance."+fname, "not found")
				continue
			}
			bad := []string{}
			n := 0
			for _, a := range an.FieldAccesses(pkg, f) {
				if !a.Write {
					continue
				}
				var rhs ast.Expr
				switch x := a.Node.(type) {
				case *ast.KeyValueExpr:
					rhs = x.Value
				case *ast.SelectorExpr:
					if as, ok := an.EnclosingStmt(a.In.Body(), x).(*ast.AssignStmt); ok && len(as.Lhs) == len(as.Rhs) {
						for i, l := range as.Lhs {
							if an.Unparen(l) == ast.Expr(x) {
								rhs = as.Rhs[i]
							}
						}
					}
				}
				n++
				if rhs == nil {
					bad = append(bad, c.Prog.PosStr(a.Node.Pos())+": write form not recognised")
					continue
				}
				ok := false
				switch r := an.Unparen(rhs).(type) {
				case *ast.CallExpr:
					o := an.Callee(a.In.Info(), r)
					if an.ObjIs(o, "", "make") {
						ok = true
					}
					if an.ObjIs(o, "", "append") && len(r.Args) >= 1 && an.FieldSel(a.In.Info(), r.Args[0], f) {
						ok = true
					}
				case *ast.SliceExpr:
					ok = r.Slice3
				case *ast.Ident:
					ok = r.Name == "nil"
				}
				if !ok {
					bad = append(bad, c.Prog.PosStr(a.Node.Pos())+": "+types.ExprString(rhs))
				}
			}
			c.Check(len(bad) == 0 && n >= 2, "R7", "field=instance."+fname, fn.Pos(), fmt.Sprintf("%d writes: make(...), append(<same field>, …) or a capacity-limited 3-index slice; offending (may alias a neighbour's backing array): %v", n, bad), n)
		}
	}

	// R8 per-key counters
	var inner *ast.RangeStmt
	fn.InspectShallow(func(n ast.Node) bool {
		if rs, ok := n.(*ast.RangeStmt); ok && strings.HasSuffix(fn.Canon(rs.X), "#0.Instances") {
			inner = rs
		}
		return true
	})
	if inner == nil {
		c.Undec("R8", "replication-set-loop", fn.Pos(), "loop over the replication set's instances not found")
		return
	}
	RS := strings.TrimSuffix(fn.Canon(inner.X), ".Instances")
	want := map[string]string{
		"minSuccess":  "(len(" + RS + ".Instances) - " + RS + ".MaxErrors)",
		"maxFailures": RS + ".MaxErrors",
		"remaining":   "len(" + RS + ".Instances)",
	}
	got := map[string]string{}
	fn.InspectShallow(func(n ast.Node) bool {
		switch x := n.(type) {
		case *ast.AssignStmt:
			if len(x.Lhs) == 1 {
				if s, ok := x.Lhs[0].(*ast.SelectorExpr); ok {
					if _, w := want[s.Sel.Name]; w {
						got[s.Sel.Name] = fn.Canon(x.Rhs[0])
					}
				}
			}
		case *ast.CallExpr:
			if s, ok := x.Fun.(*ast.SelectorExpr); ok && s.Sel.Name == "Store" && len(x.Args) == 1 {
				if s2, ok := s.X.(*ast.SelectorExpr); ok {
					if _, w := want[s2.Sel.Name]; w {
						got[s2.Sel.Name] = fn.Canon(x.Args[0])
					}
				}
			}
		}
		return true
	})
	for _, k := range []string{"minSuccess", "maxFailures", "remaining"} {
		c.Check(got[k] == want[k], "R8", "counter="+k, inner.Pos(), fmt.Sprintf("%s = %s (want %s: derived from the replication set whose instances are iterated)", k, got[k], want[k]), 1)
	}
}

func commRecv(s ast.Stmt) ast.Expr {
	switch x := s.(type) {
	case *ast.ExprStmt:
		if u, ok := x.X.(*ast.UnaryExpr); ok {
			return u.X
		}
	case *ast.AssignStmt:
		if len(x.Rhs) == 1 {
			if u, ok := x.Rhs[0].(*ast.UnaryExpr); ok {
				return u.X
			}
		}
	}
	return nil
}

// c10Decision (R10/R11): the per-key decision in batchTracker.record and itemTracker.recordError, as decision tables.
func c10Decision(c *core.Ctx) {
	pkg := c.Prog.Pkg("ring")
	rec := an.FindFunc(pkg, "batchTracker.record")
	re := an.FindFunc(pkg, "itemTracker.recordError")
	if rec == nil || re == nil {
		c.Miss("R10", "func=record/recordError", "not found")
		return
	}
	// ---- recordError: the error is stored, and counted in exactly one family, on every path
	{
		g := re.Graph()
		var store an.Loc
		var clientInc, serverInc []an.Loc
		for _, call := range re.Calls(false) {
			s, ok := call.Expr.Fun.(*ast.SelectorExpr)
			if !ok {
				continue
			}
			switch {
			case s.Sel.Name == "Store" && re.Canon(s.X) == "recv.err" && re.Canon(call.Expr.Args[0]) == "p0":
				store = g.Locate(call.Expr)
			case s.Sel.Name == "Inc" && re.Canon(s.X) == "recv.failedClient":
				clientInc = append(clientInc, g.Locate(call.Expr))
			case s.Sel.Name == "Inc" && re.Canon(s.X) == "recv.failedServer":
				serverInc = append(serverInc, g.Locate(call.Expr))
			}
		}
		if !store.Valid() || len(clientInc) != 1 || len(serverInc) != 1 {
			c.Viol("R11", "func=recordError:shape", re.Pos(), "recordError must store the error and have exactly one increment per error family")
		} else {
			t := an.Table{G: g, From: g.EntryLoc(), FreeUnknown: true, Atoms: []an.Atom{{Name: "client", Values: []string{"T", "F"}}},
				Binder:  &an.Binder{Fn: re, Bool: map[string]string{"p1(p0)": "client"}},
				Targets: []an.Loc{store, clientInc[0], serverInc[0]}, Names: []string{"err.Store", "failedClient.Inc", "failedServer.Inc"},
				Want: func(r an.Row, i int) an.Tri {
					switch i {
					case 0:
						return an.T
					case 1:
						return an.FromBool(r["client"] == "T")
					}
					return an.FromBool(r["client"] == "F")
				}}
			res := t.Run()
			// the value returned is the incremented family counter
			okRet := true
			for _, b := range g.Blocks {
				if r := an.ReturnOf(b); r != nil {
					rc := re.Canon(r.Results[0])
					if rc != "recv.failedClient.Inc()" && rc != "recv.failedServer.Inc()" {
						okRet = false
					}
				}
			}
			c.Check(res.OK() && okRet, "R11", "func=recordError", re.Pos(), "every replica error is stored and counted in exactly one family (client ⇔ isClientError(err)), under no other condition, and the family's new count is returned: "+res.Summary(), res.Rows)
		}
	}
	// ---- record
	g := rec.Graph()
	loops := []*ast.RangeStmt{}
	rec.InspectShallow(func(n ast.Node) bool {
		if rs, ok := n.(*ast.RangeStmt); ok {
			loops = append(loops, rs)
		}
		return true
	})
	if len(loops) != 1 {
		c.Undec("R10", "func=record:loop", rec.Pos(), "loop over the item trackers not found")
		return
	}
	header, body, _ := g.LoopBlocks(loops[0])
	var errSends, doneSends, pendDec []an.Loc
	rec.InspectShallow(func(n ast.Node) bool {
		switch x := n.(type) {
		case *ast.SendStmt:
			switch rec.Canon(x.Chan) {
			case "recv.err":
				errSends = append(errSends, g.Locate(x))
			case "recv.done":
				doneSends = append(doneSends, g.Locate(x))
			}
		case *ast.CallExpr:
			if s, ok := x.Fun.(*ast.SelectorExpr); ok && s.Sel.Name == "Dec" && rec.Canon(s.X) == "recv.rpcsPending" {
				pendDec = append(pendDec, g.Locate(x))
			}
		}
		return true
	})
	it := "each(p0)"
	roles := an.Roles{{From: it, To: "it"}}
	atoms := []an.Atom{
		{Name: "errnil", Values: []string{"T", "F"}},
		{Name: "fam", Values: []string{"lt", "eq", "gt"}},  // family error count vs maxFailures
		{Name: "succ", Values: []string{"lt", "eq", "gt"}}, // successes vs minSuccess
		{Name: "last", Values: []string{"T", "F"}},         // remaining.Dec() == 0
		{Name: "firstFail", Values: []string{"T", "F"}},
		{Name: "allDone", Values: []string{"T", "F"}},
	}
	bd := &an.Binder{Fn: rec, Roles: roles,
		Eq:  map[string]string{"p1|nil": "errnil", "it.remaining.Dec()|0": "last", "recv.rpcsFailed.Inc()|1": "firstFail", "recv.rpcsPending.Dec()|0": "allDone"},
		Cmp: map[string]string{"it.recordError(p1, p2)|it.maxFailures": "fam", "it.succeeded.Inc()|it.minSuccess": "succ"}, Unknown: map[string]bool{}}
	targets := append(append(append([]an.Loc{}, errSends...), doneSends...), pendDec...)
	nE, nD := len(errSends), len(doneSends)
	var bad, undec []string
	run := func(as []an.Atom) {
		bad, undec = nil, nil
		for _, row := range an.Rows(as) {
			bd.Row = row
			ex := g.Exec(an.Loc{B: body, I: 0}, targets, bd.Leaf, an.ExecOpts{Header: header})
			or := func(lo, hi int) an.Tri {
				v := an.F
				for i := lo; i < hi; i++ {
					v = an.Or(v, ex.Tri(i))
				}
				return v
			}
			e, d, p := or(0, nE), or(nE, nE+nD), or(nE+nD, len(targets))
			isErr := row["errnil"] == "F"
			var wantE, wantP bool
			if isErr {
				wantE = (row["fam"] == "gt" || row["last"] == "T") && row["firstFail"] == "T"
				wantP = false
			} else {
				wantP = row["succ"] == "eq"
				wantE = row["succ"] == "lt" && row["last"] == "T" && row["firstFail"] == "T"
			}
			wantD := wantP && row["allDone"] == "T"
			if e == an.U || d == an.U || p == an.U {
				undec = append(undec, rowString(row))
				continue
			}
			if (e == an.T) != wantE || (d == an.T) != wantD || (p == an.T) != wantP {
				bad = append(bad, fmt.Sprintf("{%s} errSignal=%v(want %v) keyDone=%v(want %v) doneSignal=%v(want %v)", rowString(row), e, wantE, p, wantP, d, wantD))
			}
		}
	}
	run(atoms)
	if len(bd.Unknown) > 0 && len(bd.Unknown) <= 3 {
		for u := range bd.Unknown {
			atoms = append(atoms, an.Atom{Name: "extra:" + u, Values: []string{"T", "F"}})
			if bd.Bool == nil {
				bd.Bool = map[string]string{}
			}
			bd.Bool[u] = "extra:" + u
		}
		bd.Unknown = map[string]bool{}
		run(atoms)
	}
	switch {
	case len(bad) > 0:
		c.Viol("R10", "func=record:decision", rec.Pos(), "per-key decision differs from: on error — signal (first failure only) ⇔ family count > maxFailures ∨ last replica; on success — key done ⇔ successes == minSuccess, error ⇔ successes < minSuccess ∧ last replica; batch done ⇔ key done ∧ no key pending: "+strings.Join(head(bad, 3), "; "))
	case len(undec) > 0:
		c.Undec("R10", "func=record:decision", rec.Pos(), fmt.Sprintf("undecidable rows %v (unrecognised: %v)", head(undec, 3), keys(bd.Unknown)))
	default:
		c.Hold("R10", "func=record:decision", rec.Pos(), fmt.Sprintf("decision table over error/no error × family count vs tolerance × successes vs quorum × last replica × single-winner atoms matches the property on %d rows", len(an.Rows(atoms))), len(an.Rows(atoms)))
	}
}

// c10Classifier (R12): which error family a replica's error counts in decides whether the batch may
// give up early. The default classifier hands the error only to grpcutil.ErrorToStatusCode — the
// extraction that unwraps (errors.As) — and classifies on its result alone; it is the classifier that
// DoBatch passes and that replaceZeroValuesWithDefaults installs when none is given.
func c10Classifier(c *core.Ctx) {
	pkg := c.Prog.Pkg("ring")
	fn := an.FindFunc(pkg, "isHTTPStatus4xx")
	if fn == nil {
		c.Miss("R12", "func=isHTTPStatus4xx", "not found")
		return
	}
	c.Analysed(fn.String())
	var handed []string
	ok := false
	for _, call := range fn.Calls(true) {
		uses := false
		for _, a := range call.Expr.Args {
			ast.Inspect(a, func(n ast.Node) bool {
				if id, isID := n.(*ast.Ident); isID && fn.Canon(id) == "p0" {
					uses = true
				}
				return true
			})
		}
		if !uses {
			continue
		}
		name := "?"
		if f := call.Func(); f != nil && f.Pkg() != nil {
			name = f.Pkg().Name() + "." + f.Name()
		}
		handed = append(handed, name)
		if call.Is("grpcutil", "ErrorToStatusCode") && len(call.Expr.Args) == 1 && fn.Canon(call.Expr.Args[0]) == "p0" {
			ok = true
		}
	}
	c.Check(ok && len(handed) == 1, "R12", "func=isHTTPStatus4xx", fn.Pos(), fmt.Sprintf("the error is handed to %v only (must be grpcutil.ErrorToStatusCode, which unwraps; a status extraction that type-asserts the outermost error puts a wrapped 4xx into the server family)", handed), 1)
	// installed as the default
	okDef := false
	if rz := an.FindFunc(pkg, "DoBatchOptions.replaceZeroValuesWithDefaults"); rz != nil {
		rz.InspectShallow(func(n ast.Node) bool {
			if as, isAs := n.(*ast.AssignStmt); isAs && len(as.Lhs) == 1 && rz.Canon(as.Lhs[0]) == "recv.IsClientError" && rz.Canon(as.Rhs[0]) == "isHTTPStatus4xx" {
				okDef = true
			}
			return true
		})
	}
	c.Check(okDef, "R12", "default:IsClientError", fn.Pos(), "replaceZeroValuesWithDefaults installs isHTTPStatus4xx when no classifier is given", 1)
	// the classifier the tracker calls is the caller's or the default, itself: the option is assigned once (the
	// default, when nil) and never wrapped — classification must be a pure function of the error each time
	if rz := an.FindFunc(pkg, "DoBatchOptions.replaceZeroValuesWithDefaults"); rz != nil {
		var vals []string
		rz.InspectDeep(func(n ast.Node) bool {
			if as, isAs := n.(*ast.AssignStmt); isAs {
				for i, l := range as.Lhs {
					if sel, ok := an.Unparen(l).(*ast.SelectorExpr); ok && sel.Sel.Name == "IsClientError" && i < len(as.Rhs) {
						vals = append(vals, rz.Canon(as.Rhs[i]))
					}
				}
			}
			return true
		})
		c.Check(len(vals) == 1 && vals[0] == "isHTTPStatus4xx", "R12", "default:IsClientError:only", rz.Pos(), fmt.Sprintf("the classifier option is assigned once, the default itself: %v", vals), 1)
	}
	// grpcutil.ErrorToStatusCode finds the status through errors.As (every wrapper, including multi-errors)
	if gp := c.Prog.Pkg("grpcutil"); gp != nil {
		if ef := an.FindFunc(gp, "ErrorToStatusCode"); ef != nil {
			c.Analysed(ef.String())
			as := 0
			var other []string
			for _, call := range ef.Calls(true) {
				switch {
				case call.Is("errors", "As") && len(call.Expr.Args) == 2 && ef.Canon(call.Expr.Args[0]) == "p0":
					as++
				case call.Is("errors", "Unwrap"), call.Is("errors", "Is"):
					other = append(other, "errors."+call.Func().Name())
				}
			}
			ef.InspectDeep(func(n ast.Node) bool {
				if ta, ok := n.(*ast.TypeAssertExpr); ok && ta.Type != nil {
					other = append(other, "type assertion on "+ef.Canon(ta.X))
				}
				return true
			})
			c.Check(as == 1 && len(other) == 0, "R12", "func=grpcutil.ErrorToStatusCode", ef.Pos(), fmt.Sprintf("the status is located with errors.As on the error itself (%d), with no hand-written unwrapping: %v", as, other), 1)
		} else {
			c.Miss("R12", "func=grpcutil.ErrorToStatusCode", "not found")
		}
	} else {
		c.Miss("R12", "pkg=grpcutil", "not loaded")
	}
}

// c10Spawners (R13): DoBatchWithOptions waits for the first decisive outcome while the replica calls run
// elsewhere; that only works if the spawner returns without running the workload itself. The default
// spawner and concurrency.ReusableGoroutinesPool.Go (the documented alternative) use their parameter
// only by sending it to a worker, handing it to newWorker, or calling it inside a go statement — never
// by calling it directly. Also: the guard InstancesCount() <= 0 is about an empty ring: Ring.InstancesCount
// returns the number of all registered instances.
func c10Spawners(c *core.Ctx) {
	pkg := c.Prog.Pkg("ring")
	direct := func(fn *an.Fn, param types.Object) []string {
		var out []string
		var walk func(n ast.Node, inGo bool)
		walk = func(n ast.Node, inGo bool) {
			ast.Inspect(n, func(m ast.Node) bool {
				switch x := m.(type) {
				case *ast.GoStmt:
					if m != n {
						walk(x.Call, true)
						return false
					}
				case *ast.CallExpr:
					if id, ok := an.Unparen(x.Fun).(*ast.Ident); ok && fn.Info().Uses[id] == param && !inGo {
						out = append(out, c.Prog.PosStr(x.Pos()))
					}
				}
				return true
			})
		}
		walk(fn.Body(), false)
		return out
	}
	// default spawner
	if rz := an.FindFunc(pkg, "DoBatchOptions.replaceZeroValuesWithDefaults"); rz != nil {
		okDef := false
		var bad []string
		rz.InspectShallow(func(n ast.Node) bool {
			as, ok := n.(*ast.AssignStmt)
			if !ok || len(as.Lhs) != 1 || rz.Canon(as.Lhs[0]) != "recv.Go" {
				return true
			}
			if lit, ok := an.Unparen(as.Rhs[0]).(*ast.FuncLit); ok {
				if lf := rz.LitFn(lit); lf != nil && lit.Type.Params != nil && len(lit.Type.Params.List) == 1 && len(lit.Type.Params.List[0].Names) == 1 {
					p := lf.Info().Defs[lit.Type.Params.List[0].Names[0]]
					bad = direct(lf, p)
					okDef = len(bad) == 0
				}
			}
			return true
		})
		c.Check(okDef, "R13", "spawner=default", rz.Pos(), fmt.Sprintf("the default DoBatchOptions.Go starts the workload in a goroutine (direct calls on the caller's goroutine: %v)", bad), 1)
	} else {
		c.Miss("R13", "func=DoBatchOptions.replaceZeroValuesWithDefaults", "not found")
	}
	if cp := c.Prog.Pkg("concurrency"); cp != nil {
		if f := an.FindFunc(cp, "ReusableGoroutinesPool.Go"); f != nil {
			c.Analysed(f.String())
			p := f.Obj.Type().(*types.Signature).Params().At(0)
			bad := direct(f, p)
			c.Check(len(bad) == 0, "R13", "spawner=concurrency.ReusableGoroutinesPool.Go", f.Pos(), fmt.Sprintf("the pool hands the workload to a worker or a new goroutine on every path and never runs it on the caller's goroutine (direct calls: %v)", bad), 1)
		} else {
			c.Miss("R13", "func=concurrency.ReusableGoroutinesPool.Go", "not found")
		}
	} else {
		c.Miss("R13", "pkg=concurrency", "not loaded")
	}
	if f := an.FindFunc(pkg, "Ring.InstancesCount"); f != nil {
		c.Analysed(f.String())
		g := f.Graph()
		vals := map[string]bool{}
		for _, b := range g.Blocks {
			r := an.ReturnOf(b)
			if r == nil || len(r.Results) != 1 {
				continue
			}
			if obj := f.ObjOf(r.Results[0]); obj != nil && f.DefCount(obj) > 1 {
				ex := g.Exec(g.EntryLoc(), []an.Loc{g.Locate(r)}, func(ast.Expr, an.Store) an.Tri { return an.U }, an.ExecOpts{Watch: obj, Unroll: 1})
				for v := range ex.Vals[0] {
					vals[v] = true
				}
			} else {
				vals[f.Canon(r.Results[0])] = true
			}
		}
		c.Check(len(vals) == 1 && vals["len(recv.ringDesc.Ingesters)"], "R13", "func=Ring.InstancesCount", f.Pos(), fmt.Sprintf("returns the number of all registered instances (%v): the batch's InstancesCount() <= 0 guard is about an empty ring, not about eligibility", keys(vals)), 1)
	} else {
		c.Miss("R13", "func=Ring.InstancesCount", "not found")
	}
}
