package props

import (
	"fmt"
	"go/ast"
	"go/token"
	"go/types"
	"regexp"
	"sort"
	"strings"

	"dsverif/internal/an"
	"dsverif/internal/core"

	"golang.org/x/tools/go/packages"
)

func init() {
	Registry["C18"] = Prop{
		Patterns: []string{"./modules", "./services"},
		Run:      runC18,
		Explanation: "Decides structural necessary conditions of 'modules initialise, start and stop in dependency order' in package modules: (R1) the wrapped service is started only after the loop over all start dependencies completed, each non-nil dependency is awaited and a failed dependency aborts the start; (R2) the wrapped service is stopped only after every dependant has been awaited; " +
			"(R3) initFn runs only for modules not marked initialised and every non-error pass of the loop marks the module in the same map that guards the skip (exactly-once), over orderedDeps(name)+name; (R4) AddDependency appends only after the cycle check over every new dependency (error when the module is among the new dependency's transitive dependencies); (R5) failures propagate (run returns the service's FailureCase); " +
			"(R6) the dependency queries (DependenciesForModule, inverseDependenciesForModule, orderedDeps, listDeps) read nothing but the registered modules' dependency lists, so they cannot be stale. (R7) orderedDeps places a module only after every entry of its dependency list tested as placed, and raises the placed flag only together with the placement: every prefix of the order is closed under dependencies (any other ordering algorithm is reported as undecided). Also: (R8) the await primitive the dependency check relies on answers nil ⇔ the service is in the awaited state when the waiter wakes up; (R9) the stop helper the wrapper relies on really waits: every return of StopAndAwaitTerminated comes after StopAsync and AwaitTerminated. (R10) every module wrapper waits for the transitive dependencies (start) and dependants (stop) of the very module it wraps; listDeps recurses. NOT decided: termination/completeness of the ordering loop, timing, behaviour of the wrapped services themselves.",
	}
}

func runC18(c *core.Ctx) {
	c.Rule("R1", "start waits for all dependencies; a failed dependency aborts the start and fails the dependant", 4)
	c.Rule("R2", "stop waits for all dependants", 3)
	c.Rule("R3", "exactly-once initialisation over orderedDeps(name)+name", 3)
	c.Rule("R4", "cycle check precedes dependency insertion", 2)
	c.Rule("R5", "failure propagation", 1)
	c.Rule("R6", "dependency queries read only the dependency graph and never write through an alias of it", 5)
	c.Rule("R8", "the await primitive the dependency check relies on answers nil ⇔ the service is in the awaited state when the waiter wakes up", 1)
	c.Rule("R9", "the stop helper the wrapper relies on really waits: every return of StopAndAwaitTerminated comes after StopAsync and AwaitTerminated", 1)
	c.Rule("R10", "every module wrapper waits for the transitive dependencies (start) and transitive dependants (stop) of the very module it wraps", 3)
	c.Rule("R7", "orderedDeps: a module is placed only after each of its dependencies has been placed (inductive invariant of the ordering loop)", 3)
	pkg := c.Prog.Pkg("modules")
	if pkg == nil {
		c.Miss("R1", "pkg=modules", "not loaded")
		return
	}
	// ---- R1
	if fn := an.FindFunc(pkg, "moduleService.start"); fn == nil {
		c.Miss("R1", "func=moduleService.start", "not found")
	} else {
		c.Analysed(fn.String())
		g := fn.Graph()
		starts := []an.Call{}
		for _, call := range fn.Calls(false) {
			if s, ok := call.Expr.Fun.(*ast.SelectorExpr); ok && s.Sel.Name == "StartAsync" && fn.Canon(s.X) == "recv.service" {
				starts = append(starts, call)
			}
		}
		loops := rangeLoops(fn, "recv.startDeps(recv.name)")
		if len(starts) != 1 || len(loops) != 1 {
			c.Undec("R1", "func=start:shape", fn.Pos(), fmt.Sprintf("expected one StartAsync of the wrapped service and one loop over startDeps(name): %d/%d", len(starts), len(loops)))
		} else {
			rs := loops[0]
			header, body, _ := g.LoopBlocks(rs)
			c.Check(g.Dom(header, g.Locate(starts[0].Expr).B) && !an.InNode(rs, starts[0].Expr), "R1", "func=start:order", starts[0].Expr.Pos(), "the dependency loop header dominates StartAsync of the wrapped service (StartAsync is after the loop)", 1)
			elem := "each(recv.startDeps(recv.name))"
			var await *an.Call
			for _, call := range fn.Calls(false) {
				call := call
				if s, ok := call.Expr.Fun.(*ast.SelectorExpr); ok && s.Sel.Name == "AwaitRunning" && fn.Canon(s.X) == elem {
					await = &call
				}
			}
			if await == nil {
				c.Viol("R1", "func=start:await", rs.Pos(), "no AwaitRunning on the loop's dependency")
			} else {
				t := an.Table{G: g, From: an.Loc{B: body, I: 0}, Opts: an.ExecOpts{Header: header}, FreeUnknown: true,
					Atoms: []an.Atom{{Name: "nil", Values: []string{"T", "F"}}}, Binder: &an.Binder{Fn: fn, Eq: map[string]string{elem + "|nil": "nil"}},
					Targets: []an.Loc{g.Locate(await.Expr)}, Names: []string{"AwaitRunning"},
					Want: func(r an.Row, _ int) an.Tri { return an.FromBool(r["nil"] == "F") }}
				res := t.Run()
				c.Check(res.OK(), "R1", "func=start:await", await.Expr.Pos(), "every non-nil dependency is awaited (and nothing else decides it): "+res.Summary(), res.Rows)
				// failed dependency aborts: from the await statement, with err != nil, StartAsync is unreachable and the function returns an error
				AC := fn.Canon(await.Expr)
				t2 := an.Table{G: g, From: g.Locate(stmtOf(fn, await.Expr)), MayOnly: true, Atoms: []an.Atom{{Name: "ok", Values: []string{"T", "F"}}},
					Binder: &an.Binder{Fn: fn, Eq: map[string]string{AC + "|nil": "ok"}}, Targets: []an.Loc{g.Locate(starts[0].Expr)},
					Want: func(r an.Row, _ int) an.Tri {
						if r["ok"] == "F" {
							return an.F
						}
						return an.U
					}}
				res2 := t2.Run()
				c.Check(res2.OK(), "R1", "func=start:abort", await.Expr.Pos(), "when a dependency fails to reach Running the wrapped service is never started: "+res2.Summary(), res2.Rows)
				// … and the dependant fails as well: with the dependency's error non-nil no return without that error is reachable
				var errObj types.Object
				if as, ok := stmtOf(fn, await.Expr).(*ast.AssignStmt); ok && len(as.Lhs) == 1 {
					errObj = fn.ObjOf(as.Lhs[0])
				}
				var silent []an.Loc
				for _, b := range g.Blocks {
					r := an.ReturnOf(b)
					if r == nil || len(r.Results) != 1 {
						continue
					}
					mentions := false
					ast.Inspect(r.Results[0], func(n ast.Node) bool {
						if id, ok := n.(*ast.Ident); ok && errObj != nil && fn.Info().Uses[id] == errObj {
							mentions = true
						}
						return true
					})
					if !mentions {
						silent = append(silent, g.Locate(r))
					}
				}
				if errObj == nil {
					c.Undec("R1", "func=start:fail", await.Expr.Pos(), "the awaited dependency's error is not bound to a variable")
				} else {
					t3 := an.Table{G: g, From: g.LocAfter(stmtOf(fn, await.Expr)), MayOnly: true, FreeUnknown: true, Opts: an.ExecOpts{Header: header}, Atoms: []an.Atom{{Name: "ok", Values: []string{"T", "F"}}},
						Binder: &an.Binder{Fn: fn, Eq: map[string]string{AC + "|nil": "ok"}}, Targets: silent,
						Want: func(r an.Row, _ int) an.Tri {
							if r["ok"] == "F" {
								return an.F
							}
							return an.U
						}}
					res3 := t3.Run()
					c.Check(res3.OK(), "R1", "func=start:fail", await.Expr.Pos(), fmt.Sprintf("when a dependency fails to reach Running, start returns that error on every path (no return that drops it is reachable, whatever else is tested; %d other returns): %s", len(silent), res3.Summary()), res3.Rows)
				}
			}
		}
	}
	// ---- R2
	if fn := an.FindFunc(pkg, "moduleService.stop"); fn == nil {
		c.Miss("R2", "func=moduleService.stop", "not found")
	} else {
		c.Analysed(fn.String())
		g := fn.Graph()
		stops := fn.CallsTo(false, "services", "StopAndAwaitTerminated")
		waits := fn.CallsTo(false, "modules", "(*moduleService).waitForModulesToStop")
		ok := len(stops) == 1 && len(waits) == 1 && g.NodeBefore(waits[0].Expr, stops[0].Expr) && fn.Canon(stops[0].Expr.Args[1]) == "recv.service"
		c.Check(ok, "R2", "func=stop:order", fn.Pos(), "waitForModulesToStop() dominates StopAndAwaitTerminated(wrapped service)", 1)
		if w := an.FindFunc(pkg, "moduleService.waitForModulesToStop"); w != nil {
			c.Analysed(w.String())
			wg := w.Graph()
			loops := rangeLoops(w, "recv.stopDeps(recv.name)")
			okw := false
			detail := ""
			if len(loops) == 1 {
				header, body, _ := wg.LoopBlocks(loops[0])
				elem := "each(recv.stopDeps(recv.name))"
				for _, call := range w.Calls(false) {
					if s, ok := call.Expr.Fun.(*ast.SelectorExpr); ok && s.Sel.Name == "AwaitTerminated" && w.Canon(s.X) == elem {
						t := an.Table{G: wg, From: an.Loc{B: body, I: 0}, Opts: an.ExecOpts{Header: header}, FreeUnknown: true,
							Atoms: []an.Atom{{Name: "nil", Values: []string{"T", "F"}}}, Binder: &an.Binder{Fn: w, Eq: map[string]string{elem + "|nil": "nil"}},
							Targets: []an.Loc{wg.Locate(call.Expr)}, Want: func(r an.Row, _ int) an.Tri { return an.FromBool(r["nil"] == "F") }}
						res := t.Run()
						okw = res.OK()
						detail = res.Summary()
					}
				}
			}
			c.Check(okw, "R2", "func=waitForModulesToStop", w.Pos(), "every non-nil dependant is awaited to termination: "+detail, 2)
			// … and the loop is left only when every dependant was visited
			exits := []string{}
			if len(loops) == 1 {
				var walk func(n ast.Node, inner bool)
				walk = func(n ast.Node, inner bool) {
					ast.Inspect(n, func(m ast.Node) bool {
						switch x := m.(type) {
						case *ast.FuncLit:
							return false
						case *ast.ReturnStmt:
							exits = append(exits, "return at "+c.Prog.PosStr(x.Pos()))
						case *ast.BranchStmt:
							if x.Tok == token.GOTO || (x.Tok == token.BREAK && (!inner || x.Label != nil)) {
								exits = append(exits, x.Tok.String()+" at "+c.Prog.PosStr(x.Pos()))
							}
						case *ast.ForStmt, *ast.RangeStmt, *ast.SwitchStmt, *ast.TypeSwitchStmt, *ast.SelectStmt:
							if m != n && !inner {
								walk(m, true)
								return false
							}
						}
						return true
					})
				}
				walk(loops[0].Body, false)
				panics := 0
				for _, call := range w.Calls(false) {
					if an.ObjIs(call.Callee, "", "panic") && an.InNode(loops[0], call.Expr) {
						panics++
					}
				}
				c.Check(len(exits) == 0 && panics == 0, "R2", "func=waitForModulesToStop:all", loops[0].Pos(), fmt.Sprintf("the loop over the dependants has no exit but exhaustion (a dependant that failed does not end the wait for the others): early exits %v", exits), 1)
			}
		} else {
			c.Miss("R2", "func=waitForModulesToStop", "not found")
		}
	}
	// ---- R3
	if fn := an.FindFunc(pkg, "Manager.initModule"); fn == nil {
		c.Miss("R3", "func=Manager.initModule", "not found")
	} else {
		c.Analysed(fn.String())
		g := fn.Graph()
		var initCall *an.Call
		for _, call := range fn.Calls(false) {
			call := call
			if strings.HasSuffix(fn.Canon(call.Expr.Fun), ".initFn") {
				initCall = &call
			}
		}
		loop, _ := loopOf(fn, func() ast.Node {
			if initCall != nil {
				return initCall.Expr
			}
			return fn.Body()
		}()).(*ast.RangeStmt)
		if initCall == nil || loop == nil {
			c.Undec("R3", "func=initModule:shape", fn.Pos(), "initFn call inside a range loop not found")
		} else {
			header, body, _ := g.LoopBlocks(loop)
			elem := "each(" + fn.Canon(loop.X) + ")"
			listOK := fn.Canon(loop.X) == "deps" || fn.Canon(loop.X) == "append(recv.orderedDeps(p0), p0)"
			// iteration list: deps := orderedDeps(name); deps = append(deps, name)
			if obj := fn.ObjOf(loop.X); obj != nil {
				ds := fn.DefSites(obj)
				cs := []string{}
				for _, d := range ds {
					cs = append(cs, d.Canon)
				}
				sort.Strings(cs)
				listOK = len(cs) == 2 && cs[0] == "append("+obj.Name()+", p0)" && cs[1] == "recv.orderedDeps(p0)" ||
					len(cs) == 1 && cs[0] == "append(recv.orderedDeps(p0), p0)"
			}
			c.Check(listOK, "R3", "func=initModule:list", loop.Pos(), "iteration list = orderedDeps(name) followed by name", 1)
			// guard map: the map tested for the skip; find `M[n]` conditions in loop
			// candidate maps: parameters of map type indexed by the loop element
			var marks []*ast.AssignStmt
			ast.Inspect(loop.Body, func(n ast.Node) bool {
				if as, ok := n.(*ast.AssignStmt); ok && len(as.Lhs) == 1 {
					if ix, ok := as.Lhs[0].(*ast.IndexExpr); ok && fn.Canon(ix.Index) == elem {
						marks = append(marks, as)
					}
				}
				return true
			})
			decided := false
			for _, mk := range marks {
				mcanon := fn.Canon(mk.Lhs[0].(*ast.IndexExpr).X)
				// is this map the guard? initFn reachable only if not marked
				t := an.Table{G: g, From: an.Loc{B: body, I: 0}, Opts: an.ExecOpts{Header: header}, MayOnly: true,
					Atoms:   []an.Atom{{Name: "marked", Values: []string{"T", "F"}}},
					Binder:  &an.Binder{Fn: fn, Bool: map[string]string{mcanon + "[" + elem + "]": "marked", "ok(" + mcanon + "[" + elem + "])": "marked"}},
					Targets: []an.Loc{g.Locate(initCall.Expr)}, Want: func(r an.Row, _ int) an.Tri { return an.FromBool(r["marked"] == "F") }}
				res := t.Run()
				if !res.OK() {
					continue
				}
				decided = true
				c.Hold("R3", "func=initModule:guard", initCall.Expr.Pos(), "initFn is reachable only when "+mcanon+"[module] is not set: "+res.Summary(), res.Rows)
				// every non-error pass marks: from initFn call stmt with err == nil, the mark executes on every path
				IC := fn.Canon(initCall.Expr)
				t2 := an.Table{G: g, From: an.Loc{B: body, I: 0}, Opts: an.ExecOpts{Header: header}, FreeUnknown: false,
					Atoms:   []an.Atom{{Name: "marked", Values: []string{"F"}}, {Name: "errnil", Values: []string{"T"}}},
					Binder:  &an.Binder{Fn: fn, Bool: map[string]string{mcanon + "[" + elem + "]": "marked", "ok(" + mcanon + "[" + elem + "])": "marked"}, Eq: map[string]string{IC + "#1|nil": "errnil"}},
					Targets: []an.Loc{g.Locate(mk)}, Want: func(r an.Row, _ int) an.Tri { return an.T }}
				res2 := t2.Run()
				c.Check(res2.OK(), "R3", "func=initModule:mark", mk.Pos(), "every pass of the loop that does not return an error sets "+mcanon+"[module] (so a module without a service is not initialised again): "+res2.Summary(), res2.Rows)
			}
			if !decided {
				c.Viol("R3", "func=initModule:guard", initCall.Expr.Pos(), "no map indexed by the module name guards the initFn call (modules could be initialised more than once)")
			}
		}
	}
	// ---- R4
	if fn := an.FindFunc(pkg, "Manager.AddDependency"); fn == nil {
		c.Miss("R4", "func=Manager.AddDependency", "not found")
	} else {
		c.Analysed(fn.String())
		g := fn.Graph()
		var app *ast.AssignStmt
		fn.InspectShallow(func(n ast.Node) bool {
			if as, ok := n.(*ast.AssignStmt); ok && len(as.Lhs) == 1 {
				if s, ok := as.Lhs[0].(*ast.SelectorExpr); ok && s.Sel.Name == "deps" {
					app = as
				}
			}
			return true
		})
		outer := rangeLoops(fn, "p1")
		if app == nil || len(outer) != 1 {
			c.Undec("R4", "func=AddDependency:shape", fn.Pos(), "append to deps / loop over the new dependencies not found")
		} else {
			oh, _, _ := g.LoopBlocks(outer[0])
			c.Check(g.Dom(oh, g.Locate(app).B) && !an.InNode(outer[0], app), "R4", "func=AddDependency:order", app.Pos(), "the loop over all new dependencies dominates (and precedes) the append to mod.deps", 1)
			inner := rangeLoops(fn, "recv.DependenciesForModule(each(p1))")
			okc := false
			detail := "inner loop over DependenciesForModule(newDep) not found"
			if len(inner) == 1 {
				ih, ib, _ := g.LoopBlocks(inner[0])
				var errRets []an.Loc
				for _, b := range g.Blocks {
					if r := an.ReturnOf(b); r != nil && an.InNode(inner[0], r) && len(r.Results) == 1 && fn.Canon(r.Results[0]) != "nil" {
						errRets = append(errRets, g.Locate(r))
					}
				}
				t := an.Table{G: g, From: an.Loc{B: ib, I: 0}, Opts: an.ExecOpts{Header: ih}, FreeUnknown: true, Atoms: []an.Atom{{Name: "self", Values: []string{"T", "F"}}},
					Binder:  &an.Binder{Fn: fn, Eq: map[string]string{"each(recv.DependenciesForModule(each(p1)))|p0": "self"}},
					Targets: errRets, Want: func(r an.Row, _ int) an.Tri { return an.FromBool(r["self"] == "T") }}
				res := t.Run()
				okc = res.OK() && len(errRets) == 1
				detail = res.Summary()
			}
			if len(inner) == 0 {
				// the same membership test written with the standard library: slices.Contains(DependenciesForModule(newDep), name)
				want := "slices.Contains(recv.DependenciesForModule(each(p1)), p0)"
				var test *ast.IfStmt
				fn.InspectShallow(func(n ast.Node) bool {
					if is, ok := n.(*ast.IfStmt); ok && an.InNode(outer[0], is) && fn.Canon(is.Cond) == want {
						test = is
					}
					return true
				})
				if test != nil {
					var errRets []an.Loc
					for _, b := range g.Blocks {
						if r := an.ReturnOf(b); r != nil && an.InNode(test.Body, r) && len(r.Results) == 1 && fn.Canon(r.Results[0]) != "nil" {
							errRets = append(errRets, g.Locate(r))
						}
					}
					t := an.Table{G: g, From: g.Locate(test.Cond), Opts: an.ExecOpts{Header: oh}, FreeUnknown: true, Atoms: []an.Atom{{Name: "self", Values: []string{"T", "F"}}},
						Binder:  &an.Binder{Fn: fn, Bool: map[string]string{want: "self"}},
						Targets: errRets, Want: func(r an.Row, _ int) an.Tri { return an.FromBool(r["self"] == "T") }}
					res := t.Run()
					if len(errRets) == 1 && res.OK() {
						okc, detail = true, "membership by slices.Contains: "+res.Summary()
					}
				}
			}
			c.Check(okc, "R4", "func=AddDependency:cycle", fn.Pos(), "an error is returned ⇔ the module is among the transitive dependencies of a new dependency: "+detail, 2)
		}
	}
	// ---- R5
	if fn := an.FindFunc(pkg, "moduleService.run"); fn != nil {
		c.Analysed(fn.String())
		ok := false
		for _, b := range fn.Graph().Blocks {
			if r := an.ReturnOf(b); r != nil && len(r.Results) == 1 && fn.Canon(r.Results[0]) == "recv.service.FailureCase()" {
				ok = true
			}
		}
		c.Check(ok, "R5", "func=run", fn.Pos(), "the wrapper's running function returns the wrapped service's FailureCase()", 1)
	} else {
		c.Miss("R5", "func=moduleService.run", "not found")
	}
	// ---- R7
	c18Await(c)
	c18StopHelper(c)
	c18WrapperDeps(c, pkg)
	c18Order(c, pkg)
	// ---- R6 purity of dependency queries
	mgr := an.LookupType(pkg, "Manager")
	if mgr == nil {
		c.Miss("R6", "type=Manager", "not found")
		return
	}
	mst := mgr.Underlying().(*types.Struct)
	for _, name := range []string{"Manager.DependenciesForModule", "Manager.inverseDependenciesForModule", "Manager.orderedDeps", "Manager.listDeps"} {
		fn := an.FindFunc(pkg, name)
		if fn == nil {
			c.Miss("R6", "func="+name, "not found")
			continue
		}
		c.Analysed(fn.String())
		reads := map[string]bool{}
		writes := map[string]bool{}
		seen := map[string]bool{}
		var visit func(f *an.Fn)
		visit = func(f *an.Fn) {
			if f == nil || seen[f.Name] {
				return
			}
			seen[f.Name] = true
			for i := 0; i < mst.NumFields(); i++ {
				fld := mst.Field(i)
				for _, a := range an.FieldAccesses(pkg, fld) {
					if a.Fn == f {
						if a.Write {
							writes[fld.Name()] = true
						} else {
							reads[fld.Name()] = true
						}
					}
				}
			}
			for _, call := range f.Calls(true) {
				if cf := call.Func(); cf != nil && cf.Pkg() == pkg.Types {
					visit(an.FnOf(c.Prog.ByPath, cf))
				}
			}
		}
		visit(fn)
		okR := len(writes) == 0
		for r := range reads {
			if r != "modules" {
				okR = false
			}
		}
		c.Check(okR, "R6", "func="+name, fn.Pos(), fmt.Sprintf("Manager fields read %v, written %v in the query's call cone (must read only 'modules' and write nothing: a cached answer could be stale after AddDependency)", keys(reads), keys(writes)), len(seen))
	}
	// no write through an alias: in-place slice mutators in package modules operate on fresh slices only
	nMut := 0
	var aliasBad []string
	var badPos token.Pos
	for _, top := range an.Funcs(pkg) {
		for _, call := range top.Calls(true) {
			f := call.Func()
			if f == nil || f.Pkg() == nil || len(call.Expr.Args) == 0 {
				continue
			}
			inPlace := false
			switch f.Pkg().Path() {
			case "sort":
				inPlace = f.Name() == "Strings" || f.Name() == "Ints" || f.Name() == "Slice" || f.Name() == "SliceStable" || f.Name() == "Sort" || f.Name() == "Stable"
			case "slices":
				switch f.Name() {
				case "Sort", "SortFunc", "SortStableFunc", "Reverse", "Compact", "CompactFunc", "Delete", "DeleteFunc", "Insert", "Replace":
					inPlace = true
				}
			}
			if !inPlace {
				continue
			}
			nMut++
			fn := call.In
			if ok, why := freshSlice(fn, call.Expr.Args[0], 0); !ok {
				aliasBad = append(aliasBad, fmt.Sprintf("%s: %s(%s): %s", fn.Name, f.Name(), fn.Canon(call.Expr.Args[0]), why))
				badPos = call.Expr.Pos()
			}
		}
	}
	if len(aliasBad) > 0 {
		c.Viol("R6", "alias:in-place-mutators", badPos, fmt.Sprintf("an in-place slice operation may write through an alias of the dependency graph (a query would edit Manager.modules[*].deps): %v", aliasBad))
	} else {
		c.Hold("R6", "alias:in-place-mutators", pkg.Syntax[0].Pos(), fmt.Sprintf("all %d in-place slice operations (sort.*, slices.Sort/Reverse/Compact/…) in package modules act on slices that are freshly allocated on every path (make, nil, literal, self-append)", nMut), nMut)
	}
}

// freshSlice: every definition of the slice expression is a fresh allocation (make, nil/zero, composite
// literal) or an append onto itself / onto a fresh slice. A field read, a parameter, an index
// expression or a call result may alias storage owned by someone else.
func freshSlice(fn *an.Fn, e ast.Expr, depth int) (bool, string) {
	e = an.Unparen(e)
	switch x := e.(type) {
	case *ast.CompositeLit:
		return true, ""
	case *ast.CallExpr:
		o := an.Callee(fn.Info(), x)
		if an.ObjIs(o, "", "make") {
			return true, ""
		}
		if an.ObjIs(o, "", "append") && len(x.Args) > 0 {
			return freshSlice(fn, x.Args[0], depth+1)
		}
		if tv, ok := fn.Info().Types[x.Fun]; ok && tv.IsType() && len(x.Args) == 1 { // conversion
			return freshSlice(fn, x.Args[0], depth+1)
		}
		// standard library: slices.AppendSeq(dst, seq) appends to dst; slices.Collect / Sorted / Clone allocate
		if an.ObjIs(o, "slices", "AppendSeq") && len(x.Args) == 2 {
			return freshSlice(fn, x.Args[0], depth+1)
		}
		if an.ObjIs(o, "slices", "Collect") || an.ObjIs(o, "slices", "Sorted") || an.ObjIs(o, "slices", "Clone") {
			return true, ""
		}
		return false, "result of " + fn.Canon(x.Fun) + " may alias"
	case *ast.Ident:
		if x.Name == "nil" {
			return true, ""
		}
		v, ok := fn.ObjOf(x).(*types.Var)
		if !ok || depth > 6 {
			return false, x.Name + " is not a local"
		}
		if fn.AssignedOutside(v) {
			return false, x.Name + " is assigned in another function body"
		}
		sites := fn.DefSites(v)
		if len(sites) == 0 {
			return false, x.Name + " has no definition here"
		}
		for _, d := range sites {
			if d.Zero {
				continue
			}
			if d.Param || d.Expr == nil {
				return false, x.Name + " is a parameter or an opaque value"
			}
			// self-append: x = append(x, …)
			if call, ok := an.Unparen(d.Expr).(*ast.CallExpr); ok && an.ObjIs(an.Callee(fn.Info(), call), "", "append") && len(call.Args) > 0 && fn.ObjOf(call.Args[0]) == v {
				continue
			}
			if strings.Contains(d.Canon, "#") || strings.HasPrefix(d.Canon, "each(") || strings.HasPrefix(d.Canon, "keyof(") {
				return false, x.Name + " holds " + d.Canon
			}
			if ok, why := freshSlice(fn, d.Expr, depth+1); !ok {
				return false, x.Name + " may hold " + fn.Canon(d.Expr) + " (" + why + ")"
			}
		}
		return true, ""
	}
	return false, fn.Canon(e) + " is not a fresh allocation"
}

// c18Order checks the inductive invariant of orderedDeps' placement loop: a name is appended to the
// returned order only after every entry of its dependency list tested as already placed, and the
// 'placed' flag of a name is raised only together with its placement. With an initially empty result
// this makes every prefix of the order closed under dependencies, i.e. a topological order. Any other
// ordering algorithm is reported as undecided.
func c18Order(c *core.Ctx, pkg *packages.Package) {
	fn := an.FindFunc(pkg, "Manager.orderedDeps")
	if fn == nil {
		c.Miss("R7", "func=Manager.orderedDeps", "not found")
		return
	}
	c.Analysed(fn.String())
	g := fn.Graph()
	// the returned slice
	var resObj types.Object
	nret := 0
	for _, b := range g.Blocks {
		if r := an.ReturnOf(b); r != nil && len(r.Results) == 1 {
			nret++
			resObj = fn.ObjOf(r.Results[0])
		}
	}
	if nret != 1 || resObj == nil {
		c.Undec("R7", "func=orderedDeps:shape", fn.Pos(), "expected a single return of a local slice")
		return
	}
	// appends to it
	type place struct {
		as   *ast.AssignStmt
		name ast.Expr
	}
	var places []place
	other := 0
	fn.InspectShallow(func(n ast.Node) bool {
		as, ok := n.(*ast.AssignStmt)
		if !ok || len(as.Lhs) != 1 || fn.ObjOf(as.Lhs[0]) != resObj {
			return true
		}
		if call, ok := an.Unparen(as.Rhs[0]).(*ast.CallExpr); ok && an.ObjIs(an.Callee(fn.Info(), call), "", "append") && len(call.Args) == 2 && !call.Ellipsis.IsValid() && fn.ObjOf(call.Args[0]) == resObj {
			places = append(places, place{as, call.Args[1]})
		} else if call, ok := an.Unparen(as.Rhs[0]).(*ast.CallExpr); ok && an.ObjIs(an.Callee(fn.Info(), call), "", "make") {
			// initially empty
		} else {
			other++
		}
		return true
	})
	usesAsArg := 0
	for _, call := range fn.Calls(true) {
		for _, a := range call.Expr.Args {
			if fn.ObjOf(a) == resObj && !an.ObjIs(call.Callee, "", "append") && !an.ObjIs(call.Callee, "", "len") {
				usesAsArg++
			}
		}
	}
	if len(places) != 1 || other != 0 || usesAsArg != 0 {
		c.Undec("R7", "func=orderedDeps:shape", fn.Pos(), fmt.Sprintf("ordering algorithm not recognised: %d single-element appends to the returned slice, %d other assignments, %d calls that may reorder it (the rule knows only 'place a name once all its dependencies are placed')", len(places), other, usesAsArg))
		return
	}
	pl := places[0]
	nameObj := fn.ObjOf(pl.name)
	// the name ranges over the keys of a flag map
	var outer *ast.RangeStmt
	fn.InspectShallow(func(n ast.Node) bool {
		if rs, ok := n.(*ast.RangeStmt); ok && rs.Key != nil && nameObj != nil && fn.ObjOf(rs.Key) == nameObj {
			outer = rs
		}
		return true
	})
	var flagObj types.Object
	if outer != nil {
		flagObj = fn.ObjOf(outer.X)
	}
	if outer == nil || flagObj == nil || !an.InNode(outer, pl.as) {
		c.Undec("R7", "func=orderedDeps:shape", pl.as.Pos(), "ordering algorithm not recognised: the placed name is not the key of a range over a local 'placed' flag map")
		return
	}
	if m, ok := flagObj.Type().Underlying().(*types.Map); !ok || !types.Identical(m.Elem(), types.Typ[types.Bool]) {
		c.Undec("R7", "func=orderedDeps:shape", pl.as.Pos(), "ordering algorithm not recognised: the ranged map is not a map to bool")
		return
	}
	c.Hold("R7", "func=orderedDeps:shape", pl.as.Pos(), "one placement site: result = append(result, name), name ranging over the keys of the flag map "+flagObj.Name(), 1)
	oh, _, _ := g.LoopBlocks(outer)
	// the dependency loop guarding the placement
	wantX := "recv.modules[" + fn.Canon(pl.name) + "].deps"
	var inner *ast.RangeStmt
	for _, rs := range rangeLoops(fn, wantX) {
		if an.InNode(outer, rs) {
			inner = rs
		}
	}
	if inner == nil {
		c.Viol("R7", "func=orderedDeps:guard", pl.as.Pos(), "no loop over "+wantX+" precedes the placement of the name: a module can be ordered before its dependencies")
	} else {
		ih, ib, _ := g.LoopBlocks(inner)
		dom := g.Dom(ih, g.Locate(pl.as).B) && !an.InNode(inner, pl.as)
		// from the loop body with the examined dependency not placed, the placement is unreachable in this pass
		flagCanon := regexp.QuoteMeta(fn.Canon(outer.X))
		t := an.Table{G: g, From: an.Loc{B: ib, I: 0}, MayOnly: true, FreeUnknown: true, Opts: an.ExecOpts{Header: oh, Unroll: 1},
			Atoms:   []an.Atom{{Name: "placed", Values: []string{"T", "F"}}},
			Binder:  &an.Binder{Fn: fn, Re: []an.ReRole{an.RE(`^`+flagCanon+`\[each\(`+regexp.QuoteMeta(wantX)+`\)\]$`, "PLACED"), an.RE(`^`+regexp.QuoteMeta(flagObj.Name())+`\[each\(`+regexp.QuoteMeta(wantX)+`\)\]$`, "PLACED")}, Bool: map[string]string{"PLACED": "placed"}},
			Targets: []an.Loc{g.Locate(pl.as)}, Names: []string{"place"},
			Want: func(r an.Row, _ int) an.Tri {
				if r["placed"] == "F" {
					return an.F
				}
				return an.U
			}}
		res := t.Run()
		c.Check(dom && res.OK(), "R7", "func=orderedDeps:guard", inner.Pos(), fmt.Sprintf("the loop over the name's dependency list dominates its placement (%v) and an unplaced dependency makes the placement unreachable in that pass: %s", dom, res.Summary()), res.Rows)
	}
	// flag truthfulness: raised only with the placement of the same name, lowered only before the placement loop
	okFlag, nTrue := true, 0
	detail := []string{}
	fn.InspectShallow(func(n ast.Node) bool {
		as, ok := n.(*ast.AssignStmt)
		if !ok || len(as.Lhs) != 1 {
			return true
		}
		ix, ok := an.Unparen(as.Lhs[0]).(*ast.IndexExpr)
		if !ok || fn.ObjOf(ix.X) != flagObj {
			return true
		}
		v := fn.Canon(as.Rhs[0])
		switch v {
		case "true":
			nTrue++
			ex := g.Exec(g.Locate(as), []an.Loc{g.Locate(pl.as)}, func(ast.Expr, an.Store) an.Tri { return an.U }, an.ExecOpts{Header: oh})
			if fn.ObjOf(ix.Index) != nameObj || !ex.Must[0] {
				okFlag = false
				detail = append(detail, fmt.Sprintf("%s[%s]=true without placing that name", flagObj.Name(), fn.Canon(ix.Index)))
			}
		case "false":
			if an.InNode(outer, as) {
				okFlag = false
				detail = append(detail, "flag lowered inside the placement loop")
			}
		default:
			okFlag = false
			detail = append(detail, "flag set to "+v)
		}
		return true
	})
	c.Check(okFlag && nTrue == 1, "R7", "func=orderedDeps:flag", pl.as.Pos(), fmt.Sprintf("the 'placed' flag of a name is raised exactly where that name is appended to the order and never lowered afterwards %v", detail), 1)
}

// c18Await (R8): moduleService.start decides "my dependency is running" by AwaitRunning returning nil.
// BasicService.awaitState must therefore answer nil exactly when the state read after the wake-up equals
// the awaited one — whatever else it looks at (a dependency that was running once and has failed since
// is not running).
func c18Await(c *core.Ctx) {
	pkg := c.Prog.Pkg("services")
	if pkg == nil {
		c.Miss("R8", "pkg=services", "not loaded")
		return
	}
	fn := an.FindFunc(pkg, "BasicService.awaitState")
	if fn == nil {
		c.Miss("R8", "func=BasicService.awaitState", "not found")
		return
	}
	c.Analysed(fn.String())
	g := fn.Graph()
	// the wake-up branch: the comm clause that receives from the waiters' channel (p2)
	var wake *ast.CommClause
	fn.InspectShallow(func(n ast.Node) bool {
		if cc, ok := n.(*ast.CommClause); ok && cc.Comm != nil {
			if ch := commRecv(cc.Comm); ch != nil && fn.Canon(ch) == "p2" {
				wake = cc
			}
		}
		return true
	})
	if wake == nil || len(wake.Body) == 0 {
		c.Undec("R8", "func=BasicService.awaitState", fn.Pos(), "the branch that receives from the waiters' channel was not found")
		return
	}
	var nils, errs []*ast.ReturnStmt
	for _, b := range g.Blocks {
		if r := an.ReturnOf(b); r != nil && an.InNode(wake, r) && len(r.Results) == 1 {
			if fn.Canon(r.Results[0]) == "nil" {
				nils = append(nils, r)
			} else {
				errs = append(errs, r)
			}
		}
	}
	if len(nils) == 0 || len(errs) == 0 {
		c.Undec("R8", "func=BasicService.awaitState", fn.Pos(), fmt.Sprintf("expected a nil return and an error return after the wake-up, found %d and %d", len(nils), len(errs)))
		return
	}
	var targets []an.Loc
	var names []string
	for _, r := range nils {
		targets = append(targets, g.Locate(r))
		names = append(names, fmt.Sprintf("return nil (line %d)", c.Prog.Fset.Position(r.Pos()).Line))
	}
	for _, r := range errs {
		targets = append(targets, g.Locate(r))
		names = append(names, "return error")
	}
	// every path ends in one of these returns, so "no nil when not reached" and "no error when reached" give the equivalence
	t := an.Table{G: g, From: g.Locate(wake.Body[0]), FreeUnknown: true, MayOnly: true, Atoms: []an.Atom{{Name: "reached", Values: []string{"T", "F"}}},
		Binder: &an.Binder{Fn: fn, Eq: map[string]string{"recv.State()|p1": "reached"}}, Targets: targets, Names: names,
		Want: func(r an.Row, i int) an.Tri {
			if (i < len(nils)) == (r["reached"] == "F") {
				return an.F
			}
			return an.U
		}}
	res := t.Run()
	c.Check(res.OK(), "R8", "func=BasicService.awaitState", fn.Pos(), "after the wake-up: nil ⇔ State() == awaited state, independent of anything else: "+res.Summary(), res.Rows)
}

// c18StopHelper (R9): moduleService.stop treats the return of services.StopAndAwaitTerminated as "the
// wrapped service is terminal" before letting its dependencies stop. Every return of that helper must
// therefore lie behind its StopAsync and AwaitTerminated calls.
func c18StopHelper(c *core.Ctx) {
	pkg := c.Prog.Pkg("services")
	if pkg == nil {
		c.Miss("R9", "pkg=services", "not loaded")
		return
	}
	for _, e := range []struct {
		fn    string
		calls []string
		all   bool // all returns, or only the nil-valued ones
	}{
		{"StopAndAwaitTerminated", []string{"StopAsync", "AwaitTerminated"}, true},
	} {
		fn := an.FindFunc(pkg, e.fn)
		if fn == nil {
			c.Miss("R9", "func="+e.fn, "not found")
			continue
		}
		c.Analysed(fn.String())
		g := fn.Graph()
		var targets []an.Loc
		for _, name := range e.calls {
			for _, call := range fn.Calls(false) {
				if sel, ok := call.Expr.Fun.(*ast.SelectorExpr); ok && sel.Sel.Name == name && fn.Canon(sel.X) == "p1" {
					targets = append(targets, g.Locate(call.Expr))
				}
			}
		}
		if len(targets) != len(e.calls) {
			c.Undec("R9", "func="+e.fn, fn.Pos(), fmt.Sprintf("expected one call each of %v on the service, found %d", e.calls, len(targets)))
			continue
		}
		var bad []string
		n := 0
		for _, b := range g.Blocks {
			r := an.ReturnOf(b)
			if r == nil || len(r.Results) != 1 {
				continue
			}
			v := fn.Canon(r.Results[0])
			if !e.all && (v == "p1.StartAsync(p0)" || strings.HasPrefix(v, "p1.FailureCase()")) {
				continue // an error of the start itself / the service's failure: not a claim that it runs
			}
			n++
			for i := range targets {
				if !g.Before(targets[i], g.Locate(r)) {
					bad = append(bad, fmt.Sprintf("return %s (line %d) can be reached without %s", v, c.Prog.Fset.Position(r.Pos()).Line, e.calls[i]))
				}
			}
		}
		c.Check(n > 0 && len(bad) == 0 && g.Before(targets[0], targets[1]), "R9", "func="+e.fn, fn.Pos(), fmt.Sprintf("%d returns, each behind %v in that order: %v", n, e.calls, bad), n)
	}
}

// c18WrapperDeps (R10): the service wrapper of module n waits, before starting, for the modules named by
// DependenciesForModule(n) — the TRANSITIVE dependencies — and, before stopping, for inverseDependenciesForModule(n).
// Transitivity matters because a dependency without a service of its own (init function returning nil) does no
// waiting on behalf of its dependants: with direct dependencies only, a module behind such a dependency would start
// before (and keep running after a failure of) the module below it. Every construction of the wrapper passes exactly
// those two queries, for the same name it wraps.
func c18WrapperDeps(c *core.Ctx, pkg *packages.Package) {
	n := 0
	for _, top := range an.Funcs(pkg) {
		for _, call := range top.CallsTo(true, "modules", "newModuleServiceWrapper") {
			n++
			key := fmt.Sprintf("wrapper-deps:func=%s#%d", top.Name, n)
			if len(call.Expr.Args) != 6 {
				c.Undec("R10", key, call.Expr.Pos(), "newModuleServiceWrapper is not called with its six arguments")
				continue
			}
			in := call.In
			name := in.Canon(call.Expr.Args[1])
			start, stop := in.Canon(call.Expr.Args[4]), in.Canon(call.Expr.Args[5])
			wantStart := "recv.DependenciesForModule(" + name + ")"
			wantStop := "recv.inverseDependenciesForModule(" + name + ")"
			c.Check(start == wantStart && stop == wantStop, "R10", key, call.Expr.Pos(), fmt.Sprintf("wrapper of %s: start dependencies = %s (want %s), stop dependencies = %s (want %s)", name, start, wantStart, stop, wantStop), 1)
		}
	}
	if n == 0 {
		c.Miss("R10", "call=newModuleServiceWrapper", "no construction of the module service wrapper found")
	}
	// DependenciesForModule is the transitive closure: its elements come from listDeps, which recurses over the deps of every dep
	if fn := an.FindFunc(pkg, "Manager.listDeps"); fn != nil {
		c.Analysed(fn.String())
		rec := false
		args := []string{}
		for _, call := range fn.CallsTo(true, "modules", "(*Manager).listDeps") {
			if len(call.Expr.Args) == 1 {
				a := call.In.Canon(call.Expr.Args[0])
				args = append(args, a)
				if a == "each(recv.modules[p0].deps)" || strings.HasPrefix(a, "recv.modules[p0].deps[") {
					rec = true
				}
			}
		}
		c.Check(rec, "R10", "func=listDeps:transitive", fn.Pos(), fmt.Sprintf("listDeps recurses into the elements of the module's own dependency list (recursive calls on %v): the query is transitive", args), 1)
	} else {
		c.Miss("R10", "func=Manager.listDeps", "not found")
	}
	if fn := an.FindFunc(pkg, "Manager.DependenciesForModule"); fn != nil {
		loops := rangeLoops(fn, "recv.listDeps(p0)")
		c.Check(len(loops) == 1, "R10", "func=DependenciesForModule:source", fn.Pos(), "DependenciesForModule collects the elements of listDeps(module)", 1)
	} else {
		c.Miss("R10", "func=Manager.DependenciesForModule", "not found")
	}
}
