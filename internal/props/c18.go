package props

import (
	"fmt"
	"go/ast"
	"go/types"
	"sort"
	"strings"

	"dsverif/internal/an"
	"dsverif/internal/core"
)

func init() {
	Registry["C18"] = Prop{
		Patterns: []string{"./modules"},
		Run:      runC18,
		Explanation: "Decides structural necessary conditions of 'modules initialise, start and stop in dependency order' in package modules: (R1) the wrapped service is started only after the loop over all start dependencies completed, each non-nil dependency is awaited and a failed dependency aborts the start; (R2) the wrapped service is stopped only after every dependant has been awaited; " +
			"(R3) initFn runs only for modules not marked initialised and every non-error pass of the loop marks the module in the same map that guards the skip (exactly-once), over orderedDeps(name)+name; (R4) AddDependency appends only after the cycle check over every new dependency (error when the module is among the new dependency's transitive dependencies); (R5) failures propagate (run returns the service's FailureCase); " +
			"(R6) the dependency queries (DependenciesForModule, inverseDependenciesForModule, orderedDeps, listDeps) read nothing but the registered modules' dependency lists, so they cannot be stale. NOT decided: that orderedDeps is a topological order for every DAG (algorithmic), timing.",
	}
}

func runC18(c *core.Ctx) {
	c.Rule("R1", "start waits for all dependencies; a failed dependency aborts the start", 3)
	c.Rule("R2", "stop waits for all dependants", 2)
	c.Rule("R3", "exactly-once initialisation over orderedDeps(name)+name", 3)
	c.Rule("R4", "cycle check precedes dependency insertion", 2)
	c.Rule("R5", "failure propagation", 1)
	c.Rule("R6", "dependency queries read only the dependency graph", 4)
	pkg := c.Prog.Pkg("modules")
	if pkg == nil {
		c.Miss("R1", "pkg=modules", "not loaded")
		return
	}
	// ---- R1
	if fn := an.FindFunc(pkg, "moduleService.start"); fn == nil {
		c.Miss("R1", "func=moduleService.start", "not found")
	} else {
		c.Analysed(fn.String())
		g := fn.Graph()
		starts := []an.Call{}
		for _, call := range fn.Calls(false) {
			if s, ok := call.Expr.Fun.(*ast.SelectorExpr); ok && s.Sel.Name == "StartAsync" && fn.Canon(s.X) == "recv.service" {
				starts = append(starts, call)
			}
		}
		loops := rangeLoops(fn, "recv.startDeps(recv.name)")
		if len(starts) != 1 || len(loops) != 1 {
			c.Undec("R1", "func=start:shape", fn.Pos(), fmt.Sprintf("expected one StartAsync of the wrapped service and one loop over startDeps(name): %d/%d", len(starts), len(loops)))
		} else {
			rs := loops[0]
			header, body, _ := g.LoopBlocks(rs)
			c.Check(g.Dom(header, g.Locate(starts[0].Expr).B) && !an.InNode(rs, starts[0].Expr), "R1", "func=start:order", starts[0].Expr.Pos(), "the dependency loop header dominates StartAsync of the wrapped service (StartAsync is after the loop)", 1)
			elem := "each(recv.startDeps(recv.name))"
			var await *an.Call
			for _, call := range fn.Calls(false) {
				call := call
				if s, ok := call.Expr.Fun.(*ast.SelectorExpr); ok && s.Sel.Name == "AwaitRunning" && fn.Canon(s.X) == elem {
					await = &call
				}
			}
			if await == nil {
				c.Viol("R1", "func=start:await", rs.Pos(), "no AwaitRunning on the loop's dependency")
			} else {
				t := an.Table{G: g, From: an.Loc{B: body, I: 0}, Opts: an.ExecOpts{Header: header}, FreeUnknown: true,
					Atoms: []an.Atom{{Name: "nil", Values: []string{"T", "F"}}}, Binder: &an.Binder{Fn: fn, Eq: map[string]string{elem + "|nil": "nil"}},
					Targets: []an.Loc{g.Locate(await.Expr)}, Names: []string{"AwaitRunning"},
					Want: func(r an.Row, _ int) an.Tri { return an.FromBool(r["nil"] == "F") }}
				res := t.Run()
				c.Check(res.OK(), "R1", "func=start:await", await.Expr.Pos(), "every non-nil dependency is awaited (and nothing else decides it): "+res.Summary(), res.Rows)
				// failed dependency aborts: from the await statement, with err != nil, StartAsync is unreachable and the function returns an error
				AC := fn.Canon(await.Expr)
				t2 := an.Table{G: g, From: g.Locate(stmtOf(fn, await.Expr)), MayOnly: true, Atoms: []an.Atom{{Name: "ok", Values: []string{"T", "F"}}},
					Binder: &an.Binder{Fn: fn, Eq: map[string]string{AC + "|nil": "ok"}}, Targets: []an.Loc{g.Locate(starts[0].Expr)},
					Want: func(r an.Row, _ int) an.Tri {
						if r["ok"] == "F" {
							return an.F
						}
						return an.U
					}}
				res2 := t2.Run()
				c.Check(res2.OK(), "R1", "func=start:abort", await.Expr.Pos(), "when a dependency fails to reach Running the wrapped service is never started: "+res2.Summary(), res2.Rows)
			}
		}
	}
	// ---- R2
	if fn := an.FindFunc(pkg, "moduleService.stop"); fn == nil {
		c.Miss("R2", "func=moduleService.stop", "not found")
	} else {
		c.Analysed(fn.String())
		g := fn.Graph()
		stops := fn.CallsTo(false, "services", "StopAndAwaitTerminated")
		waits := fn.CallsTo(false, "modules", "(*moduleService).waitForModulesToStop")
		ok := len(stops) == 1 && len(waits) == 1 && g.NodeBefore(waits[0].Expr, stops[0].Expr) && fn.Canon(stops[0].Expr.Args[1]) == "recv.service"
		c.Check(ok, "R2", "func=stop:order", fn.Pos(), "waitForModulesToStop() dominates StopAndAwaitTerminated(wrapped service)", 1)
		if w := an.FindFunc(pkg, "moduleService.waitForModulesToStop"); w != nil {
			c.Analysed(w.String())
			wg := w.Graph()
			loops := rangeLoops(w, "recv.stopDeps(recv.name)")
			okw := false
			detail := ""
			if len(loops) == 1 {
				header, body, _ := wg.LoopBlocks(loops[0])
				elem := "each(recv.stopDeps(recv.name))"
				for _, call := range w.Calls(false) {
					if s, ok := call.Expr.Fun.(*ast.SelectorExpr); ok && s.Sel.Name == "AwaitTerminated" && w.Canon(s.X) == elem {
						t := an.Table{G: wg, From: an.Loc{B: body, I: 0}, Opts: an.ExecOpts{Header: header}, FreeUnknown: true,
							Atoms: []an.Atom{{Name: "nil", Values: []string{"T", "F"}}}, Binder: &an.Binder{Fn: w, Eq: map[string]string{elem + "|nil": "nil"}},
							Targets: []an.Loc{wg.Locate(call.Expr)}, Want: func(r an.Row, _ int) an.Tri { return an.FromBool(r["nil"] == "F") }}
						res := t.Run()
						okw = res.OK()
						detail = res.Summary()
					}
				}
			}
			c.Check(okw, "R2", "func=waitForModulesToStop", w.Pos(), "every non-nil dependant is awaited to termination: "+detail, 2)
		} else {
			c.Miss("R2", "func=waitForModulesToStop", "not found")
		}
	}
	// ---- R3
	if fn := an.FindFunc(pkg, "Manager.initModule"); fn == nil {
		c.Miss("R3", "func=Manager.initModule", "not found")
	} else {
		c.Analysed(fn.String())
		g := fn.Graph()
		var initCall *an.Call
		for _, call := range fn.Calls(false) {
			call := call
			if strings.HasSuffix(fn.Canon(call.Expr.Fun), ".initFn") {
				initCall = &call
			}
		}
		loop, _ := loopOf(fn, func() ast.Node {
			if initCall != nil {
				return initCall.Expr
			}
			return fn.Body()
		}()).(*ast.RangeStmt)
		if initCall == nil || loop == nil {
			c.Undec("R3", "func=initModule:shape", fn.Pos(), "initFn call inside a range loop not found")
		} else {
			header, body, _ := g.LoopBlocks(loop)
			elem := "each(" + fn.Canon(loop.X) + ")"
			listOK := fn.Canon(loop.X) == "deps"
			// iteration list: deps := orderedDeps(name); deps = append(deps, name)
			if obj := fn.ObjOf(loop.X); obj != nil {
				ds := fn.DefSites(obj)
				cs := []string{}
				for _, d := range ds {
					cs = append(cs, d.Canon)
				}
				sort.Strings(cs)
				listOK = len(cs) == 2 && cs[0] == "append(deps, p0)" && cs[1] == "recv.orderedDeps(p0)"
			}
			c.Check(listOK, "R3", "func=initModule:list", loop.Pos(), "iteration list = orderedDeps(name) followed by name", 1)
			// guard map: the map tested for the skip; find `M[n]` conditions in loop
			// candidate maps: parameters of map type indexed by the loop element
			var marks []*ast.AssignStmt
			ast.Inspect(loop.Body, func(n ast.Node) bool {
				if as, ok := n.(*ast.AssignStmt); ok && len(as.Lhs) == 1 {
					if ix, ok := as.Lhs[0].(*ast.IndexExpr); ok && fn.Canon(ix.Index) == elem {
						marks = append(marks, as)
					}
				}
				return true
			})
			decided := false
			for _, mk := range marks {
				mcanon := fn.Canon(mk.Lhs[0].(*ast.IndexExpr).X)
				// is this map the guard? initFn reachable only if not marked
				t := an.Table{G: g, From: an.Loc{B: body, I: 0}, Opts: an.ExecOpts{Header: header}, MayOnly: true,
					Atoms:   []an.Atom{{Name: "marked", Values: []string{"T", "F"}}},
					Binder:  &an.Binder{Fn: fn, Bool: map[string]string{mcanon + "[" + elem + "]": "marked", "ok(" + mcanon + "[" + elem + "])": "marked"}},
					Targets: []an.Loc{g.Locate(initCall.Expr)}, Want: func(r an.Row, _ int) an.Tri { return an.FromBool(r["marked"] == "F") }}
				res := t.Run()
				if !res.OK() {
					continue
				}
				decided = true
				c.Hold("R3", "func=initModule:guard", initCall.Expr.Pos(), "initFn is reachable only when "+mcanon+"[module] is not set: "+res.Summary(), res.Rows)
				// every non-error pass marks: from initFn call stmt with err == nil, the mark executes on every path
				IC := fn.Canon(initCall.Expr)
				t2 := an.Table{G: g, From: an.Loc{B: body, I: 0}, Opts: an.ExecOpts{Header: header}, FreeUnknown: false,
					Atoms:   []an.Atom{{Name: "marked", Values: []string{"F"}}, {Name: "errnil", Values: []string{"T"}}},
					Binder:  &an.Binder{Fn: fn, Bool: map[string]string{mcanon + "[" + elem + "]": "marked", "ok(" + mcanon + "[" + elem + "])": "marked"}, Eq: map[string]string{IC + "#1|nil": "errnil"}},
					Targets: []an.Loc{g.Locate(mk)}, Want: func(r an.Row, _ int) an.Tri { return an.T }}
				res2 := t2.Run()
				c.Check(res2.OK(), "R3", "func=initModule:mark", mk.Pos(), "every pass of the loop that does not return an error sets "+mcanon+"[module] (so a module without a service is not initialised again): "+res2.Summary(), res2.Rows)
			}
			if !decided {
				c.Viol("R3", "func=initModule:guard", initCall.Expr.Pos(), "no map indexed by the module name guards the initFn call (modules could be initialised more than once)")
			}
		}
	}
	// ---- R4
	if fn := an.FindFunc(pkg, "Manager.AddDependency"); fn == nil {
		c.Miss("R4", "func=Manager.AddDependency", "not found")
	} else {
		c.Analysed(fn.String())
		g := fn.Graph()
		var app *ast.AssignStmt
		fn.InspectShallow(func(n ast.Node) bool {
			if as, ok := n.(*ast.AssignStmt); ok && len(as.Lhs) == 1 {
				if s, ok := as.Lhs[0].(*ast.SelectorExpr); ok && s.Sel.Name == "deps" {
					app = as
				}
			}
			return true
		})
		outer := rangeLoops(fn, "p1")
		if app == nil || len(outer) != 1 {
			c.Undec("R4", "func=AddDependency:shape", fn.Pos(), "append to deps / loop over the new dependencies not found")
		} else {
			oh, _, _ := g.LoopBlocks(outer[0])
			c.Check(g.Dom(oh, g.Locate(app).B) && !an.InNode(outer[0], app), "R4", "func=AddDependency:order", app.Pos(), "the loop over all new dependencies dominates (and precedes) the append to mod.deps", 1)
			inner := rangeLoops(fn, "recv.DependenciesForModule(each(p1))")
			okc := false
			detail := "inner loop over DependenciesForModule(newDep) not found"
			if len(inner) == 1 {
				ih, ib, _ := g.LoopBlocks(inner[0])
				var errRets []an.Loc
				for _, b := range g.Blocks {
					if r := an.ReturnOf(b); r != nil && an.InNode(inner[0], r) && len(r.Results) == 1 && fn.Canon(r.Results[0]) != "nil" {
						errRets = append(errRets, g.Locate(r))
					}
				}
				t := an.Table{G: g, From: an.Loc{B: ib, I: 0}, Opts: an.ExecOpts{Header: ih}, FreeUnknown: true, Atoms: []an.Atom{{Name: "self", Values: []string{"T", "F"}}},
					Binder:  &an.Binder{Fn: fn, Eq: map[string]string{"each(recv.DependenciesForModule(each(p1)))|p0": "self"}},
					Targets: errRets, Want: func(r an.Row, _ int) an.Tri { return an.FromBool(r["self"] == "T") }}
				res := t.Run()
				okc = res.OK() && len(errRets) == 1
				detail = res.Summary()
			}
			c.Check(okc, "R4", "func=AddDependency:cycle", fn.Pos(), "an error is returned ⇔ the module is among the transitive dependencies of a new dependency: "+detail, 2)
		}
	}
	// ---- R5
	if fn := an.FindFunc(pkg, "moduleService.run"); fn != nil {
		c.Analysed(fn.String())
		ok := false
		for _, b := range fn.Graph().Blocks {
			if r := an.ReturnOf(b); r != nil && len(r.Results) == 1 && fn.Canon(r.Results[0]) == "recv.service.FailureCase()" {
				ok = true
			}
		}
		c.Check(ok, "R5", "func=run", fn.Pos(), "the wrapper's running function returns the wrapped service's FailureCase()", 1)
	} else {
		c.Miss("R5", "func=moduleService.run", "not found")
	}
	// ---- R6 purity of dependency queries
	mgr := an.LookupType(pkg, "Manager")
	if mgr == nil {
		c.Miss("R6", "type=Manager", "not found")
		return
	}
	mst := mgr.Underlying().(*types.Struct)
	for _, name := range []string{"Manager.DependenciesForModule", "Manager.inverseDependenciesForModule", "Manager.orderedDeps", "Manager.listDeps"} {
		fn := an.FindFunc(pkg, name)
		if fn == nil {
			c.Miss("R6", "func="+name, "not found")
			continue
		}
		c.Analysed(fn.String())
		reads := map[string]bool{}
		writes := map[string]bool{}
		seen := map[string]bool{}
		var visit func(f *an.Fn)
		visit = func(f *an.Fn) {
			if f == nil || seen[f.Name] {
				return
			}
			seen[f.Name] = true
			for i := 0; i < mst.NumFields(); i++ {
				fld := mst.Field(i)
				for _, a := range an.FieldAccesses(pkg, fld) {
					if a.Fn == f {
						if a.Write {
							writes[fld.Name()] = true
						} else {
							reads[fld.Name()] = true
						}
					}
				}
			}
			for _, call := range f.Calls(true) {
				if cf := call.Func(); cf != nil && cf.Pkg() == pkg.Types {
					visit(an.FnOf(c.Prog.ByPath, cf))
				}
			}
		}
		visit(fn)
		okR := len(writes) == 0
		for r := range reads {
			if r != "modules" {
				okR = false
			}
		}
		c.Check(okR, "R6", "func="+name, fn.Pos(), fmt.Sprintf("Manager fields read %v, written %v in the query's call cone (must read only 'modules' and write nothing: a cached answer could be stale after AddDependency)", keys(reads), keys(writes)), len(seen))
	}
}
