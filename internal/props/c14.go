package props

import (
	"fmt"
	"go/ast"
	"go/token"
	"go/types"
	"strings"

	"dsverif/internal/an"
	"dsverif/internal/core"

	"golang.org/x/tools/go/packages"
)

func init() {
	Registry["C14"] = Prop{
		Patterns: []string{"./ring", "./loser"},
		Run:      runC14,
		Explanation: "Decides two structural clauses of 'reported token ranges coincide with key ownership and tile the key space' in every function returning ring.TokenRanges: (R1) no in-band sentinel: an unsigned local that is assigned both a constant K and a data value must not be compared with K to mean 'no value yet' (K is a legitimate token/range bound); " +
			"(R2) a pending range end is always closed: on every path (loops unrolled once, flags tracked path-sensitively) from a statement that records a pending bound together with its boolean flag to a successful return, the bound is consumed by an append/addRange. (R3) the k-way merge of token lists never lets an ended sequence beat a live one that holds the end marker 2^32-1 as a real token; (R4) every non-constant +/- on a 32-bit key or token in the lookup and range code is one of the reviewed sites (function + canonical expression, one reason each) and the guarded ones keep their guard — key arithmetic wraps silently exactly at the boundary tokens the property names; (R5) both producers of ring token lists sort an instance's tokens before the merge unless IsSorted. Also: (R6) the token→instance map shared between a ring and its subrings is immutable (shared with C13.R7); (R7) no selection loop over tokens starts from the extreme value of the domain as 'nothing selected'; (R8) the partition lookup the ranges are measured against returns the id at the position whose active flag it tested (shared with C15.R6); (R9) the instance lookup the ranges are measured against keeps its per-zone counters on separate storage (shared with C01.R7); (R10) the token list and token→partition map of a PartitionRing are computed from the descriptor it stores (shared with C13.R5). (R12) a token conflict is detected on the token value alone (shared with C05.R9); (R13) the equality shortcut compares every token (shared with C05.R13); (R14) every successful return of a range builder hands back the slice its token walk filled, never a precomputed answer. NOT decided: the equality 'range contains key ⇔ lookup assigns key' and the tiling themselves (relations between two computations over runtime token values).",
	}
}

func runC14(c *core.Ctx) {
	c.Rule("R11", "successor search: the index after an exact match, the insertion point otherwise, 0 past the last token (shared with C01.R8)", 1)
	c.Rule("R1", "no in-band sentinel on unsigned locals in the range builders", 2)
	c.Rule("R3", "k-way merge: an ended sequence never beats a live one holding the end marker's value (2^32-1 is a token)", 1)
	c.Rule("R4", "arithmetic on 32-bit keys/tokens in lookup and range code is confined to the reviewed shapes and site counts; guarded sites keep their guard", 4)
	c.Rule("R5", "token lists fed to the k-way merge are sorted by both producers, nobody else feeds it, and the partition token list is sorted where it is built", 4)
	c.Rule("R6", "the token→instance map shared between a ring and its subrings is immutable (shared with C13.R7)", 1)
	c.Rule("R7", "no selection loop over tokens starts from the extreme value of the domain as 'nothing selected'", 1)
	c.Rule("R8", "the partition lookup the ranges are measured against returns the id at the position whose active flag it tested (shared with C15.R6)", 2)
	c.Rule("R9", "the instance lookup the ranges are measured against keeps its per-zone counters on separate storage (shared with C01.R7)", 1)
	c.Rule("R10", "the token list and token→partition map of a PartitionRing are computed from the descriptor it stores (shared with C13.R5)", 1)
	c.Rule("R12", "one token, one owner: a conflict is detected on the token value alone, whatever the zones of its holders (shared with C05.R9)", 1)
	c.Rule("R13", "the equality shortcut that keeps the token index the ranges are computed from compares every token (shared with C05.R13)", 2)
	c.Rule("R14", "one computation of the ranges: every successful return of a range builder hands back the slice the token walk filled, never a precomputed answer", 2)
	c.Rule("R2", "a pending range bound recorded with its flag is consumed on every path to a successful return", 2)
	pkg := c.Prog.Pkg("ring")
	if pkg == nil {
		c.Miss("R1", "pkg=ring", "not loaded")
		return
	}
	tr := an.LookupType(pkg, "TokenRanges")
	if tr == nil {
		c.Miss("R1", "type=TokenRanges", "not found")
		return
	}
	n := 0
	for _, fn := range an.Funcs(pkg) {
		if fn.Obj == nil {
			continue
		}
		sig := fn.Obj.Type().(*types.Signature)
		if sig.Results().Len() == 0 || !types.Identical(sig.Results().At(0).Type(), tr) {
			continue
		}
		// builders only: functions that construct ranges (contain an append/make of TokenRanges)
		builds := false
		for _, call := range fn.CallsTo(true, "", "make") {
			if len(call.Expr.Args) > 0 && types.Identical(fn.Info().TypeOf(call.Expr.Args[0]), tr) {
				builds = true
			}
		}
		if !builds {
			continue
		}
		n++
		c.Analysed(fn.String())
		c14Sentinel(c, fn)
		c14Pending(c, fn)
		c14OnePath(c, fn, tr)
	}
	if n < 2 {
		c.Undec("R1", "builders", pkg.Syntax[0].Pos(), fmt.Sprintf("expected ≥2 functions building TokenRanges, found %d", n))
	}
	c14MergeMarker(c, pkg)
	c14Arithmetic(c, pkg)
	c14SortedInputs(c, pkg)
	c13ImmutableIndex(c, pkg, "R6")
	c14Extremum(c, pkg)
	c15LookupAs(c, pkg, "R8", false)
	c01CountersAs(c, pkg, "R9")
	c01SearchTokenAs(c, pkg, "R11")
	c13PartitionDerived(c, pkg, "R10")
	c.As("R9", "R12", func() { c05ConflictKey(c, pkg) })
	pairwiseLoopsAs(c, pkg, "R13", 2)
}

// c14Extremum (R7): a selection loop over 32-bit tokens/keys must not use the largest (or smallest)
// value of the domain as "nothing selected yet": `lowest := MaxUint32; if x < lowest { lowest = x; idx = i }`
// never selects an element equal to 2^32-1. The rule flags a uint32 local that is initialised with the
// extreme constant of the comparison direction and then updated under a strict comparison whose branch
// also records something else (an index, a flag); a pure running minimum/maximum is harmless and is
// accepted.
func c14Extremum(c *core.Ctx, pkg *packages.Package) { c14ExtremumAs(c, pkg, "R7") }

func c14ExtremumAs(c *core.Ctx, pkg *packages.Package, R string) {
	n := 0
	var all []*an.Fn
	for _, top := range an.Funcs(pkg) {
		all = append(all, top)
		all = append(all, top.AllLits()...)
	}
	var bad []string
	var badPos token.Pos
	for _, fn := range all {
		if strings.HasSuffix(c.Prog.Fset.Position(fn.Pos()).Filename, ".pb.go") {
			continue
		}
		fn.InspectShallow(func(nd ast.Node) bool {
			is, ok := nd.(*ast.IfStmt)
			if !ok {
				return true
			}
			// conjuncts of the condition
			for _, cj := range conjuncts(is.Cond) {
				be, ok := an.Unparen(cj).(*ast.BinaryExpr)
				if !ok || (be.Op != token.LSS && be.Op != token.GTR) {
					continue
				}
				// normalise to  data OP u
				for _, side := range []struct {
					u  ast.Expr
					op token.Token
				}{{be.Y, be.Op}, {be.X, flipCmp(be.Op)}} {
					v, ok := fn.ObjOf(side.u).(*types.Var)
					if !ok || v.IsField() {
						continue
					}
					b, ok := v.Type().Underlying().(*types.Basic)
					if !ok || b.Kind() != types.Uint32 {
						continue
					}
					n++
					// is u assigned in the branch, together with something else?
					assignsU, others := false, 0
					ast.Inspect(is.Body, func(m ast.Node) bool {
						if as, ok := m.(*ast.AssignStmt); ok {
							for _, l := range as.Lhs {
								if fn.ObjOf(l) == v {
									assignsU = true
								} else {
									others++
								}
							}
						}
						return true
					})
					if !assignsU || others == 0 {
						continue
					}
					// initial value of u: the extreme of the direction?
					extreme := false
					for _, d := range fn.DefSites(v) {
						cn := d.Canon
						if side.op == token.LSS && (strings.Contains(cn, "MaxUint32") || cn == "4294967295") {
							extreme = true
						}
						if side.op == token.GTR && (cn == "0" || cn == "zero" || d.Zero) {
							extreme = true
						}
					}
					if extreme {
						bad = append(bad, fmt.Sprintf("%s: %s is initialised with the extreme value and replaced only under a strict '%s', while the branch also records %d other value(s): an element equal to the extreme is never selected", fn.Name, v.Name(), side.op, others))
						badPos = is.Pos()
					}
				}
			}
			return true
		})
	}
	if len(bad) > 0 {
		c.Viol(R, "selection-sentinel", badPos, strings.Join(bad, "; "))
		return
	}
	c.Hold(R, "selection-sentinel", pkg.Syntax[0].Pos(), fmt.Sprintf("%d strict comparisons against uint32 locals examined in package ring: none is a selection that starts from the extreme value of the domain", n), n)
}

func flipCmp(op token.Token) token.Token {
	if op == token.LSS {
		return token.GTR
	}
	return token.LSS
}

// c14MergeMarker (R3): the token lists of a ring are merged by loser.Tree with an end-of-sequence marker
// equal to the largest token (2^32-1). Where two sequences are compared, an ended sequence (value =
// marker) must therefore never win against a live one holding that same value as a real token: the
// initial tournament's game must be decided by the 'ended' flag on equal values, as the replay already is.
func c14MergeMarker(c *core.Ctx, pkg *packages.Package) { c14MergeMarkerAs(c, pkg, "R3") }

// c14MergeMarkerAs runs the end-marker rule under rule id R (shared with C05 and C01: a token the merge
// drops is a token without an owner in the index every lookup uses).
func c14MergeMarkerAs(c *core.Ctx, pkg *packages.Package, R string) {
	mt := an.FindFunc(pkg, "MergeTokens")
	lp := c.Prog.Pkg("loser")
	if mt == nil || lp == nil {
		c.Miss(R, "func=MergeTokens / pkg=loser", "not found")
		return
	}
	c.Analysed(mt.String())
	news := mt.CallsTo(false, "loser", "New")
	if len(news) != 1 || len(news[0].Expr.Args) != 2 {
		c.Undec(R, "func=MergeTokens:marker", mt.Pos(), "expected one loser.New(lists, marker) call")
		return
	}
	marker := mt.Canon(news[0].Expr.Args[1])
	inBand := marker == "math.MaxUint32" || marker == "MaxUint32" || marker == "4294967295"
	if !inBand {
		c.Hold(R, "func=MergeTokens:marker", news[0].Expr.Pos(), "end-of-sequence marker "+marker+" (not the largest token)", 1)
	}
	pg := an.FindFunc(lp, "Tree.playGame")
	if pg == nil {
		c.Miss(R, "func=loser.Tree.playGame", "not found")
		return
	}
	c.Analysed(pg.String())
	g := pg.Graph()
	var aWins, bWins []an.Loc
	for _, b := range g.Blocks {
		if r := an.ReturnOf(b); r != nil && len(r.Results) == 2 {
			switch {
			case pg.Canon(r.Results[0]) == "p1" && pg.Canon(r.Results[1]) == "p0":
				aWins = append(aWins, g.Locate(r))
			case pg.Canon(r.Results[0]) == "p0" && pg.Canon(r.Results[1]) == "p1":
				bWins = append(bWins, g.Locate(r))
			default:
				c.Undec(R, "func=loser.Tree.playGame:table", r.Pos(), "return is neither (b, a) nor (a, b)")
				return
			}
		}
	}
	if len(aWins) != 1 || len(bWins) != 1 {
		c.Undec(R, "func=loser.Tree.playGame:table", pg.Pos(), fmt.Sprintf("expected one return per winner, found %d/%d", len(aWins), len(bWins)))
		return
	}
	t := an.Table{G: g, From: g.EntryLoc(), FreeUnknown: true,
		Atoms:   []an.Atom{{Name: "cmp", Values: []string{"lt", "eq", "gt"}}, {Name: "bEnded", Values: []string{"T", "F"}}},
		Binder:  &an.Binder{Fn: pg, Cmp: map[string]string{"recv.nodes[p0].value|recv.nodes[p1].value": "cmp"}, Eq: map[string]string{"recv.nodes[p1].index|-1": "bEnded"}},
		Targets: []an.Loc{aWins[0], bWins[0]}, Names: []string{"a wins", "b wins"},
		Want: func(r an.Row, i int) an.Tri {
			if r["bEnded"] == "T" && r["cmp"] == "gt" {
				return an.U // infeasible: an ended sequence holds the largest value
			}
			a := r["cmp"] == "lt" || (r["bEnded"] == "T" && r["cmp"] == "eq")
			return an.FromBool(a == (i == 0))
		}}
	res := t.Run()
	c.Check(res.OK(), R, "func=loser.Tree.playGame:table", pg.Pos(), fmt.Sprintf("the merge's end marker is %s, a legitimate token: in the initial tournament a sequence wins ⇔ its value is smaller ∨ (equal ∧ the other sequence has ended) — otherwise an instance whose only token is 2^32-1 loses it next to a token-less instance: %s", marker, res.Summary()), res.Rows)
}

// c14Reviewed lists every non-constant addition/subtraction on 32-bit key or token values in the
// ring's lookup and range code, keyed by function and canonical expression, with the reason it cannot
// wrap wrongly. A new site is undecided until it has been reviewed (key arithmetic wraps silently).
var c14Reviewed = map[string]struct {
	n   int
	why string
}{
	"(x - 1)": {4, "GetTokenRangesForPartition: start-1 is only compared with the previous range end (start==0 yields 2^32-1, which no earlier range of the ascending walk can end at), and token-1 wraps on purpose (the owner of token 0 owns the range ending at 2^32-1, handled as the 'last range'); GetTokenRangesForInstance: token-1 for tokens at index > 0 of a strictly ascending list (≥ 1), and firstToken-1 guarded by firstToken != 0 (checked separately)"},
	"(x - x)": {1, "tokenDistance: to-from, guarded by from < to (checked separately)"},
}

func c14Arithmetic(c *core.Ctx, pkg *packages.Package) {
	skip := func(file string) bool {
		return strings.HasSuffix(file, ".pb.go") || strings.HasSuffix(file, "spread_minimizing_token_generator.go") || strings.HasSuffix(file, "token_generator.go")
	}
	isU32 := func(fn *an.Fn, e ast.Expr) bool {
		t := fn.Info().TypeOf(e)
		if t == nil {
			return false
		}
		b, ok := t.Underlying().(*types.Basic)
		return ok && b.Kind() == types.Uint32
	}
	sites := map[string][]string{}
	firstPos := map[string]token.Pos{}
	var all []*an.Fn
	for _, top := range an.Funcs(pkg) {
		all = append(all, top)
		all = append(all, top.AllLits()...)
	}
	for _, fn := range all {
		if skip(c.Prog.Fset.Position(fn.Pos()).Filename) {
			continue
		}
		fn.InspectShallow(func(n ast.Node) bool {
			var expr ast.Expr
			var pos token.Pos
			switch x := n.(type) {
			case *ast.BinaryExpr:
				if (x.Op == token.ADD || x.Op == token.SUB) && isU32(fn, x) && fn.Info().Types[x].Value == nil {
					expr, pos = x, x.Pos()
				}
			case *ast.IncDecStmt:
				if isU32(fn, x.X) {
					c.Undec("R4", "arith:func="+fn.Name+":"+fn.Canon(x.X)+x.Tok.String(), x.Pos(), "increment/decrement of a 32-bit key or token value has not been reviewed for wrap-around")
				}
			case *ast.AssignStmt:
				if (x.Tok == token.ADD_ASSIGN || x.Tok == token.SUB_ASSIGN) && isU32(fn, x.Lhs[0]) {
					c.Undec("R4", "arith:func="+fn.Name+":"+fn.Canon(x.Lhs[0])+x.Tok.String(), x.Pos(), "compound assignment on a 32-bit key or token value has not been reviewed for wrap-around")
				}
			}
			if expr == nil {
				return true
			}
			// the site is identified by its shape — operator and constant operands — not by the function it sits
			// in or the spelling of its variable operands: moving it into a helper or renaming changes neither
			be := expr.(*ast.BinaryExpr)
			opnd := func(e ast.Expr) string {
				if tv, ok := fn.Info().Types[e]; ok && tv.Value != nil {
					return tv.Value.ExactString()
				}
				return "x"
			}
			shape := "(" + opnd(be.X) + " " + be.Op.String() + " " + opnd(be.Y) + ")"
			sites[shape] = append(sites[shape], fn.Name+": "+fn.Canon(expr)+" at "+c.Prog.PosStr(pos))
			if firstPos[shape] == token.NoPos {
				firstPos[shape] = pos
			}
			return true
		})
	}
	for shape, want := range c14Reviewed {
		got := sites[shape]
		if len(got) == want.n {
			c.Hold("R4", "arith:shape="+shape, firstPos[shape], fmt.Sprintf("%d sites, all reviewed: %s", want.n, want.why), want.n)
		} else {
			c.Undec("R4", "arith:shape="+shape, firstPos[shape], fmt.Sprintf("%d sites of this shape were reviewed (%s), %d found: %v — a new piece of arithmetic on a 32-bit key or token wraps silently at 0 / 2^32-1, where the property quantifies explicitly", want.n, want.why, len(got), got))
		}
	}
	for shape, got := range sites {
		if _, ok := c14Reviewed[shape]; !ok {
			c.Undec("R4", "arith:shape="+shape, firstPos[shape], fmt.Sprintf("arithmetic of a shape that has not been reviewed on 32-bit keys or tokens: %v (it wraps silently at 0 / 2^32-1)", got))
		}
	}
	// the two guarded sites: the guard is still there
	if fn := an.FindFunc(pkg, "Ring.GetTokenRangesForInstance"); fn != nil {
		g := fn.Graph()
		var tgt []an.Loc
		fn.InspectShallow(func(n ast.Node) bool {
			if b, ok := n.(*ast.BinaryExpr); ok && b.Op == token.SUB && strings.HasSuffix(fn.Canon(b), "[0] - 1)") {
				tgt = append(tgt, g.Locate(stmtOf(fn, b)))
			}
			return true
		})
		if len(tgt) == 1 {
			first := strings.TrimSuffix(strings.TrimPrefix(fn.Canon(tgt[0].B.Nodes[tgt[0].I].(*ast.AssignStmt).Rhs[0].(*ast.CallExpr).Args[1]), "("), " - 1)")
			t := an.Table{G: g, From: g.EntryLoc(), MayOnly: true, Opts: an.ExecOpts{Unroll: 1}, Atoms: []an.Atom{{Name: "zero", Values: []string{"T", "F"}}},
				Binder: &an.Binder{Fn: fn, Eq: map[string]string{first + "|0": "zero"}}, Targets: tgt,
				Want: func(r an.Row, _ int) an.Tri {
					if r["zero"] == "T" {
						return an.F
					}
					return an.U
				}}
			res := t.Run()
			c.Check(res.OK(), "R4", "guard:GetTokenRangesForInstance:firstToken-1", fn.Pos(), "firstToken-1 is unreachable when the first token is 0: "+res.Summary(), res.Rows)
		} else {
			c.Undec("R4", "guard:GetTokenRangesForInstance:firstToken-1", fn.Pos(), "site not found")
		}
	}
	if fn := an.FindFunc(pkg, "tokenDistance"); fn != nil {
		g := fn.Graph()
		var tgt []an.Loc
		for _, b := range g.Blocks {
			if r := an.ReturnOf(b); r != nil && strings.Contains(fn.Canon(r.Results[0]), "(p1 - p0)") {
				tgt = append(tgt, g.Locate(r))
			}
		}
		t := an.Table{G: g, From: g.EntryLoc(), MayOnly: true, Atoms: []an.Atom{{Name: "cmp", Values: []string{"lt", "eq", "gt"}}},
			Binder: &an.Binder{Fn: fn, Cmp: map[string]string{"p0|p1": "cmp"}}, Targets: tgt,
			Want: func(r an.Row, _ int) an.Tri {
				if r["cmp"] != "lt" {
					return an.F
				}
				return an.U
			}}
		res := t.Run()
		c.Check(res.OK() && len(tgt) == 1, "R4", "guard:tokenDistance:to-from", fn.Pos(), "to-from is computed only when from < to: "+res.Summary(), res.Rows)
	}
}

// c14SortedInputs (R5): the k-way merge requires sorted inputs. Both producers of the ring's token
// lists (Desc.GetTokens → the list lookups search, Desc.getTokensByZone → the lists the range builders
// walk) sort an instance's tokens unless sort.IsSorted says they are — descriptors written by older
// versions may hold unsorted tokens — so the two lists always agree.
func c14SortedInputs(c *core.Ctx, pkg *packages.Package) {
	// census: the k-way merge (which needs sorted inputs) is fed by the two analysed producers only
	{
		var callers []string
		okAll := true
		for _, f := range an.Funcs(pkg) {
			for _, callee := range []string{"MergeTokens", "MergeTokensByZone"} {
				for range f.CallsTo(true, "ring", callee) {
					name := an.FuncDisplay(f.Obj)
					callers = append(callers, name)
					if name != "(*Desc).GetTokens" && name != "(*Desc).getTokensByZone" && !(callee == "MergeTokens" && name == "MergeTokensByZone") {
						okAll = false
					}
				}
			}
		}
		c.Check(okAll && len(callers) >= 2, "R5", "census:MergeTokens", pkg.Syntax[0].Pos(), fmt.Sprintf("MergeTokens / MergeTokensByZone are called by %v (only the producers whose inputs are shown sorted below)", callers), len(callers))
	}
	c14PartitionTokensSorted(c, pkg, "R5")
	for _, name := range []string{"Desc.GetTokens", "Desc.getTokensByZone"} {
		fn := an.FindFunc(pkg, name)
		if fn == nil {
			c.Miss("R5", "func="+name, "not found")
			continue
		}
		c.Analysed(fn.String())
		g := fn.Graph()
		loops := rangeLoops(fn, "recv.Ingesters")
		if len(loops) != 1 {
			c.Undec("R5", "func="+name, fn.Pos(), "expected one loop over the instances")
			continue
		}
		header, body, _ := g.LoopBlocks(loops[0])
		tok := "each(recv.Ingesters).Tokens"
		var collect, sorts []an.Loc
		for _, call := range fn.Calls(false) {
			if !an.InNode(loops[0], call.Expr) {
				continue
			}
			if an.ObjIs(call.Callee, "", "append") && len(call.Expr.Args) == 2 && fn.Canon(call.Expr.Args[1]) == tok {
				collect = append(collect, g.Locate(call.Expr))
			}
			if (call.Is("sort", "Sort") || call.Is("slices", "Sort") || call.Is("sort", "Stable")) && len(call.Expr.Args) == 1 && fn.Canon(call.Expr.Args[0]) == tok {
				sorts = append(sorts, g.Locate(call.Expr))
			}
		}
		if len(collect) != 1 {
			c.Undec("R5", "func="+name, fn.Pos(), fmt.Sprintf("expected one append of the instance's tokens (%s) to the merge input, found %d", tok, len(collect)))
			continue
		}
		if len(sorts) != 1 {
			c.Viol("R5", "func="+name, loops[0].Pos(), fmt.Sprintf("the instance's tokens reach the k-way merge without being sorted (%d sort calls on %s): descriptors written by older versions may hold unsorted tokens, and the merged list would disagree with the per-zone lists", len(sorts), tok))
			continue
		}
		t := an.Table{G: g, From: an.Loc{B: body, I: 0}, Opts: an.ExecOpts{Header: header}, FreeUnknown: true, Atoms: []an.Atom{{Name: "sorted", Values: []string{"T", "F"}}},
			Binder: &an.Binder{Fn: fn, Bool: map[string]string{"sort.IsSorted(" + tok + ")": "sorted"}}, Targets: []an.Loc{sorts[0], collect[0]}, Names: []string{"sort", "collect"},
			Want: func(r an.Row, i int) an.Tri {
				if i == 1 {
					return an.T
				}
				if r["sorted"] == "F" {
					return an.T
				}
				return an.U
			}}
		res := t.Run()
		c.Check(res.OK(), "R5", "func="+name, loops[0].Pos(), "every instance's tokens are collected, and sorted first whenever sort.IsSorted is false — on nothing else: "+res.Summary(), res.Rows)
	}
}

func isUnsigned(t types.Type) bool {
	b, ok := t.Underlying().(*types.Basic)
	return ok && b.Info()&types.IsUnsigned != 0
}

func c14Sentinel(c *core.Ctx, fn *an.Fn) {
	info := fn.Info()
	type vinfo struct {
		consts   map[string]bool
		nonConst []string
		obj      types.Object
	}
	vars := map[types.Object]*vinfo{}
	get := func(o types.Object) *vinfo {
		if vars[o] == nil {
			vars[o] = &vinfo{consts: map[string]bool{}, obj: o}
		}
		return vars[o]
	}
	constVal := func(e ast.Expr) (string, bool) {
		if tv, ok := info.Types[e]; ok && tv.Value != nil {
			return tv.Value.ExactString(), true
		}
		return "", false
	}
	record := func(lhs ast.Expr, rhs ast.Expr) {
		id, ok := an.Unparen(lhs).(*ast.Ident)
		if !ok {
			return
		}
		o := info.Defs[id]
		if o == nil {
			o = info.Uses[id]
		}
		v, ok := o.(*types.Var)
		if !ok || v.IsField() || !isUnsigned(v.Type()) {
			return
		}
		if rhs == nil {
			get(o).consts["0"] = true
			return
		}
		if k, ok := constVal(rhs); ok {
			get(o).consts[k] = true
		} else {
			get(o).nonConst = append(get(o).nonConst, types.ExprString(rhs))
		}
	}
	fn.InspectDeep(func(n ast.Node) bool {
		switch s := n.(type) {
		case *ast.AssignStmt:
			if len(s.Lhs) == len(s.Rhs) && (s.Tok == token.ASSIGN || s.Tok == token.DEFINE) {
				for i := range s.Lhs {
					record(s.Lhs[i], s.Rhs[i])
				}
			} else {
				for _, l := range s.Lhs {
					if id, ok := an.Unparen(l).(*ast.Ident); ok {
						if o := fn.ObjOf(id); o != nil && isUnsigned(o.Type()) {
							get(o).nonConst = append(get(o).nonConst, "(tuple/op-assign)")
						}
					}
				}
			}
		case *ast.ValueSpec:
			for i, nm := range s.Names {
				if len(s.Values) == len(s.Names) {
					record(nm, s.Values[i])
				} else if len(s.Values) == 0 {
					record(nm, nil)
				}
			}
		case *ast.RangeStmt:
			for _, e := range []ast.Expr{s.Key, s.Value} {
				if id, ok := e.(*ast.Ident); ok {
					if o := info.Defs[id]; o != nil && isUnsigned(o.Type()) {
						get(o).nonConst = append(get(o).nonConst, "(range)")
					}
				}
			}
		}
		return true
	})
	// comparisons with one of the variable's own constants
	checked := 0
	fn.InspectDeep(func(n ast.Node) bool {
		be, ok := n.(*ast.BinaryExpr)
		if !ok {
			return true
		}
		switch be.Op {
		case token.EQL, token.NEQ, token.LSS, token.GTR, token.LEQ, token.GEQ:
		default:
			return true
		}
		for _, pair := range [][2]ast.Expr{{be.X, be.Y}, {be.Y, be.X}} {
			o := fn.ObjOf(pair[0])
			vi := vars[o]
			if o == nil || vi == nil {
				continue
			}
			k, isConst := constVal(pair[1])
			if !isConst {
				continue
			}
			checked++
			if vi.consts[k] && len(vi.nonConst) > 0 {
				c.Viol("R1", "func="+fn.Name+":var="+o.Name(), be.Pos(), fmt.Sprintf("unsigned local %s is assigned the constant %s and data values %v, and is compared with %s: %s doubles as a 'no value' sentinel although it is a legitimate token/range bound", o.Name(), k, head(vi.nonConst, 3), k, k))
			}
		}
		return true
	})
	nvars := 0
	for _, vi := range vars {
		if len(vi.consts) > 0 && len(vi.nonConst) > 0 {
			nvars++
		}
	}
	c.Hold("R1", "func="+fn.Name, fn.Pos(), fmt.Sprintf("%d unsigned locals, %d with both constant and data assignments, %d constant comparisons examined: none compares such a variable with its own constant", len(vars), nvars, checked), len(vars)+checked)
}

func c14Pending(c *core.Ctx, fn *an.Fn) {
	g := fn.Graph()
	info := fn.Info()
	// pairs (V, F): in one block `F = true` and `V = e` with V unsigned local, F bool local
	type pair struct{ v, f types.Object }
	pairs := map[pair]bool{}
	var opens map[pair][]an.Loc = map[pair][]an.Loc{}
	for _, b := range g.Blocks {
		var fs, vs []types.Object
		var fLocs []an.Loc
		for i, n := range b.Nodes {
			as, ok := n.(*ast.AssignStmt)
			if !ok || len(as.Lhs) != len(as.Rhs) {
				continue
			}
			for j, l := range as.Lhs {
				o := fn.ObjOf(l)
				if o == nil {
					continue
				}
				if bt, ok := o.Type().Underlying().(*types.Basic); ok && bt.Kind() == types.Bool && fn.Canon(as.Rhs[j]) == "true" {
					fs = append(fs, o)
					fLocs = append(fLocs, an.Loc{B: b, I: i})
				} else if isUnsigned(o.Type()) {
					vs = append(vs, o)
				}
			}
		}
		for k, f := range fs {
			for _, v := range vs {
				p := pair{v, f}
				pairs[p] = true
				opens[p] = append(opens[p], fLocs[k])
			}
		}
	}
	if len(pairs) == 0 {
		c.Undec("R2", "func="+fn.Name, fn.Pos(), "no (bound, flag) pair recognised: the builder no longer records a pending range bound together with a boolean flag")
		return
	}
	for p := range pairs {
		// consume sites: calls with V as an argument (append(ranges, V, …) or a local closure)
		var closes []an.Loc
		fn.InspectShallow(func(n ast.Node) bool {
			if call, ok := n.(*ast.CallExpr); ok {
				for _, a := range call.Args {
					if fn.ObjOf(a) == p.v {
						closes = append(closes, g.Locate(call))
					}
				}
			}
			return true
		})
		var rets []an.Loc
		for _, b := range g.Blocks {
			if r := an.ReturnOf(b); r != nil && len(r.Results) == 2 && fn.Canon(r.Results[1]) == "nil" && fn.Canon(r.Results[0]) != "nil" {
				rets = append(rets, g.Locate(r))
			}
		}
		if len(closes) == 0 || len(rets) == 0 {
			c.Viol("R2", "func="+fn.Name+":bound="+p.v.Name(), fn.Pos(), fmt.Sprintf("pending bound %s (flag %s) is never consumed, or no successful return found (%d consume sites, %d returns)", p.v.Name(), p.f.Name(), len(closes), len(rets)))
			continue
		}
		targets := append(append(append([]an.Loc{}, opens[p]...), closes...), rets...)
		nO, nC := len(opens[p]), len(closes)
		ex := g.Exec(g.EntryLoc(), targets, func(ast.Expr, an.Store) an.Tri { return an.U }, an.ExecOpts{Record: true, Unroll: 1, MaxPaths: 200000})
		bad := 0
		total := 0
		example := ""
		for _, tr := range ex.Traces {
			pending := false
			reachedRet := false
			for _, h := range tr {
				switch {
				case h.Target < nO:
					pending = true
				case h.Target < nO+nC:
					pending = false
				default:
					reachedRet = true
				}
			}
			if !reachedRet {
				continue
			}
			total++
			if pending {
				bad++
				if example == "" {
					seq := []string{}
					for _, h := range tr {
						switch {
						case h.Target < nO:
							seq = append(seq, "record")
						case h.Target < nO+nC:
							seq = append(seq, "consume")
						default:
							seq = append(seq, "return")
						}
					}
					example = strings.Join(seq, "→")
				}
			}
		}
		key := "func=" + fn.Name + ":bound=" + p.v.Name()
		switch {
		case ex.Overflow:
			c.Undec("R2", key, fn.Pos(), "path enumeration overflow")
		case bad > 0:
			c.Viol("R2", key, fn.Pos(), fmt.Sprintf("%d of %d paths to a successful return leave the recorded bound %s (flag %s) unconsumed, e.g. %s: a range of the instance/partition is dropped", bad, total, p.v.Name(), p.f.Name(), example))
		default:
			c.Hold("R2", key, fn.Pos(), fmt.Sprintf("%d paths to a successful return (loops unrolled once, flag %s tracked): every recorded bound %s is consumed (%d record sites, %d consume sites)", total, p.f.Name(), p.v.Name(), nO, nC), total)
		}
	}
	_ = info
}

// c14PartitionTokensSorted: the partition ring's binary search runs over PartitionRingDesc.tokens(), which
// must be sorted whatever order the descriptor's per-partition lists are in: every return hands back a
// slice that a sort call (slices.Sort / sort.Sort / sort.Slice on that very slice) has just sorted.
func c14PartitionTokensSorted(c *core.Ctx, pkg *packages.Package, R string) {
	fn := an.FindFunc(pkg, "PartitionRingDesc.tokens")
	if fn == nil {
		c.Miss(R, "func=PartitionRingDesc.tokens", "not found")
		return
	}
	c.Analysed(fn.String())
	g := fn.Graph()
	var bad []string
	n := 0
	for _, b := range g.Blocks {
		r := an.ReturnOf(b)
		if r == nil || len(r.Results) != 1 {
			continue
		}
		n++
		id, ok := an.Unparen(r.Results[0]).(*ast.Ident)
		sorted := false
		if ok {
			for _, call := range fn.Calls(false) {
				if (call.Is("slices", "Sort") || call.Is("sort", "Sort") || call.Is("sort", "Slice") || call.Is("sort", "Stable")) && len(call.Expr.Args) >= 1 {
					if aid, isID := an.Unparen(call.Expr.Args[0]).(*ast.Ident); isID && fn.ObjOf(aid) == fn.ObjOf(id) && g.NodeBefore(call.Expr, r) {
						// nothing is appended between the sort and the return
						later := false
						for _, ap := range fn.CallsTo(false, "", "append") {
							if ap.Expr.Pos() > call.Expr.Pos() {
								later = true
							}
						}
						sorted = !later
					}
				}
			}
		}
		if !sorted {
			bad = append(bad, fmt.Sprintf("return %s (line %d)", fn.Canon(r.Results[0]), c.Prog.Fset.Position(r.Pos()).Line))
		}
	}
	c.Check(n > 0 && len(bad) == 0, R, "func=PartitionRingDesc.tokens:sorted", fn.Pos(), fmt.Sprintf("%d returns, each a slice sorted in this function just before: %v", n, bad), n)
}

// c14OnePath (R14): a range builder answers with the ranges its walk over the tokens produced. Every return whose
// first result is not nil returns one local slice; that local is created empty (make) and only ever extended by
// appending to itself (directly or through a helper that receives it). A literal or otherwise precomputed answer —
// "this zone has one instance, so it owns everything" — is decided on something other than the token walk the
// lookup performs, and disagrees with it on the inputs the shortcut did not think of (instances without tokens,
// instances of other zones, read-only filters).
func c14OnePath(c *core.Ctx, fn *an.Fn, tr *types.Named) {
	var bad []string
	ok := 0
	for _, b := range fn.Graph().Blocks {
		r := an.ReturnOf(b)
		if r == nil || len(r.Results) == 0 {
			continue
		}
		res := an.Unparen(r.Results[0])
		if id, isID := res.(*ast.Ident); isID && id.Name == "nil" {
			continue
		}
		obj := fn.ObjOf(res)
		if obj == nil {
			bad = append(bad, fmt.Sprintf("returns %s", types.ExprString(res)))
			continue
		}
		made, good := 0, true
		for _, d := range fn.DefSites(obj) {
			switch {
			case d.Zero:
			case d.Expr == nil:
				good = false
			default:
				call, isCall := an.Unparen(d.Expr).(*ast.CallExpr)
				if !isCall {
					good = false
					break
				}
				if id, isID := call.Fun.(*ast.Ident); isID && id.Name == "make" {
					made++
					break
				}
				// append(x, …) or helper(x, …): the slice itself is the first argument
				if len(call.Args) == 0 || fn.ObjOf(call.Args[0]) != obj {
					good = false
				}
			}
		}
		if good && made == 1 {
			ok++
		} else {
			bad = append(bad, fmt.Sprintf("returns %s, which is not only the walk's own slice (make ×%d, other definitions accepted=%v)", obj.Name(), made, good))
		}
	}
	c.Check(len(bad) == 0 && ok >= 1, "R14", "func="+fn.Name+":one-path", fn.Pos(), fmt.Sprintf("%d successful return(s), each of the slice the token walk filled; other answers: %v", ok, bad), ok)
}
