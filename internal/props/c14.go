package props

import (
	"fmt"
	"go/ast"
	"go/token"
	"go/types"
	"strings"

	"dsverif/internal/an"
	"dsverif/internal/core"
)

func init() {
	Registry["C14"] = Prop{
		Patterns: []string{"./ring"},
		Run:      runC14,
		Explanation: "Decides two structural clauses of 'reported token ranges coincide with key ownership and tile the key space' in every function returning ring.TokenRanges: (R1) no in-band sentinel: an unsigned local that is assigned both a constant K and a data value must not be compared with K to mean 'no value yet' (K is a legitimate token/range bound); " +
			"(R2) a pending range end is always closed: on every path (loops unrolled once, flags tracked path-sensitively) from a statement that records a pending bound together with its boolean flag to a successful return, the bound is consumed by an append/addRange. NOT decided: the equality 'range contains key ⇔ lookup assigns key' and the tiling themselves (relations between two computations over runtime token values).",
	}
}

func runC14(c *core.Ctx) {
	c.Rule("R1", "no in-band sentinel on unsigned locals in the range builders", 2)
	c.Rule("R2", "a pending range bound recorded with its flag is consumed on every path to a successful return", 2)
	pkg := c.Prog.Pkg("ring")
	if pkg == nil {
		c.Miss("R1", "pkg=ring", "not loaded")
		return
	}
	tr := an.LookupType(pkg, "TokenRanges")
	if tr == nil {
		c.Miss("R1", "type=TokenRanges", "not found")
		return
	}
	n := 0
	for _, fn := range an.Funcs(pkg) {
		if fn.Obj == nil {
			continue
		}
		sig := fn.Obj.Type().(*types.Signature)
		if sig.Results().Len() == 0 || !types.Identical(sig.Results().At(0).Type(), tr) {
			continue
		}
		// builders only: functions that construct ranges (contain an append/make of TokenRanges)
		builds := false
		for _, call := range fn.CallsTo(true, "", "make") {
			if len(call.Expr.Args) > 0 && types.Identical(fn.Info().TypeOf(call.Expr.Args[0]), tr) {
				builds = true
			}
		}
		if !builds {
			continue
		}
		n++
		c.Analysed(fn.String())
		c14Sentinel(c, fn)
		c14Pending(c, fn)
	}
	if n < 2 {
		c.Undec("R1", "builders", pkg.Syntax[0].Pos(), fmt.Sprintf("expected ≥2 functions building TokenRanges, found %d", n))
	}
}

func isUnsigned(t types.Type) bool {
	b, ok := t.Underlying().(*types.Basic)
	return ok && b.Info()&types.IsUnsigned != 0
}

func c14Sentinel(c *core.Ctx, fn *an.Fn) {
	info := fn.Info()
	type vinfo struct {
		consts   map[string]bool
		nonConst []string
		obj      types.Object
	}
	vars := map[types.Object]*vinfo{}
	get := func(o types.Object) *vinfo {
		if vars[o] == nil {
			vars[o] = &vinfo{consts: map[string]bool{}, obj: o}
		}
		return vars[o]
	}
	constVal := func(e ast.Expr) (string, bool) {
		if tv, ok := info.Types[e]; ok && tv.Value != nil {
			return tv.Value.ExactString(), true
		}
		return "", false
	}
	record := func(lhs ast.Expr, rhs ast.Expr) {
		id, ok := an.Unparen(lhs).(*ast.Ident)
		if !ok {
			return
		}
		o := info.Defs[id]
		if o == nil {
			o = info.Uses[id]
		}
		v, ok := o.(*types.Var)
		if !ok || v.IsField() || !isUnsigned(v.Type()) {
			return
		}
		if rhs == nil {
			get(o).consts["0"] = true
			return
		}
		if k, ok := constVal(rhs); ok {
			get(o).consts[k] = true
		} else {
			get(o).nonConst = append(get(o).nonConst, types.ExprString(rhs))
		}
	}
	fn.InspectDeep(func(n ast.Node) bool {
		switch s := n.(type) {
		case *ast.AssignStmt:
			if len(s.Lhs) == len(s.Rhs) && (s.Tok == token.ASSIGN || s.Tok == token.DEFINE) {
				for i := range s.Lhs {
					record(s.Lhs[i], s.Rhs[i])
				}
			} else {
				for _, l := range s.Lhs {
					if id, ok := an.Unparen(l).(*ast.Ident); ok {
						if o := fn.ObjOf(id); o != nil && isUnsigned(o.Type()) {
							get(o).nonConst = append(get(o).nonConst, "(tuple/op-assign)")
						}
					}
				}
			}
		case *ast.ValueSpec:
			for i, nm := range s.Names {
				if len(s.Values) == len(s.Names) {
					record(nm, s.Values[i])
				} else if len(s.Values) == 0 {
					record(nm, nil)
				}
			}
		case *ast.RangeStmt:
			for _, e := range []ast.Expr{s.Key, s.Value} {
				if id, ok := e.(*ast.Ident); ok {
					if o := info.Defs[id]; o != nil && isUnsigned(o.Type()) {
						get(o).nonConst = append(get(o).nonConst, "(range)")
					}
				}
			}
		}
		return true
	})
	// comparisons with one of the variable's own constants
	checked := 0
	fn.InspectDeep(func(n ast.Node) bool {
		be, ok := n.(*ast.BinaryExpr)
		if !ok {
			return true
		}
		switch be.Op {
		case token.EQL, token.NEQ, token.LSS, token.GTR, token.LEQ, token.GEQ:
		default:
			return true
		}
		for _, pair := range [][2]ast.Expr{{be.X, be.Y}, {be.Y, be.X}} {
			o := fn.ObjOf(pair[0])
			vi := vars[o]
			if o == nil || vi == nil {
				continue
			}
			k, isConst := constVal(pair[1])
			if !isConst {
				continue
			}
			checked++
			if vi.consts[k] && len(vi.nonConst) > 0 {
				c.Viol("R1", "func="+fn.Name+":var="+o.Name(), be.Pos(), fmt.Sprintf("unsigned local %s is assigned the constant %s and data values %v, and is compared with %s: %s doubles as a 'no value' sentinel although it is a legitimate token/range bound", o.Name(), k, head(vi.nonConst, 3), k, k))
			}
		}
		return true
	})
	nvars := 0
	for _, vi := range vars {
		if len(vi.consts) > 0 && len(vi.nonConst) > 0 {
			nvars++
		}
	}
	c.Hold("R1", "func="+fn.Name, fn.Pos(), fmt.Sprintf("%d unsigned locals, %d with both constant and data assignments, %d constant comparisons examined: none compares such a variable with its own constant", len(vars), nvars, checked), len(vars)+checked)
}

func c14Pending(c *core.Ctx, fn *an.Fn) {
	g := fn.Graph()
	info := fn.Info()
	// pairs (V, F): in one block `F = true` and `V = e` with V unsigned local, F bool local
	type pair struct{ v, f types.Object }
	pairs := map[pair]bool{}
	var opens map[pair][]an.Loc = map[pair][]an.Loc{}
	for _, b := range g.Blocks {
		var fs, vs []types.Object
		var fLocs []an.Loc
		for i, n := range b.Nodes {
			as, ok := n.(*ast.AssignStmt)
			if !ok || len(as.Lhs) != len(as.Rhs) {
				continue
			}
			for j, l := range as.Lhs {
				o := fn.ObjOf(l)
				if o == nil {
					continue
				}
				if bt, ok := o.Type().Underlying().(*types.Basic); ok && bt.Kind() == types.Bool && fn.Canon(as.Rhs[j]) == "true" {
					fs = append(fs, o)
					fLocs = append(fLocs, an.Loc{B: b, I: i})
				} else if isUnsigned(o.Type()) {
					vs = append(vs, o)
				}
			}
		}
		for k, f := range fs {
			for _, v := range vs {
				p := pair{v, f}
				pairs[p] = true
				opens[p] = append(opens[p], fLocs[k])
			}
		}
	}
	if len(pairs) == 0 {
		c.Undec("R2", "func="+fn.Name, fn.Pos(), "no (bound, flag) pair recognised: the builder no longer records a pending range bound together with a boolean flag")
		return
	}
	for p := range pairs {
		// consume sites: calls with V as an argument (append(ranges, V, …) or a local closure)
		var closes []an.Loc
		fn.InspectShallow(func(n ast.Node) bool {
			if call, ok := n.(*ast.CallExpr); ok {
				for _, a := range call.Args {
					if fn.ObjOf(a) == p.v {
						closes = append(closes, g.Locate(call))
					}
				}
			}
			return true
		})
		var rets []an.Loc
		for _, b := range g.Blocks {
			if r := an.ReturnOf(b); r != nil && len(r.Results) == 2 && fn.Canon(r.Results[1]) == "nil" && fn.Canon(r.Results[0]) != "nil" {
				rets = append(rets, g.Locate(r))
			}
		}
		if len(closes) == 0 || len(rets) == 0 {
			c.Viol("R2", "func="+fn.Name+":bound="+p.v.Name(), fn.Pos(), fmt.Sprintf("pending bound %s (flag %s) is never consumed, or no successful return found (%d consume sites, %d returns)", p.v.Name(), p.f.Name(), len(closes), len(rets)))
			continue
		}
		targets := append(append(append([]an.Loc{}, opens[p]...), closes...), rets...)
		nO, nC := len(opens[p]), len(closes)
		ex := g.Exec(g.EntryLoc(), targets, func(ast.Expr, an.Store) an.Tri { return an.U }, an.ExecOpts{Record: true, Unroll: 1, MaxPaths: 200000})
		bad := 0
		total := 0
		example := ""
		for _, tr := range ex.Traces {
			pending := false
			reachedRet := false
			for _, h := range tr {
				switch {
				case h.Target < nO:
					pending = true
				case h.Target < nO+nC:
					pending = false
				default:
					reachedRet = true
				}
			}
			if !reachedRet {
				continue
			}
			total++
			if pending {
				bad++
				if example == "" {
					seq := []string{}
					for _, h := range tr {
						switch {
						case h.Target < nO:
							seq = append(seq, "record")
						case h.Target < nO+nC:
							seq = append(seq, "consume")
						default:
							seq = append(seq, "return")
						}
					}
					example = strings.Join(seq, "→")
				}
			}
		}
		key := "func=" + fn.Name + ":bound=" + p.v.Name()
		switch {
		case ex.Overflow:
			c.Undec("R2", key, fn.Pos(), "path enumeration overflow")
		case bad > 0:
			c.Viol("R2", key, fn.Pos(), fmt.Sprintf("%d of %d paths to a successful return leave the recorded bound %s (flag %s) unconsumed, e.g. %s: a range of the instance/partition is dropped", bad, total, p.v.Name(), p.f.Name(), example))
		default:
			c.Hold("R2", key, fn.Pos(), fmt.Sprintf("%d paths to a successful return (loops unrolled once, flag %s tracked): every recorded bound %s is consumed (%d record sites, %d consume sites)", total, p.f.Name(), p.v.Name(), nO, nC), total)
		}
	}
	_ = info
}
