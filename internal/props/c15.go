package props

import (
	"fmt"
	"go/ast"
	"go/token"
	"sort"
	"strings"

	"dsverif/internal/an"
	"dsverif/internal/core"
	"golang.org/x/tools/go/packages"
)

func init() {
	Registry["C15"] = Prop{
		Patterns: []string{"./ring", "./kv/memberlist"},
		Run:      runC15,
		Explanation: "Decides structural necessary conditions of 'keys route to the next active partition; partition states follow legal edges': (R1) the transition table literal equals the property's edges and isPartitionStateChangeAllowed is a pure membership test on it; (R2) PartitionDesc.State is written only by UpdatePartitionState (only when the state-change lock is off), AddPartition (creation) and the merge; UpdatePartitionState is called only after the table check on the same values, or with the constant Active under 'pending ∧ enough old owners'; lifecyclers create partitions only as Pending; " +
			"(R3) a partition is deleted only inside the CAS callback under: deletion enabled ∧ not the own partition ∧ inactive for the whole delay ∧ zero owners — all evaluated on the callback's ring; (R4) replication sets contain exactly the registered healthy owners and are built only when non-empty; (R5) a lifecycler registers/removes only its own owner id; (R6) ActivePartitionForKey returns ringPartitionIDs[i] only under ringPartitionActive[i] for the same i, and the two parallel slices are filled from the same partition id. Also: (R7) the owner count guarding deletion counts every owner of the partition (no clock, no other field); (R8) partition state and state-change lock merge as separate last-writer-wins registers (shared with C03.R1); (R9) the successor search runs over a token list sorted where it is built, from descriptors in any order (shared with C14.R5). (R11) the token list and token→partition map a lookup reads are computed from the descriptor the PartitionRing stores (shared with C13.R5). NOT decided: the successor search over runtime tokens, timing boundaries of promotion/deletion.",
	}
}

var c15Edges = map[string]bool{"PartitionPending→PartitionActive": true, "PartitionPending→PartitionInactive": true, "PartitionActive→PartitionInactive": true, "PartitionInactive→PartitionActive": true}

func runC15(c *core.Ctx) {
	c.Rule("R10", "successor search: the index after an exact match, the insertion point otherwise, 0 past the last token (shared with C01.R8)", 1)
	c.Rule("R1", "transition table literal = property's edges; membership test is pure", 2)
	c.Rule("R2", "all partition state writes go through the table and the lock", 7)
	c.Rule("R3", "partition deletion guard evaluated inside the CAS callback", 2)
	c.Rule("R4", "replication sets = healthy registered owners, at least one", 2)
	c.Rule("R5", "own owner id only", 2)
	c.Rule("R7", "the owner count guarding deletion counts every owner of the partition (no clock, no other field)", 1)
	c.Rule("R8", "partition state and state-change lock merge as separate last-writer-wins registers (shared with C03.R1)", 2)
	c.Rule("R6", "active-partition lookup uses the active flag of the same token index; the batch lookup keeps key indexes", 3)
	c.Rule("R11", "the token list and token→partition map a lookup reads are computed from the descriptor the PartitionRing stores (shared with C13.R5)", 1)
	c.Rule("R9", "the successor search runs over a token list sorted where it is built, from descriptors in any order (shared with C14.R5)", 1)
	pkg := c.Prog.Pkg("ring")
	if pkg == nil {
		c.Miss("R1", "pkg=ring", "not loaded")
		return
	}
	c15Table(c, pkg)
	c15StateWrites(c, pkg)
	c15Delete(c, pkg)
	c15Sets(c, pkg)
	c15Owners(c, pkg)
	c15Lookup(c, pkg)
	c15OwnersCount(c, pkg)
	// R8: state and lock of a partition are separate last-writer-wins registers also under gossip merges
	if c.Prog.Pkg("kv/memberlist") == nil {
		c.Miss("R8", "pkg=kv/memberlist", "not loaded")
	} else {
		fns := mergeFns(c, "R8")
		for _, sp := range lwwSpec {
			if sp.Type != "PartitionRingDesc" {
				continue
			}
			if fn := fns[sp.Type]; fn != nil {
				c.Analysed(fn.String())
				analyseLWWLoop(c, fn, sp, lwwIDs{"R8", "", ""})
			} else {
				c.Miss("R8", "type="+sp.Type, "merge function not found")
			}
		}
	}
}

// c15OwnersCount (R7): the owner count that guards the deletion of a partition counts every owner
// entry of that partition — it is decided by the owner's partition id alone, reads no clock and no
// other field of the owner.
func c15OwnersCount(c *core.Ctx, pkg *packages.Package) {
	fn := an.FindFunc(pkg, "PartitionRingDesc.PartitionOwnersCount")
	if fn == nil {
		c.Miss("R7", "func=PartitionRingDesc.PartitionOwnersCount", "not found")
		return
	}
	c.Analysed(fn.String())
	g := fn.Graph()
	loops := rangeLoops(fn, "recv.Owners")
	var inc *ast.IncDecStmt
	fn.InspectShallow(func(n ast.Node) bool {
		if x, ok := n.(*ast.IncDecStmt); ok && x.Tok == token.INC {
			inc = x
		}
		return true
	})
	clock := 0
	for _, call := range fn.Calls(true) {
		if call.Is("time", "Now") || call.Is("time", "Since") || call.Is("time", "Until") {
			clock++
		}
	}
	if len(loops) != 1 || inc == nil {
		c.Undec("R7", "func=PartitionOwnersCount", fn.Pos(), fmt.Sprintf("expected one loop over the owners with a counter increment (loops=%d, clock reads=%d): a count delegated to a time-filtered variant is not the count of all owners", len(loops), clock))
		return
	}
	header, body, _ := g.LoopBlocks(loops[0])
	t := an.Table{G: g, From: an.Loc{B: body, I: 0}, Opts: an.ExecOpts{Header: header}, FreeUnknown: true, Atoms: []an.Atom{{Name: "same", Values: []string{"T", "F"}}},
		Binder: &an.Binder{Fn: fn, Eq: map[string]string{"each(recv.Owners).OwnedPartition|p0": "same"}}, Targets: []an.Loc{g.Locate(inc)}, Names: []string{"count++"},
		Want: func(r an.Row, _ int) an.Tri { return an.FromBool(r["same"] == "T") }}
	res := t.Run()
	c.Check(res.OK() && clock == 0 && fn.Canon(inc.X) != "", "R7", "func=PartitionOwnersCount", fn.Pos(), fmt.Sprintf("an owner is counted ⇔ it owns the partition, on nothing else (clock reads: %d): %s", clock, res.Summary()), res.Rows)
}

func c15Table(c *core.Ctx, pkg *packages.Package) {
	var lit *ast.CompositeLit
	for _, f := range pkg.Syntax {
		ast.Inspect(f, func(n ast.Node) bool {
			if vs, ok := n.(*ast.ValueSpec); ok {
				for i, nm := range vs.Names {
					if nm.Name == "allowedPartitionStateChanges" && i < len(vs.Values) {
						lit, _ = vs.Values[i].(*ast.CompositeLit)
					}
				}
			}
			return true
		})
	}
	if lit == nil {
		c.Miss("R1", "var=allowedPartitionStateChanges", "table literal not found")
		return
	}
	got := map[string]bool{}
	constName := func(e ast.Expr) string {
		if id, ok := e.(*ast.Ident); ok {
			if k := pkg.TypesInfo.Uses[id]; k != nil {
				return k.Name()
			}
		}
		return "?"
	}
	for _, el := range lit.Elts {
		kv, ok := el.(*ast.KeyValueExpr)
		if !ok {
			continue
		}
		from := constName(kv.Key)
		if inner, ok := kv.Value.(*ast.CompositeLit); ok {
			for _, t := range inner.Elts {
				got[from+"→"+constName(t)] = true
			}
		}
	}
	extra, missing := []string{}, []string{}
	for e := range got {
		if !c15Edges[e] {
			extra = append(extra, e)
		}
	}
	for e := range c15Edges {
		if !got[e] {
			missing = append(missing, e)
		}
	}
	sort.Strings(extra)
	sort.Strings(missing)
	c.Check(len(extra) == 0 && len(missing) == 0, "R1", "var=allowedPartitionStateChanges", lit.Pos(), fmt.Sprintf("table edges %v; not in the property's table: %v; missing: %v", keys(got), extra, missing), len(got))
	// the table is never written elsewhere
	writes := 0
	for _, fn := range an.Funcs(pkg) {
		fn.InspectDeep(func(n ast.Node) bool {
			if as, ok := n.(*ast.AssignStmt); ok {
				for _, l := range as.Lhs {
					if strings.Contains(types_ExprString(l), "allowedPartitionStateChanges") {
						writes++
					}
				}
			}
			return true
		})
	}
	fn := an.FindFunc(pkg, "isPartitionStateChangeAllowed")
	if fn == nil {
		c.Miss("R1", "func=isPartitionStateChangeAllowed", "not found")
		return
	}
	c.Analysed(fn.String())
	g := fn.Graph()
	loops := rangeLoops(fn, "pkg.allowedPartitionStateChanges[p0]")
	ok := false
	detail := "membership loop not recognised"
	if len(loops) == 1 {
		header, body, _ := g.LoopBlocks(loops[0])
		var tr, fr []an.Loc
		for _, b := range g.Blocks {
			if r := an.ReturnOf(b); r != nil {
				switch fn.Canon(r.Results[0]) {
				case "true":
					tr = append(tr, g.Locate(r))
				case "false":
					if !an.InNode(loops[0], r) {
						fr = append(fr, g.Locate(r))
					}
				}
			}
		}
		t := an.Table{G: g, From: an.Loc{B: body, I: 0}, Opts: an.ExecOpts{Header: header}, FreeUnknown: true, Atoms: []an.Atom{{Name: "match", Values: []string{"T", "F"}}},
			Binder: &an.Binder{Fn: fn, Eq: map[string]string{"p1|each(pkg.allowedPartitionStateChanges[p0])": "match"}}, Targets: tr,
			Want: func(r an.Row, _ int) an.Tri { return an.FromBool(r["match"] == "T") }}
		res := t.Run()
		ok = res.OK() && len(tr) == 1 && len(fr) == 1
		detail = res.Summary()
	}
	if len(loops) == 0 {
		// the same membership test with the standard library: return slices.Contains(table[from], to)
		rets := []string{}
		for _, b := range g.Blocks {
			if r := an.ReturnOf(b); r != nil && len(r.Results) == 1 {
				rets = append(rets, fn.Canon(r.Results[0]))
			}
		}
		if len(rets) == 1 && rets[0] == "slices.Contains(pkg.allowedPartitionStateChanges[p0], p1)" {
			ok, detail = true, "membership by slices.Contains(table[from], to)"
		}
	}
	c.Check(ok && writes == 0, "R1", "func=isPartitionStateChangeAllowed", fn.Pos(), fmt.Sprintf("returns true ⇔ `to` equals an entry of table[from], false otherwise; table written elsewhere %d times: %s", writes, detail), 2)
}

func types_ExprString(e ast.Expr) string {
	var sb strings.Builder
	ast.Inspect(e, func(n ast.Node) bool {
		if id, ok := n.(*ast.Ident); ok {
			sb.WriteString(id.Name + " ")
		}
		return true
	})
	return sb.String()
}

func c15StateWrites(c *core.Ctx, pkg *packages.Package) {
	pd := an.LookupType(pkg, "PartitionDesc")
	if pd == nil {
		c.Miss("R2", "type=PartitionDesc", "not found")
		return
	}
	fld := fieldOf(pd, "State")
	allowed := map[string]string{
		"(*PartitionRingDesc).UpdatePartitionState": "the state-change primitive (lock checked below)",
		"(*PartitionRingDesc).AddPartition":         "creation",
		"(*PartitionRingDesc).mergeWithTime":        "CRDT merge of replicated state (C03)",
	}
	for _, a := range an.FieldAccesses(pkg, fld) {
		if !a.Write {
			continue
		}
		if strings.HasSuffix(c.Prog.PosStr(a.Node.Pos()), ".pb.go") || strings.Contains(c.Prog.PosStr(a.Node.Pos()), ".pb.go:") {
			continue
		}
		if reason, ok := allowed[a.Fn.Name]; ok {
			c.Hold("R2", "write:func="+a.Fn.Name, a.Node.Pos(), "PartitionDesc.State written: "+reason, 1)
		} else {
			c.Viol("R2", "write:func="+a.Fn.Name, a.Node.Pos(), "PartitionDesc.State is written outside UpdatePartitionState/AddPartition/merge: the transition table and the state-change lock are bypassed")
		}
	}
	// UpdatePartitionState: write only when not locked
	if fn := an.FindFunc(pkg, "PartitionRingDesc.UpdatePartitionState"); fn != nil {
		c.Analysed(fn.String())
		g := fn.Graph()
		var w *ast.AssignStmt
		fn.InspectShallow(func(n ast.Node) bool {
			if as, ok := n.(*ast.AssignStmt); ok && len(as.Lhs) == 1 && fn.Canon(as.Lhs[0]) == "recv.Partitions[p0]" {
				w = as
			}
			return true
		})
		if w == nil {
			c.Undec("R2", "func=UpdatePartitionState:lock", fn.Pos(), "write-back not found")
		} else {
			t := an.Table{G: g, From: g.EntryLoc(), MayOnly: true, Atoms: []an.Atom{{Name: "locked", Values: []string{"T", "F"}}},
				Binder: &an.Binder{Fn: fn, Bool: map[string]string{"recv.Partitions[p0].StateChangeLocked": "locked"}}, Targets: []an.Loc{g.Locate(w)},
				Want: func(r an.Row, _ int) an.Tri { return an.FromBool(r["locked"] == "F") }}
			res := t.Run()
			c.Check(res.OK(), "R2", "func=UpdatePartitionState:lock", w.Pos(), "the state is written only when StateChangeLocked is false: "+res.Summary(), res.Rows)
		}
	} else {
		c.Miss("R2", "func=UpdatePartitionState", "not found")
	}
	// call sites
	for _, fn := range an.Funcs(pkg) {
		for _, lf := range append([]*an.Fn{fn}, fn.AllLits()...) {
			for _, call := range lf.CallsTo(false, "ring", "(*PartitionRingDesc).UpdatePartitionState") {
				if strings.Contains(c.Prog.PosStr(call.Expr.Pos()), "_test.go") {
					continue
				}
				g := lf.Graph()
				key := "call:func=" + lf.Name
				to := lf.Canon(call.Expr.Args[1])
				switch {
				case lf.Name == "changePartitionState":
					t := an.Table{G: g, From: g.EntryLoc(), MayOnly: true, Atoms: []an.Atom{{Name: "allowed", Values: []string{"T", "F"}}},
						Binder:  &an.Binder{Fn: lf, Bool: map[string]string{"isPartitionStateChangeAllowed(p0.Partitions[p1].State, p2)": "allowed"}},
						Targets: []an.Loc{g.Locate(call.Expr)}, Want: func(r an.Row, _ int) an.Tri { return an.FromBool(r["allowed"] == "T") }}
					res := t.Run()
					c.Check(res.OK() && to == "p2" && lf.Canon(call.Expr.Args[0]) == "p1", "R2", key, call.Expr.Pos(), "UpdatePartitionState(id, toState) reachable only when isPartitionStateChangeAllowed(current state of the same partition, toState): "+res.Summary(), res.Rows)
				case strings.HasPrefix(lf.Name, "(*PartitionInstanceLifecycler).reconcileOwnedPartition"):
					ring := "λp0"
					t := an.Table{G: g, From: g.EntryLoc(), MayOnly: true,
						Atoms: []an.Atom{{Name: "pending", Values: []string{"T", "F"}}, {Name: "owners", Values: []string{"lt", "eq", "gt"}}},
						Binder: &an.Binder{Fn: lf, Bool: map[string]string{ring + ".Partitions[recv.cfg.PartitionID].IsPending()": "pending"},
							Cmp: map[string]string{ring + ".PartitionOwnersCountUpdatedBefore(recv.cfg.PartitionID, p1.Add(-recv.cfg.WaitOwnersDurationOnPending))|recv.cfg.WaitOwnersCountOnPending": "owners"}},
						Targets: []an.Loc{g.Locate(call.Expr)}, Want: func(r an.Row, _ int) an.Tri { return an.FromBool(r["pending"] == "T" && r["owners"] != "lt") }}
					res := t.Run()
					c.Check(res.OK() && to == "PartitionActive", "R2", key, call.Expr.Pos(), "own partition switched to the constant PartitionActive only when pending ∧ owners registered before now−wait ≥ required count: "+res.Summary(), res.Rows)
				default:
					c.Viol("R2", key, call.Expr.Pos(), "UpdatePartitionState called outside changePartitionState / reconcileOwnedPartition: a state change that bypasses the transition table")
				}
			}
			for _, call := range lf.CallsTo(false, "ring", "(*PartitionRingDesc).AddPartition") {
				if strings.HasPrefix(lf.Name, "(*PartitionInstanceLifecycler)") {
					st := lf.ConstName(call.Expr.Args[1])
					c.Check(st == "PartitionPending" && lf.Canon(call.Expr.Args[0]) == "recv.cfg.PartitionID", "R2", "create:func="+lf.Name, call.Expr.Pos(), "the lifecycler creates only its own partition, in state "+st+" (must be PartitionPending)", 1)
				}
			}
		}
	}
}

func c15Delete(c *core.Ctx, pkg *packages.Package) {
	n := 0
	for _, fn := range an.Funcs(pkg) {
		for _, lf := range append([]*an.Fn{fn}, fn.AllLits()...) {
			for _, call := range lf.CallsTo(false, "ring", "(*PartitionRingDesc).RemovePartition") {
				if strings.Contains(c.Prog.PosStr(call.Expr.Pos()), "_test.go") {
					continue
				}
				n++
				key := "remove:func=" + lf.Name
				if !strings.HasPrefix(lf.Name, "(*PartitionInstanceLifecycler).reconcileOtherPartitions$") {
					c.Viol("R3", key, call.Expr.Pos(), "RemovePartition called outside the lifecycler's reconcile callback")
					continue
				}
				g := lf.Graph()
				ring := lf.Canon(call.Expr.Fun.(*ast.SelectorExpr).X)
				loop, _ := loopOf(lf, call.Expr).(*ast.RangeStmt)
				if loop == nil || lf.Canon(loop.X) != ring+".Partitions" || lf.Canon(call.Expr.Args[0]) != "keyof("+ring+".Partitions)" || ring != "λp0" {
					c.Viol("R3", key, call.Expr.Pos(), "the partition removed is not the key of a loop over the callback's own ring value")
					continue
				}
				k, e := "keyof("+ring+".Partitions)", "each("+ring+".Partitions)"
				t := an.Table{G: g, From: g.EntryLoc(), MayOnly: true, FreeUnknown: false,
					Atoms: []an.Atom{{Name: "enabled", Values: []string{"lt", "eq", "gt"}}, {Name: "own", Values: []string{"T", "F"}}, {Name: "inactive", Values: []string{"T", "F"}}, {Name: "owners", Values: []string{"eq", "gt"}}},
					Binder: &an.Binder{Fn: lf,
						Cmp:  map[string]string{"recv.cfg.DeleteInactivePartitionAfterDuration|0": "enabled", ring + ".PartitionOwnersCount(" + k + ")|0": "owners"},
						Eq:   map[string]string{k + "|recv.cfg.PartitionID": "own"},
						Bool: map[string]string{e + ".IsInactiveSince(p1.Add(-recv.cfg.DeleteInactivePartitionAfterDuration))": "inactive"}},
					Targets: []an.Loc{g.Locate(call.Expr)}, Names: []string{"RemovePartition"},
					Want: func(r an.Row, _ int) an.Tri {
						return an.FromBool(r["enabled"] == "gt" && r["own"] == "F" && r["inactive"] == "T" && r["owners"] == "eq")
					}}
				res := t.Run()
				c.Check(res.OK(), "R3", key, call.Expr.Pos(), "inside the CAS callback: removal reachable ⇔ deletion enabled ∧ not own partition ∧ IsInactiveSince(now−delay) ∧ PartitionOwnersCount == 0, all on the callback's ring: "+res.Summary(), res.Rows)
			}
		}
	}
	if n == 0 {
		c.Undec("R3", "remove", pkg.Syntax[0].Pos(), "no RemovePartition call found")
	}
	// the decision must not be taken on a snapshot read outside the callback: no getRing in reconcileOtherPartitions
	if fn := an.FindFunc(pkg, "PartitionInstanceLifecycler.reconcileOtherPartitions"); fn != nil {
		c.Analysed(fn.String())
		snap := fn.CallsTo(true, "ring", "(*PartitionInstanceLifecycler).getRing")
		c.Check(len(snap) == 0, "R3", "reconcileOtherPartitions:no-snapshot", fn.Pos(), fmt.Sprintf("the reconcile decision reads the ring only through the CAS callback's argument (%d snapshot reads)", len(snap)), 1)
	}
}

func c15Sets(c *core.Ctx, pkg *packages.Package) {
	found := 0
	for _, fn := range an.Funcs(pkg) {
		if fn.Obj == nil || !strings.HasPrefix(fn.Name, "(*PartitionInstanceRing).GetReplicationSet") {
			continue
		}
		c.Analysed(fn.String())
		g := fn.Graph()
		for _, call := range fn.CallsTo(false, "", "append") {
			if len(call.Expr.Args) != 2 {
				continue
			}
			if t := fn.Info().TypeOf(call.Expr.Args[1]); t == nil || !strings.HasSuffix(t.String(), "ring.InstanceDesc") {
				continue
			}
			found++
			loop, _ := loopOf(fn, call.Expr).(*ast.RangeStmt)
			if loop == nil {
				c.Undec("R4", "append:func="+fn.Name, call.Expr.Pos(), "owner loop not found")
				continue
			}
			header, body, _ := g.LoopBlocks(loop)
			id := "each(" + fn.Canon(loop.X) + ")"
			inst := "recv.instancesRing.GetInstance(" + id + ")"
			t := an.Table{G: g, From: an.Loc{B: body, I: 0}, Opts: an.ExecOpts{Header: header}, FreeUnknown: true,
				Atoms: []an.Atom{{Name: "found", Values: []string{"T", "F"}}, {Name: "healthy", Values: []string{"T", "F"}}},
				Binder: &an.Binder{Fn: fn, Re: []an.ReRole{an.RE(`\.IsHealthy\(.*\)$`, ".IsHealthy()")}, Eq: map[string]string{inst + "#1|nil": "found"},
					Bool: map[string]string{inst + "#0.IsHealthy()": "healthy"}},
				Targets: []an.Loc{g.Locate(call.Expr)}, Want: func(r an.Row, _ int) an.Tri { return an.FromBool(r["found"] == "T" && r["healthy"] == "T") }}
			res := t.Run()
			c.Check(res.OK() && fn.Canon(call.Expr.Args[1]) == inst+"#0" && strings.Contains(fn.Canon(loop.X), "PartitionOwnerIDs("), "R4", "append:func="+fn.Name, call.Expr.Pos(), "an owner is added ⇔ it is registered in the instance ring ∧ IsHealthy(op): "+res.Summary(), res.Rows)
		}
		// ReplicationSet literal only when instances non-empty
		fn.InspectShallow(func(n ast.Node) bool {
			cl, ok := n.(*ast.CompositeLit)
			if !ok {
				return true
			}
			if t := fn.Info().TypeOf(cl); t == nil || !strings.HasSuffix(t.String(), "ring.ReplicationSet") || len(cl.Elts) == 0 {
				return true
			}
			var instExpr ast.Expr
			for _, el := range cl.Elts {
				if kv, ok := el.(*ast.KeyValueExpr); ok && types_ExprString(kv.Key) == "Instances " {
					instExpr = kv.Value
				}
			}
			if instExpr == nil {
				return true
			}
			obj := fn.ObjOf(instExpr)
			from := g.EntryLoc()
			var opts an.ExecOpts
			if loop, ok := loopOf(fn, cl).(*ast.RangeStmt); ok {
				h, b, _ := g.LoopBlocks(loop)
				from, opts = an.Loc{B: b, I: 0}, an.ExecOpts{Header: h}
			}
			// the emptiness test is recognised by the variable it measures, not by its spelling
			bad := []string{}
			paths := 0
			for _, ord := range []string{"eq", "gt"} {
				leaf := func(e ast.Expr, _ an.Store) an.Tri {
					be, ok := an.Unparen(e).(*ast.BinaryExpr)
					if !ok {
						return an.U
					}
					isLen := func(x ast.Expr) bool {
						cl, ok := an.Unparen(x).(*ast.CallExpr)
						return ok && an.ObjIs(an.Callee(fn.Info(), cl), "", "len") && len(cl.Args) == 1 && fn.ObjOf(cl.Args[0]) == obj
					}
					switch {
					case isLen(be.X) && fn.Canon(be.Y) == "0":
						return an.CmpTri(be.Op, ord)
					case isLen(be.Y) && fn.Canon(be.X) == "0":
						return an.CmpTri(be.Op, map[string]string{"eq": "eq", "gt": "lt"}[ord])
					}
					return an.U
				}
				ex := g.Exec(from, []an.Loc{g.Locate(cl)}, leaf, opts)
				paths += ex.Paths
				if ord == "eq" && ex.May[0] {
					bad = append(bad, "reachable with no healthy owner")
				}
				if ord == "gt" && !ex.May[0] {
					bad = append(bad, "unreachable with healthy owners")
				}
			}
			res := struct {
				ok   bool
				text string
			}{len(bad) == 0, fmt.Sprintf("%d paths %v", paths, bad)}
			c.Check(res.ok, "R4", "nonempty:func="+fn.Name, cl.Pos(), "a replication set is built only when at least one healthy owner was found (error otherwise): "+res.text, paths)
			return true
		})
	}
	if found == 0 {
		c.Undec("R4", "builders", pkg.Syntax[0].Pos(), "no replication-set builder found in PartitionInstanceRing")
	}
}

func c15Owners(c *core.Ctx, pkg *packages.Package) {
	n := 0
	for _, fn := range an.Funcs(pkg) {
		if !strings.HasPrefix(fn.Name, "(*PartitionInstanceLifecycler)") {
			continue
		}
		for _, call := range fn.Calls(true) {
			cf := call.Func()
			if cf == nil {
				continue
			}
			name := an.FuncDisplay(cf)
			if name != "(*PartitionRingDesc).AddOrUpdateOwner" && name != "(*PartitionRingDesc).RemoveOwner" {
				continue
			}
			n++
			id := call.In.Canon(call.Expr.Args[0])
			c.Check(id == "recv.partitionOwnerID()" || id == "recv.cfg.InstanceID", "R5", "owner:func="+call.In.Name+":"+cf.Name(), call.Expr.Pos(), "owner id = "+id+" (must be the lifecycler's own owner id)", 1)
		}
	}
	if n == 0 {
		c.Undec("R5", "owner", pkg.Syntax[0].Pos(), "no owner registration found")
	}
}

func c15Lookup(c *core.Ctx, pkg *packages.Package) {
	c15LookupAs(c, pkg, "R6", true)
	c15InactiveSince(c, pkg)
	c01SearchTokenAs(c, pkg, "R10")
	c14PartitionTokensSorted(c, pkg, "R9")
	c13PartitionDerived(c, pkg, "R11")
}

// c15LookupAs runs the lookup rules under rule id R (shared with C14, whose ranges are defined by this lookup).
func c15LookupAs(c *core.Ctx, pkg *packages.Package, R string, batch bool) {
	fn := an.FindFunc(pkg, "PartitionRing.ActivePartitionForKey")
	if fn == nil {
		c.Miss(R, "func=ActivePartitionForKey", "not found")
		return
	}
	c.Analysed(fn.String())
	g := fn.Graph()
	n := 0
	for _, b := range g.Blocks {
		r := an.ReturnOf(b)
		if r == nil || len(r.Results) != 2 || fn.Canon(r.Results[1]) != "nil" {
			continue
		}
		n++
		ix, ok := an.Unparen(r.Results[0]).(*ast.IndexExpr)
		if !ok || fn.Canon(ix.X) != "recv.ringPartitionIDs" {
			c.Undec(R, "func=ActivePartitionForKey:return", r.Pos(), "the partition returned is "+fn.Canon(r.Results[0])+", not an element of ringPartitionIDs guarded by the active flag of the same index")
			continue
		}
		idx := types_ExprString(ix.Index)
		loop := loopOf(fn, r)
		from, opts := g.EntryLoc(), an.ExecOpts{}
		if loop != nil {
			h, bd, _ := g.LoopBlocks(loop)
			from, opts = an.Loc{B: bd, I: 0}, an.ExecOpts{Header: h}
		}
		iv := fn.ObjOf(ix.Index)
		opts.NoTrack = map[types_Object]bool{iv: true}
		guard := "recv.ringPartitionActive[" + strings.TrimSpace(idx) + "]"
		// the other spelling: ranging over the flags (or a tail/head slice of them) and returning the id at
		// the element's position in the full slice — low bound + position
		if rs, isRange := loop.(*ast.RangeStmt); isRange && rs.Value != nil {
			x, low := an.Unparen(rs.X), ""
			if sl, isSlice := x.(*ast.SliceExpr); isSlice {
				x = sl.X
				if sl.Low != nil && fn.Canon(sl.Low) != "0" {
					low = fn.Canon(sl.Low)
				}
			}
			if fn.Canon(x) == "recv.ringPartitionActive" {
				pos, got := "keyof("+fn.Canon(rs.X)+")", fn.Canon(ix.Index)
				if (low == "" && got == pos) || (low != "" && (got == "("+low+" + "+pos+")" || got == "("+pos+" + "+low+")")) {
					guard = "each(" + fn.Canon(rs.X) + ")"
				} else {
					c.Viol(R, "func=ActivePartitionForKey:return", r.Pos(), fmt.Sprintf("the id returned is at index %s, but the flag tested is the one at %s%s of the flags", got, map[bool]string{true: "", false: low + " + "}[low == ""], pos))
					continue
				}
			}
		}
		t := an.Table{G: g, From: from, Opts: opts, MayOnly: true, Atoms: []an.Atom{{Name: "active", Values: []string{"T", "F"}}},
			Binder: &an.Binder{Fn: fn, Bool: map[string]string{guard: "active"}}, Targets: []an.Loc{g.Locate(r)},
			Want: func(row an.Row, _ int) an.Tri { return an.FromBool(row["active"] == "T") }}
		res := t.Run()
		// the index is not modified between the test and the return
		c.Check(res.OK(), R, "func=ActivePartitionForKey:return", r.Pos(), "returns ringPartitionIDs[i] only when ringPartitionActive[i] for the same i: "+res.Summary(), res.Rows)
	}
	if n == 0 {
		c.Undec(R, "func=ActivePartitionForKey:return", fn.Pos(), "no successful return found")
	}
	if batch {
		c15Batch(c, pkg)
	}
	// parallel slices filled consistently
	if b := an.FindFunc(pkg, "buildRingTokenPartitionLookups"); b != nil {
		c.Analysed(b.String())
		var idW, actW string
		b.InspectShallow(func(nd ast.Node) bool {
			if as, ok := nd.(*ast.AssignStmt); ok && len(as.Lhs) == 1 {
				if ix, ok := as.Lhs[0].(*ast.IndexExpr); ok && b.Canon(ix.Index) == "keyof(p0)" {
					switch {
					case strings.HasSuffix(b.Canon(as.Rhs[0]), ".IsActive()"):
						actW = b.Canon(as.Rhs[0])
					default:
						idW = b.Canon(as.Rhs[0])
					}
				}
			}
			return true
		})
		c.Check(idW == "p1[each(p0)]" && actW == "p2["+idW+"].IsActive()", R, "func=buildRingTokenPartitionLookups", b.Pos(), fmt.Sprintf("ids[i] = %s; active[i] = %s (the active flag of the partition that owns token i)", idW, actW), 1)
	} else {
		c.Miss(R, "func=buildRingTokenPartitionLookups", "not found")
	}
}

// c15Batch (R6): the batch lookup records, for key index i, the partition of keys[i] — the index under
// which a lookup is stored is the index of the key that was looked up, and the index reported for a
// partition is the index of the entry that names it.
func c15Batch(c *core.Ctx, pkg *packages.Package) {
	fn := an.FindFunc(pkg, "ActivePartitionBatchRing.GetKeysByPartition")
	if fn == nil {
		c.Miss("R6", "func=GetKeysByPartition", "not found")
		return
	}
	c.Analysed(fn.String())
	var stores, appends []string
	okStore, okAppend := 0, 0
	fn.InspectShallow(func(nd ast.Node) bool {
		as, ok := nd.(*ast.AssignStmt)
		if !ok || len(as.Lhs) != 1 || len(as.Rhs) != 1 {
			return true
		}
		ix, ok := as.Lhs[0].(*ast.IndexExpr)
		if !ok {
			return true
		}
		idx, rhs := fn.Canon(ix.Index), fn.Canon(as.Rhs[0])
		if strings.Contains(rhs, "ActivePartitionForKey(") {
			stores = append(stores, fmt.Sprintf("[%s] = %s", idx, rhs))
			if (idx == "keyof(p1)" && strings.HasSuffix(rhs, ".ActivePartitionForKey(each(p1))#0")) || strings.HasSuffix(rhs, ".ActivePartitionForKey(p1["+idx+"])#0") {
				okStore++
			}
		}
		if call, ok := an.Unparen(as.Rhs[0]).(*ast.CallExpr); ok && len(call.Args) == 2 {
			if id, ok := call.Fun.(*ast.Ident); ok && id.Name == "append" && fn.Canon(call.Args[0]) == fn.Canon(as.Lhs[0]) {
				v := fn.Canon(call.Args[1])
				appends = append(appends, fmt.Sprintf("[%s] ← %s", idx, v))
				if strings.HasPrefix(idx, "each(") && v == "keyof("+strings.TrimPrefix(idx, "each(") {
					okAppend++
				}
			}
		}
		return true
	})
	c.Check(len(stores) == 1 && okStore == 1 && len(appends) == 1 && okAppend == 1, "R6", "func=GetKeysByPartition:index", fn.Pos(),
		fmt.Sprintf("the lookup of keys[i] is stored under i, and entry i is reported under the partition it names (stores: %v; reported: %v)", stores, appends), 2)
}

// c15InactiveSince (R3): the deletion guard asks PartitionDesc.IsInactiveSince(now − delay). "Inactive longer
// than the delay" on second-precision timestamps is: inactive ∧ StateTimestamp < since.Unix() — a strict
// comparison of whole seconds (a `<=`, or a comparison of time.Time values, deletes up to a second early).
func c15InactiveSince(c *core.Ctx, pkg *packages.Package) {
	fn := an.FindFunc(pkg, "PartitionDesc.IsInactiveSince")
	if fn == nil {
		c.Miss("R3", "func=PartitionDesc.IsInactiveSince", "not found")
		return
	}
	c.Analysed(fn.String())
	g := fn.Graph()
	var rets []*ast.ReturnStmt
	var locs []an.Loc
	for _, b := range g.Blocks {
		if r := an.ReturnOf(b); r != nil && len(r.Results) == 1 {
			rets = append(rets, r)
			locs = append(locs, g.Locate(r))
		}
	}
	// truth table over (inactive, StateTimestamp vs since.Unix()): every row must reach exactly one return whose
	// value is decided by those two facts alone
	atoms := []an.Atom{{Name: "inactive", Values: []string{"T", "F"}}, {Name: "ts", Values: []string{"lt", "eq", "gt"}}}
	var bad []string
	rows := an.Rows(atoms)
	for _, row := range rows {
		bd := &an.Binder{Fn: fn, Row: row,
			Bool: map[string]string{"recv.IsInactive()": "inactive", "(recv.GetState() == PartitionInactive)": "inactive", "(recv.State == PartitionInactive)": "inactive"},
			Cmp:  map[string]string{"recv.GetStateTimestamp()|p0.Unix()": "ts", "recv.StateTimestamp|p0.Unix()": "ts"}}
		ex := g.Exec(g.EntryLoc(), locs, bd.Leaf, an.ExecOpts{})
		got := an.Tri(an.U)
		n := 0
		for i, r := range rets {
			if ex.May[i] {
				n++
				got = an.EvalCond(fn.Info(), r.Results[0], nil, bd.Leaf)
			}
		}
		want := row["inactive"] == "T" && row["ts"] == "lt"
		if n != 1 || got == an.U || (got == an.T) != want {
			bad = append(bad, fmt.Sprintf("{%s} -> %v (%d returns reachable)", an.RowString(row), got, n))
		}
	}
	detail := ""
	for _, r := range rets {
		detail += fn.Canon(r.Results[0]) + "; "
	}
	c.Check(len(bad) == 0 && len(rets) > 0, "R3", "func=PartitionDesc.IsInactiveSince", fn.Pos(), fmt.Sprintf("answers inactive ∧ StateTimestamp < since.Unix() (strict, whole seconds) on %d rows; returns: %smismatches: %v", len(rows), detail, bad), len(rows))
}
