package props

import (
	"fmt"
	"go/ast"
	"go/token"
	"go/types"
	"regexp"
	"sort"
	"strings"

	"dsverif/internal/an"
	"dsverif/internal/core"
	"golang.org/x/tools/go/packages"
)

func init() {
	Registry["C13"] = Prop{
		Patterns: []string{"./ring"},
		Run:      runC13,
		Explanation: "Decides structural necessary conditions of 'a ring client's answers depend only on the latest ring content': (R1) every field of InstanceDesc is classified by the equality shortcut: a difference in it makes RingCompare return Different (CMP), or only clears the equal-states-and-timestamps flag (VOL), or the field is derived from the map key before the comparison (DERIVED); the volatile fields are exactly the fields refreshed into cached subrings, in both cache getters; " +
			"(R2) the index builders and the shard-membership cone read no volatile field; (R3) whoever replaces the token index also resets both subring caches and the topology stamp, and cache fills are guarded by topology-stamp equality; (R4) cache keys contain every parameter (getter and setter agree); (R5) PartitionRing objects are immutable after construction, their cache is freshly allocated, the watcher swaps rings under its lock; " +
			"(R6) the look-back cache validity bound is lowered by every timestamp field that the shard walk compares with the look-back threshold, under no further condition. Also: (R7) the token→instance map shared with subrings is immutable (replaced, never modified, never handed out); (R8) a topology change replaces every derived Ring field unconditionally; (R9) a subring is selected and assembled under one hold of the ring lock, so a cached shard never carries a newer topology stamp than its content (shared with C05.R12). (R1 also) the refresh of states and heartbeats runs on every path that answers with a cached subring other than the ring itself; (R10) every element-wise list comparison of package ring visits every index (shared with C05.R13). NOT decided: equality of all answers over all histories, correctness of the validity-window arithmetic beyond R6.",
	}
}

func instanceDescFields(pkg *packages.Package) (*types.Named, []*types.Var) {
	nt := an.LookupType(pkg, "InstanceDesc")
	if nt == nil {
		return nil, nil
	}
	st := nt.Underlying().(*types.Struct)
	var out []*types.Var
	for i := 0; i < st.NumFields(); i++ {
		f := st.Field(i)
		if strings.HasPrefix(f.Name(), "XXX_") {
			continue
		}
		out = append(out, f)
	}
	return nt, out
}

func runC13(c *core.Ctx) {
	c.Rule("R9", "a subring is selected and assembled under one hold of the ring lock, so a cached shard never carries a newer topology stamp than its content (shared with C05.R12)", 3)
	c.Rule("R1", "every InstanceDesc field is CMP, VOL or DERIVED for the equality shortcut; VOL = fields refreshed into cached subrings (both getters)", 10)
	c.Rule("R2", "index builders and shard membership read no volatile field", 12)
	c.Rule("R8", "a topology change replaces every derived Ring field unconditionally", 1)
	c.Rule("R7", "the token→instance map shared with subrings is immutable (replaced, never modified, never handed out)", 1)
	c.Rule("R3", "index replacement resets both caches and the topology stamp; cache fills guarded by stamp equality", 4)
	c.Rule("R4", "cache keys are complete, agree between getter and setter, and callers pass the request's own arguments", 8)
	c.Rule("R5", "PartitionRing immutable after construction; fresh cache; watcher swaps under lock", 3)
	c.Rule("R6", "look-back cache validity: the upper bound considers every timestamp the shard walk compares with the threshold; the lower bound is the window start", 4)
	c.Rule("R10", "every element-wise list comparison of package ring visits every index: the equality shortcut compares all tokens (shared with C05.R13)", 2)
	pkg := c.Prog.Pkg("ring")
	if pkg == nil {
		c.Miss("R1", "pkg=ring", "not loaded")
		return
	}
	_, fields := instanceDescFields(pkg)
	if len(fields) == 0 {
		c.Miss("R1", "type=InstanceDesc", "not found")
		return
	}
	class := c13Classify(c, pkg, fields)
	c13Refresh(c, pkg, class)
	c13IndexReads(c, pkg, class)
	c13Caches(c, pkg)
	c13Partition(c, pkg)
	c13PartitionDerived(c, pkg, "R5")
	c13Validity(c, pkg)
	c13LowerBound(c, pkg, "R6")
	c13WindowCheck(c, pkg, "R6")
	c05Snapshot(c, pkg, "R9")
	c13ImmutableIndex(c, pkg, "R7")
	c13RefreshAll(c, pkg, "R8")
	pairwiseLoopsAs(c, pkg, "R10", 2)
}

// c13Classify extracts the class of every field from RingCompare / setInstanceIDs.
func c13Classify(c *core.Ctx, pkg *packages.Package, fields []*types.Var) map[string]string {
	class := map[string]string{}
	fn := an.FindFunc(pkg, "Desc.RingCompare")
	if fn == nil {
		c.Miss("R1", "func=Desc.RingCompare", "not found")
		return class
	}
	c.Analysed(fn.String())
	g := fn.Graph()
	loops := rangeLoops(fn, "recv.Ingesters")
	if len(loops) != 1 {
		c.Undec("R1", "func=Desc.RingCompare:loop", fn.Pos(), "expected one loop over the receiver's instances")
		return class
	}
	rs := loops[0]
	header, body, _ := g.LoopBlocks(rs)
	roles := an.Roles{{From: "keyof(recv.Ingesters)", To: "k"}, {From: "each(recv.Ingesters)", To: "a"}, {From: "p0.Ingesters[k]", To: "b"}}
	// targets: returns of Different inside the loop; assignments flag=false
	var diffs, vols []an.Loc
	ast.Inspect(rs.Body, func(n ast.Node) bool {
		switch x := n.(type) {
		case *ast.ReturnStmt:
			if len(x.Results) == 1 && fn.ConstName(x.Results[0]) == "Different" {
				diffs = append(diffs, g.Locate(x))
			}
		case *ast.AssignStmt:
			if len(x.Lhs) == 1 && fn.Canon(x.Rhs[0]) == "false" {
				if obj := fn.ObjOf(x.Lhs[0]); obj != nil {
					if b, ok := obj.Type().Underlying().(*types.Basic); ok && b.Kind() == types.Bool {
						vols = append(vols, g.Locate(x))
					}
				}
			}
		}
		return true
	})
	// the flag must decide between Equal and EqualButStatesAndTimestamps after the loop — checked by reading the final returns
	finalOK := false
	for _, b := range g.Blocks {
		if r := an.ReturnOf(b); r != nil && !an.InNode(rs, r) && len(r.Results) == 1 && fn.ConstName(r.Results[0]) == "EqualButStatesAndTimestamps" {
			finalOK = true
		}
	}
	if len(diffs) == 0 || len(vols) == 0 || !finalOK {
		c.Undec("R1", "func=Desc.RingCompare:shape", fn.Pos(), "return Different / flag=false / final EqualButStatesAndTimestamps not recognised")
		return class
	}
	targets := append(append([]an.Loc{}, diffs...), vols...)
	names := make([]string, 0, len(fields))
	for _, f := range fields {
		names = append(names, f.Name())
	}
	for _, f := range fields {
		// binder: all fields equal except f
		bd := &an.Binder{Fn: fn, Roles: roles, Eq: map[string]string{}, Bool: map[string]string{"ok(b)": "present"}, Cmp: map[string]string{}, Unknown: map[string]bool{}}
		row := an.Row{"present": "T"}
		for _, o := range names {
			v := "T"
			if o == f.Name() {
				v = "F"
			}
			bd.Eq["a."+o+"|b."+o] = "eq:" + o
			bd.Bool["maps.Equal(a."+o+", b."+o+")"] = "eq:" + o
			bd.Bool["slices.Equal(a."+o+", b."+o+")"] = "eq:" + o
			bd.Eq["len(a."+o+")|len(b."+o+")"] = "eq:" + o
			bd.Eq["unsafe.SliceData(a."+o+")|unsafe.SliceData(b."+o+")"] = "same:" + o
			row["eq:"+o] = v
			row["same:"+o] = v // different content => different storage is the interesting case; equal => may share
		}
		bd.Row = row
		ex := g.Exec(an.Loc{B: body, I: 0}, targets, bd.Leaf, an.ExecOpts{Header: header})
		d, v := an.F, an.F
		for i := range diffs {
			d = an.Or(d, ex.Tri(i))
		}
		for i := range vols {
			v = an.Or(v, ex.Tri(len(diffs)+i))
		}
		switch {
		case d == an.T:
			class[f.Name()] = "CMP"
		case d == an.F && v == an.T:
			class[f.Name()] = "VOL"
		case d == an.F && v == an.F:
			class[f.Name()] = "NONE"
		default:
			class[f.Name()] = "UNDECIDED"
		}
	}
	// DERIVED: assigned from the map key by setInstanceIDs, which must precede RingCompare in updateRingState
	if sid := an.FindFunc(pkg, "Desc.setInstanceIDs"); sid != nil {
		sid.InspectShallow(func(n ast.Node) bool {
			if as, ok := n.(*ast.AssignStmt); ok && len(as.Lhs) == 1 {
				if sel, ok := as.Lhs[0].(*ast.SelectorExpr); ok && sid.Canon(sel.X) == "each(recv.Ingesters)" && sid.Canon(as.Rhs[0]) == "keyof(recv.Ingesters)" {
					if class[sel.Sel.Name] == "NONE" {
						class[sel.Sel.Name] = "DERIVED"
					}
				}
			}
			return true
		})
	}
	urs := an.FindFunc(pkg, "Ring.updateRingState")
	derivedOK := false
	if urs != nil {
		c.Analysed(urs.String())
		sc := urs.CallsTo(false, "ring", "(*Desc).setInstanceIDs")
		rc := urs.CallsTo(false, "ring", "(*Desc).RingCompare")
		if len(sc) == 1 && len(rc) == 1 && urs.Graph().NodeBefore(sc[0].Expr, rc[0].Expr) && urs.Canon(sc[0].Expr.Fun) == "p0.setInstanceIDs" && urs.Canon(rc[0].Expr.Args[0]) == "p0" {
			derivedOK = true
		}
	}
	for _, f := range fields {
		cl := class[f.Name()]
		key := "field=InstanceDesc." + f.Name()
		switch cl {
		case "CMP", "VOL":
			c.Hold("R1", key, rs.Pos(), "class "+cl+" (extracted from RingCompare by evaluating the loop body with only this field differing)", 1)
		case "DERIVED":
			c.Check(derivedOK, "R1", key, rs.Pos(), "class DERIVED: set from the map key by setInstanceIDs, which dominates RingCompare in updateRingState", 1)
		case "NONE":
			c.Viol("R1", key, rs.Pos(), "a difference in this field is invisible to RingCompare: the ring client keeps its old index/cached subrings and may answer from stale content")
		default:
			c.Undec("R1", key, rs.Pos(), "classification of this field by RingCompare is not decidable (unrecognised comparison form)")
		}
	}
	return class
}

// c13Refresh: fields copied into the cached subring by both getters = VOL.
func c13Refresh(c *core.Ctx, pkg *packages.Package, class map[string]string) {
	var vol []string
	for f, cl := range class {
		if cl == "VOL" {
			vol = append(vol, f)
		}
	}
	sort.Strings(vol)
	for _, name := range []string{"Ring.getCachedShuffledSubring", "Ring.getCachedShuffledSubringWithLookback"} {
		fn := an.FindFunc(pkg, name)
		if fn == nil {
			c.Miss("R1", "func="+name, "not found")
			continue
		}
		c.Analysed(fn.String())
		var refreshed []string
		ok := true
		var loop *ast.RangeStmt
		fn.InspectShallow(func(n ast.Node) bool {
			if rs, isR := n.(*ast.RangeStmt); isR && strings.HasSuffix(fn.Canon(rs.X), ".ringDesc.Ingesters") {
				loop = rs
			}
			return true
		})
		if loop == nil {
			c.Undec("R1", "refresh:func="+name, fn.Pos(), "refresh loop over the cached subring's instances not found")
			continue
		}
		cachedBase := strings.TrimSuffix(fn.Canon(loop.X), ".ringDesc.Ingesters")
		wroteBack := false
		ast.Inspect(loop.Body, func(n ast.Node) bool {
			as, isA := n.(*ast.AssignStmt)
			if !isA || len(as.Lhs) != 1 {
				return true
			}
			if sel, isSel := as.Lhs[0].(*ast.SelectorExpr); isSel && fn.Canon(sel.X) == "each("+fn.Canon(loop.X)+")" {
				refreshed = append(refreshed, sel.Sel.Name)
				want := "recv.ringDesc.Ingesters[keyof(" + fn.Canon(loop.X) + ")]." + sel.Sel.Name
				if fn.Canon(as.Rhs[0]) != want {
					ok = false
				}
			}
			if ix, isIx := as.Lhs[0].(*ast.IndexExpr); isIx && fn.Canon(ix.X) == fn.Canon(loop.X) && fn.Canon(as.Rhs[0]) == "each("+fn.Canon(loop.X)+")" {
				wroteBack = true
			}
			return true
		})
		sort.Strings(refreshed)
		// the refresh is unconditional: every copy and the write-back execute on every path of one iteration
		{
			g := fn.Graph()
			h, b, _ := g.LoopBlocks(loop)
			var locs []an.Loc
			ast.Inspect(loop.Body, func(n ast.Node) bool {
				if as, isA := n.(*ast.AssignStmt); isA && len(as.Lhs) == 1 {
					if sel, isSel := as.Lhs[0].(*ast.SelectorExpr); isSel && fn.Canon(sel.X) == "each("+fn.Canon(loop.X)+")" {
						locs = append(locs, g.Locate(as))
					}
					if ix, isIx := as.Lhs[0].(*ast.IndexExpr); isIx && fn.Canon(ix.X) == fn.Canon(loop.X) {
						locs = append(locs, g.Locate(as))
					}
				}
				return true
			})
			if b != nil && len(locs) > 0 {
				ex := g.Exec(an.Loc{B: b, I: 0}, locs, func(ast.Expr, an.Store) an.Tri { return an.U }, an.ExecOpts{Header: h})
				for i := range locs {
					if !ex.Must[i] {
						ok = false
					}
				}
			}
		}
		// the refresh runs on every path that answers with a cached subring other than the ring itself: with
		// "cached == recv" false, no return of a non-nil value is reached without entering the refresh loop first
		// (a conditional refresh — TryLock, "recently refreshed", … — hands out stale states and heartbeats)
		{
			g := fn.Graph()
			var rets []an.Loc
			for _, b := range g.Blocks {
				if r := an.ReturnOf(b); r != nil && len(r.Results) == 1 && fn.Canon(r.Results[0]) != "nil" {
					rets = append(rets, g.Locate(r))
				}
			}
			targets := append([]an.Loc{g.Locate(loop.X)}, rets...)
			bnd := &an.Binder{Fn: fn, Eq: map[string]string{"recv|" + cachedBase: "self", cachedBase + "|recv": "self", cachedBase + "|nil": "absent"}, Row: an.Row{"self": "F", "absent": "F"}}
			ex := g.Exec(g.EntryLoc(), targets, bnd.Leaf, an.ExecOpts{Record: true})
			skipped := 0
			for _, tr := range ex.Traces {
				seenLoop := false
				for _, h := range tr {
					if h.Target == 0 {
						seenLoop = true
					} else if !seenLoop {
						skipped++
					}
				}
			}
			if skipped > 0 || ex.Overflow || len(rets) == 0 {
				ok = false
			}
			c.Check(skipped == 0 && !ex.Overflow && len(rets) > 0, "R1", "refresh:func="+name+":every-hit", loop.Pos(), fmt.Sprintf("%d paths answer with a cached subring that is not the ring itself; %d of them skip the refresh loop", len(ex.Traces), skipped), len(ex.Traces))
		}
		// the refresh must run on every path that returns the cached subring other than the ring itself
		c.Check(ok && wroteBack && strings.Join(refreshed, ",") == strings.Join(vol, ","), "R1", "refresh:func="+name, loop.Pos(),
			fmt.Sprintf("fields refreshed from the parent ring into the cached subring (%s) = %v; volatile fields of RingCompare = %v; copied unconditionally from the same-named field of the parent's entry=%v; written back=%v", cachedBase, refreshed, vol, ok, wroteBack), len(refreshed))
	}
}

// instanceFieldReads returns the InstanceDesc fields read (transitively through calls inside package ring) by fn.
func instanceFieldReads(c *core.Ctx, pkg *packages.Package, fn *an.Fn, fields []*types.Var, seen map[string]bool, out map[string]bool) {
	if fn == nil || seen[fn.Name] {
		return
	}
	seen[fn.Name] = true
	isField := map[*types.Var]bool{}
	for _, f := range fields {
		isField[f] = true
	}
	fn.InspectDeep(func(n ast.Node) bool {
		if sel, ok := n.(*ast.SelectorExpr); ok {
			if s := fn.Info().Selections[sel]; s != nil {
				if v, ok := s.Obj().(*types.Var); ok && isField[v] {
					out[v.Name()] = true
				}
				// generated getters: GetState() etc.
				if m, ok := s.Obj().(*types.Func); ok && strings.HasPrefix(m.Name(), "Get") && strings.HasSuffix(s.Recv().String(), "InstanceDesc") {
					out[strings.TrimPrefix(m.Name(), "Get")] = true
				}
			}
		}
		return true
	})
	for _, call := range fn.Calls(true) {
		if cf := call.Func(); cf != nil && cf.Pkg() == pkg.Types {
			instanceFieldReads(c, pkg, an.FnOf(c.Prog.ByPath, cf), fields, seen, out)
		}
	}
}

func c13IndexReads(c *core.Ctx, pkg *packages.Package, class map[string]string) {
	_, fields := instanceDescFields(pkg)
	fn := an.FindFunc(pkg, "Ring.setRingStateFromDesc")
	if fn == nil {
		c.Miss("R2", "func=Ring.setRingStateFromDesc", "not found")
		return
	}
	c.Analysed(fn.String())
	// builders: calls on the descriptor parameter whose results are stored into guarded fields
	builders := map[string]*types.Func{}
	for _, call := range fn.Calls(false) {
		if cf := call.Func(); cf != nil && cf.Pkg() == pkg.Types {
			if sel, ok := call.Expr.Fun.(*ast.SelectorExpr); ok && fn.Canon(sel.X) == "p0" {
				builders[an.FuncDisplay(cf)] = cf
			}
			if cf.Name() == "getZones" {
				builders[an.FuncDisplay(cf)] = cf
			}
		}
	}
	// recomputed on the shortcut path too: allowed to read volatile fields
	recomputed := map[string]bool{"(*Ring).updateRingMetrics": true}
	names := make([]string, 0, len(builders))
	for n := range builders {
		names = append(names, n)
	}
	sort.Strings(names)
	for _, n := range names {
		reads := map[string]bool{}
		instanceFieldReads(c, pkg, an.FnOf(c.Prog.ByPath, builders[n]), fields, map[string]bool{}, reads)
		bad := []string{}
		for f := range reads {
			if class[f] == "VOL" {
				bad = append(bad, f)
			}
		}
		sort.Strings(bad)
		if recomputed[n] {
			continue
		}
		c.Check(len(bad) == 0, "R2", "builder="+n, fn.Pos(), fmt.Sprintf("index builder reads InstanceDesc fields %v; volatile fields read: %v (a kept index must not depend on fields the shortcut ignores)", keys(reads), bad), len(reads)+1)
	}
	// shard membership cone
	for _, name := range []string{"Ring.shuffleShard", "Ring.filterOutReadOnlyInstances", "shouldIncludeReadonlyInstanceInTheShard", "Ring.buildRingForTheShard"} {
		f := an.FindFunc(pkg, name)
		if f == nil {
			c.Miss("R2", "func="+name, "not found")
			continue
		}
		reads := map[string]bool{}
		instanceFieldReads(c, pkg, f, fields, map[string]bool{}, reads)
		bad := []string{}
		for fl := range reads {
			if class[fl] == "VOL" {
				bad = append(bad, fl)
			}
		}
		c.Check(len(bad) == 0, "R2", "shard="+name, f.Pos(), fmt.Sprintf("shard membership code reads %v; volatile: %v (cached subrings survive updates that change only volatile fields)", keys(reads), bad), len(reads)+1)
	}
}

func c13Caches(c *core.Ctx, pkg *packages.Package) {
	ringT := an.LookupType(pkg, "Ring")
	if ringT == nil {
		return
	}
	// R3: any function writing ringTokens also writes both caches and lastTopologyChange
	writes := map[string]map[string]bool{}
	for _, fname := range []string{"ringTokens", "shuffledSubringCache", "shuffledSubringWithLookbackCache", "lastTopologyChange"} {
		fld := fieldOf(ringT, fname)
		if fld == nil {
			c.Miss("R3", "field=Ring."+fname, "not found")
			continue
		}
		for _, a := range an.FieldAccesses(pkg, fld) {
			if !a.Write {
				continue
			}
			if _, isKV := a.Node.(*ast.KeyValueExpr); isKV {
				continue
			}
			// element stores into the cache map are fills, not resets
			if fname != "ringTokens" && fname != "lastTopologyChange" {
				if as, ok := an.EnclosingStmt(a.In.Body(), a.Node).(*ast.AssignStmt); ok {
					isElem := false
					for _, l := range as.Lhs {
						if ix, ok := an.Unparen(l).(*ast.IndexExpr); ok && an.InNode(ix, a.Node) {
							isElem = true
						}
					}
					if isElem {
						continue
					}
				}
			}
			if a.Base != nil && isFreshBase(a.In, a.Base) {
				continue
			}
			if writes[a.Fn.Name] == nil {
				writes[a.Fn.Name] = map[string]bool{}
			}
			writes[a.Fn.Name][fname] = true
		}
	}
	n := 0
	for fn, ws := range writes {
		if !ws["ringTokens"] {
			continue
		}
		n++
		c.Check(ws["shuffledSubringCache"] && ws["shuffledSubringWithLookbackCache"] && ws["lastTopologyChange"], "R3", "index-writer="+fn, pkg.Syntax[0].Pos(),
			fmt.Sprintf("function replacing ringTokens also resets both subring caches and lastTopologyChange: %v", keys(ws)), 3)
	}
	if n == 0 {
		c.Undec("R3", "index-writer", pkg.Syntax[0].Pos(), "no writer of ringTokens found")
	}
	// resets are fresh maps
	if f := an.FindFunc(pkg, "Ring.setRingStateFromDesc"); f != nil {
		g := f.Graph()
		okLock := lockedSection(f, "recv.mtx")
		for _, fname := range []string{"shuffledSubringCache", "shuffledSubringWithLookbackCache"} {
			found := false
			f.InspectShallow(func(n ast.Node) bool {
				if as, ok := n.(*ast.AssignStmt); ok && len(as.Lhs) == 1 && f.Canon(as.Lhs[0]) == "recv."+fname {
					found = true
					call, isCall := an.Unparen(as.Rhs[0]).(*ast.CallExpr)
					fresh := isCall && an.ObjIs(an.Callee(f.Info(), call), "", "make")
					// reachable whenever the cache is enabled (non-nil)
					t := an.Table{G: g, From: g.EntryLoc(), Atoms: []an.Atom{{Name: "enabled", Values: []string{"T", "F"}}}, MayOnly: true,
						Binder: &an.Binder{Fn: f, Eq: map[string]string{"recv." + fname + "|nil": "disabled"}}, Targets: []an.Loc{g.Locate(as)},
						Want: func(r an.Row, _ int) an.Tri { return an.U }}
					_ = t
					c.Check(fresh && okLock, "R3", "reset="+fname, as.Pos(), fmt.Sprintf("cache reset to a fresh map inside the write-locked section (fresh=%v, locked=%v)", fresh, okLock), 1)
				}
				return true
			})
			if !found {
				c.Viol("R3", "reset="+fname, f.Pos(), "setRingStateFromDesc does not reset this cache")
			}
		}
	}
	c13Fills(c, pkg, "R3")
	c13EntryArgs(c, pkg)
}

// c13EntryArgs (R4): the public entry points hand the request's own identifier, size, period and time to the cache accessors
func c13EntryArgs(c *core.Ctx, pkg *packages.Package) {
	for _, e := range []struct {
		fn     string
		callee []string
		n      int
	}{
		{"Ring.ShuffleShard", []string{"getCachedShuffledSubring", "setCachedShuffledSubring"}, 2},
		{"Ring.ShuffleShardWithLookback", []string{"getCachedShuffledSubringWithLookback", "setCachedShuffledSubringWithLookback"}, 4},
		{"PartitionRing.ShuffleShard", []string{"getSubring", "setSubring"}, 2},
		{"PartitionRing.ShuffleShardWithLookback", []string{"getSubringWithLookback", "setSubringWithLookback"}, 4},
	} {
		f := an.FindFunc(pkg, e.fn)
		if f == nil {
			c.Miss("R4", "func="+e.fn+":args", "not found")
			continue
		}
		c.Analysed(f.String())
		bad := []string{}
		seen := 0
		for _, call := range f.Calls(false) {
			fo := call.Func()
			if fo == nil {
				continue
			}
			match := false
			for _, n := range e.callee {
				if an.PinnedName(fo) == n {
					match = true
				}
			}
			if !match {
				continue
			}
			seen++
			for i := 0; i < e.n && i < len(call.Expr.Args); i++ {
				if got := f.Canon(call.Expr.Args[i]); got != fmt.Sprintf("p%d", i) {
					bad = append(bad, fmt.Sprintf("%s arg %d = %s", fo.Name(), i, got))
				}
			}
		}
		c.Check(len(bad) == 0 && seen >= 2, "R4", "func="+e.fn+":args", f.Pos(), fmt.Sprintf("cache lookup and fill are keyed by the request's own identifier/size%s, unchanged (%d calls; deviations: %v)", map[int]string{2: "", 4: "/period/time"}[e.n], seen, bad), seen)
	}
	// R4 keys
	type keyUse struct {
		fn   string
		want string
	}
	for _, k := range []keyUse{
		{"Ring.getCachedShuffledSubring", "subringCacheKey{identifier: p0, shardSize: p1}"},
		{"Ring.setCachedShuffledSubring", "subringCacheKey{identifier: p0, shardSize: p1}"},
		{"Ring.getCachedShuffledSubringWithLookback", "subringCacheKey{identifier: p0, shardSize: p1, lookbackPeriod: p2}"},
		{"Ring.setCachedShuffledSubringWithLookback", "subringCacheKey{identifier: p0, shardSize: p1, lookbackPeriod: p2}"},
	} {
		f := an.FindFunc(pkg, k.fn)
		if f == nil {
			c.Miss("R4", "func="+k.fn, "not found")
			continue
		}
		var lits []string
		f.InspectShallow(func(n ast.Node) bool {
			if cl, ok := n.(*ast.CompositeLit); ok {
				if tv := f.Info().TypeOf(cl); tv != nil && strings.HasSuffix(tv.String(), "ring.subringCacheKey") {
					lits = append(lits, canonKeyLit(f, cl))
				}
			}
			return true
		})
		ok := len(lits) >= 1
		for _, l := range lits {
			if l != k.want {
				ok = false
			}
		}
		c.Check(ok, "R4", "key:func="+k.fn, f.Pos(), fmt.Sprintf("cache key literal(s) %v; required %s (every parameter that influences the result)", lits, k.want), 1)
	}
	// callers pass their own parameters through
	for _, cs := range []struct{ fn, getter, setter string }{
		{"Ring.ShuffleShard", "getCachedShuffledSubring", "setCachedShuffledSubring"},
		{"Ring.ShuffleShardWithLookback", "getCachedShuffledSubringWithLookback", "setCachedShuffledSubringWithLookback"},
	} {
		f := an.FindFunc(pkg, cs.fn)
		if f == nil {
			c.Miss("R4", "func="+cs.fn, "not found")
			continue
		}
		c.Analysed(f.String())
		ok := true
		detail := []string{}
		for _, callee := range []string{cs.getter, cs.setter} {
			calls := f.CallsTo(false, "ring", "(*Ring)."+callee)
			if len(calls) != 1 {
				ok = false
				continue
			}
			sig := f.Obj.Type().(*types.Signature)
			for i := 0; i < sig.Params().Len() && i < len(calls[0].Expr.Args); i++ {
				a := f.Canon(calls[0].Expr.Args[i])
				detail = append(detail, callee+"#"+a)
				if a != fmt.Sprintf("p%d", i) {
					ok = false
				}
			}
		}
		c.Check(ok, "R4", "passthrough:func="+cs.fn, f.Pos(), fmt.Sprintf("the cache getter and setter receive the caller's own parameters in order: %v", detail), 1)
	}
}

func canonKeyLit(f *an.Fn, cl *ast.CompositeLit) string {
	parts := []string{}
	for _, e := range cl.Elts {
		if kv, ok := e.(*ast.KeyValueExpr); ok {
			parts = append(parts, types.ExprString(kv.Key)+": "+f.Canon(kv.Value))
		} else {
			parts = append(parts, f.Canon(e))
		}
	}
	sort.Strings(parts)
	// keep declaration order for readability: identifier, shardSize, lookbackPeriod
	order := map[string]int{"identifier": 0, "shardSize": 1, "lookbackPeriod": 2}
	sort.SliceStable(parts, func(i, j int) bool {
		return order[strings.SplitN(parts[i], ":", 2)[0]] < order[strings.SplitN(parts[j], ":", 2)[0]]
	})
	return "subringCacheKey{" + strings.Join(parts, ", ") + "}"
}

// lockedSection: function contains `mu.Lock(); defer mu.Unlock()` as consecutive statements somewhere at top level
// and every statement after them is inside the section.
func lockedSection(fn *an.Fn, mu string) bool {
	list := fn.Body().List
	for i := 0; i+1 < len(list); i++ {
		es, ok := list[i].(*ast.ExprStmt)
		if !ok {
			continue
		}
		call, ok := es.X.(*ast.CallExpr)
		if !ok {
			continue
		}
		sel, ok := call.Fun.(*ast.SelectorExpr)
		if !ok || sel.Sel.Name != "Lock" || fn.Canon(sel.X) != mu {
			continue
		}
		if ds, ok := list[i+1].(*ast.DeferStmt); ok {
			if s2, ok := ds.Call.Fun.(*ast.SelectorExpr); ok && s2.Sel.Name == "Unlock" && fn.Canon(s2.X) == mu {
				return true
			}
		}
	}
	return false
}

func c13Partition(c *core.Ctx, pkg *packages.Package) {
	pr := an.LookupType(pkg, "PartitionRing")
	if pr == nil {
		c.Miss("R5", "type=PartitionRing", "not found")
		return
	}
	st := pr.Underlying().(*types.Struct)
	bad := []string{}
	n := 0
	for i := 0; i < st.NumFields(); i++ {
		f := st.Field(i)
		for _, a := range an.FieldAccesses(pkg, f) {
			if !a.Write {
				continue
			}
			n++
			if _, isKV := a.Node.(*ast.KeyValueExpr); isKV && (a.Fn.Name == "NewPartitionRingWithOptions" || a.Fn.Name == "NewPartitionRing") {
				continue
			}
			// writes into elements of maps/slices held by a fresh object under construction inside builder functions are on locals, not fields
			bad = append(bad, fmt.Sprintf("%s in %s at %s", f.Name(), a.Fn.Name, c.Prog.PosStr(a.Node.Pos())))
		}
	}
	c.Check(len(bad) == 0 && n >= 8, "R5", "type=PartitionRing:immutable", pkg.Syntax[0].Pos(), fmt.Sprintf("%d field initialisations, all in the constructor's composite literal; writes elsewhere: %v", n, bad), n)
	// fresh cache
	if ctor := an.FindFunc(pkg, "NewPartitionRingWithOptions"); ctor != nil {
		c.Analysed(ctor.String())
		val := ""
		ctor.InspectShallow(func(nd ast.Node) bool {
			if kv, ok := nd.(*ast.KeyValueExpr); ok {
				if id, ok := kv.Key.(*ast.Ident); ok && id.Name == "shuffleShardCache" {
					val = ctor.Canon(kv.Value)
				}
			}
			return true
		})
		c.Check(strings.HasPrefix(val, "newPartitionRingShuffleShardCache("), "R5", "type=PartitionRing:fresh-cache", ctor.Pos(), "every PartitionRing starts with its own new shuffle-shard cache: shuffleShardCache = "+val, 1)
		// all derived fields are computed from the descriptor parameter
		badSrc := []string{}
		nf := 0
		ctor.InspectShallow(func(nd ast.Node) bool {
			if kv, ok := nd.(*ast.KeyValueExpr); ok {
				if id, ok := kv.Key.(*ast.Ident); ok {
					v := ctor.Canon(kv.Value)
					nf++
					if id.Name != "shuffleShardCache" && !strings.Contains(v, "p0") && !strings.Contains(v, "p1") {
						badSrc = append(badSrc, id.Name+"="+v)
					}
				}
			}
			return true
		})
		c.Check(len(badSrc) == 0, "R5", "type=PartitionRing:derived-from-desc", ctor.Pos(), fmt.Sprintf("%d fields all computed from the constructor's descriptor/options; others: %v", nf, badSrc), nf)
	} else {
		c.Miss("R5", "func=NewPartitionRingWithOptions", "not found")
	}
	// watcher
	w := an.LookupType(pkg, "PartitionRingWatcher")
	if w != nil {
		rep := an.Lockset(pkg, []an.Guard{{Type: w, Mutex: "ringMx", Fields: []string{"ring"}}}, an.LockOpts{ExemptFuncs: map[string]string{"NewPartitionRingWatcher": "constructor"}})
		for _, f := range rep.Findings {
			c.Viol("R5", "watcher:func="+f.Fn, f.Pos, fmt.Sprintf("access to PartitionRingWatcher.ring without %s (held %v)", f.Need, f.Held))
		}
		c.Check(len(rep.Findings) == 0 && rep.Accesses >= 3, "R5", "watcher:lock", pkg.Syntax[0].Pos(), fmt.Sprintf("%d accesses to PartitionRingWatcher.ring, all under ringMx", rep.Accesses), rep.Accesses)
		// the ring stored is the freshly constructed one
		if up := an.FindFunc(pkg, "PartitionRingWatcher.updatePartitionRing"); up != nil {
			c.Analysed(up.String())
			val := ""
			up.InspectShallow(func(nd ast.Node) bool {
				if as, ok := nd.(*ast.AssignStmt); ok && len(as.Lhs) == 1 && up.Canon(as.Lhs[0]) == "recv.ring" {
					val = up.Canon(as.Rhs[0])
				}
				return true
			})
			c.Check(strings.HasPrefix(val, "NewPartitionRingWithOptions(*p0") && strings.HasSuffix(val, "#0"), "R5", "watcher:fresh-ring", up.Pos(), "the watcher publishes "+val+" (a ring built only from the new descriptor)", 1)
		}
	}
}

// c13Validity: R6
func c13Validity(c *core.Ctx, pkg *packages.Package) {
	// timestamp fields the shard walk compares with the look-back threshold
	cmpFields := map[string]bool{}
	for _, name := range []string{"Ring.shuffleShard", "shouldIncludeReadonlyInstanceInTheShard", "Ring.filterOutReadOnlyInstances"} {
		f := an.FindFunc(pkg, name)
		if f == nil {
			c.Miss("R6", "func="+name, "not found")
			continue
		}
		f.InspectDeep(func(n ast.Node) bool {
			be, ok := n.(*ast.BinaryExpr)
			if !ok {
				return true
			}
			switch be.Op {
			case token.LSS, token.LEQ, token.GTR, token.GEQ:
			default:
				return true
			}
			for _, pair := range [][2]ast.Expr{{be.X, be.Y}, {be.Y, be.X}} {
				if id, ok := an.Unparen(pair[1]).(*ast.Ident); ok && id.Name == "lookbackUntil" {
					if sel, ok := an.Unparen(pair[0]).(*ast.SelectorExpr); ok && strings.HasSuffix(f.Info().TypeOf(sel.X).String(), "InstanceDesc") {
						cmpFields[sel.Sel.Name] = true
					}
				}
			}
			return true
		})
	}
	f := an.FindFunc(pkg, "Ring.setCachedShuffledSubringWithLookback")
	if f == nil || len(cmpFields) == 0 {
		c.Undec("R6", "validity", pkg.Syntax[0].Pos(), "no timestamp comparisons with the look-back threshold found")
		return
	}
	g := f.Graph()
	var loop *ast.RangeStmt
	f.InspectShallow(func(n ast.Node) bool {
		if rs, ok := n.(*ast.RangeStmt); ok && strings.HasSuffix(f.Canon(rs.X), ".ringDesc.Ingesters") {
			loop = rs
		}
		return true
	})
	if loop == nil {
		c.Undec("R6", "validity:loop", f.Pos(), "loop over the subring's instances not found")
		return
	}
	header, body, _ := g.LoopBlocks(loop)
	elem := "each(" + f.Canon(loop.X) + ")"
	for _, fld := range keys(cmpFields) {
		// assignment bound = elem.fld
		var asg *ast.AssignStmt
		ast.Inspect(loop.Body, func(n ast.Node) bool {
			if as, ok := n.(*ast.AssignStmt); ok && len(as.Lhs) == 1 && f.Canon(as.Rhs[0]) == elem+"."+fld {
				asg = as
			}
			return true
		})
		if asg == nil {
			c.Viol("R6", "validity:field="+fld, loop.Pos(), "the shard walk compares InstanceDesc."+fld+" with the look-back threshold, but the cache validity bound never takes it into account")
			continue
		}
		bound := asg.Lhs[0].(*ast.Ident).Name
		boundObj := f.ObjOf(asg.Lhs[0])
		t := an.Table{G: g, From: an.Loc{B: body, I: 0}, Opts: an.ExecOpts{Header: header, NoTrack: map[types.Object]bool{boundObj: true}}, FreeUnknown: true,
			Atoms: []an.Atom{{Name: "vsStart", Values: []string{"lt", "eq", "gt"}}, {Name: "vsBound", Values: []string{"lt", "eq", "gt"}}},
			Binder: &an.Binder{Fn: f, Roles: an.Roles{{From: elem, To: "i"}},
				Cmp: map[string]string{"i." + fld + "|p3.Add(-p2).Unix()": "vsStart", "i." + fld + "|" + bound: "vsBound"}},
			Targets: []an.Loc{g.Locate(asg)}, Names: []string{"bound = " + fld},
			Want: func(r an.Row, _ int) an.Tri { return an.FromBool(r["vsStart"] != "lt" && r["vsBound"] == "lt") }}
		// other fields' comparisons are unrelated conditions on other statements; they must not influence this target
		res := t.Run()
		c.Check(res.OK(), "R6", "validity:field="+fld, asg.Pos(), fmt.Sprintf("bound lowered to %s ⇔ windowStart ≤ %s < bound, independent of any other condition: %s", fld, fld, res.Summary()), res.Rows)
	}
	// the partition-ring cache: same rule over PartitionDesc.StateTimestamp (the partition walk treats ts ≥ windowStart as inside the window)
	pf := an.FindFunc(pkg, "partitionRingShuffleShardCache.setSubringWithLookback")
	if pf == nil {
		c.Miss("R6", "func=partitionRingShuffleShardCache.setSubringWithLookback", "not found")
		return
	}
	c.Analysed(pf.String())
	pg := pf.Graph()
	var ploop *ast.RangeStmt
	pf.InspectShallow(func(n ast.Node) bool {
		if rs, ok := n.(*ast.RangeStmt); ok && strings.HasSuffix(pf.Canon(rs.X), ".desc.Partitions") {
			ploop = rs
		}
		return true
	})
	if ploop == nil {
		c.Undec("R6", "validity:partition", pf.Pos(), "loop over the subring's partitions not found")
		return
	}
	ph, pb, _ := pg.LoopBlocks(ploop)
	pelem := "each(" + pf.Canon(ploop.X) + ")"
	var pasg *ast.AssignStmt
	ast.Inspect(ploop.Body, func(n ast.Node) bool {
		if as, ok := n.(*ast.AssignStmt); ok && len(as.Lhs) == 1 && as.Tok == token.ASSIGN && pf.Canon(as.Rhs[0]) == pelem+".StateTimestamp" {
			pasg = as
		}
		return true
	})
	if pasg == nil {
		c.Undec("R6", "validity:partition", ploop.Pos(), "no assignment `bound = partition.StateTimestamp` in the loop (a different formulation of the running minimum is not recognised)")
		return
	}
	pbound := pasg.Lhs[0].(*ast.Ident).Name
	pboundObj := pf.ObjOf(pasg.Lhs[0])
	pt := an.Table{G: pg, From: an.Loc{B: pb, I: 0}, Opts: an.ExecOpts{Header: ph, NoTrack: map[types.Object]bool{pboundObj: true}}, FreeUnknown: true,
		Atoms: []an.Atom{{Name: "vsStart", Values: []string{"lt", "eq", "gt"}}, {Name: "vsBound", Values: []string{"lt", "eq", "gt"}}},
		Binder: &an.Binder{Fn: pf, Roles: an.Roles{{From: pelem, To: "i"}},
			Cmp: map[string]string{"i.StateTimestamp|p3.Add(-p2).Unix()": "vsStart", "i.StateTimestamp|" + pbound: "vsBound"}},
		Targets: []an.Loc{pg.Locate(pasg)}, Names: []string{"bound = StateTimestamp"},
		Want: func(r an.Row, _ int) an.Tri { return an.FromBool(r["vsStart"] != "lt" && r["vsBound"] == "lt") }}
	pres := pt.Run()
	c.Check(pres.OK(), "R6", "validity:partition", pasg.Pos(), "partition cache: bound lowered to StateTimestamp ⇔ windowStart ≤ StateTimestamp < bound, independent of any other condition: "+pres.Summary(), pres.Rows)
}

// c13Fills: a computed shard is stored in a cache only when the ring's topology stamp still equals the
// stamp the shard was computed from (shared with C12.R7: a stale shard would make the answer depend on
// the interleaving, not only on the ring content).
func c13Fills(c *core.Ctx, pkg *packages.Package, R string) {
	// fills guarded by topology stamp equality
	type setter struct {
		name, cache, sub string
	}
	for _, s := range []setter{{"Ring.setCachedShuffledSubring", "shuffledSubringCache", "p2"}, {"Ring.setCachedShuffledSubringWithLookback", "shuffledSubringWithLookbackCache", "p4"}} {
		f := an.FindFunc(pkg, s.name)
		if f == nil {
			c.Miss(R, "func="+s.name, "not found")
			continue
		}
		c.Analysed(f.String())
		g := f.Graph()
		var stores []an.Loc
		f.InspectShallow(func(n ast.Node) bool {
			if as, ok := n.(*ast.AssignStmt); ok && len(as.Lhs) == 1 {
				if ix, ok := as.Lhs[0].(*ast.IndexExpr); ok && f.Canon(ix.X) == "recv."+s.cache {
					stores = append(stores, g.Locate(as))
				}
			}
			return true
		})
		t := an.Table{G: g, From: g.EntryLoc(), MayOnly: true, Atoms: []an.Atom{{Name: "same", Values: []string{"T", "F"}}},
			Binder:  &an.Binder{Fn: f, Bool: map[string]string{"recv.lastTopologyChange.Equal(" + s.sub + ".lastTopologyChange)": "same"}},
			Targets: stores, Want: func(r an.Row, _ int) an.Tri { return an.FromBool(r["same"] == "T") }}
		res := t.Run()
		c.Check(res.OK() && len(stores) == 1, R, "fill="+s.cache, f.Pos(), "cache fill reachable only when the ring's topology stamp equals the stamp the subring was computed from: "+res.Summary(), res.Rows)
	}
}

// c13ImmutableIndex: Ring.ringInstanceByToken is shared by reference between a ring and every subring
// built from it ("immutable by design"). The rule makes that design checkable: the field is only ever
// (a) assigned a map freshly built by Desc.getTokensInfo or shared from another Ring, (b) read by
// indexing, len or range; it is never written through (element store, delete, clear), never handed to
// a function and its address is never taken — recycling or patching the map in place would change the
// answers of subrings that were computed earlier (shared by C13.R7, C14.R6 and C05.R7).
func c13ImmutableIndex(c *core.Ctx, pkg *packages.Package, R string) {
	ringT := an.LookupType(pkg, "Ring")
	if ringT == nil {
		c.Miss(R, "type=Ring", "not found")
		return
	}
	fld := fieldOf(ringT, "ringInstanceByToken")
	if fld == nil {
		c.Miss(R, "field=Ring.ringInstanceByToken", "not found")
		return
	}
	info := pkg.TypesInfo
	var bad []string
	var badPos token.Pos
	reads, assigns := 0, 0
	for _, top := range an.Funcs(pkg) {
		bodies := append([]*an.Fn{top}, top.AllLits()...)
		for _, fn := range bodies {
			var stack []ast.Node
			ast.Inspect(fn.Body(), func(n ast.Node) bool {
				if n == nil {
					stack = stack[:len(stack)-1]
					return true
				}
				if lit, ok := n.(*ast.FuncLit); ok && lit != fn.Lit {
					stack = append(stack, n)
					return true
				}
				stack = append(stack, n)
				sel, ok := n.(*ast.SelectorExpr)
				if !ok || !an.FieldSel(info, sel, fld) {
					return true
				}
				// classify by the enclosing nodes
				var parent, grand ast.Node
				k := len(stack) - 2
				for k >= 0 {
					if _, isParen := stack[k].(*ast.ParenExpr); !isParen {
						break
					}
					k--
				}
				if k >= 0 {
					parent = stack[k]
				}
				if k >= 1 {
					grand = stack[k-1]
				}
				fail := func(why string) {
					bad = append(bad, fmt.Sprintf("%s: %s", fn.Name, why))
					badPos = sel.Pos()
				}
				switch p := parent.(type) {
				case *ast.AssignStmt:
					isLHS := false
					for i, l := range p.Lhs {
						if an.Unparen(l) == ast.Expr(sel) {
							isLHS = true
							if len(p.Lhs) == len(p.Rhs) {
								rc := fn.Canon(p.Rhs[i])
								if strings.HasSuffix(rc, ".getTokensInfo()") || strings.HasSuffix(rc, ".ringInstanceByToken") {
									assigns++
								} else {
									fail("assigned " + rc + " (must be a map freshly built by getTokensInfo() or shared from another Ring)")
								}
							} else {
								fail("assigned from a multi-value expression")
							}
						}
					}
					if !isLHS {
						reads++ // x := r.ringInstanceByToken (alias): conservatively accepted only as a plain copy into a Ring field, checked where it is stored
						if len(p.Lhs) == 1 {
							if _, isSel := an.Unparen(p.Lhs[0]).(*ast.SelectorExpr); !isSel {
								fail("aliased into a local (" + fn.Canon(p.Lhs[0]) + "): writes through the alias cannot be excluded")
							}
						}
					}
				case *ast.KeyValueExpr:
					reads++ // composite literal of a Ring: shared by reference
				case *ast.IndexExpr:
					if an.Unparen(p.X) != ast.Expr(sel) {
						reads++
						break
					}
					if as, ok := grand.(*ast.AssignStmt); ok {
						for _, l := range as.Lhs {
							if an.Unparen(l) == ast.Expr(p) {
								fail("element store into the shared map")
							}
						}
					}
					if _, ok := grand.(*ast.IncDecStmt); ok {
						fail("element update in the shared map")
					}
					reads++
				case *ast.RangeStmt:
					reads++
				case *ast.CallExpr:
					o := an.Callee(info, p)
					switch {
					case an.ObjIs(o, "", "len"):
						reads++
					case an.ObjIs(o, "", "delete") || an.ObjIs(o, "", "clear"):
						fail(o.Name() + " on the shared map")
					default:
						fail("handed to " + fn.Canon(p.Fun) + " (the callee may modify or keep it)")
					}
				case *ast.UnaryExpr:
					if p.Op == token.AND {
						fail("address taken")
					} else {
						reads++
					}
				case *ast.BinaryExpr:
					reads++ // comparison with nil
				default:
					fail(fmt.Sprintf("used in an unrecognised position (%T)", parent))
				}
				return true
			})
		}
	}
	if len(bad) > 0 {
		c.Viol(R, "field=Ring.ringInstanceByToken:immutable", badPos, fmt.Sprintf("the token→instance map shared with subrings may be modified or escape: %v", head(bad, 4)))
		return
	}
	c.Check(assigns >= 1 && reads >= 3, R, "field=Ring.ringInstanceByToken:immutable", pkg.Syntax[0].Pos(), fmt.Sprintf("%d assignments (fresh map from getTokensInfo() or shared from a Ring), %d read-only uses; no element store, delete, clear, alias, address-of or hand-over to a function", assigns, reads), assigns+reads)
}

// c13RefreshAll: every Ring field assigned by setRingStateFromDesc (and by the same-type helpers it
// calls) is assigned on *every* path of that function — the derived indexes (tokens, zones, per-zone
// counters …) are all replaced together on a topology change. The only accepted conditions are a bool
// parameter of the function (the caller-controlled refresh flags) and the nil test of the field being
// reset (caches disabled in tests). A field that is refreshed only "when something changed" makes the
// answers depend on the update history (shared by C13.R8 and C12.R8).
func c13RefreshAll(c *core.Ctx, pkg *packages.Package, R string) {
	root := an.FindFunc(pkg, "Ring.setRingStateFromDesc")
	if root == nil {
		c.Miss(R, "func=Ring.setRingStateFromDesc", "not found")
		return
	}
	fns := []*an.Fn{root}
	for _, call := range root.Calls(false) {
		if f := call.Func(); f != nil && f.Pkg() == pkg.Types {
			if sel, ok := call.Expr.Fun.(*ast.SelectorExpr); ok && root.Canon(sel.X) == "recv" {
				if h := an.FindFunc(pkg, an.FuncDisplay(f)); h != nil {
					// the helper itself must be called on every path
					ex := root.Graph().Exec(root.Graph().EntryLoc(), []an.Loc{root.Graph().Locate(call.Expr)}, func(ast.Expr, an.Store) an.Tri { return an.U }, an.ExecOpts{IgnorePanic: true})
					hasAssign := false
					h.InspectShallow(func(n ast.Node) bool {
						if as, ok := n.(*ast.AssignStmt); ok {
							for _, l := range as.Lhs {
								if strings.HasPrefix(h.Canon(l), "recv.") && !strings.Contains(strings.TrimPrefix(h.Canon(l), "recv."), ".") {
									hasAssign = true
								}
							}
						}
						return true
					})
					if hasAssign {
						if !ex.Must[0] && !condIsFlag(root, call.Expr) {
							c.Viol(R, "refresh:call="+h.Name, call.Expr.Pos(), "helper that assigns Ring fields is not called on every path of setRingStateFromDesc")
						}
						fns = append(fns, h)
					}
				}
			}
		}
	}
	n := 0
	var bad []string
	var badPos token.Pos
	for _, fn := range fns {
		c.Analysed(fn.String())
		g := fn.Graph()
		fn.InspectShallow(func(nd ast.Node) bool {
			as, ok := nd.(*ast.AssignStmt)
			if !ok {
				return true
			}
			for _, l := range as.Lhs {
				lc := fn.Canon(l)
				if !strings.HasPrefix(lc, "recv.") || strings.ContainsAny(strings.TrimPrefix(lc, "recv."), ".[") {
					continue
				}
				n++
				ex := g.Exec(g.EntryLoc(), []an.Loc{g.Locate(as)}, func(ast.Expr, an.Store) an.Tri { return an.U }, an.ExecOpts{IgnorePanic: true})
				if ex.Must[0] {
					continue
				}
				if condIsFlag(fn, as) {
					continue
				}
				bad = append(bad, fmt.Sprintf("%s: %s is not assigned on every path", fn.Name, lc))
				badPos = as.Pos()
			}
			return true
		})
	}
	if len(bad) > 0 {
		c.Viol(R, "refresh:all-fields", badPos, strings.Join(bad, "; "))
		return
	}
	c.Check(n >= 10, R, "refresh:all-fields", root.Pos(), fmt.Sprintf("%d Ring field assignments in setRingStateFromDesc and its helpers are unconditional, or conditional only on a bool parameter / on the nil test of the field itself", n), n)
}

// condIsFlag: node n lies directly in an if whose condition is a bool parameter of fn, or the nil test
// of a receiver field (`if recv.f != nil { recv.f = … }`), and that if is itself reached on every path.
func condIsFlag(fn *an.Fn, n ast.Node) bool {
	var found *ast.IfStmt
	fn.InspectShallow(func(m ast.Node) bool {
		if is, ok := m.(*ast.IfStmt); ok && an.InNode(is.Body, n) {
			found = is // innermost wins (visited last)
		}
		return true
	})
	if found == nil || found.Else != nil || found.Init != nil {
		return false
	}
	cc := fn.Canon(found.Cond)
	flag := regexp.MustCompile(`^p\d+$`).MatchString(cc)
	if v, ok := fn.ObjOf(found.Cond).(*types.Var); flag && ok {
		if b, ok := v.Type().Underlying().(*types.Basic); !ok || b.Kind() != types.Bool {
			flag = false
		}
	}
	nilTest := regexp.MustCompile(`^\(recv\.\w+ != nil\)$`).MatchString(cc)
	if !flag && !nilTest {
		return false
	}
	g := fn.Graph()
	ex := g.Exec(g.EntryLoc(), []an.Loc{g.Locate(found.Cond)}, func(ast.Expr, an.Store) an.Tri { return an.U }, an.ExecOpts{IgnorePanic: true})
	return ex.Must[0]
}

// c13LowerBound: a look-back cache entry is valid for windows starting no earlier than the window it was
// computed for. Instances or partitions the walk met and left out are not in the cached subring, so nothing
// that can be computed from the subring justifies an earlier start: both setters must store exactly the
// start of the request's window (now − period) as the lower bound.
func c13LowerBound(c *core.Ctx, pkg *packages.Package, R string) {
	for _, name := range []string{"Ring.setCachedShuffledSubringWithLookback", "partitionRingShuffleShardCache.setSubringWithLookback"} {
		f := an.FindFunc(pkg, name)
		if f == nil {
			c.Miss(R, "func="+name+":lower-bound", "not found")
			continue
		}
		c.Analysed(f.String())
		var got []string
		f.InspectShallow(func(n ast.Node) bool {
			switch x := n.(type) {
			case *ast.KeyValueExpr:
				if id, ok := x.Key.(*ast.Ident); ok && id.Name == "validForLookbackWindowsStartingAfter" {
					got = append(got, f.Canon(x.Value))
				}
			case *ast.AssignStmt:
				for i, l := range x.Lhs {
					if sel, ok := an.Unparen(l).(*ast.SelectorExpr); ok && sel.Sel.Name == "validForLookbackWindowsStartingAfter" && i < len(x.Rhs) {
						got = append(got, f.Canon(x.Rhs[i]))
					}
				}
			}
			return true
		})
		ok := len(got) > 0
		for _, v := range got {
			if v != "p3.Add(-p2).Unix()" {
				ok = false
			}
		}
		c.Check(ok, R, "func="+name+":lower-bound", f.Pos(), fmt.Sprintf("the entry's lower validity bound is the start of the request's own window, now − period: %v", got), len(got))
	}
}

// c13WindowCheck: the look-back getters hand out a cached subring only when the requested window's start
// lies inside the entry's validity interval [after, before] — decided as a table over the two orderings
// with every other condition of the function a free atom (nothing else can widen the interval).
func c13WindowCheck(c *core.Ctx, pkg *packages.Package, R string) {
	for _, name := range []string{"Ring.getCachedShuffledSubringWithLookback", "partitionRingShuffleShardCache.getSubringWithLookback"} {
		fn := an.FindFunc(pkg, name)
		if fn == nil {
			c.Miss(R, "func="+name+":window", "not found")
			continue
		}
		c.Analysed(fn.String())
		g := fn.Graph()
		var hits []an.Loc
		for _, b := range g.Blocks {
			if r := an.ReturnOf(b); r != nil && len(r.Results) == 1 && fn.Canon(r.Results[0]) != "nil" {
				hits = append(hits, g.Locate(r))
			}
		}
		// the entry read from the cache: any local with the two bound fields
		entry := ""
		fn.InspectShallow(func(n ast.Node) bool {
			if sel, ok := n.(*ast.SelectorExpr); ok && (sel.Sel.Name == "validForLookbackWindowsStartingAfter" || sel.Sel.Name == "validForLookbackWindowsStartingBefore" || sel.Sel.Name == "subring") && entry == "" {
				entry = fn.Canon(sel.X)
			}
			return true
		})
		if len(hits) == 0 || entry == "" {
			c.Undec(R, "func="+name+":window", fn.Pos(), "no cache-hit return / no read of the entry's validity bounds found")
			continue
		}
		ws := "p3.Add(-p2).Unix()"
		t := an.Table{G: g, From: g.EntryLoc(), FreeUnknown: true, MayOnly: true,
			Atoms:   []an.Atom{{Name: "lo", Values: []string{"lt", "eq", "gt"}}, {Name: "hi", Values: []string{"lt", "eq", "gt"}}},
			Binder:  &an.Binder{Fn: fn, Cmp: map[string]string{ws + "|" + entry + ".validForLookbackWindowsStartingAfter": "lo", ws + "|" + entry + ".validForLookbackWindowsStartingBefore": "hi"}},
			Targets: hits,
			Want: func(r an.Row, _ int) an.Tri {
				if r["lo"] == "lt" || r["hi"] == "gt" {
					return an.F
				}
				return an.U
			}}
		res := t.Run()
		c.Check(res.OK(), R, "func="+name+":window", fn.Pos(), "no cache hit is reachable when the requested window starts before the entry's lower bound or after its upper bound, whatever else is tested: "+res.Summary(), res.Rows)
	}
}

// c13PartitionDerived: a PartitionRing is a function of the descriptor it stores. Every composite literal
// of the type (census over the package) fills the token list, the token→partition map and the other derived
// fields from the very descriptor it stores in `desc` — nothing is carried over from an earlier ring.
func c13PartitionDerived(c *core.Ctx, pkg *packages.Package, R string) {
	want := map[string]string{"ringTokens": ".tokens()", "partitionByToken": ".partitionByToken()", "ownersByPartition": ".ownersByPartition()",
		"activePartitionsCount": ".activePartitionsCount()", "maxPartitionID": ".maxPartitionID()"}
	n := 0
	for _, f := range an.Funcs(pkg) {
		for _, lf := range append([]*an.Fn{f}, f.AllLits()...) {
			lf := lf
			lf.InspectShallow(func(x ast.Node) bool {
				cl, ok := x.(*ast.CompositeLit)
				if !ok {
					return true
				}
				t := lf.Info().TypeOf(cl)
				if t == nil || !strings.HasSuffix(t.String(), "ring.PartitionRing") {
					return true
				}
				n++
				vals := map[string]string{}
				for _, el := range cl.Elts {
					if kv, ok := el.(*ast.KeyValueExpr); ok {
						if id, ok := kv.Key.(*ast.Ident); ok {
							vals[id.Name] = lf.Canon(kv.Value)
						}
					}
				}
				d := vals["desc"]
				var bad []string
				for fld, suffix := range want {
					if v, ok := vals[fld]; !ok || d == "" || v != d+suffix {
						bad = append(bad, fmt.Sprintf("%s = %s", fld, v))
					}
				}
				sort.Strings(bad)
				c.Check(len(bad) == 0, R, "literal:PartitionRing:func="+an.FuncDisplay(f.Obj), cl.Pos(), fmt.Sprintf("derived fields computed from the stored descriptor %s itself: %v", d, bad), 1)
				return true
			})
		}
	}
	if n == 0 {
		c.Undec(R, "literal:PartitionRing", pkg.Syntax[0].Pos(), "no composite literal of PartitionRing found")
	}
}
