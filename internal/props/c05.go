package props

import (
	"fmt"
	"go/ast"
	"go/token"
	"go/types"
	"sort"
	"strings"

	"dsverif/internal/an"
	"dsverif/internal/core"

	"golang.org/x/tools/go/packages"
)

var ringGuarded = []string{"ringDesc", "ringTokens", "ringTokensByZone", "ringInstanceByToken", "ringZones", "instancesCountPerZone",
	"instancesWithTokensCount", "instancesWithTokensCountPerZone", "writableInstancesWithTokensCount", "writableInstancesWithTokensCountPerZone",
	"oldestRegisteredTimestamp", "readOnlyInstances", "oldestReadOnlyUpdatedTimestamp", "lastTopologyChange", "shuffledSubringCache", "shuffledSubringWithLookbackCache", "trackedRingZones"}

// index group: replaced as a unit
var ringIndexGroup = []string{"ringTokens", "ringTokensByZone", "ringInstanceByToken", "ringZones", "instancesCountPerZone",
	"instancesWithTokensCount", "instancesWithTokensCountPerZone", "writableInstancesWithTokensCount", "writableInstancesWithTokensCountPerZone"}

func init() {
	Registry["C05"] = Prop{
		Patterns: []string{"./ring", "./kv/memberlist", "./loser"},
		Run:      runC05,
		Explanation: "Decides structural necessary conditions of 'one owner per token; lookups never see a broken index': (R1) lockset analysis of ring.Ring: every access to the ring descriptor, the token index, the per-zone counters and the subring caches happens with Ring.mtx held on the same object (read lock for reads, write lock for writes; helper functions get inferred requires-lock summaries that are demanded at their call sites; freshly allocated rings are exempt until published); " +
			"(R2) the token index fields are only written by functions that write the whole group together with ringDesc inside one critical section (or on a fresh object); (R3) the collision winner in resolveConflicts is a function of the two entries only: decision table over leaving flags × identifier order equals 'leaving loses to non-leaving, else smaller identifier wins'; LEFT entries are skipped; (R4) normalisation dominates the merge loop and resolveConflicts runs whenever tokens changed and conflicts exist, on the map that is stored back; " +
			"(R5) tokensEqual is an element-wise comparison guarded by a length check (no identity shortcut that ignores length). Also: (R6) first-element reads of token lists are guarded by a non-emptiness check; (R7) normalizeIngestersMap leaves every token list sorted in the map (in place, or written back on every path); (R8) no selection loop over tokens starts from the extreme value of the domain (shared with C14.R7); (R9) token conflicts are detected on the token alone (whatever the zones of its holders); (R10) the token→owner index is immutable once published (shared with C13.R7); (R11) the k-way token merge never drops a token: an ended sequence does not beat a live one holding the end marker's value (shared with C14.R3); (R12) a subring is selected and assembled under one hold of the ring lock: token lists, shared index and topology stamp describe the same ring state. (R13) every loop of the package that compares two lists element by element (RingCompare's token comparison, tokensEqual, …) visits every index — a position left out makes a changed token invisible to the shortcut that keeps the old token index. NOT decided: the inductive invariant itself over all reachable states, absence of implicit runtime panics.",
	}
}

func ringGuards(c *core.Ctx) []an.Guard {
	pkg := c.Prog.Pkg("ring")
	r := an.LookupType(pkg, "Ring")
	if r == nil {
		return nil
	}
	return []an.Guard{{Type: r, Mutex: "mtx", Fields: ringGuarded}}
}

var ringLockExempt = map[string]string{
	"NewWithStoreClientAndStrategy": "constructor: object not yet shared",
}

// documented exceptions: the subring handed to the cache setters was just computed by this goroutine and is not yet
// published (its lastTopologyChange is never written after construction).
var ringLockExemptAccess = map[string]string{
	"(*Ring).setCachedShuffledSubring:p2.lastTopologyChange":             "unpublished subring; field immutable after construction",
	"(*Ring).setCachedShuffledSubringWithLookback:p4.lastTopologyChange": "unpublished subring; field immutable after construction",
	"(*Ring).setCachedShuffledSubringWithLookback:p4.ringDesc":           "unpublished subring: only the computing goroutine holds it",
}

func runC05(c *core.Ctx) {
	c.Rule("R1", "Ring.mtx guards the descriptor, token index, counters and caches (lockset on go/cfg)", 15)
	c.Rule("R2", "the token index is replaced as a unit inside one write-locked section", 1)
	c.Rule("R3", "collision winner = f(two entries): leaving loses, else smaller id wins; LEFT skipped", 2)
	c.Rule("R4", "normalisation and conflict resolution are applied on the stored map", 2)
	c.Rule("R5", "tokensEqual compares lengths then elements", 1)
	c.Rule("R7", "normalizeIngestersMap leaves every token list sorted in the map (in place, or written back on every path)", 1)
	c.Rule("R9", "token conflicts are detected on the token alone (whatever the zones of its holders)", 1)
	c.Rule("R10", "the token→owner index is immutable once published (shared with C13.R7)", 1)
	c.Rule("R8", "no selection loop over tokens starts from the extreme value of the domain (shared with C14.R7)", 1)
	c.Rule("R11", "the k-way token merge never drops a token: an ended sequence does not beat a live one holding the end marker's value (shared with C14.R3)", 1)
	c.Rule("R12", "a subring is selected and assembled under one hold of the ring lock: token lists, shared index and topology stamp describe the same ring state", 3)
	c.Rule("R6", "first-element reads of token lists are guarded by a non-emptiness check", 1)
	c.Rule("R13", "every element-wise list comparison of package ring visits every index (the equality shortcut that keeps the token index compares all tokens)", 2)
	pkg := c.Prog.Pkg("ring")
	if pkg == nil {
		c.Miss("R1", "pkg=ring", "not loaded")
		return
	}
	guards := ringGuards(c)
	if guards == nil {
		c.Miss("R1", "type=Ring", "not found")
		return
	}
	// all named guarded fields must exist
	st := guards[0].Type.Underlying().(*types.Struct)
	have := map[string]bool{}
	for i := 0; i < st.NumFields(); i++ {
		have[st.Field(i).Name()] = true
	}
	for _, f := range ringGuarded {
		if !have[f] {
			c.Miss("R1", "field=Ring."+f, "guarded field no longer exists")
		}
	}
	rep := an.Lockset(pkg, guards, an.LockOpts{ExemptFuncs: ringLockExempt,
		ExemptAccess: ringLockExemptAccess})
	for _, f := range rep.Findings {
		acc := "read"
		if f.Write {
			acc = "write"
		}
		c.Viol("R1", "access:func="+f.Fn+":field="+f.Field, f.Pos, fmt.Sprintf("%s of Ring.%s without %s held (held: %v; %s)", acc, f.Field, f.Need, f.Held, f.Reason))
	}
	// one obligation per function with guarded accesses would be verbose; summarise per field
	perField := ringAccessCounts(c, guards[0])
	fields := keysInt(perField)
	for _, f := range fields {
		c.Hold("R1", "field=Ring."+f, pkg.Syntax[0].Pos(), fmt.Sprintf("%d accesses, all under Ring.mtx (or on a fresh/exempt object)", perField[f]), perField[f])
	}
	c.Extra["lockset"] = map[string]any{"accesses": rep.Accesses, "protected": rep.Protected, "exempt": rep.Exempt, "functions": rep.Functions, "requires_lock_helpers": rep.Requires}
	if rep.Accesses < 60 {
		c.Undec("R1", "min-accesses", pkg.Syntax[0].Pos(), fmt.Sprintf("only %d guarded accesses found (expected ≥ 60)", rep.Accesses))
	}

	// ---- R2 group writers
	writersOf := map[string]map[string]bool{} // function -> fields written
	for _, fname := range append(append([]string{}, ringIndexGroup...), "ringDesc") {
		fld := fieldOf(guards[0].Type, fname)
		if fld == nil {
			continue
		}
		for _, a := range an.FieldAccesses(pkg, fld) {
			if !a.Write {
				continue
			}
			// writes on fresh objects (composite literal keys, or base is a fresh local) are exempt
			if _, isKV := a.Node.(*ast.KeyValueExpr); isKV {
				continue
			}
			if a.Base != nil && isFreshBase(a.In, a.Base) {
				continue
			}
			if writersOf[a.Fn.Name] == nil {
				writersOf[a.Fn.Name] = map[string]bool{}
			}
			writersOf[a.Fn.Name][fname] = true
		}
	}
	// writes through helper methods invoked on the same receiver count for the caller (transitively)
	for round := 0; round < 4; round++ {
		for _, f := range an.Funcs(pkg) {
			for _, call := range f.Calls(true) {
				if cf := call.Func(); cf != nil && cf.Pkg() == pkg.Types {
					if sel, ok := call.Expr.Fun.(*ast.SelectorExpr); ok && call.In.Canon(sel.X) == "recv" {
						// only helpers that run inside the caller's critical section (inferred requires-lock summaries),
						// not callees that take the lock themselves
						if _, helper := rep.Requires[an.FuncDisplay(cf)]; !helper {
							continue
						}
						if ws, ok := writersOf[an.FuncDisplay(cf)]; ok && an.FuncDisplay(cf) != f.Name {
							if writersOf[f.Name] == nil {
								writersOf[f.Name] = map[string]bool{}
							}
							for k := range ws {
								writersOf[f.Name][k] = true
							}
						}
					}
				}
			}
		}
	}
	nGroupWriters := 0
	for fn, ws := range writersOf {
		idx := []string{}
		for _, f := range ringIndexGroup {
			if ws[f] {
				idx = append(idx, f)
			}
		}
		if len(idx) == 0 {
			// writes only ringDesc: the shortcut path
			c.Hold("R2", "writer="+fn, pkg.Syntax[0].Pos(), "writes ringDesc only (no index field)", 1)
			continue
		}
		nGroupWriters++
		// sub-groups recomputed together are allowed when the function is a helper that recomputes derived
		// counters from the descriptor (updateRingMetrics style): it must then not write tokens/instanceByToken.
		missing := []string{}
		for _, f := range ringIndexGroup {
			if !ws[f] {
				missing = append(missing, f)
			}
		}
		core3 := ws["ringTokens"] || ws["ringTokensByZone"] || ws["ringInstanceByToken"]
		switch {
		case len(missing) == 0 && ws["ringDesc"]:
			c.Hold("R2", "writer="+fn, pkg.Syntax[0].Pos(), "writes the whole index group together with ringDesc", len(ringIndexGroup))
		case !core3:
			c.Hold("R2", "writer="+fn, pkg.Syntax[0].Pos(), fmt.Sprintf("recomputes only derived counters %v (no token list / token→instance map)", idx), len(idx))
		default:
			c.Viol("R2", "writer="+fn, pkg.Syntax[0].Pos(), fmt.Sprintf("writes %v but not %v (ringDesc written=%v): token list, per-zone lists and token→instance map must be replaced together", idx, missing, ws["ringDesc"]))
		}
	}
	if nGroupWriters == 0 {
		c.Undec("R2", "writers", pkg.Syntax[0].Pos(), "no writer of the index group found")
	}

	// ---- R3 winner table
	c05Winner(c)
	// ---- R4
	c05MergeUses(c)
	// ---- R5
	c05TokensEqual(c)
	// ---- R6
	c05ConstIndex(c)
	c05Normalize(c, pkg)
	c05ConflictKey(c, pkg)
	c13ImmutableIndex(c, pkg, "R10")
	c14ExtremumAs(c, pkg, "R8")
	c14MergeMarkerAs(c, pkg, "R11")
	c05Snapshot(c, pkg, "R12")
	pairwiseLoopsAs(c, pkg, "R13", 2)
}

func isFreshBase(fn *an.Fn, base ast.Expr) bool {
	obj := fn.ObjOf(base)
	if obj == nil {
		return false
	}
	exprs, all := fn.DefExprs(obj)
	if !all || len(exprs) != 1 {
		return false
	}
	switch x := an.Unparen(exprs[0]).(type) {
	case *ast.UnaryExpr:
		_, ok := an.Unparen(x.X).(*ast.CompositeLit)
		return ok
	case *ast.CompositeLit:
		return true
	}
	return false
}

func ringAccessCounts(c *core.Ctx, g an.Guard) map[string]int {
	out := map[string]int{}
	pkg := c.Prog.Pkg("ring")
	for _, name := range g.Fields {
		if f := fieldOf(g.Type, name); f != nil {
			out[name] = len(an.FieldAccesses(pkg, f))
		}
	}
	return out
}

func keysInt(m map[string]int) []string {
	ks := make([]string, 0, len(m))
	for k := range m {
		ks = append(ks, k)
	}
	sort.Strings(ks)
	return ks
}

func c05Winner(c *core.Ctx) { c05WinnerAs(c, "R3") }

// c05WinnerAs runs the collision-winner table under rule id R (shared with C06: replicas that merged the same
// updates must agree on token ownership, so the winner may not depend on map iteration order).
func c05WinnerAs(c *core.Ctx, R string) {
	pkg := c.Prog.Pkg("ring")
	fn := an.FindFunc(pkg, "resolveConflicts")
	if fn == nil {
		c.Miss(R, "func=resolveConflicts", "not found")
		return
	}
	c.Analysed(fn.String())
	g := fn.Graph()
	// the store of the winner: M[token] = winner inside the inner loop, in the `found` branch
	var store *ast.AssignStmt
	var winnerObj types.Object
	fn.InspectShallow(func(n ast.Node) bool {
		as, ok := n.(*ast.AssignStmt)
		if !ok || len(as.Lhs) != 1 {
			return true
		}
		if ix, ok := as.Lhs[0].(*ast.IndexExpr); ok {
			if obj := fn.ObjOf(as.Rhs[0]); obj != nil && fn.DefCount(obj) > 1 {
				if _, isMap := fn.Info().TypeOf(ix.X).Underlying().(*types.Map); isMap {
					store = as
					winnerObj = obj
				}
			}
		}
		return true
	})
	if store == nil {
		c.Undec(R, "func=resolveConflicts:winner", fn.Pos(), "store of the (multi-assigned) winner into the token→instance map not found")
		return
	}
	inner := loopOf(fn, store)
	outer := ast.Stmt(nil)
	if inner != nil {
		fn.InspectShallow(func(n ast.Node) bool {
			if rs, ok := n.(*ast.RangeStmt); ok && rs != inner && an.InNode(rs, inner) {
				outer = rs
			}
			return true
		})
	}
	irs, _ := inner.(*ast.RangeStmt)
	ors, _ := outer.(*ast.RangeStmt)
	if irs == nil || ors == nil {
		c.Undec(R, "func=resolveConflicts:loops", fn.Pos(), "expected `for id, inst := range M { for _, tok := range inst.Tokens {…} }`")
		return
	}
	header, body, _ := g.LoopBlocks(irs)
	roles := an.Roles{
		{From: "keyof(p0)", To: "ingKey"},
		{From: "each(p0)", To: "ing"},
	}
	// prev key / prev entry: M2[token] lookups
	var prevKeyCanon string
	fn.InspectShallow(func(n ast.Node) bool {
		if as, ok := n.(*ast.AssignStmt); ok && len(as.Lhs) == 2 && len(as.Rhs) == 1 && an.InNode(irs, as) {
			if _, ok := as.Rhs[0].(*ast.IndexExpr); ok {
				prevKeyCanon = roles.Apply(fn.Canon(as.Rhs[0]))
			}
		}
		return true
	})
	if prevKeyCanon == "" {
		c.Undec(R, "func=resolveConflicts:prev", fn.Pos(), "lookup of the previous owner not recognised")
		return
	}
	roles = append(roles, struct{ From, To string }{"p0[" + prevKeyCanon + "]", "prev"}, struct{ From, To string }{prevKeyCanon, "prevKey"})
	atoms := []an.Atom{{Name: "found", Values: []string{"T", "F"}}, {Name: "ingLeaving", Values: []string{"T", "F"}}, {Name: "prevLeaving", Values: []string{"T", "F"}}, {Name: "ord", Values: []string{"lt", "eq", "gt"}}}
	bd := &an.Binder{Fn: fn, Roles: roles, Bool: map[string]string{"ok(prevKey)": "found"},
		Eq:  map[string]string{"ing.State|LEAVING": "ingLeaving", "prev.State|LEAVING": "prevLeaving"},
		Cmp: map[string]string{"ingKey|prevKey": "ord"}, Unknown: map[string]bool{}}
	bad, undec := []string{}, []string{}
	rows := an.Rows(atoms)
	n := 0
	for _, row := range rows {
		if row["found"] == "F" {
			continue
		}
		bd.Row = row
		ex := g.Exec(an.Loc{B: body, I: 0}, []an.Loc{g.Locate(store)}, bd.Leaf, an.ExecOpts{Header: header, Watch: winnerObj})
		n++
		vals := []string{}
		for v := range ex.Vals[0] {
			vals = append(vals, roles.Apply(v))
		}
		sort.Strings(vals)
		if !ex.Must[0] || len(vals) != 1 {
			undec = append(undec, fmt.Sprintf("{%s} winner ∈ %v", rowString(row), vals))
			continue
		}
		want := ""
		switch {
		case row["ingLeaving"] == "T" && row["prevLeaving"] == "F":
			want = "prevKey"
		case row["prevLeaving"] == "T" && row["ingLeaving"] == "F":
			want = "ingKey"
		case row["ord"] == "lt":
			want = "ingKey"
		case row["ord"] == "gt":
			want = "prevKey"
		default:
			want = "*" // same identifier cannot collide with itself
		}
		if want != "*" && vals[0] != want {
			bad = append(bad, fmt.Sprintf("{%s} winner=%s expected=%s", rowString(row), vals[0], want))
		}
	}
	switch {
	case len(bad) > 0:
		c.Viol(R, "func=resolveConflicts:winner", store.Pos(), "winner differs from 'leaving loses to non-leaving, otherwise the smaller identifier wins' (the result would depend on map iteration order): "+strings.Join(head(bad, 4), "; "))
	case len(undec) > 0:
		c.Undec(R, "func=resolveConflicts:winner", store.Pos(), fmt.Sprintf("winner not determined on rows %v (unrecognised: %v)", head(undec, 3), keys(bd.Unknown)))
	default:
		c.Hold(R, "func=resolveConflicts:winner", store.Pos(), fmt.Sprintf("winner table matches on %d rows (found × leaving flags × identifier order)", n), n)
	}
	// LEFT skipped: in the outer loop, the inner loop is unreachable when ing.State == LEFT
	oh, ob, _ := g.LoopBlocks(ors)
	t := an.Table{G: g, From: an.Loc{B: ob, I: 0}, Opts: an.ExecOpts{Header: oh}, MayOnly: true, Atoms: []an.Atom{{Name: "left", Values: []string{"T", "F"}}},
		Binder: &an.Binder{Fn: fn, Roles: roles, Eq: map[string]string{"ing.State|LEFT": "left"}}, Targets: []an.Loc{g.Locate(irs.X)}, Names: []string{"token loop"},
		Want: func(r an.Row, _ int) an.Tri { return an.FromBool(r["left"] == "F") }}
	res := t.Run()
	c.Check(res.OK(), R, "func=resolveConflicts:left-skipped", ors.Pos(), "tokens of LEFT entries take no part in ownership: "+res.Summary(), res.Rows)
}

func c05MergeUses(c *core.Ctx) {
	pkg := c.Prog.Pkg("ring")
	fn := an.FindFunc(pkg, "Desc.mergeWithTime")
	if fn == nil {
		c.Miss("R4", "func=Desc.mergeWithTime", "not found")
		return
	}
	c.Analysed(fn.String())
	g := fn.Graph()
	// normalisation of the incoming descriptor dominates the merge loop (token lists sorted, LEFT entries token-free)
	loops := rangeLoops(fn, "p0.Ingesters")
	okNorm := false
	if len(loops) == 1 {
		for _, call := range fn.CallsTo(false, "", "normalizeIngestersMap") {
			if len(call.Expr.Args) == 1 && fn.Canon(call.Expr.Args[0]) == "p0" && g.NodeBefore(call.Expr, loops[0].X) {
				okNorm = true
			}
		}
	}
	c.Check(okNorm, "R4", "call=normalizeIngestersMap", fn.Pos(), "normalizeIngestersMap(incoming) dominates the merge loop", 1)
	calls := fn.CallsTo(false, "ring", "resolveConflicts")
	if len(calls) != 1 {
		c.Viol("R4", "call=resolveConflicts", fn.Pos(), fmt.Sprintf("expected one resolveConflicts call in the merge, found %d", len(calls)))
		return
	}
	arg := fn.Canon(calls[0].Expr.Args[0])
	// conflicts resolved whenever tokens changed ∧ conflicts exist
	var flag types.Object
	fn.InspectShallow(func(n ast.Node) bool {
		if as, ok := n.(*ast.AssignStmt); ok && len(as.Lhs) == 1 && fn.Canon(as.Rhs[0]) == "true" {
			if obj := fn.ObjOf(as.Lhs[0]); obj != nil && !an.InNode(calls[0].Expr, as) {
				if b, ok := obj.Type().Underlying().(*types.Basic); ok && b.Kind() == types.Bool {
					flag = obj
				}
			}
		}
		return true
	})
	t := an.Table{G: g, From: g.Locate(stmtOf(fn, calls[0].Expr)).Before(), MayOnly: true,
		Atoms:   []an.Atom{{Name: "conflicts", Values: []string{"T", "F"}}},
		Binder:  &an.Binder{Fn: fn, Bool: map[string]string{"conflictingTokensExist(recv.Ingesters)": "conflicts"}},
		Targets: []an.Loc{g.Locate(calls[0].Expr)}, Want: func(r an.Row, _ int) an.Tri { return an.U }}
	_ = t
	c.Check(arg == "recv.Ingesters", "R4", "call=resolveConflicts:arg", calls[0].Expr.Pos(), "conflicts are resolved on "+arg+" (the receiver's own map, which is the stored state)", 1)
	// the flag set: every path that stores an entry whose tokens differ sets the flag: the flag assignment is in the same block as the newer-wins store
	okFlag := false
	if flag != nil {
		// the call is guarded by flag ∧ conflictingTokensExist; with flag=T and conflicts=T the call must execute
		stmt := stmtOf(fn, calls[0].Expr)
		var ifs *ast.IfStmt
		fn.InspectShallow(func(n ast.Node) bool {
			if s, ok := n.(*ast.IfStmt); ok && an.InNode(s.Body, stmt) {
				ifs = s
			}
			return true
		})
		if ifs != nil {
			leaf := func(e ast.Expr, st an.Store) an.Tri {
				if id, ok := an.Unparen(e).(*ast.Ident); ok && fn.Info().Uses[id] == flag {
					return an.T
				}
				if call, ok := an.Unparen(e).(*ast.CallExpr); ok && an.ObjIs(an.Callee(fn.Info(), call), "ring", "conflictingTokensExist") {
					return an.T
				}
				return an.U
			}
			okFlag = an.EvalCond(fn.Info(), ifs.Cond, nil, leaf) == an.T
		}
	}
	c.Check(okFlag, "R4", "call=resolveConflicts:guard", calls[0].Expr.Pos(), "resolveConflicts runs whenever tokens changed and conflictingTokensExist (no further condition)", 1)
	// the tokens-changed flag is set in the newer-wins branch under !tokensEqual(stored, incoming)
	nFlagSets := 0
	okSets := true
	usesStdEqual := false
	fn.InspectShallow(func(n ast.Node) bool {
		if as, ok := n.(*ast.AssignStmt); ok && len(as.Lhs) == 1 && flag != nil && fn.ObjOf(as.Lhs[0]) == flag && fn.Canon(as.Rhs[0]) == "true" {
			nFlagSets++
			var ifs *ast.IfStmt
			fn.InspectShallow(func(m ast.Node) bool {
				if s, ok := m.(*ast.IfStmt); ok && an.InNode(s.Body, as) {
					ifs = s
				}
				return true
			})
			roles := lwwRoles("Ingesters")
			cc := ""
			if ifs != nil {
				cc = roles.Apply(fn.Canon(ifs.Cond))
			}
			// the comparison may be the package's own tokensEqual or the standard library's slices.Equal (either operand order)
			switch cc {
			case "!tokensEqual(t.Tokens, o.Tokens)", "!tokensEqual(o.Tokens, t.Tokens)":
			case "!slices.Equal(t.Tokens, o.Tokens)", "!slices.Equal(o.Tokens, t.Tokens)":
				usesStdEqual = true
			default:
				okSets = false
			}
		}
		return true
	})
	c.Check(nFlagSets == 1 && okSets, "R4", "flag=tokensChanged", fn.Pos(), "the tokens-changed flag is set exactly under !tokensEqual(stored.Tokens, incoming.Tokens)", 1)
	c05StdEqual = usesStdEqual
}

// c05StdEqual: the merge compares token lists with slices.Equal (standard library: lengths, then elements)
// instead of the package's own tokensEqual.
var c05StdEqual bool

func c05TokensEqual(c *core.Ctx) {
	pkg := c.Prog.Pkg("ring")
	fn := an.FindFunc(pkg, "tokensEqual")
	if fn == nil && c05StdEqual {
		c.HoldTrivial("R5", "func=tokensEqual", pkg.Syntax[0].Pos(), "token lists are compared with the standard library's slices.Equal (lengths first, then elements); the package has no comparison of its own")
		return
	}
	if fn == nil {
		c.Miss("R5", "func=tokensEqual", "not found")
		return
	}
	c.Analysed(fn.String())
	g := fn.Graph()
	// the function is a plain delegation to the standard library's comparison (lengths, then every element)
	{
		nRet, nStd := 0, 0
		for _, b := range g.Blocks {
			if r := an.ReturnOf(b); r != nil && len(r.Results) == 1 {
				nRet++
				if cv := fn.Canon(r.Results[0]); cv == "slices.Equal(p0, p1)" || cv == "slices.Equal(p1, p0)" {
					nStd++
				}
			}
		}
		if nRet > 0 && nRet == nStd {
			c.HoldTrivial("R5", "func=tokensEqual", fn.Pos(), "tokensEqual returns slices.Equal of its two arguments (standard library: lengths first, then every element)")
			return
		}
	}
	// every `return true` must be unreachable when the lengths differ
	var trues []an.Loc
	for _, b := range g.Blocks {
		if r := an.ReturnOf(b); r != nil && len(r.Results) == 1 && fn.Canon(r.Results[0]) == "true" {
			trues = append(trues, g.Locate(r))
		}
	}
	t := an.Table{G: g, From: g.EntryLoc(), MayOnly: true, Atoms: []an.Atom{{Name: "lens", Values: []string{"lt", "eq", "gt"}}},
		Binder: &an.Binder{Fn: fn, Cmp: map[string]string{"len(p0)|len(p1)": "lens"}}, Targets: trues,
		Want: func(r an.Row, _ int) an.Tri {
			if r["lens"] == "eq" {
				return an.U
			}
			return an.F
		}}
	res := t.Run()
	c.Check(res.OK() && len(trues) > 0, "R5", "func=tokensEqual", fn.Pos(), "no `return true` is reachable when the two lists have different lengths: "+res.Summary(), res.Rows)
}

// c05ConstIndex (R6): in the ring's read paths, a slice indexed by a constant is never empty at that point:
// the index expression is unreachable when len(slice) == 0 (decided by abstract execution with the length atom).
func c05ConstIndex(c *core.Ctx) {
	pkg := c.Prog.Pkg("ring")
	n := 0
	for _, fn := range an.Funcs(pkg) {
		if fn.Obj == nil || strings.HasSuffix(c.Prog.PosStr(fn.Pos()), ".pb.go") || strings.Contains(c.Prog.PosStr(fn.Pos()), ".pb.go:") {
			continue
		}
		if !(strings.HasPrefix(fn.Name, "(*Ring).") || strings.HasPrefix(fn.Name, "(*PartitionRing).") || strings.HasPrefix(fn.Name, "(*Desc).") || strings.HasPrefix(fn.Name, "(*PartitionRingDesc).")) {
			continue
		}
		for _, lf := range append([]*an.Fn{fn}, fn.AllLits()...) {
			g := lf.Graph()
			lf.InspectShallow(func(x ast.Node) bool {
				ix, ok := x.(*ast.IndexExpr)
				if !ok {
					return true
				}
				t := lf.Info().TypeOf(ix.X)
				if t == nil {
					return true
				}
				if _, isSlice := t.Underlying().(*types.Slice); !isSlice {
					return true
				}
				tv, isConst := lf.Info().Types[ix.Index]
				if !isConst || tv.Value == nil || tv.Value.String() != "0" {
					return true
				}
				// writes into x[0] after make(…, n) etc. are not reads of possibly-empty input; only consider reads
				if as, isAs := an.EnclosingStmt(lf.Body(), ix).(*ast.AssignStmt); isAs {
					for _, l := range as.Lhs {
						if an.Unparen(l) == ast.Expr(ix) {
							return true
						}
					}
				}
				n++
				xc := lf.Canon(ix.X)
				loc := g.Locate(ix)
				opts := an.ExecOpts{}
				from := g.EntryLoc()
				if obj := lf.ObjOf(ix.X); obj != nil {
					opts.NoTrack = map[types.Object]bool{obj: true}
					xc2 := obj.Name()
					_ = xc2
				}
				bd := &an.Binder{Fn: lf, Cmp: map[string]string{"len(" + xc + ")|0": "n", "len(" + types.ExprString(ix.X) + ")|0": "n"}, Row: an.Row{"n": "eq"}}
				ex := g.Exec(from, []an.Loc{loc}, bd.Leaf, opts)
				c.Check(!ex.May[0], "R6", "index0:func="+lf.Name+":"+types.ExprString(ix.X), ix.Pos(), "the read "+types.ExprString(ix)+" is unreachable when len("+types.ExprString(ix.X)+") == 0 (otherwise a lookup on a zone/ring without tokens panics)", ex.Paths)
				return true
			})
		}
	}
	if n == 0 {
		c.Undec("R6", "index0", pkg.Syntax[0].Pos(), "no constant-index read found")
	}
}

// c05Normalize (R7): normalizeIngestersMap leaves every non-empty token list sorted in the map: the
// list is sorted in place on the entry's own storage whenever IsSorted is false — or, if a copy is
// sorted instead, the entry is written back on every path of the iteration.
func c05Normalize(c *core.Ctx, pkg *packages.Package) {
	fn := an.FindFunc(pkg, "normalizeIngestersMap")
	if fn == nil {
		c.Miss("R7", "func=normalizeIngestersMap", "not found")
		return
	}
	c.Analysed(fn.String())
	g := fn.Graph()
	loops := rangeLoops(fn, "p0.Ingesters")
	if len(loops) != 1 {
		c.Undec("R7", "func=normalizeIngestersMap", fn.Pos(), "expected one loop over the incoming instances")
		return
	}
	loop := loops[0]
	header, body, _ := g.LoopBlocks(loop)
	entryTokens := "each(p0.Ingesters).Tokens"
	var sorts []an.Call
	var issorted ast.Expr
	for _, call := range fn.Calls(false) {
		if !an.InNode(loop, call.Expr) {
			continue
		}
		if (call.Is("sort", "Sort") || call.Is("slices", "Sort") || call.Is("sort", "Stable")) && len(call.Expr.Args) == 1 {
			sorts = append(sorts, call)
		}
		if call.Is("sort", "IsSorted") || call.Is("slices", "IsSorted") {
			issorted = call.Expr
		}
	}
	if len(sorts) != 1 {
		c.Viol("R7", "func=normalizeIngestersMap", loop.Pos(), fmt.Sprintf("expected one sort of the instance's tokens per iteration, found %d", len(sorts)))
		return
	}
	// the sort runs whenever the list is non-empty and not sorted
	bad := []string{}
	leafFor := func(sorted bool) an.Leaf {
		return func(e ast.Expr, _ an.Store) an.Tri {
			if issorted != nil && an.Unparen(e) == issorted {
				return an.FromBool(sorted)
			}
			if be, ok := an.Unparen(e).(*ast.BinaryExpr); ok && be.Op == token.EQL && fn.Canon(be.Y) == "0" && strings.HasPrefix(fn.Canon(be.X), "len(") {
				return an.F // non-empty list
			}
			return an.U
		}
	}
	ex := g.Exec(an.Loc{B: body, I: 0}, []an.Loc{g.Locate(sorts[0].Expr)}, leafFor(false), an.ExecOpts{Header: header})
	if !ex.Must[0] {
		bad = append(bad, "a non-empty unsorted list is not sorted on every path")
	}
	// in place on the entry's storage, or written back on every path after the sort
	sc := fn.Canon(sorts[0].Expr.Args[0])
	inPlace := sc == entryTokens
	if !inPlace {
		var wb []an.Loc
		fn.InspectShallow(func(n ast.Node) bool {
			if as, ok := n.(*ast.AssignStmt); ok && len(as.Lhs) == 1 && an.InNode(loop, as) {
				if ix, ok := an.Unparen(as.Lhs[0]).(*ast.IndexExpr); ok && fn.Canon(ix.X) == "p0.Ingesters" && fn.Canon(ix.Index) == "keyof(p0.Ingesters)" && g.NodeBefore(sorts[0].Expr, as) {
					wb = append(wb, g.Locate(as))
				}
			}
			return true
		})
		okWB := false
		for _, w := range wb {
			ex2 := g.Exec(g.LocAfter(stmtOf(fn, sorts[0].Expr)), []an.Loc{w}, func(ast.Expr, an.Store) an.Tri { return an.U }, an.ExecOpts{Header: header})
			if ex2.Must[0] {
				okWB = true
			}
		}
		if !okWB {
			bad = append(bad, "the sort works on "+sc+" (not on the entry's own list) and the entry is not written back on every path afterwards")
		}
	}
	c.Check(len(bad) == 0, "R7", "func=normalizeIngestersMap", loop.Pos(), fmt.Sprintf("every non-empty, unsorted token list is sorted (sort argument %s, in place=%v) so that the stored and re-gossiped entry is sorted %v", sc, inPlace, bad), ex.Paths)
}

// c05ConflictKey (R9): conflictingTokensExist reports a conflict ⇔ the same token value occurs twice:
// every lookup and store of its seen-set is indexed by the token itself.
func c05ConflictKey(c *core.Ctx, pkg *packages.Package) {
	fn := an.FindFunc(pkg, "conflictingTokensExist")
	if fn == nil {
		c.Miss("R9", "func=conflictingTokensExist", "not found")
		return
	}
	c.Analysed(fn.String())
	tok := "each(each(p0).Tokens)"
	var keys_ []string
	ok := true
	fn.InspectShallow(func(n ast.Node) bool {
		ix, isIx := n.(*ast.IndexExpr)
		if !isIx {
			return true
		}
		if _, isMap := fn.Info().TypeOf(ix.X).Underlying().(*types.Map); !isMap {
			return true
		}
		if v, isVar := fn.ObjOf(ix.X).(*types.Var); !isVar || v.IsField() || fn.Canon(ix.X) == "p0" {
			return true
		}
		k := fn.Canon(ix.Index)
		keys_ = append(keys_, k)
		if k != tok {
			ok = false
		}
		return true
	})
	c.Check(ok && len(keys_) >= 2, "R9", "func=conflictingTokensExist", fn.Pos(), fmt.Sprintf("the seen-set is indexed by the token value alone (keys %v): two holders of one token conflict whatever their zones", keys_), len(keys_))
}

// c05Snapshot: buildRingForTheShard copies the parent's token→instance index and topology stamp into the
// subring next to token lists merged from the instances its caller selected. All of that must come from one
// ring state, so every caller holds Ring.mtx (taken before, released only by defer) across the call, and
// the builder takes no lock of its own (it would mean the caller had let go).
func c05Snapshot(c *core.Ctx, pkg *packages.Package, R string) {
	b := an.FindFunc(pkg, "Ring.buildRingForTheShard")
	if b == nil {
		c.Miss(R, "func=Ring.buildRingForTheShard", "not found")
		return
	}
	c.Analysed(b.String())
	locks := 0
	for _, call := range b.Calls(true) {
		if sel, ok := call.Expr.Fun.(*ast.SelectorExpr); ok && (sel.Sel.Name == "RLock" || sel.Sel.Name == "Lock") && strings.HasSuffix(call.In.Canon(sel.X), ".mtx") {
			locks++
		}
	}
	c.Check(locks == 0, R, "func=Ring.buildRingForTheShard:no-lock", b.Pos(), fmt.Sprintf("the builder acquires no ring lock itself (%d acquisitions): it runs inside its caller's hold", locks), 1)
	n := 0
	for _, f := range an.Funcs(pkg) {
		for _, call := range f.CallsTo(true, "ring", "(*Ring).buildRingForTheShard") {
			n++
			in := call.In
			g := in.Graph()
			held, deferred, plain := false, 0, 0
			in.InspectShallow(func(x ast.Node) bool {
				switch y := x.(type) {
				case *ast.DeferStmt:
					if sel, ok := y.Call.Fun.(*ast.SelectorExpr); ok && (sel.Sel.Name == "RUnlock" || sel.Sel.Name == "Unlock") && in.Canon(sel.X) == "recv.mtx" {
						deferred++
					}
					return false
				case *ast.CallExpr:
					if sel, ok := y.Fun.(*ast.SelectorExpr); ok && in.Canon(sel.X) == "recv.mtx" {
						switch sel.Sel.Name {
						case "RLock", "Lock":
							if g.NodeBefore(y, call.Expr) {
								held = true
							}
						case "RUnlock", "Unlock":
							plain++
						}
					}
				}
				return true
			})
			c.Check(held && deferred == 1 && plain == 0, R, "caller="+an.FuncDisplay(f.Obj)+":one-hold", call.Expr.Pos(), fmt.Sprintf("Ring.mtx is taken before the subring is built (%v) and released only by defer (deferred %d, other releases %d)", held, deferred, plain), 1)
		}
	}
	if n == 0 {
		c.Undec(R, "callers", b.Pos(), "no caller of buildRingForTheShard found")
	}
}
