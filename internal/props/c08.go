package props

import (
	"fmt"
	"go/ast"
	"go/token"
	"go/types"
	"golang.org/x/tools/go/cfg"
	"regexp"
	"sort"
	"strings"

	"dsverif/internal/an"
	"dsverif/internal/core"
	"golang.org/x/tools/go/packages"
)

func init() {
	Registry["C08"] = Prop{
		Patterns: []string{"./ring"},
		Run:      runC08,
		Explanation: "Decides structural necessary conditions of 'a lifecycler edits only its own ring entry and follows the state machine' over all methods (and closures) of Lifecycler, BasicLifecycler and every BasicLifecyclerDelegate implementation: (R1) every AddIngester/RemoveIngester/ClaimTokens call and every store/delete on a Desc.Ingesters map is keyed by the lifecycler's own identifier (canonical provenance), with the two documented exceptions each carrying its own guard obligation (token hand-over targets the own id; auto-forget removes exactly when time.Since(last heartbeat) > forget period, under no other condition); " +
			"(R2) the transition guard of Lifecycler.changeState, evaluated over all 25 (current,new) pairs, admits only edges of the property's table; every other setState call and every constant rewrite of the own entry's State is one of the frozen sites with an allowed edge; (R3) a fresh time.Now() reaches the registration time only on 'own entry missing' paths, otherwise the ring's recorded value is kept; " +
			"(R4) GenerateTokens always receives taken tokens derived from the ring passed to the enclosing CAS callback; (R5) readiness latch: ready=true only after the health check returned nil, and the health check returns nil only after tokens>0 and IsReady; (R7) every token list published (AddIngester argument, store into an entry's Tokens, setTokens) is sorted: a sort call dominates the use or the value comes from a sorted source. Also: (R6) single actor: exported lifecycler methods reach a KV CAS only through the actor loop; (R8) tokens inherited from the ring are kept: a heartbeat re-publishes the ring entry's tokens when the entry exists, the remembered ones only when it is missing; (R10) every waiting phase of both lifecyclers heartbeats from a ticker it creates itself with the configured period; (R11) the own entry is removed at one place per lifecycler: in stopping, on the actor itself, after the last heartbeat of the shutdown loop; (R12) the token check before ACTIVE accepts only lists of equal length (a subset of the picked tokens is not 'the same tokens'). (R13) heartbeat timestamps are readings of the wall clock: no store to InstanceDesc.Timestamp is computed from the previous timestamp. NOT decided: heartbeat cadence, timestamp monotonicity (clock), the token count at activation beyond the top-up arithmetic of R9 (target − held, appended to the held list), behaviour of user-supplied delegates.",
	}
}

// lifecyclerScope returns the functions in scope and, per function, the canonical spellings of "own id".
func lifecyclerScope(c *core.Ctx, pkg *packages.Package) (fns []*an.Fn, own map[*an.Fn]map[string]bool) {
	own = map[*an.Fn]map[string]bool{}
	deleg := an.LookupIface(pkg, "BasicLifecyclerDelegate")
	for _, fn := range an.Funcs(pkg) {
		if fn.Obj == nil {
			continue
		}
		sig := fn.Obj.Type().(*types.Signature)
		if sig.Recv() == nil {
			continue
		}
		rt := sig.Recv().Type()
		if p, ok := rt.(*types.Pointer); ok {
			rt = p.Elem()
		}
		nt, ok := rt.(*types.Named)
		if !ok {
			continue
		}
		switch {
		case nt.Obj().Name() == "Lifecycler":
			own[fn] = map[string]bool{"recv.ID": true}
		case nt.Obj().Name() == "BasicLifecycler":
			own[fn] = map[string]bool{"recv.cfg.ID": true}
		case deleg != nil && an.Implements(nt, deleg):
			own[fn] = map[string]bool{"p0.cfg.ID": true, "p0.GetInstanceID()": true}
		default:
			continue
		}
		fns = append(fns, fn)
	}
	return
}

var c08Forward = map[string]int{"PENDING": 0, "JOINING": 1, "ACTIVE": 2, "LEAVING": 3}

func c08EdgeAllowed(from, to string) bool {
	if from == to {
		return true
	}
	if from == "JOINING" && to == "PENDING" {
		return true
	}
	if from == "LEAVING" && to == "ACTIVE" {
		return true
	}
	f, ok1 := c08Forward[from]
	t, ok2 := c08Forward[to]
	return ok1 && ok2 && f < t
}

func runC08(c *core.Ctx) {
	c.Rule("R1", "own entry only: every ring-entry mutation is keyed by the lifecycler's own id (two guarded exceptions)", 12)
	c.Rule("R2", "published state changes follow the property's transition table", 6)
	c.Rule("R3", "registration time: fresh time.Now() only when the own entry is missing, otherwise the recorded value", 4)
	c.Rule("R4", "tokens are generated against the ring read in the same CAS attempt", 4)
	c.Rule("R5", "readiness latch", 3)
	c.Rule("R6", "single actor: exported lifecycler methods reach a KV CAS only through the actor loop", 28)
	c.Rule("R7", "published token lists are sorted", 12)
	c.Rule("R10", "every waiting phase of both lifecyclers heartbeats from a ticker it creates itself with the configured period", 5)
	c.Rule("R11", "the own entry is removed at one place per lifecycler: in stopping, on the actor itself, after the last heartbeat of the shutdown loop", 2)
	c.Rule("R12", "the token check before ACTIVE accepts only lists of equal length (a subset of the picked tokens is not 'the same tokens')", 1)
	c.Rule("R13", "heartbeat timestamps are wall-clock readings: no store to InstanceDesc.Timestamp is computed from the previous timestamp (heartbeats never go backwards)", 10)
	c.Rule("R9", "token top-up: request (target − held) tokens and append them to the held list, so a fresh join ends with the configured count and inherited tokens are kept", 5)
	c.Rule("R8", "tokens inherited from the ring are kept: a heartbeat re-publishes the ring entry's tokens when the entry exists, the remembered ones only when it is missing", 6)
	pkg := c.Prog.Pkg("ring")
	if pkg == nil {
		c.Miss("R1", "pkg=ring", "not loaded")
		return
	}
	fns, own := lifecyclerScope(c, pkg)
	if len(fns) < 40 {
		c.Undec("R1", "scope", pkg.Syntax[0].Pos(), fmt.Sprintf("only %d lifecycler/delegate methods found", len(fns)))
	}
	for _, fn := range fns {
		c.Analysed(fn.String())
	}
	c08OwnEntry(c, pkg, fns, own)
	c08Transitions(c, pkg, fns)
	c08Registration(c, pkg, fns)
	c08Generate(c, pkg, fns)
	c08Ready(c, pkg)
	c08Sorted(c, pkg, fns)
	c08HeartbeatClock(c, pkg)
	c09HeartbeatAs(c, "R8")
	c09TopUpAs(c, "R9")
	c08HeartbeatTickers(c)
	c08Unregister(c)
	c08CompareTokens(c)
	c08SingleActor(c, pkg, fns)
}

func isDescIngesters(fn *an.Fn, e ast.Expr) bool {
	sel, ok := an.Unparen(e).(*ast.SelectorExpr)
	if !ok || sel.Sel.Name != "Ingesters" {
		return false
	}
	t := fn.Info().TypeOf(sel.X)
	return t != nil && strings.HasSuffix(strings.TrimPrefix(t.String(), "*"), "ring.Desc")
}

func c08OwnEntry(c *core.Ctx, pkg *packages.Package, fns []*an.Fn, own map[*an.Fn]map[string]bool) {
	for _, fn := range fns {
		ids := own[fn]
		isOwn := func(in *an.Fn, e ast.Expr) (string, bool) {
			cs := in.Canon(e)
			return cs, ids[cs]
		}
		for _, call := range fn.Calls(true) {
			cf := call.Func()
			if cf == nil {
				continue
			}
			name := an.FuncDisplay(cf)
			switch name {
			case "(*Desc).AddIngester":
				cs, ok := isOwn(call.In, call.Expr.Args[0])
				c.Check(ok, "R1", "func="+fn.Name+":AddIngester", call.Expr.Pos(), "entry added/overwritten under key "+cs+" (own id spellings: "+strings.Join(keys(ids), ", ")+")", 1)
			case "(*Desc).RemoveIngester":
				cs, ok := isOwn(call.In, call.Expr.Args[0])
				if ok {
					c.Hold("R1", "func="+fn.Name+":RemoveIngester", call.Expr.Pos(), "entry removed under key "+cs, 1)
				} else if fn.Name == "(*AutoForgetDelegate).OnRingInstanceHeartbeat" {
					c08AutoForget(c, fn, call)
				} else {
					c.Viol("R1", "func="+fn.Name+":RemoveIngester", call.Expr.Pos(), "a lifecycler removes the ring entry "+cs+", which is not its own id")
				}
			case "(*Desc).ClaimTokens":
				cs, ok := isOwn(call.In, call.Expr.Args[1])
				c.Check(ok && fn.Name == "(*Lifecycler).ClaimTokensFor", "R1", "func="+fn.Name+":ClaimTokens", call.Expr.Pos(), "explicit token hand-over: tokens are moved to "+cs+" (must be the own id), only in ClaimTokensFor", 1)
			}
		}
		// map stores / deletes
		fn.InspectDeep(func(n ast.Node) bool {
			switch x := n.(type) {
			case *ast.AssignStmt:
				for _, l := range x.Lhs {
					if ix, ok := an.Unparen(l).(*ast.IndexExpr); ok && isDescIngesters(fn, ix.X) {
						in := fn.Root().LitFnAt(ix)
						cs := in.Canon(ix.Index)
						c.Check(ids[cs], "R1", "func="+fn.Name+":store", x.Pos(), "store into Desc.Ingesters under key "+cs, 1)
					}
				}
			case *ast.CallExpr:
				if an.ObjIs(an.Callee(fn.Info(), x), "", "delete") && len(x.Args) == 2 && isDescIngesters(fn, x.Args[0]) {
					in := fn.Root().LitFnAt(x)
					cs := in.Canon(x.Args[1])
					c.Check(ids[cs], "R1", "func="+fn.Name+":delete", x.Pos(), "delete from Desc.Ingesters of key "+cs, 1)
				}
			}
			return true
		})
	}
}

func c08AutoForget(c *core.Ctx, fn *an.Fn, call an.Call) {
	g := fn.Graph()
	loop, _ := loopOf(fn, call.Expr).(*ast.RangeStmt)
	if loop == nil || !isDescIngesters(fn, loop.X) {
		c.Undec("R1", "func="+fn.Name+":RemoveIngester", call.Expr.Pos(), "auto-forget removal is not inside a loop over the ring's entries")
		return
	}
	header, body, _ := g.LoopBlocks(loop)
	elem := "each(" + fn.Canon(loop.X) + ")"
	keyOK := fn.Canon(call.Expr.Args[0]) == "keyof("+fn.Canon(loop.X)+")"
	t := an.Table{G: g, From: an.Loc{B: body, I: 0}, Opts: an.ExecOpts{Header: header}, FreeUnknown: true,
		Atoms: []an.Atom{{Name: "age", Values: []string{"lt", "eq", "gt"}}},
		Binder: &an.Binder{Fn: fn, Roles: an.Roles{{From: elem, To: "e"}},
			Cmp: map[string]string{"time.Since(time.Unix(e.GetTimestamp(), 0))|recv.forgetPeriod": "age", "time.Since(time.Unix(e.Timestamp, 0))|recv.forgetPeriod": "age"}},
		Targets: []an.Loc{g.Locate(call.Expr)}, Names: []string{"RemoveIngester"},
		Want: func(r an.Row, _ int) an.Tri { return an.FromBool(r["age"] == "gt") }}
	res := t.Run()
	c.Check(res.OK() && keyOK, "R1", "func="+fn.Name+":RemoveIngester", call.Expr.Pos(), "documented exception (auto-forget): the entry of the loop key is removed ⇔ time.Since(time.Unix(entry timestamp)) > forgetPeriod, under no other condition: "+res.Summary(), res.Rows)
}

func c08Transitions(c *core.Ctx, pkg *packages.Package, fns []*an.Fn) {
	var cs *an.Fn
	for _, fn := range fns {
		if fn.Name == "(*Lifecycler).changeState" {
			cs = fn
		}
	}
	if cs == nil {
		c.Miss("R2", "func=Lifecycler.changeState", "not found")
		return
	}
	g := cs.Graph()
	sets := cs.CallsTo(false, "ring", "(*Lifecycler).setState")
	if len(sets) != 1 || cs.Canon(sets[0].Expr.Args[0]) != "p1" {
		c.Undec("R2", "func=Lifecycler.changeState:setState", cs.Pos(), "expected exactly one setState(state) call")
		return
	}
	states := []string{"PENDING", "JOINING", "ACTIVE", "LEAVING", "LEFT"}
	bd := &an.Binder{Fn: cs, Enum: map[string]string{"recv.GetState()": "cur", "p1": "new"}, Unknown: map[string]bool{}}
	allowed := []string{}
	bad, undec := []string{}, []string{}
	for _, cur := range states {
		for _, nw := range states {
			bd.Row = an.Row{"cur": cur, "new": nw}
			ex := g.Exec(g.EntryLoc(), []an.Loc{g.Locate(sets[0].Expr)}, bd.Leaf, an.ExecOpts{})
			switch ex.Tri(0) {
			case an.T:
				allowed = append(allowed, cur+"→"+nw)
				if !c08EdgeAllowed(cur, nw) || cur == nw {
					bad = append(bad, cur+"→"+nw)
				}
			case an.U:
				undec = append(undec, cur+"→"+nw)
			}
		}
	}
	switch {
	case len(bad) > 0:
		c.Viol("R2", "func=Lifecycler.changeState:table", cs.Pos(), fmt.Sprintf("the guard admits transitions outside pending<joining<active<leaving plus joining→pending, leaving→active: %v (admitted: %v)", bad, allowed))
	case len(undec) > 0:
		c.Undec("R2", "func=Lifecycler.changeState:table", cs.Pos(), fmt.Sprintf("guard undecidable for %v (unrecognised: %v)", head(undec, 4), keys(bd.Unknown)))
	default:
		c.Hold("R2", "func=Lifecycler.changeState:table", cs.Pos(), fmt.Sprintf("25 (current,new) pairs evaluated; admitted: %v, all in the property's table", allowed), 25)
	}
	// census of setState calls
	for _, fn := range an.Funcs(pkg) {
		for _, call := range fn.CallsTo(true, "ring", "(*Lifecycler).setState") {
			arg := call.In.Canon(call.Expr.Args[0])
			key := "setState:func=" + fn.Name + ":arg=" + arg
			switch {
			case fn.Name == "(*Lifecycler).changeState" && arg == "p1":
				c.Hold("R2", key, call.Expr.Pos(), "the requested state, after the transition guard", 1)
			case fn.Name == "(*Lifecycler).autoJoin" && arg == "p1":
				// callers pass constants JOINING/ACTIVE and the lifecycler is PENDING then
				ok := true
				args := []string{}
				for _, f2 := range an.Funcs(pkg) {
					for _, c2 := range f2.CallsTo(true, "ring", "(*Lifecycler).autoJoin") {
						as, isConst := c2.In.ConstNames(c2.Expr.Args[1])
						if !isConst {
							ok = false
							args = append(args, c2.In.Canon(c2.Expr.Args[1]))
						}
						for _, a := range as {
							args = append(args, a)
							if a != "JOINING" && a != "ACTIVE" {
								ok = false
							}
						}
					}
				}
				c.Check(ok && len(args) > 0, "R2", key, call.Expr.Pos(), fmt.Sprintf("autoJoin's target state is one of the constants %v at every call site (pending→joining / pending→active)", args), len(args))
			case fn.Name == "(*Lifecycler).initRing" && arg == "ACTIVE":
				// restoring a full tokens file when the entry is missing: pending→active
				c.Hold("R2", key, call.Expr.Pos(), "restart with a complete tokens file and no ring entry: pending→active", 1)
			case fn.Name == "(*Lifecycler).initRing" && strings.HasSuffix(arg, ".State"):
				c.Hold("R2", key, call.Expr.Pos(), "restart: local state taken from the own ring entry ("+arg+") after the restart rewrites checked below", 1)
			default:
				c.Viol("R2", key, call.Expr.Pos(), "setState called outside the reviewed sites (changeState after its guard, autoJoin, initRing): the published state could leave the transition table")
			}
		}
	}
	// constant rewrites of the own entry's State inside lifecycler code
	for _, fn := range fns {
		for _, lf := range append([]*an.Fn{fn}, fn.AllLits()...) {
			lg := lf.Graph()
			lf.InspectShallow(func(n ast.Node) bool {
				as, ok := n.(*ast.AssignStmt)
				if !ok || len(as.Lhs) != 1 {
					return true
				}
				sel, ok := as.Lhs[0].(*ast.SelectorExpr)
				if !ok || sel.Sel.Name != "State" {
					return true
				}
				if t := lf.Info().TypeOf(sel.X); t == nil || !strings.HasSuffix(strings.TrimPrefix(t.String(), "*"), "ring.InstanceDesc") {
					return true
				}
				to := lf.ConstName(as.Rhs[0])
				key := "rewrite:func=" + lf.Name + ":to=" + to
				if to == "" {
					// BasicLifecycler.changeState writes the caller-supplied state: user/delegate driven, outside the full lifecycler's table
					c.HoldTrivial("R2", "rewrite:func="+lf.Name+":to=<param>", as.Pos(), "state supplied by the caller of the basic lifecycler (delegate-driven; not constrained by the full lifecycler's table)")
					return true
				}
				base := lf.Canon(sel.X)
				bd := &an.Binder{Fn: lf, Enum: map[string]string{base + ".State": "from"}, Unknown: map[string]bool{}}
				froms := []string{}
				badFrom := []string{}
				for _, from := range []string{"PENDING", "JOINING", "ACTIVE", "LEAVING", "LEFT"} {
					bd.Row = an.Row{"from": from}
					ex := lg.Exec(lg.EntryLoc(), []an.Loc{lg.Locate(as)}, bd.Leaf, an.ExecOpts{})
					if ex.May[0] {
						froms = append(froms, from)
						if !c08EdgeAllowed(from, to) {
							badFrom = append(badFrom, from+"→"+to)
						}
					}
				}
				c.Check(len(badFrom) == 0, "R2", key, as.Pos(), fmt.Sprintf("own entry's State rewritten to %s when it is one of %v; disallowed edges: %v", to, froms, badFrom), 5)
				return true
			})
		}
	}
}

func c08Registration(c *core.Ctx, pkg *packages.Package, fns []*an.Fn) {
	nowRe := regexp.MustCompile(`^time\.Now\(\)$`)
	for _, fn := range fns {
		for _, lf := range append([]*an.Fn{fn}, fn.AllLits()...) {
			lg := lf.Graph()
			// own-entry lookup in this literal
			var existsCanon string
			lf.InspectShallow(func(n ast.Node) bool {
				if as, ok := n.(*ast.AssignStmt); ok && len(as.Lhs) == 2 && len(as.Rhs) == 1 {
					if ix, ok := an.Unparen(as.Rhs[0]).(*ast.IndexExpr); ok && isDescIngesters(lf, ix.X) {
						existsCanon = "ok(" + lf.Canon(ix) + ")"
					}
				}
				return true
			})
			check := func(call an.Call, arg ast.Expr, what string) {
				key := "func=" + lf.Name + ":" + what
				if existsCanon == "" {
					cs := lf.Canon(arg)
					c.Check(!nowRe.MatchString(cs), "R3", key, call.Expr.Pos(), "registration time "+cs+" in a function without an own-entry lookup (must not be a fresh time.Now())", 1)
					return
				}
				vals := map[string][]string{}
				for _, ex := range []string{"T", "F"} {
					bd := &an.Binder{Fn: lf, Bool: map[string]string{existsCanon: "exists"}, Row: an.Row{"exists": ex}}
					var val string
					if obj := lf.ObjOf(arg); obj != nil && lf.DefCount(obj) > 0 {
						r := lg.Exec(lg.EntryLoc(), []an.Loc{lg.Locate(call.Expr)}, bd.Leaf, an.ExecOpts{Watch: obj})
						for v := range r.Vals[0] {
							vals[ex] = append(vals[ex], v)
						}
						if !r.May[0] {
							vals[ex] = []string{"<unreachable>"}
						}
						continue
					}
					r := lg.Exec(lg.EntryLoc(), []an.Loc{lg.Locate(call.Expr)}, bd.Leaf, an.ExecOpts{})
					if !r.May[0] {
						val = "<unreachable>"
					} else {
						val = lf.Canon(arg)
					}
					vals[ex] = []string{val}
				}
				ok := true
				for _, v := range vals["T"] {
					if nowRe.MatchString(v) {
						ok = false // fresh time on the entry-exists path
					}
				}
				sort.Strings(vals["T"])
				sort.Strings(vals["F"])
				c.Check(ok, "R3", key, call.Expr.Pos(), fmt.Sprintf("registration time when own entry exists ∈ %v, when missing ∈ %v (a fresh time.Now() is allowed only when missing)", vals["T"], vals["F"]), 2)
			}
			for _, call := range lf.Calls(false) {
				cf := call.Func()
				if cf == nil {
					continue
				}
				switch an.FuncDisplay(cf) {
				case "(*Lifecycler).setRegisteredAt":
					check(call, call.Expr.Args[0], "setRegisteredAt")
				case "(*Desc).AddIngester":
					arg := call.Expr.Args[5]
					if cs := lf.Canon(arg); cs == "recv.getRegisteredAt()" {
						continue // field-based: governed by the setRegisteredAt sites
					}
					check(call, arg, "AddIngester.registeredAt")
				}
			}
		}
	}
}

// canonAtPath: canonical value of e when `at` executes in lf; for multiply-assigned locals the value is resolved
// along the paths of lf (single reaching value), otherwise the static canonical form is used.
func canonAtPath(lf *an.Fn, e ast.Expr, at ast.Node) string {
	obj := lf.ObjOf(e)
	if obj == nil || lf.DefCount(obj) <= 1 {
		return lf.Canon(e)
	}
	g := lf.Graph()
	loc := g.Locate(at)
	if !loc.Valid() {
		return lf.Canon(e)
	}
	ex := g.Exec(g.EntryLoc(), []an.Loc{loc}, func(ast.Expr, an.Store) an.Tri { return an.U }, an.ExecOpts{Watch: obj})
	if len(ex.Vals[0]) == 1 {
		for v := range ex.Vals[0] {
			if v != "?" && v != "<entry>" {
				return v
			}
		}
	}
	return lf.Canon(e)
}

func c08Generate(c *core.Ctx, pkg *packages.Package, fns []*an.Fn) {
	ok := regexp.MustCompile(`^(GetOrCreateRingDesc\(λ+p0\)|λ+p0|p1)\.(TokensFor\(.*\)#1|GetTokens\(\))$`)
	n := 0
	for _, fn := range fns {
		for _, call := range fn.Calls(true) {
			if cf := call.Func(); cf == nil || cf.Name() != "GenerateTokens" {
				continue
			}
			n++
			taken := call.In.Canon(call.Expr.Args[1])
			// captured ring variables assigned at the top of the callback: resolve along the callback's paths
			if sel, isSel := an.Unparen(call.Expr.Args[1]).(*ast.CallExpr); isSel {
				if s2, ok2 := sel.Fun.(*ast.SelectorExpr); ok2 {
					base := canonAtPath(call.In, s2.X, call.Expr)
					taken = base + "." + s2.Sel.Name + "()"
				}
			} else if obj := call.In.ObjOf(call.Expr.Args[1]); obj != nil {
				if d, isSingle := call.In.SingleDefExpr(obj); isSingle {
					if tup, isCall := an.Unparen(d).(*ast.CallExpr); isCall {
						if s2, ok2 := tup.Fun.(*ast.SelectorExpr); ok2 {
							base := canonAtPath(call.In, s2.X, call.Expr)
							taken = strings.Replace(taken, call.In.Canon(s2.X), base, 1)
						}
					}
				}
			}
			c.Check(ok.MatchString(taken), "R4", "func="+call.In.Name+":GenerateTokens", call.Expr.Pos(), "taken tokens = "+taken+" (must derive from the ring value passed to the enclosing CAS callback / delegate call)", 1)
		}
	}
	if n == 0 {
		c.Undec("R4", "sites", pkg.Syntax[0].Pos(), "no GenerateTokens call found in lifecycler code")
	}
}

func c08Ready(c *core.Ctx, pkg *packages.Package) {
	cr := an.FindFunc(pkg, "Lifecycler.CheckReady")
	ch := an.FindFunc(pkg, "Lifecycler.checkRingHealthForReadiness")
	if cr == nil || ch == nil {
		c.Miss("R5", "func=Lifecycler.CheckReady", "not found")
		return
	}
	g := cr.Graph()
	var set *ast.AssignStmt
	cr.InspectShallow(func(n ast.Node) bool {
		if as, ok := n.(*ast.AssignStmt); ok && len(as.Lhs) == 1 && cr.Canon(as.Lhs[0]) == "recv.ready" && cr.Canon(as.Rhs[0]) == "true" {
			set = as
		}
		return true
	})
	if set == nil {
		c.Undec("R5", "CheckReady:latch", cr.Pos(), "assignment ready = true not found")
		return
	}
	t := an.Table{G: g, From: g.EntryLoc(), MayOnly: true,
		Atoms:   []an.Atom{{Name: "healthy", Values: []string{"T", "F"}}, {Name: "waited", Values: []string{"lt", "eq", "gt"}}},
		Binder:  &an.Binder{Fn: cr, Eq: map[string]string{"recv.checkRingHealthForReadiness(p0)|nil": "healthy"}, Cmp: map[string]string{"time.Since(recv.readySince)|recv.cfg.MinReadyDuration": "waited"}},
		Targets: []an.Loc{g.Locate(set)}, Names: []string{"ready = true"},
		Want: func(r an.Row, _ int) an.Tri { return an.FromBool(r["healthy"] == "T" && r["waited"] != "lt") }}
	res := t.Run()
	c.Check(res.OK(), "R5", "CheckReady:latch", set.Pos(), "ready latched ⇔-reachable only when the health check returned nil and the min ready duration elapsed: "+res.Summary(), res.Rows)
	// ready written nowhere else
	lt := an.LookupType(pkg, "Lifecycler")
	writers := []string{}
	if f := fieldOf(lt, "ready"); f != nil {
		for _, a := range an.FieldAccesses(pkg, f) {
			if a.Write {
				writers = append(writers, a.Fn.Name)
			}
		}
	}
	c.Check(len(writers) == 1 && writers[0] == "(*Lifecycler).CheckReady", "R5", "ready:writers", cr.Pos(), fmt.Sprintf("Lifecycler.ready is written only in CheckReady: %v", writers), 1)
	// health check returns nil only after tokens>0 and IsReady == nil
	hg := ch.Graph()
	var nilRets []an.Loc
	for _, b := range hg.Blocks {
		if r := an.ReturnOf(b); r != nil && len(r.Results) == 1 && ch.Canon(r.Results[0]) == "nil" {
			nilRets = append(nilRets, hg.Locate(r))
		}
	}
	t2 := an.Table{G: hg, From: hg.EntryLoc(), MayOnly: true,
		Atoms: []an.Atom{{Name: "ntok", Values: []string{"eq", "gt"}}, {Name: "ringReady", Values: []string{"T", "F"}}, {Name: "selfReady", Values: []string{"T", "F"}}, {Name: "found", Values: []string{"T", "F"}}, {Name: "whole", Values: []string{"T", "F"}}},
		Binder: &an.Binder{Fn: ch, Re: []an.ReRole{an.RE(`recv\.KVStore\.Get\(p0, recv\.RingKey\)#0`, "RING")},
			Cmp:  map[string]string{"len(recv.getTokens())|0": "ntok"},
			Bool: map[string]string{"recv.cfg.ReadinessCheckRingHealth": "whole", "ok(RING.Ingesters[recv.ID])": "found"},
			Eq: map[string]string{"RING.IsReady(time.Now(), recv.cfg.RingConfig.HeartbeatTimeout)|nil": "ringReady",
				"RING.Ingesters[recv.ID].IsReady(time.Now(), recv.cfg.RingConfig.HeartbeatTimeout)|nil": "selfReady"}},
		Targets: nilRets,
		Want: func(r an.Row, _ int) an.Tri {
			if r["ntok"] == "eq" {
				return an.F
			}
			if r["whole"] == "T" {
				return an.FromBool(r["ringReady"] == "T")
			}
			return an.FromBool(r["found"] == "T" && r["selfReady"] == "T")
		}}
	res2 := t2.Run()
	// with several nil returns "reachable" is per target; require that in every row where Want=F none is reachable and where Want=T at least one is — approximated per target for single-return functions
	c.Check(len(res2.Bad) == 0 && len(nilRets) == 1, "R5", "checkRingHealthForReadiness", ch.Pos(), "returns nil only when the instance holds tokens and (whole ring | own entry) IsReady returned nil: "+res2.Summary(), res2.Rows)
}

// ---- R7 sortedness

var sortedSourceRe0 = regexp.MustCompile(`(\.Ingesters\[[^\]]*\]\.Tokens$|\.Ingesters\[[^\]]*\]\.GetTokens\(\)$|\.TokensFor\(.*\)#0$|\.GenerateTokens\([^#]*\)$|^\[\]uint32\{\}$|^LoadTokensFromFile\(.*\)#0$|^zero$|^nil$|^recv\.getTokens\(\)$|^recv\.GetTokens\(\)$|^p\d\.(GetTokens\(\)|Tokens)$|^each\(.*\.Ingesters\)\.Tokens$)`)

type sortedSrc struct{}

// MatchString: a canonical expression denotes a sorted token list (ring entries, generator output, file loader,
// the lifecycler's remembered tokens, empty values). Anything built by append is not a source.
func (sortedSrc) MatchString(cs string) bool {
	if strings.HasPrefix(cs, "append(") {
		return false
	}
	return sortedSourceRe0.MatchString(cs)
}

var sortedSourceRe sortedSrc

// sortedAt decides whether expression e holds a sorted token list whenever `at` executes in lf: typestate
// Sorted/Unknown over the paths of lf (assignment from a sorted source or sort call => Sorted; append, shuffle or
// any other assignment => Unknown; re-slicing keeps the state), with an entry state for captured variables.
func sortedAt(lf *an.Fn, e ast.Expr, at ast.Node, depth int) (bool, string) {
	cs := lf.Canon(e)
	if sortedSourceRe.MatchString(cs) {
		return true, "sorted source " + cs
	}
	obj := lf.ObjOf(e)
	if obj == nil {
		return false, "value " + cs + " is not a known sorted source"
	}
	g := lf.Graph()
	type ev struct {
		loc  an.Loc
		kind string // sorted, unknown, keep
	}
	var evs []ev
	lf.InspectShallow(func(n ast.Node) bool {
		switch x := n.(type) {
		case *ast.AssignStmt:
			for i, l := range x.Lhs {
				if lf.ObjOf(l) != obj {
					continue
				}
				kind := "unknown"
				if len(x.Lhs) == len(x.Rhs) {
					r := an.Unparen(x.Rhs[i])
					rc := lf.Canon(r)
					if sl, ok := r.(*ast.SliceExpr); ok && lf.ObjOf(sl.X) == obj {
						kind = "keep"
					} else if sortedSourceRe.MatchString(rc) {
						kind = "sorted"
					}
				} else if len(x.Rhs) == 1 {
					if sortedSourceRe.MatchString(fmt.Sprintf("%s#%d", lf.Canon(x.Rhs[0]), i)) {
						kind = "sorted"
					}
				}
				evs = append(evs, ev{g.Locate(x), kind})
			}
		case *ast.CallExpr:
			o := an.Callee(lf.Info(), x)
			if (an.ObjIs(o, "sort", "Sort") || an.ObjIs(o, "slices", "Sort") || an.ObjIs(o, "sort", "Stable")) && len(x.Args) >= 1 && lf.ObjOf(x.Args[0]) == obj {
				evs = append(evs, ev{g.Locate(x), "sorted"})
			}
			if an.ObjIs(o, "rand", "Shuffle") || an.ObjIs(o, "sort", "Reverse") {
				uses := false
				ast.Inspect(x, func(m ast.Node) bool {
					if id, ok := m.(*ast.Ident); ok && lf.Info().Uses[id] == obj {
						uses = true
					}
					return true
				})
				if uses {
					evs = append(evs, ev{g.Locate(x), "unknown"})
				}
			}
		}
		return true
	})
	// entry state
	entry, entryWhy := true, "zero value"
	for _, d := range lf.DefSites(obj) {
		if d.Lit == lf.Lit && !d.Param {
			continue // assignments inside lf are events
		}
		switch {
		case d.Zero:
		case sortedSourceRe.MatchString(d.Canon):
		case d.Lit != nil && d.Lit != lf.Lit:
			// assigned in another literal: sorted if a sort call on it follows the assignment there
			other := lf.Root().LitFnOf(d.Lit)
			ok := false
			if other != nil {
				og := other.Graph()
				for _, call := range other.Calls(false) {
					if (call.Is("sort", "Sort") || call.Is("slices", "Sort")) && len(call.Expr.Args) >= 1 && other.ObjOf(call.Expr.Args[0]) == obj {
						// the assignment precedes the sort on every path
						var asg ast.Node
						other.InspectShallow(func(n ast.Node) bool {
							if as, isAs := n.(*ast.AssignStmt); isAs && as.Pos() <= d.Pos && d.Pos < as.End() {
								asg = as
							}
							return true
						})
						if asg != nil && og.NodeBefore(asg, call.Expr) {
							ok = true
						}
					}
				}
			}
			if !ok {
				entry, entryWhy = false, "assigned in another closure from "+d.Canon+" without a following sort"
			}
		default:
			entry, entryWhy = false, "captured/parameter value "+d.Canon+" of unknown order"
		}
	}
	locs := make([]an.Loc, 0, len(evs)+1)
	for _, e := range evs {
		locs = append(locs, e.loc)
	}
	useLoc := g.Locate(at)
	locs = append(locs, useLoc)
	ex := g.Exec(g.EntryLoc(), locs, func(ast.Expr, an.Store) an.Tri { return an.U }, an.ExecOpts{Record: true, Unroll: 1, MaxPaths: 100000})
	if ex.Overflow {
		return false, "path overflow"
	}
	paths, badPaths := 0, 0
	for _, tr := range ex.Traces {
		state := entry
		reached := false
		for _, h := range tr {
			if h.Target == len(evs) {
				reached = true
				if !state {
					badPaths++
				}
				break
			}
			switch evs[h.Target].kind {
			case "sorted":
				state = true
			case "unknown":
				state = false
			}
		}
		if reached {
			paths++
		}
	}
	// events located in the same node as the use (e.g. use inside the assignment) are ordered by Exec's node order
	if paths == 0 {
		return false, "use not reached on any enumerated path"
	}
	if badPaths > 0 {
		return false, fmt.Sprintf("%d of %d paths reach the use with %s possibly unsorted (entry: %s)", badPaths, paths, obj.Name(), entryWhy)
	}
	return true, fmt.Sprintf("sorted on all %d paths (typestate over %d assignment/sort events; entry: %s)", paths, len(evs), entryWhy)
}

func c08Sorted(c *core.Ctx, pkg *packages.Package, fns []*an.Fn) {
	for _, fn := range fns {
		for _, lf := range append([]*an.Fn{fn}, fn.AllLits()...) {
			for _, call := range lf.Calls(false) {
				cf := call.Func()
				if cf == nil {
					continue
				}
				switch an.FuncDisplay(cf) {
				case "(*Desc).AddIngester":
					ok, why := sortedAt(lf, call.Expr.Args[3], call.Expr, 0)
					c.Check(ok, "R7", "func="+lf.Name+":AddIngester.tokens", call.Expr.Pos(), "tokens published by AddIngester: "+why, 1)
				case "(*Lifecycler).setTokens":
					ok, why := sortedAt(lf, call.Expr.Args[0], call.Expr, 0)
					c.Check(ok, "R7", "func="+lf.Name+":setTokens", call.Expr.Pos(), "tokens remembered by the lifecycler (later republished): "+why, 1)
				}
			}
			lf.InspectShallow(func(n ast.Node) bool {
				as, ok := n.(*ast.AssignStmt)
				if !ok || len(as.Lhs) != 1 {
					return true
				}
				sel, ok := as.Lhs[0].(*ast.SelectorExpr)
				if !ok || sel.Sel.Name != "Tokens" {
					return true
				}
				if t := lf.Info().TypeOf(sel.X); t == nil || !strings.HasSuffix(strings.TrimPrefix(t.String(), "*"), "ring.InstanceDesc") {
					return true
				}
				ok2, why := sortedAt(lf, as.Rhs[0], as, 0)
				c.Check(ok2, "R7", "func="+lf.Name+":entry.Tokens", as.Pos(), "tokens stored into a ring entry: "+why, 1)
				return true
			})
		}
	}
}

// c08SingleActor (R6): exported methods of the lifecyclers never reach a KV CAS synchronously; ring writes issued on behalf
// of other goroutines travel through the actor channel (closures handed to sendToLifecyclerLoop / run).
func c08SingleActor(c *core.Ctx, pkg *packages.Package, fns []*an.Fn) {
	actorEntry := map[string]bool{"(*Lifecycler).sendToLifecyclerLoop": true, "(*BasicLifecycler).run": true}
	hasCAS := func(f *an.Fn) bool {
		for _, call := range f.Calls(false) {
			if cf := call.Func(); cf != nil && cf.Name() == "CAS" {
				return true
			}
		}
		return false
	}
	// literals handed to the actor loop (directly, or through a local variable that is passed to it)
	actorLits := func(f *an.Fn) map[*ast.FuncLit]bool {
		out := map[*ast.FuncLit]bool{}
		for _, call := range f.Calls(true) {
			cf := call.Func()
			if cf == nil || !actorEntry[an.FuncDisplay(cf)] {
				continue
			}
			for _, a := range call.Expr.Args {
				if l, ok := an.Unparen(a).(*ast.FuncLit); ok {
					out[l] = true
				} else if obj := call.In.ObjOf(a); obj != nil {
					if d, ok := call.In.SingleDefExpr(obj); ok {
						if l, ok := an.Unparen(d).(*ast.FuncLit); ok {
							out[l] = true
						}
					}
				}
			}
		}
		return out
	}
	var reach func(f *an.Fn, skip map[*ast.FuncLit]bool, seen map[string]bool) []string
	reach = func(f *an.Fn, skip map[*ast.FuncLit]bool, seen map[string]bool) []string {
		if f == nil || seen[f.Name] {
			return nil
		}
		seen[f.Name] = true
		var out []string
		if hasCAS(f) {
			out = append(out, f.Name)
		}
		for _, l := range f.Lits() {
			if skip[l.Lit] {
				continue
			}
			// a literal started with `go` or deferred runs in/after this call: still the caller's goroutine for defer, a new one for go;
			// either way it is not the actor loop, so it counts
			out = append(out, reach(l, skip, seen)...)
		}
		for _, call := range f.Calls(false) {
			if cf := call.Func(); cf != nil && cf.Pkg() == pkg.Types && !actorEntry[an.FuncDisplay(cf)] {
				out = append(out, reach(an.FnOf(c.Prog.ByPath, cf), skip, seen)...)
			}
		}
		return out
	}
	// service functions run on the lifecycler's own goroutine: allowed
	serviceFns := map[string]bool{"starting": true, "running": true, "stopping": true, "loop": true}
	n := 0
	for _, fn := range fns {
		if fn.Decl == nil || !ast.IsExported(fn.Decl.Name.Name) || serviceFns[fn.Decl.Name.Name] {
			continue
		}
		if !strings.HasPrefix(fn.Name, "(*Lifecycler).") && !strings.HasPrefix(fn.Name, "(*BasicLifecycler).") {
			continue
		}
		n++
		writers := reach(fn, actorLits(fn), map[string]bool{})
		if fn.Decl.Name.Name == "ServeHTTP" {
			c.HoldTrivial("R6", "exported="+fn.Name, fn.Pos(), "operator page (forget button): outside the lifecycler-initiated writes of the property")
			continue
		}
		c.Check(len(writers) == 0, "R6", "exported="+fn.Name, fn.Pos(), fmt.Sprintf("no KV CAS is reachable synchronously from this exported method (writers reached outside the actor loop: %v)", writers), 1)
	}
	if n < 20 {
		c.Undec("R6", "exported", pkg.Syntax[0].Pos(), fmt.Sprintf("only %d exported lifecycler methods found", n))
	}
}

// c08HeartbeatTickers (R10): each phase in which a lifecycler waits in a select (classic: loop, stopping;
// basic: waitStableTokens, running, stopping) receives its heartbeat ticks from
// newDisableableTicker(cfg.HeartbeatPeriod) created in that very function, and the tick's branch
// performs the heartbeat. A ticker kept in a field and created by another phase leaves the earlier
// phases without heartbeats (a receive from a nil channel never fires).
func c08HeartbeatTickers(c *core.Ctx) {
	pkg := c.Prog.Pkg("ring")
	want := map[string]string{
		"(*Lifecycler).loop":                  "updateConsul",
		"(*Lifecycler).stopping":              "updateConsul",
		"(*BasicLifecycler).waitStableTokens": "heartbeat",
		"(*BasicLifecycler).running":          "heartbeat",
		"(*BasicLifecycler).stopping":         "heartbeat",
	}
	for name, beat := range want {
		fn := an.FindFunc(pkg, name)
		if fn == nil {
			c.Miss("R10", "func="+name, "not found")
			continue
		}
		c.Analysed(fn.String())
		found, detail := false, ""
		for _, f := range append([]*an.Fn{fn}, fn.AllLits()...) {
			f := f
			f.InspectShallow(func(n ast.Node) bool {
				cc, ok := n.(*ast.CommClause)
				if !ok || cc.Comm == nil {
					return true
				}
				ch := commRecv(cc.Comm)
				if ch == nil {
					return true
				}
				beats := false
				for _, st := range cc.Body {
					ast.Inspect(st, func(m ast.Node) bool {
						if call, ok := m.(*ast.CallExpr); ok {
							if o := an.Callee(f.Info(), call); o != nil {
								// compare through FuncDisplay, which reports the pinned name of a renamed helper
								if fo, isFn := o.(*types.Func); isFn && strings.HasSuffix(an.FuncDisplay(fo), ")."+beat) {
									beats = true
								}
							}
						}
						return true
					})
				}
				if !beats {
					return true
				}
				cn := f.Canon(ch)
				detail = cn
				if cn == "newDisableableTicker(recv.cfg.HeartbeatPeriod)#1" {
					found = true
				}
				return true
			})
		}
		c.Check(found, "R10", "func="+name, fn.Pos(), fmt.Sprintf("the branch that calls %s receives from a ticker created in this function with the configured heartbeat period (channel: %s)", beat, detail), 1)
	}
}

// c08Unregister (R11): a heartbeat that finds the own entry missing re-registers it with a fresh
// registration time, so removing the entry anywhere a heartbeat can still follow publishes
// "removed → LEAVING again". The removal helper of each lifecycler therefore has exactly one call
// site: directly in stopping (not in a goroutine or closure), outside every loop, with every
// heartbeat call of stopping inside a loop that has ended before.
func c08Unregister(c *core.Ctx) {
	pkg := c.Prog.Pkg("ring")
	for _, e := range []struct{ owner, remove, beat string }{
		{"(*Lifecycler).stopping", "(*Lifecycler).unregister", "updateConsul"},
		{"(*BasicLifecycler).stopping", "(*BasicLifecycler).unregisterInstance", "heartbeat"},
	} {
		owner := an.FindFunc(pkg, e.owner)
		if owner == nil {
			c.Miss("R11", "func="+e.owner, "not found")
			continue
		}
		c.Analysed(owner.String())
		var sites []an.Call
		for _, f := range an.Funcs(pkg) {
			sites = append(sites, f.CallsTo(true, "ring", e.remove)...)
		}
		g := owner.Graph()
		var where []string
		ok := len(sites) == 1
		for _, s := range sites {
			where = append(where, an.FuncDisplay(s.In.Root().Obj)+map[bool]string{true: "", false: " (closure)"}[s.In == s.In.Root()])
			if s.In != owner {
				ok = false
				continue
			}
			ub := g.Locate(s.Expr).B
			inLoop := false
			owner.InspectShallow(func(n ast.Node) bool {
				switch l := n.(type) {
				case *ast.ForStmt, *ast.RangeStmt:
					if an.InNode(l, s.Expr) {
						inLoop = true
					}
				}
				return true
			})
			if inLoop || ub == nil {
				ok = false
				where = append(where, "inside a loop")
				continue
			}
			// every heartbeat of stopping sits in a loop that is over when the removal runs
			for _, call := range owner.Calls(true) {
				fo := call.Func()
				if fo == nil || !strings.HasSuffix(an.FuncDisplay(fo), ")."+e.beat) {
					continue
				}
				ended := false
				if call.In == owner {
					// the removal cannot be followed by this heartbeat: its block is not reachable from the removal's
					hb := g.Locate(call.Expr).B
					seen := map[*cfg.Block]bool{}
					var reach func(b *cfg.Block) bool
					reach = func(b *cfg.Block) bool {
						if b == hb {
							return true
						}
						if seen[b] {
							return false
						}
						seen[b] = true
						for _, n := range b.Succs {
							if reach(n) {
								return true
							}
						}
						return false
					}
					after := false
					for _, n := range ub.Succs {
						if reach(n) {
							after = true
						}
					}
					ended = hb != nil && hb != ub && !after
				}
				if !ended {
					ok = false
					where = append(where, fmt.Sprintf("%s at line %d may run after the removal", e.beat, c.Prog.Fset.Position(call.Expr.Pos()).Line))
				}
			}
		}
		c.Check(ok, "R11", "func="+e.owner+":remove", owner.Pos(), fmt.Sprintf("%s has %d call site(s): %v — one, directly in stopping, after the heartbeat loop has ended", e.remove, len(sites), where), len(sites))
	}
}

// c08CompareTokens (R12): after the observe period the lifecycler goes ACTIVE only if the ring still holds
// the tokens it picked. compareTokens must answer true only for lists of the same length — otherwise a
// ring entry that lost tokens (conflict resolution, a claim) passes as unchanged and the instance becomes
// ACTIVE with fewer tokens than configured. Decided as a table: `return true` is unreachable unless
// len(ring tokens) == len(own tokens), whatever the element comparison does.
func c08CompareTokens(c *core.Ctx) {
	pkg := c.Prog.Pkg("ring")
	fn := an.FindFunc(pkg, "Lifecycler.compareTokens")
	if fn == nil {
		c.Miss("R12", "func=Lifecycler.compareTokens", "not found")
		return
	}
	c.Analysed(fn.String())
	g := fn.Graph()
	var trues []an.Loc
	nEq := 0
	for _, b := range g.Blocks {
		if r := an.ReturnOf(b); r != nil && len(r.Results) == 1 {
			v := fn.Canon(r.Results[0])
			if v == "slices.Equal(recv.getTokens(), p0)" || v == "slices.Equal(p0, recv.getTokens())" {
				nEq++ // element-wise equality includes the length
				continue
			}
			if v != "false" {
				trues = append(trues, g.Locate(r))
			}
		}
	}
	if len(trues) == 0 && nEq > 0 {
		c.Hold("R12", "func=Lifecycler.compareTokens", fn.Pos(), "answers slices.Equal of the two lists", nEq)
		return
	}
	if len(trues) == 0 {
		c.Undec("R12", "func=Lifecycler.compareTokens", fn.Pos(), "no accepting return found")
		return
	}
	t := an.Table{G: g, From: g.EntryLoc(), FreeUnknown: true, MayOnly: true, Atoms: []an.Atom{{Name: "len", Values: []string{"lt", "eq", "gt"}}},
		Binder: &an.Binder{Fn: fn, Cmp: map[string]string{"len(recv.getTokens())|len(p0)": "len"}}, Targets: trues,
		Want: func(r an.Row, _ int) an.Tri {
			if r["len"] != "eq" {
				return an.F
			}
			return an.U
		}}
	res := t.Run()
	c.Check(res.OK(), "R12", "func=Lifecycler.compareTokens", fn.Pos(), "no accepting return is reachable when the ring's list and the own list differ in length: "+res.Summary(), res.Rows)
}

// c08HeartbeatClock (R13): the heartbeat timestamp of an instance entry is a reading of the wall clock — every
// store to InstanceDesc.Timestamp in package ring assigns time.Now().Unix(), the Unix() of a time parameter, the
// constant 0 (entries handed out to callers with the heartbeat blanked) or a copy of another entry's Timestamp.
// A value computed from the previous timestamp (previous+1, a max with it, …) can run ahead of the clock, and
// the next plain heartbeat then publishes a SMALLER timestamp: heartbeats must never go backwards, and the
// last-writer-wins merge would discard that heartbeat as stale.
func c08HeartbeatClock(c *core.Ctx, pkg *packages.Package) {
	nt := an.LookupType(pkg, "InstanceDesc")
	if nt == nil {
		c.Miss("R13", "type=InstanceDesc", "not found")
		return
	}
	var fld *types.Var
	st := nt.Underlying().(*types.Struct)
	for i := 0; i < st.NumFields(); i++ {
		if st.Field(i).Name() == "Timestamp" {
			fld = st.Field(i)
		}
	}
	if fld == nil {
		c.Miss("R13", "field=InstanceDesc.Timestamp", "not found")
		return
	}
	clockRe := regexp.MustCompile(`^(time\.Now\(\)|λ?p\d+|recv)\.Unix\(\)$`)
	per := map[string]int{}
	n := 0
	for _, a := range an.FieldAccesses(pkg, fld) {
		if !a.Write || strings.Contains(c.Prog.PosStr(a.Node.Pos()), ".pb.go:") {
			continue
		}
		var val ast.Expr
		switch x := a.Node.(type) {
		case *ast.KeyValueExpr:
			val = x.Value
		default:
			// find the assignment whose LHS is this selector
			a.In.InspectShallow(func(nd ast.Node) bool {
				if as, ok := nd.(*ast.AssignStmt); ok && len(as.Lhs) == len(as.Rhs) {
					for i, l := range as.Lhs {
						if an.Unparen(l) == a.Node && as.Tok == token.ASSIGN {
							val = as.Rhs[i]
						}
					}
				}
				return true
			})
		}
		per[a.Fn.Name]++
		key := fmt.Sprintf("heartbeat-store:func=%s#%d", a.Fn.Name, per[a.Fn.Name])
		n++
		if val == nil {
			c.Viol("R13", key, a.Node.Pos(), "InstanceDesc.Timestamp is modified by something other than a plain assignment (compound assignment, increment, address taken)")
			continue
		}
		cv := a.In.Canon(val)
		isTimeParam := false
		if m := clockRe.FindStringSubmatch(cv); m != nil {
			isTimeParam = true
		}
		ok := isTimeParam || cv == "0" || strings.HasSuffix(cv, ".Timestamp")
		c.Check(ok, "R13", key, a.Node.Pos(), fmt.Sprintf("heartbeat timestamp stored = %s (allowed: the wall clock's Unix(), 0, or a copy of another entry's Timestamp — never a value computed from the previous timestamp)", cv), 1)
	}
	if n < 5 {
		c.Undec("R13", "heartbeat-store:count", pkg.Syntax[0].Pos(), fmt.Sprintf("expected ≥ 5 stores to InstanceDesc.Timestamp in package ring, found %d", n))
	}
}
