package props

import (
	"fmt"
	"go/ast"
	"go/constant"
	"go/token"
	"go/types"
	"regexp/syntax"
	"sort"
	"strings"

	"dsverif/internal/an"
	"dsverif/internal/core"
	"golang.org/x/tools/go/packages"
)

func init() {
	Registry["C16"] = Prop{
		Patterns: []string{"./ring"},
		Run:      runC16,
		Explanation: "Decides structural necessary conditions of 'generated tokens are unique, untaken, sorted; the spread-minimising generator is reproducible': (R1) effect analysis of the call cone of SpreadMinimizingTokenGenerator.GenerateTokens: no clock, randomness, environment, goroutine, select, map iteration, package-level mutable state or FMA-fusable float expression, and the only receiver fields read are the instance and zone indexes; " +
			"(R2) rejection sampling in every TokenGenerator implementation: the taken set is a map filled from every element of the taken-tokens argument, a candidate is appended only if absent from that map (random generator: and is then recorded), results are returned sorted (sort dominates the return, or an index-ordered filter of a sorted list); (R4) token accounting in the placement loop: on every path of one iteration the token counter is incremented exactly as often as a token is appended; " +
			"(R3) partitions obtain tokens from the spread-minimising generator with their id, zone 0, nothing taken. (R5) the zone index is searched in a list that is sorted in place on every path where it is not sorted, so it does not depend on the configured zone order. Also: (R6) the instance index is the trailing number of the instance id: anchored pattern ending in the digits group, whose submatch is what is parsed. (R7) a Peek() pointer into a priority queue is never used after a reordering operation on that queue without a fresh Peek. NOT decided: the spread bound, congruence modulo zone count, cross-instance disjointness (arithmetic of the placement algorithm).",
	}
}

// coneOf returns the functions of pkg statically reachable from fn (including through function values referenced by name),
// plus the methods of named types of pkg that are used as container/heap interfaces.
func coneOf(c *core.Ctx, pkg *packages.Package, roots ...*an.Fn) map[string]*an.Fn {
	seen := map[string]*an.Fn{}
	var visit func(f *an.Fn)
	visit = func(f *an.Fn) {
		if f == nil || seen[f.Name] != nil {
			return
		}
		seen[f.Name] = f
		usesHeap := false
		for _, call := range f.Calls(true) {
			if cf := call.Func(); cf != nil {
				if cf.Pkg() == pkg.Types {
					visit(an.FnOf(c.Prog.ByPath, cf))
				}
				if cf.Pkg() != nil && cf.Pkg().Path() == "container/heap" {
					usesHeap = true
				}
			}
		}
		// references to package functions as values
		f.InspectDeep(func(n ast.Node) bool {
			if id, ok := n.(*ast.Ident); ok {
				if fo, ok := f.Info().Uses[id].(*types.Func); ok && fo.Pkg() == pkg.Types {
					visit(an.FnOf(c.Prog.ByPath, fo.Origin()))
				}
			}
			return true
		})
		if usesHeap {
			for _, g := range an.Funcs(pkg) {
				if strings.Contains(g.Name, "ownershipPriorityQueue") || strings.Contains(g.Name, "PriorityQueue") {
					visit(g)
				}
			}
		}
	}
	for _, r := range roots {
		visit(r)
	}
	return seen
}

// effectFindings lists nondeterminism sources in fn.
func effectFindings(c *core.Ctx, fn *an.Fn) []string {
	var out []string
	add := func(pos token.Pos, s string) { out = append(out, c.Prog.PosStr(pos)+": "+s) }
	for _, call := range fn.Calls(true) {
		o := call.Callee
		if o == nil || o.Pkg() == nil {
			continue
		}
		p := o.Pkg().Path()
		switch {
		case p == "time" && (o.Name() == "Now" || o.Name() == "Since" || o.Name() == "Until" || o.Name() == "After" || o.Name() == "Tick"):
			add(call.Expr.Pos(), "clock: time."+o.Name())
		case strings.HasPrefix(p, "math/rand") || p == "crypto/rand":
			if f, ok := o.(*types.Func); ok && f.Type().(*types.Signature).Recv() == nil && o.Name() != "New" && o.Name() != "NewSource" {
				add(call.Expr.Pos(), "global randomness: "+p+"."+o.Name())
			}
		case p == "os" && (o.Name() == "Getenv" || o.Name() == "Hostname" || o.Name() == "Getpid"):
			add(call.Expr.Pos(), "environment: os."+o.Name())
		case p == "sync" && strings.Contains(an.FuncDisplay(call.Func()), "Pool"):
			add(call.Expr.Pos(), "sync.Pool")
		}
	}
	fn.InspectDeep(func(n ast.Node) bool {
		switch x := n.(type) {
		case *ast.GoStmt:
			add(x.Pos(), "go statement")
		case *ast.SelectStmt:
			if len(x.Body.List) >= 2 {
				add(x.Pos(), "select with several cases")
			}
		case *ast.RangeStmt:
			if t := fn.Info().TypeOf(x.X); t != nil {
				if _, isMap := t.Underlying().(*types.Map); isMap {
					add(x.Pos(), "range over map "+types.ExprString(x.X))
				}
			}
		case *ast.Ident:
			if v, ok := fn.Info().Uses[x].(*types.Var); ok && v.Pkg() != nil && v.Parent() == v.Pkg().Scope() && !strings.HasPrefix(v.Name(), "Err") && !strings.HasPrefix(v.Name(), "err") {
				// variables of other packages (binary.BigEndian, …) and package variables never assigned after
				// their declaration are constants in effect
				if v.Pkg() == fn.Pkg.Types && pkgVarAssigned(fn.Pkg, v) {
					add(x.Pos(), "package-level mutable variable "+v.Name())
				}
			}
		case *ast.BinaryExpr:
			if x.Op == token.ADD || x.Op == token.SUB {
				if bt, ok := fn.Info().TypeOf(x).Underlying().(*types.Basic); ok && bt.Info()&types.IsFloat != 0 {
					for _, op := range []ast.Expr{x.X, x.Y} {
						if m, ok := an.Unparen(op).(*ast.BinaryExpr); ok && m.Op == token.MUL {
							add(x.Pos(), "FMA-fusable float expression "+types.ExprString(x))
						}
					}
				}
			}
		}
		return true
	})
	return out
}

func runC16(c *core.Ctx) {
	c.Rule("R1", "spread-minimising generation is a pure function of (instance index, zone index)", 16)
	c.Rule("R2", "rejection sampling against the complete taken set; only the filtered slice is returned; sorted result", 8)
	c.Rule("R3", "partition tokens come from the spread-minimising generator (id, zone 0, nothing taken)", 1)
	c.Rule("R4", "token counter and appended tokens agree on every path of the placement loop", 1)
	c.Rule("R5", "the zone index is the zone's position in the sorted zone list, whatever order the zones are configured in; an unknown zone is refused", 2)
	c.Rule("R6", "the instance index is the trailing number of the instance id: anchored pattern ending in the digits group, whose submatch is what is parsed", 2)
	c.Rule("R7", "a Peek() pointer into a priority queue is never used after a reordering operation on that queue without a fresh Peek", 2)
	pkg := c.Prog.Pkg("ring")
	if pkg == nil {
		c.Miss("R1", "pkg=ring", "not loaded")
		return
	}
	c16ZoneIndex(c, pkg)
	c16Identity(c, pkg)
	c16StalePeek(c, pkg)
	root := an.FindFunc(pkg, "SpreadMinimizingTokenGenerator.GenerateTokens")
	if root == nil {
		c.Miss("R1", "func=SpreadMinimizingTokenGenerator.GenerateTokens", "not found")
		return
	}
	cone := coneOf(c, pkg, root)
	names := make([]string, 0, len(cone))
	for n := range cone {
		names = append(names, n)
	}
	sort.Strings(names)
	for _, n := range names {
		fn := cone[n]
		c.Analysed(fn.String())
		f := effectFindings(c, fn)
		c.Check(len(f) == 0, "R1", "cone:func="+n, fn.Pos(), fmt.Sprintf("no nondeterminism source (clock, global rand, env, go, select, map range, package variable, fusable float expr): %v", f), 1)
	}
	// receiver fields read in the cone
	st := an.LookupType(pkg, "SpreadMinimizingTokenGenerator")
	if st != nil {
		reads := map[string]bool{}
		sst := st.Underlying().(*types.Struct)
		for i := 0; i < sst.NumFields(); i++ {
			for _, a := range an.FieldAccesses(pkg, sst.Field(i)) {
				if cone[a.Fn.Name] != nil {
					reads[sst.Field(i).Name()] = true
				}
			}
		}
		ok := true
		for r := range reads {
			if r != "instanceID" && r != "zoneID" {
				ok = false
			}
		}
		c.Check(ok && reads["instanceID"], "R1", "receiver-fields", root.Pos(), fmt.Sprintf("generator fields read in the cone: %v (only the instance and zone indexes may influence tokens)", keys(reads)), len(reads))
	}
	// ---- R2 per implementation
	iface := an.LookupIface(pkg, "TokenGenerator")
	nImpl := 0
	for _, nt := range an.NamedTypes(pkg) {
		if _, isIface := nt.Underlying().(*types.Interface); isIface || iface == nil || !an.Implements(nt, iface) {
			continue
		}
		fn := an.Method(c.Prog.ByPath, nt, "GenerateTokens")
		if fn == nil {
			continue
		}
		nImpl++
		c.Analysed(fn.String())
		c16Sampling(c, pkg, fn)
	}
	if nImpl < 2 {
		c.Undec("R2", "implementations", pkg.Syntax[0].Pos(), fmt.Sprintf("expected ≥2 TokenGenerator implementations, found %d", nImpl))
	}
	// ---- R4
	if fn := an.FindFunc(pkg, "SpreadMinimizingTokenGenerator.generateTokensByInstanceID"); fn != nil {
		c16Counter(c, fn)
	} else {
		c.Miss("R4", "func=generateTokensByInstanceID", "not found")
	}
	// ---- R3
	if fn := an.FindFunc(pkg, "PartitionRingDesc.AddPartition"); fn != nil {
		c.Analysed(fn.String())
		tok := ""
		fn.InspectShallow(func(n ast.Node) bool {
			if kv, ok := n.(*ast.KeyValueExpr); ok {
				if id, ok := kv.Key.(*ast.Ident); ok && id.Name == "Tokens" {
					tok = fn.Canon(kv.Value)
				}
			}
			return true
		})
		want := `NewSpreadMinimizingTokenGeneratorForInstanceAndZoneID("", p0, 0, false).GenerateTokens(optimalTokensPerInstance, nil)`
		c.Check(tok == want, "R3", "func=AddPartition", fn.Pos(), "partition tokens = "+tok, 1)
	} else {
		c.Miss("R3", "func=AddPartition", "not found")
	}
}

func c16Sampling(c *core.Ctx, pkg *packages.Package, fn *an.Fn) {
	g := fn.Graph()
	key := "impl=" + fn.Name
	// taken set: a map filled by ranging over p1
	var used types.Object
	usedCanon := ""
	fillOK := false
	for _, rs := range rangeLoops(fn, "p1") {
		header, body, _ := g.LoopBlocks(rs)
		ast.Inspect(rs.Body, func(n ast.Node) bool {
			if as, ok := n.(*ast.AssignStmt); ok && len(as.Lhs) == 1 {
				if ix, ok := as.Lhs[0].(*ast.IndexExpr); ok && fn.Canon(ix.Index) == "each(p1)" && fn.Canon(as.Rhs[0]) == "true" {
					if _, isMap := fn.Info().TypeOf(ix.X).Underlying().(*types.Map); isMap {
						used = fn.ObjOf(ix.X)
						usedCanon = fn.Canon(ix.X)
						ex := g.Exec(an.Loc{B: body, I: 0}, []an.Loc{g.Locate(as)}, func(ast.Expr, an.Store) an.Tri { return an.U }, an.ExecOpts{Header: header})
						fillOK = ex.Must[0]
					}
				}
			}
			return true
		})
	}
	if used == nil || !fillOK {
		c.Viol("R2", key+":taken-set", fn.Pos(), "the taken tokens are not collected into a set by an unconditional store for every element of the argument (membership must not depend on the argument's order)")
		return
	}
	c.Hold("R2", key+":taken-set", fn.Pos(), "taken set "+used.Name()+" is filled with every element of the taken-tokens argument", 1)
	// appends to the result
	var result types.Object
	for _, b := range g.Blocks {
		if r := an.ReturnOf(b); r != nil && len(r.Results) == 1 {
			if o := fn.ObjOf(r.Results[0]); o != nil {
				result = o
			}
		}
	}
	if result == nil {
		c.Undec("R2", key+":append", fn.Pos(), "returned slice variable not found")
		return
	}
	// every return hands back the filtered slice (or nothing): no path returns unfiltered candidates
	var otherRet []string
	for _, b := range g.Blocks {
		if r := an.ReturnOf(b); r != nil && len(r.Results) == 1 {
			if o := fn.ObjOf(r.Results[0]); o != result {
				rc := fn.Canon(r.Results[0])
				if rc != "nil" && !strings.HasSuffix(rc, "{}") {
					otherRet = append(otherRet, rc)
				}
			}
		}
	}
	c.Check(len(otherRet) == 0, "R2", key+":returns", fn.Pos(), fmt.Sprintf("every return hands back %s, the slice built by the guarded appends; other returned values: %v", result.Name(), otherRet), 1)
	n := 0
	for _, call := range fn.CallsTo(false, "", "append") {
		if len(call.Expr.Args) != 2 || fn.ObjOf(call.Expr.Args[0]) != result {
			continue
		}
		n++
		cand := call.Expr.Args[1]
		loop := loopOf(fn, call.Expr)
		if loop == nil {
			c.Undec("R2", key+":append", call.Expr.Pos(), "append outside a loop")
			continue
		}
		header, body, _ := g.LoopBlocks(loop)
		cc := fn.Canon(cand)
		t := an.Table{G: g, From: an.Loc{B: body, I: 0}, Opts: an.ExecOpts{Header: header}, MayOnly: true, Atoms: []an.Atom{{Name: "taken", Values: []string{"T", "F"}}},
			Binder: &an.Binder{Fn: fn, Bool: map[string]string{usedCanon + "[" + cc + "]": "taken", used.Name() + "[" + cc + "]": "taken"}}, Targets: []an.Loc{g.Locate(call.Expr)},
			Want: func(r an.Row, _ int) an.Tri { return an.FromBool(r["taken"] == "F") }}
		res := t.Run()
		c.Check(res.OK(), "R2", key+":append", call.Expr.Pos(), "a candidate is appended only if it is not in the taken set: "+res.Summary(), res.Rows)
		// if candidates come from a random source, the candidate must be recorded before the append (no duplicates within the result)
		if strings.Contains(cc, ".Uint32()") || strings.Contains(cc, "rand") {
			rec := false
			ast.Inspect(loop, func(nd ast.Node) bool {
				if as, ok := nd.(*ast.AssignStmt); ok && len(as.Lhs) == 1 {
					if ix, ok := as.Lhs[0].(*ast.IndexExpr); ok && fn.ObjOf(ix.X) == used && fn.Canon(ix.Index) == cc && fn.Canon(as.Rhs[0]) == "true" && g.NodeBefore(as, call.Expr) {
						rec = true
					}
				}
				return true
			})
			c.Check(rec, "R2", key+":record", call.Expr.Pos(), "each accepted random candidate is added to the taken set before it is appended (no duplicate within one call)", 1)
		}
	}
	if n == 0 {
		c.Undec("R2", key+":append", fn.Pos(), "no append to the returned slice found")
	}
	// sortedness of the result
	sorted := false
	why := ""
	for _, call := range fn.Calls(false) {
		if (call.Is("sort", "Slice") || call.Is("sort", "Sort") || call.Is("slices", "Sort")) && len(call.Expr.Args) >= 1 && fn.ObjOf(call.Expr.Args[0]) == result {
			for _, b := range g.Blocks {
				if r := an.ReturnOf(b); r != nil && fn.ObjOf(r.Results[0]) == result && g.NodeBefore(call.Expr, r) {
					sorted, why = true, "sort of the result dominates the return"
				}
			}
		}
	}
	if !sorted {
		// index-ordered filter of a sorted list: candidates are src[i] with i the loop counter of `for i := 0; …; i++`, src sorted by its producer
		for _, call := range fn.CallsTo(false, "", "append") {
			if len(call.Expr.Args) == 2 && fn.ObjOf(call.Expr.Args[0]) == result {
				if fs, ok := loopOf(fn, call.Expr).(*ast.ForStmt); ok {
					if post, ok := fs.Post.(*ast.IncDecStmt); ok && post.Tok == token.INC {
						cc := fn.Canon(call.Expr.Args[1])
						if strings.HasSuffix(cc, "["+post.X.(*ast.Ident).Name+"]") && strings.HasPrefix(cc, "recv.generateAllTokens()#0") {
							if gen := an.FindFunc(pkg, "SpreadMinimizingTokenGenerator.generateAllTokens"); gen != nil {
								gg := gen.Graph()
								for _, sc := range gen.CallsTo(false, "slices", "Sort") {
									for _, b := range gg.Blocks {
										if r := an.ReturnOf(b); r != nil && gen.ObjOf(r.Results[0]) == gen.ObjOf(sc.Expr.Args[0]) && gg.NodeBefore(sc.Expr, r) {
											sorted, why = true, "index-ordered filter of generateAllTokens(), whose result is sorted before it is returned"
										}
									}
								}
							}
						}
					}
				}
			}
		}
	}
	c.Check(sorted, "R2", key+":sorted", fn.Pos(), "result is returned sorted: "+why, 1)
}

func c16Counter(c *core.Ctx, fn *an.Fn) {
	g := fn.Graph()
	c.Analysed(fn.String())
	// the placement loop: for … counter < optimalTokensPerInstance …
	var loop *ast.ForStmt
	fn.InspectShallow(func(n ast.Node) bool {
		if fs, ok := n.(*ast.ForStmt); ok {
			if be, ok := fs.Cond.(*ast.BinaryExpr); ok && be.Op == token.LSS && fn.Canon(be.Y) == "optimalTokensPerInstance" {
				loop = fs
			}
		}
		return true
	})
	if loop == nil {
		c.Undec("R4", "func=generateTokensByInstanceID:loop", fn.Pos(), "placement loop `counter < optimalTokensPerInstance` not found")
		return
	}
	counter := fn.ObjOf(loop.Cond.(*ast.BinaryExpr).X)
	var incs, apps []an.Loc
	var tokensVar types.Object
	ast.Inspect(loop, func(n ast.Node) bool {
		switch x := n.(type) {
		case *ast.IncDecStmt:
			if fn.ObjOf(x.X) == counter && x.Tok == token.INC {
				incs = append(incs, g.Locate(x))
			}
		case *ast.AssignStmt:
			if len(x.Lhs) == 1 && len(x.Rhs) == 1 {
				if call, ok := x.Rhs[0].(*ast.CallExpr); ok && an.ObjIs(an.Callee(fn.Info(), call), "", "append") && fn.ObjOf(x.Lhs[0]) == fn.ObjOf(call.Args[0]) {
					if t := fn.Info().TypeOf(x.Lhs[0]); t != nil && strings.HasSuffix(t.String(), "ring.Tokens") {
						apps = append(apps, g.Locate(x))
						tokensVar = fn.ObjOf(x.Lhs[0])
					}
				}
				if fn.ObjOf(x.Lhs[0]) == counter && x.Tok != token.DEFINE {
					incs = append(incs, g.Locate(x)) // any other update of the counter counts as an event
				}
			}
		}
		return true
	})
	header, body, _ := g.LoopBlocks(loop)
	if len(incs) == 0 || len(apps) == 0 || body == nil {
		c.Undec("R4", "func=generateTokensByInstanceID:events", loop.Pos(), fmt.Sprintf("counter increments %d, token appends %d", len(incs), len(apps)))
		return
	}
	targets := append(append([]an.Loc{}, incs...), apps...)
	ex := g.Exec(an.Loc{B: body, I: 0}, targets, func(ast.Expr, an.Store) an.Tri { return an.U }, an.ExecOpts{Header: header, Record: true})
	bad := 0
	for _, tr := range ex.Traces {
		ni, na := 0, 0
		for _, h := range tr {
			if h.Target < len(incs) {
				ni++
			} else {
				na++
			}
		}
		if ni != na {
			bad++
		}
	}
	// the stored list is the appended one
	stored := false
	fn.InspectShallow(func(n ast.Node) bool {
		if as, ok := n.(*ast.AssignStmt); ok && len(as.Lhs) == 1 {
			if _, ok := as.Lhs[0].(*ast.IndexExpr); ok && tokensVar != nil && fn.ObjOf(as.Rhs[0]) == tokensVar {
				stored = true
			}
		}
		return true
	})
	c.Check(bad == 0 && len(ex.Traces) > 0 && stored, "R4", "func=generateTokensByInstanceID:counter", loop.Pos(), fmt.Sprintf("%d iteration paths: the token counter is incremented exactly when a token is appended (%d paths disagree); the appended list is what is stored per instance=%v", len(ex.Traces), bad, stored), len(ex.Traces))
}

// pkgVarAssigned reports whether package variable v is assigned anywhere in its package's function bodies.
func pkgVarAssigned(pkg *packages.Package, v *types.Var) bool {
	assigned := false
	for _, fn := range an.Funcs(pkg) {
		fn.InspectDeep(func(n ast.Node) bool {
			switch s := n.(type) {
			case *ast.AssignStmt:
				for _, l := range s.Lhs {
					root := l
					for {
						switch x := an.Unparen(root).(type) {
						case *ast.IndexExpr:
							root = x.X
							continue
						case *ast.SelectorExpr:
							root = x.X
							continue
						case *ast.StarExpr:
							root = x.X
							continue
						}
						break
					}
					if id, ok := an.Unparen(root).(*ast.Ident); ok && fn.Info().Uses[id] == v {
						assigned = true
					}
				}
			case *ast.IncDecStmt:
				if id, ok := an.Unparen(s.X).(*ast.Ident); ok && fn.Info().Uses[id] == v {
					assigned = true
				}
			case *ast.UnaryExpr:
				if s.Op == token.AND {
					if id, ok := an.Unparen(s.X).(*ast.Ident); ok && fn.Info().Uses[id] == v {
						assigned = true
					}
				}
			}
			return true
		})
	}
	return assigned
}

// c16ZoneIndex (R5): the list handed to findZoneID is sorted whenever slices.IsSorted says it is not —
// by a sort call on that very variable — and the index found is what the generator is built with.
func c16ZoneIndex(c *core.Ctx, pkg *packages.Package) {
	fn := an.FindFunc(pkg, "NewSpreadMinimizingTokenGenerator")
	if fn == nil {
		c.Miss("R5", "func=NewSpreadMinimizingTokenGenerator", "not found")
		return
	}
	c.Analysed(fn.String())
	g := fn.Graph()
	finds := fn.CallsTo(false, "ring", "findZoneID")
	if len(finds) != 1 || len(finds[0].Expr.Args) != 2 {
		c.Undec("R5", "func=NewSpreadMinimizingTokenGenerator", fn.Pos(), "expected one findZoneID(zone, zones) call")
		return
	}
	zobj := fn.ObjOf(finds[0].Expr.Args[1])
	if zobj == nil {
		c.Undec("R5", "func=NewSpreadMinimizingTokenGenerator", finds[0].Expr.Pos(), "the zone list given to findZoneID is not a variable: "+fn.Canon(finds[0].Expr.Args[1]))
		return
	}
	var sorts []an.Loc
	checked := false
	for _, call := range fn.Calls(false) {
		if (call.Is("sort", "Strings") || call.Is("slices", "Sort")) && len(call.Expr.Args) == 1 && fn.ObjOf(call.Expr.Args[0]) == zobj {
			sorts = append(sorts, g.Locate(call.Expr))
		}
		if call.Is("slices", "IsSorted") && len(call.Expr.Args) == 1 && fn.ObjOf(call.Expr.Args[0]) == zobj {
			checked = true
		}
	}
	if len(sorts) != 1 {
		c.Viol("R5", "func=NewSpreadMinimizingTokenGenerator", finds[0].Expr.Pos(), fmt.Sprintf("the list searched by findZoneID (%s) is sorted by %d sort calls on that variable: the zone index would depend on the order the zones are configured in", zobj.Name(), len(sorts)))
		return
	}
	// every path that reaches findZoneID with IsSorted=false passed through the sort
	bd := &an.Binder{Fn: fn, Re: []an.ReRole{an.RE(`^slices\.IsSorted\(.*\)$`, "ISSORTED")}, Bool: map[string]string{"ISSORTED": "sorted"}, Row: an.Row{"sorted": "F"}}
	ex := g.Exec(g.EntryLoc(), []an.Loc{sorts[0], g.Locate(finds[0].Expr)}, bd.Leaf, an.ExecOpts{Record: true})
	ok := true
	for _, tr := range ex.Traces {
		seenSort := false
		for _, h := range tr {
			if h.Target == 0 {
				seenSort = true
			}
			if h.Target == 1 && !seenSort {
				ok = false
			}
		}
	}
	zid := ""
	for _, call := range fn.CallsTo(false, "ring", "NewSpreadMinimizingTokenGeneratorForInstanceAndZoneID") {
		if len(call.Expr.Args) >= 3 {
			zid = fn.Canon(call.Expr.Args[2])
		}
	}
	c.Check(ok && ex.May[1] && strings.HasPrefix(zid, "findZoneID(") && strings.HasSuffix(zid, "#0"), "R5", "func=NewSpreadMinimizingTokenGenerator", finds[0].Expr.Pos(),
		fmt.Sprintf("findZoneID searches %s, which is sorted in place on every path where it is not already sorted (IsSorted tested on it: %v); the generator is built with that index (%s): %d paths", zobj.Name(), checked, zid, ex.Paths), ex.Paths)
}

// c16Identity (R5, R6): the generator is a function of (instance index, zone index) only if the two parsers
// are exact. findZoneID answers the position of an element equal to the zone (slices.Index, negative ⇒
// error). parseInstanceID takes the number from the last capture group of a pattern that is anchored at
// both ends and ends in that digits group, so nothing after the number can be mistaken for it.
func c16Identity(c *core.Ctx, pkg *packages.Package) {
	if fn := an.FindFunc(pkg, "findZoneID"); fn != nil {
		c.Analysed(fn.String())
		g := fn.Graph()
		var succ []*ast.ReturnStmt
		for _, b := range g.Blocks {
			if r := an.ReturnOf(b); r != nil && len(r.Results) == 2 && fn.Canon(r.Results[1]) == "nil" {
				succ = append(succ, r)
			}
		}
		if len(succ) != 1 {
			c.Undec("R5", "func=findZoneID", fn.Pos(), fmt.Sprintf("expected one successful return, found %d", len(succ)))
		} else {
			v := fn.Canon(succ[0].Results[0])
			t := an.Table{G: g, From: g.EntryLoc(), FreeUnknown: true, MayOnly: true, Atoms: []an.Atom{{Name: "idx", Values: []string{"lt", "eq", "gt"}}},
				Binder: &an.Binder{Fn: fn, Cmp: map[string]string{"slices.Index(p1, p0)|0": "idx"}}, Targets: []an.Loc{g.Locate(succ[0])},
				Want: func(r an.Row, _ int) an.Tri {
					if r["idx"] == "lt" {
						return an.F
					}
					return an.T
				}}
			res := t.Run()
			c.Check(v == "slices.Index(p1, p0)" && res.OK(), "R5", "func=findZoneID", fn.Pos(), "answers slices.Index(zones, zone) (the position of an equal element), and an error when there is none: "+v+"; "+res.Summary(), res.Rows)
		}
	} else {
		c.Miss("R5", "func=findZoneID", "not found")
	}
	// the pattern
	var pat string
	var patPos token.Pos
	for _, f := range pkg.Syntax {
		ast.Inspect(f, func(n ast.Node) bool {
			vs, ok := n.(*ast.ValueSpec)
			if !ok {
				return true
			}
			for i, name := range vs.Names {
				if name.Name == "instanceIDRegex" && i < len(vs.Values) {
					if call, ok := vs.Values[i].(*ast.CallExpr); ok && len(call.Args) == 1 {
						if tv, ok := pkg.TypesInfo.Types[call.Args[0]]; ok && tv.Value != nil {
							pat = constant.StringVal(tv.Value)
							patPos = call.Pos()
						}
					}
				}
			}
			return true
		})
	}
	if pat == "" {
		c.Miss("R6", "var=instanceIDRegex", "pattern not found")
		return
	}
	re, err := syntax.Parse(pat, syntax.Perl)
	okPat, groups := false, 0
	if err == nil {
		re = re.Simplify()
		groups = re.MaxCap()
		if re.Op == syntax.OpConcat && len(re.Sub) >= 3 && re.Sub[0].Op == syntax.OpBeginText && re.Sub[len(re.Sub)-1].Op == syntax.OpEndText {
			last := re.Sub[len(re.Sub)-2]
			if last.Op == syntax.OpCapture && last.Cap == groups && len(last.Sub) == 1 {
				d := last.Sub[0]
				if d.Op == syntax.OpPlus && len(d.Sub) == 1 && d.Sub[0].Op == syntax.OpCharClass && string(d.Sub[0].Rune) == "09" {
					okPat = true
				}
			}
		}
	}
	c.Check(okPat, "R6", "var=instanceIDRegex", patPos, fmt.Sprintf("pattern %q is anchored at both ends and its last element is the final capture group, one or more digits", pat), 1)
	if fn := an.FindFunc(pkg, "parseInstanceID"); fn != nil {
		c.Analysed(fn.String())
		okArg := false
		detail := ""
		for _, call := range fn.CallsTo(false, "strconv", "Atoi") {
			detail = fn.Canon(call.Expr.Args[0])
			okArg = strings.TrimPrefix(detail, "pkg.") == fmt.Sprintf("instanceIDRegex.FindStringSubmatch(p0)[%d]", groups)
		}
		c.Check(okArg, "R6", "func=parseInstanceID", fn.Pos(), fmt.Sprintf("the index is parsed from the last submatch (group %d) of the match on the whole id: %s", groups, detail), 1)
	} else {
		c.Miss("R6", "func=parseInstanceID", "not found")
	}
}

// c16StalePeek (R7): Peek() of the ownership priority queue returns a POINTER into the queue's backing array
// (the root element). Any operation that reorders or resizes that queue (container/heap Pop, Push, Fix, Init,
// Remove, or the queue's own Push/Pop/Swap) makes the pointer refer to a different element. No use of such a
// pointer may therefore be reachable from a reordering operation on the same queue without the pointer being
// re-read in between. (The generator sets the highest-ownership instance aside by popping it: reading it through
// the stale pointer after the pop yields the NEW root — one instance is lost, another is queued twice, and the
// ownership spread grows without bound, while tokens stay unique and sorted.)
func c16StalePeek(c *core.Ctx, pkg *packages.Package) {
	n := 0
	for _, top := range an.Funcs(pkg) {
		if strings.HasSuffix(c.Prog.Fset.Position(top.Pos()).Filename, ".pb.go") {
			continue
		}
		for _, fn := range append([]*an.Fn{top}, top.AllLits()...) {
			info := fn.Info()
			// pointer variables defined by q.Peek()
			type peek struct {
				ptr, queue types.Object
				defs       []ast.Node
			}
			peeks := map[types.Object]*peek{}
			fn.InspectShallow(func(nd ast.Node) bool {
				as, ok := nd.(*ast.AssignStmt)
				if !ok || len(as.Lhs) != 1 || len(as.Rhs) != 1 {
					return true
				}
				call, ok := an.Unparen(as.Rhs[0]).(*ast.CallExpr)
				if !ok {
					return true
				}
				sel, ok := call.Fun.(*ast.SelectorExpr)
				if !ok || sel.Sel.Name != "Peek" {
					return true
				}
				if t := info.TypeOf(sel.X); t == nil || !strings.Contains(t.String(), "ownershipPriorityQueue") {
					return true
				}
				p, q := fn.ObjOf(as.Lhs[0]), fn.ObjOf(sel.X)
				if p == nil || q == nil {
					return true
				}
				if peeks[p] == nil {
					peeks[p] = &peek{ptr: p, queue: q}
				}
				if peeks[p].queue != q {
					peeks[p].queue = nil // same variable peeks different queues: undecided below
				}
				peeks[p].defs = append(peeks[p].defs, as)
				return true
			})
			if len(peeks) == 0 {
				continue
			}
			g := fn.Graph()
			for _, pk := range peeks {
				n++
				key := fmt.Sprintf("peek:func=%s:var=%s", fn.Name, pk.ptr.Name())
				if pk.queue == nil {
					c.Undec("R7", key, pk.defs[0].Pos(), "one variable holds Peek() results of different queues")
					continue
				}
				// reordering operations on the queue
				var reorders []ast.Node
				for _, call := range fn.Calls(false) {
					f := call.Func()
					if f == nil || len(call.Expr.Args) == 0 && f.Pkg() != nil && f.Pkg().Path() == "container/heap" {
						continue
					}
					onQueue := func(e ast.Expr) bool {
						e = an.Unparen(e)
						if u, ok := e.(*ast.UnaryExpr); ok && u.Op == token.AND {
							e = an.Unparen(u.X)
						}
						return fn.ObjOf(e) == pk.queue
					}
					if f.Pkg() != nil && f.Pkg().Path() == "container/heap" {
						switch f.Name() {
						case "Pop", "Push", "Fix", "Init", "Remove":
							if len(call.Expr.Args) > 0 && onQueue(call.Expr.Args[0]) {
								reorders = append(reorders, call.Expr)
							}
						}
						continue
					}
					if sel, ok := call.Expr.Fun.(*ast.SelectorExpr); ok && onQueue(sel.X) {
						switch f.Name() {
						case "Pop", "Push", "Swap", "Add":
							reorders = append(reorders, call.Expr)
						}
					}
				}
				var defLocs []an.Loc
				for _, d := range pk.defs {
					defLocs = append(defLocs, g.Locate(d))
				}
				// uses of the pointer (not its definitions)
				var bad []string
				uses := 0
				fn.InspectShallow(func(nd ast.Node) bool {
					id, ok := nd.(*ast.Ident)
					if !ok || info.Uses[id] != pk.ptr {
						return true
					}
					uses++
					ul := g.Locate(id)
					for _, r := range reorders {
						rl := g.Locate(r)
						if rl == ul {
							continue // the use is an argument of the reordering call itself (evaluated before it)
						}
						if g.ReachAvoiding(rl, ul, defLocs) {
							bad = append(bad, fmt.Sprintf("%s used at %s after %s at %s", pk.ptr.Name(), c.Prog.PosStr(id.Pos()), types.ExprString(r.(*ast.CallExpr).Fun), c.Prog.PosStr(r.Pos())))
						}
					}
					return true
				})
				c.Check(len(bad) == 0, "R7", key, pk.defs[0].Pos(), fmt.Sprintf("%s = %s.Peek() points into the queue's storage: %d uses, %d reordering operations on that queue, uses reachable from a reordering without a fresh Peek: %v", pk.ptr.Name(), pk.queue.Name(), uses, len(reorders), bad), uses*max(1, len(reorders)))
			}
		}
	}
	if n < 2 {
		c.Undec("R7", "peek:count", pkg.Syntax[0].Pos(), fmt.Sprintf("expected ≥ 2 Peek() pointers in the generator, found %d", n))
	}
}
