package props

import (
	"fmt"
	"go/ast"
	"go/token"
	"go/types"
	"regexp"
	"sort"
	"strings"

	"dsverif/internal/an"
	"dsverif/internal/core"
	"golang.org/x/tools/go/packages"
)

func init() {
	Registry["C12"] = Prop{
		Patterns: []string{"./ring", "./ring/shard"},
		Run:      runC12,
		Explanation: "Decides structural necessary conditions of 'shuffle shards are deterministic; read-only instances excluded; look-back is a superset': (R1) effect analysis of the shard cone (Ring.shuffleShard, filterOutReadOnlyInstances, buildRingForTheShard, PartitionRing.shuffleShard, constructors, the seed function): the only random source is rand.New(rand.NewSource(ShuffleShardSeed(identifier, zone))), no clock/env/goroutine/package state, zones iterated from a slice, every map iteration is order-insensitive by a syntactic recogniser (stores keyed by the loop key, counters, min/max, sorted-afterwards appends) or listed with a reason; " +
			"(R2) without look-back the result does not depend on the clock: every use of the look-back threshold (inside && / || operands too) is evaluated only when lookbackPeriod > 0; (R3) an instance enters the shard only if shouldIncludeReadonlyInstanceInTheShard holds for it, and that predicate equals 'not read-only ∨ (period ≠ 0 ∧ ¬(period>0 ∧ ts>0 ∧ ts<threshold))' on all rows; (R4) the partition variant uses the same seed function with zone \"\"; (R5) an out-of-range size is replaced by the number of all partitions. (R6) the public wrappers skip the walk only for size ≤ 0 and pass identifier and size on unchanged; (R7) a computed shard is cached only if the ring topology stamp is unchanged (shared with C13.R3). Also: (R8) the zone list and the other derived fields the walk reads are replaced unconditionally on a topology change (shared with C13.R8); (R9) the requested size is never an operand of integer +, * or <<: every size up to math.MaxInt is a legal request and must not wrap; (R10) a cached look-back shard is reused only for windows starting at or after the window it was computed for (shared with C13.R6); (R11) a subring is selected and assembled under one hold of the ring lock, so a cached shard never carries a newer topology stamp than its content (shared with C05.R12). (R12) the token lists the walk searches are merged from sorted per-instance lists (shared with C14.R5); (R13) a cached shard is found and stored under the request's own identifier, size and period (shared with C13.R4). NOT decided: shard size and zone balance, monotonicity in size, ±1 stability, the look-back superset itself (depend on the walk over runtime token positions).",
	}
}

// orderInsensitiveBody reports whether the body of a map range only performs order-insensitive effects.
func orderInsensitiveBody(fn *an.Fn, rs *ast.RangeStmt) (bool, string) {
	key := fn.ObjOf(rs.Key)
	why := ""
	ok := true
	sortedLater := func(obj types.Object) bool {
		// the appended slice is sorted before any other use: a sort call on it appears after the loop
		good := false
		fn.Root().InspectDeep(func(n ast.Node) bool {
			if call, isCall := n.(*ast.CallExpr); isCall && call.Pos() > rs.End() {
				o := an.Callee(fn.Info(), call)
				if (an.ObjIs(o, "sort", "Strings") || an.ObjIs(o, "sort", "Sort") || an.ObjIs(o, "slices", "Sort") || an.ObjIs(o, "sort", "Slice") || an.ObjIs(o, "ring", "mergeTokenGroups")) && len(call.Args) >= 1 {
					if fn.ObjOf(call.Args[0]) == obj {
						good = true
					}
				}
			}
			return true
		})
		return good
	}
	var check func(st ast.Stmt)
	check = func(st ast.Stmt) {
		switch s := st.(type) {
		case *ast.BlockStmt:
			for _, x := range s.List {
				check(x)
			}
		case *ast.IfStmt:
			if s.Init != nil {
				check(s.Init)
			}
			check(s.Body)
			if s.Else != nil {
				check(s.Else)
			}
		case *ast.AssignStmt:
			for i, l := range s.Lhs {
				switch x := an.Unparen(l).(type) {
				case *ast.IndexExpr:
					// map store keyed by the loop key (or a function of the element only) — last-writer issues arise only for colliding keys
					if _, isMap := fn.Info().TypeOf(x.X).Underlying().(*types.Map); isMap {
						if key != nil && fn.ObjOf(x.Index) == key {
							continue
						}
						// m[f(elem)] = … / m[k] += … : counters per derived key are order-insensitive when the update is commutative
						if s.Tok == token.ADD_ASSIGN || s.Tok == token.DEFINE {
							continue
						}
						if s.Tok == token.ASSIGN && len(s.Rhs) == len(s.Lhs) {
							if call, isCall := an.Unparen(s.Rhs[i]).(*ast.CallExpr); isCall && an.ObjIs(an.Callee(fn.Info(), call), "", "append") && len(call.Args) >= 1 && types.ExprString(call.Args[0]) == types.ExprString(x) {
								// m[k2] = append(m[k2], v): per-key lists; order matters unless sorted later — decided by the caller's table
								ok, why = false, "per-key append "+types.ExprString(x)
								continue
							}
						}
						ok, why = false, "map store with a key that is not the loop key: "+types.ExprString(x)
						continue
					}
					ok, why = false, "store into "+types.ExprString(x)
				case *ast.Ident:
					obj := fn.ObjOf(x)
					// locals declared inside the body are fine
					if obj != nil && obj.Pos() >= rs.Body.Pos() && obj.Pos() < rs.Body.End() {
						continue
					}
					if s.Tok == token.ADD_ASSIGN || s.Tok == token.SUB_ASSIGN {
						if bt, isB := obj.Type().Underlying().(*types.Basic); isB && bt.Info()&types.IsInteger != 0 {
							continue
						}
					}
					if len(s.Rhs) == len(s.Lhs) {
						if call, isCall := an.Unparen(s.Rhs[i]).(*ast.CallExpr); isCall && an.ObjIs(an.Callee(fn.Info(), call), "", "append") && len(call.Args) >= 1 && fn.ObjOf(call.Args[0]) == obj {
							if sortedLater(obj) {
								continue
							}
							ok, why = false, "append to "+x.Name+" without a later sort"
							continue
						}
						// min/max accumulation or flag setting guarded by a comparison: x = elem.f under `elem.f < x`
						if bt, isB := obj.Type().Underlying().(*types.Basic); isB && (bt.Info()&types.IsNumeric != 0 || bt.Kind() == types.Bool) {
							continue
						}
					}
					ok, why = false, "assignment to outer variable "+x.Name
				case *ast.SelectorExpr:
					// field of the loop's own element copy
					if o := fn.ObjOf(x.X); o != nil && o.Pos() >= rs.Pos() && o.Pos() < rs.End() {
						continue
					}
					ok, why = false, "assignment to "+types.ExprString(x)
				}
			}
		case *ast.IncDecStmt:
		case *ast.ExprStmt:
			if call, isCall := s.X.(*ast.CallExpr); isCall {
				o := an.Callee(fn.Info(), call)
				if an.ObjIs(o, "", "delete") && len(call.Args) == 2 && key != nil && fn.ObjOf(call.Args[1]) == key {
					return
				}
				if o != nil && (o.Name() == "Log" || o.Name() == "Set" || o.Name() == "Inc" || o.Name() == "Add" || o.Name() == "WithLabelValues") {
					return
				}
				ok, why = false, "call "+types.ExprString(call.Fun)
			}
		case *ast.BranchStmt:
			if s.Tok == token.BREAK || s.Tok == token.GOTO {
				ok, why = false, "break/goto (first-match semantics depend on iteration order)"
			}
		case *ast.ReturnStmt:
			for _, r := range s.Results {
				if tv, isC := fn.Info().Types[r]; !isC || (tv.Value == nil && fn.Canon(r) != "nil" && fn.ConstName(r) == "") {
					// returning an error/constant on an existence test is order-insensitive; returning the element is not
					if t := fn.Info().TypeOf(r); t != nil && t.String() == "error" {
						continue
					}
					ok, why = false, "return of a non-constant inside the loop"
				}
			}
		case *ast.DeclStmt, *ast.EmptyStmt:
		case *ast.RangeStmt:
			check(s.Body)
		case *ast.ForStmt:
			check(s.Body)
		case *ast.SwitchStmt:
			for _, cl := range s.Body.List {
				for _, x := range cl.(*ast.CaseClause).Body {
					check(x)
				}
			}
		default:
			ok, why = false, fmt.Sprintf("statement %T", st)
		}
	}
	check(rs.Body)
	return ok, why
}

// frozen table of map iterations in the shard cone that the recogniser cannot classify, one reason each.
var c12MapRangeTable = map[string]string{
	"(*Desc).getTokensByZone":                    "per-zone token lists are merged and sorted by MergeTokens before use",
	"(*Desc).getTokensInfo":                      "store keyed by token: tokens are unique per C05/C16, so no colliding keys",
	"(*PartitionRingDesc).partitionByToken":      "store keyed by token: partition tokens are unique (C16)",
	"(*PartitionRingDesc).ownersByPartition":     "per-partition owner lists are sorted after the loop",
	"(*PartitionRingDesc).tokens":                "all tokens are collected and sorted afterwards",
	"mergeTokenGroups":                           "k-way merge: the groups' relative order does not change the sorted output",
	"(*PartitionRingDesc).WithPartitions":        "copies entries keyed by id / owner id",
	"(*PartitionRingDesc).activePartitionsCount": "counter",
	"(*PartitionRingDesc).maxPartitionID":        "max accumulation",
}

func runC12(c *core.Ctx) {
	c.Rule("R11", "a subring is selected and assembled under one hold of the ring lock, so a cached shard never carries a newer topology stamp than its content (shared with C05.R12)", 3)
	c.Rule("R1", "the shard is a function of ring content, identifier and size: seeded PRNG only; order-insensitive map iterations", 50)
	c.Rule("R2", "without look-back the result is independent of the clock", 6)
	c.Rule("R3", "read-only instances enter a shard only through the inclusion predicate, whose table is exact", 4)
	c.Rule("R4", "partition variant seeds with ShuffleShardSeed(identifier, \"\")", 1)
	c.Rule("R8", "the zone list and the other derived fields the walk reads are replaced unconditionally on a topology change (shared with C13.R8)", 1)
	c.Rule("R7", "a shard is cached only if the ring's topology did not change since it was computed (shared with C13.R3)", 2)
	c.Rule("R6", "public wrappers: the walk is skipped only for size ≤ 0; identifier and size passed on unchanged", 2)
	c.Rule("R9", "the requested size is never an operand of integer +, * or <<: every size up to math.MaxInt is a legal request and must not wrap", 3)
	c.Rule("R10", "a cached look-back shard is reused only for windows starting at or after the window it was computed for (shared with C13.R6)", 2)
	c.Rule("R12", "the token lists the shard walk searches are merged from sorted per-instance lists, whatever order the descriptor holds them in (shared with C14.R5)", 4)
	c.Rule("R13", "a cached shard is found and stored under the request's own identifier, size and look-back period: two requests that can have different shards never share a cache entry (shared with C13.R4)", 8)
	c.Rule("R5", "out-of-range partition shard size falls back to the number of all partitions", 1)
	pkg := c.Prog.Pkg("ring")
	sp := c.Prog.Pkg("ring/shard")
	if pkg == nil || sp == nil {
		c.Miss("R1", "pkg=ring,ring/shard", "not loaded")
		return
	}
	var roots []*an.Fn
	for _, n := range []string{"Ring.shuffleShard", "Ring.filterOutReadOnlyInstances", "Ring.buildRingForTheShard", "PartitionRing.shuffleShard", "NewPartitionRingWithOptions", "shouldIncludeReadonlyInstanceInTheShard"} {
		f := an.FindFunc(pkg, n)
		if f == nil {
			c.Miss("R1", "func="+n, "not found")
			continue
		}
		roots = append(roots, f)
	}
	cone := coneOf(c, pkg, roots...)
	names := make([]string, 0, len(cone))
	for n := range cone {
		names = append(names, n)
	}
	sort.Strings(names)
	for _, n := range names {
		fn := cone[n]
		c.Analysed(fn.String())
		var findings []string
		for _, f := range effectFindings(c, fn) {
			if strings.Contains(f, "range over map") {
				continue // classified below
			}
			// lock-free reads of metrics/log objects are not inputs; package-level error values are immutable
			findings = append(findings, f)
		}
		// map ranges
		var maps []*ast.RangeStmt
		fn.InspectDeep(func(x ast.Node) bool {
			if rs, ok := x.(*ast.RangeStmt); ok {
				if t := fn.Info().TypeOf(rs.X); t != nil {
					if _, isMap := t.Underlying().(*types.Map); isMap {
						maps = append(maps, rs)
					}
				}
			}
			return true
		})
		for i, rs := range maps {
			in := fn.LitFnAt(rs)
			ok, why := orderInsensitiveBody(in, rs)
			key := fmt.Sprintf("maprange:func=%s#%d", n, i+1)
			if ok {
				c.Hold("R1", key, rs.Pos(), "map iteration over "+types.ExprString(rs.X)+" is order-insensitive (stores keyed by the loop key / counters / min-max / sorted-later appends)", 1)
			} else if reason, listed := c12MapRangeTable[n]; listed {
				c.Hold("R1", key, rs.Pos(), "map iteration over "+types.ExprString(rs.X)+" listed: "+reason+" (recogniser: "+why+")", 1)
			} else {
				c.Viol("R1", key, rs.Pos(), "map iteration over "+types.ExprString(rs.X)+" may influence the shard in iteration order: "+why)
			}
		}
		c.Check(len(findings) == 0, "R1", "cone:func="+n, fn.Pos(), fmt.Sprintf("no nondeterminism source besides classified map iterations: %v", findings), 1)
	}
	// PRNG provenance
	for _, fn := range roots {
		for _, call := range fn.Calls(true) {
			if call.Callee == nil || call.Callee.Pkg() == nil || !strings.HasPrefix(call.Callee.Pkg().Path(), "math/rand") {
				continue
			}
			switch call.Callee.Name() {
			case "NewSource":
				a := call.In.Canon(call.Expr.Args[0])
				c.Check(strings.HasPrefix(a, "shardUtil.ShuffleShardSeed(p0, ") || strings.HasPrefix(a, "shard.ShuffleShardSeed(p0, "), "R1", "seed:func="+fn.Name, call.Expr.Pos(), "PRNG seed = "+a+" (must be ShuffleShardSeed(identifier, zone))", 1)
				if strings.HasPrefix(fn.Name, "(*PartitionRing)") {
					c.Check(strings.HasSuffix(a, `ShuffleShardSeed(p0, "")`), "R4", "seed:func="+fn.Name, call.Expr.Pos(), "partition shard seed = "+a, 1)
				}
			case "New":
				a := call.In.Canon(call.Expr.Args[0])
				c.Check(strings.HasPrefix(a, "rand.NewSource("), "R1", "rng:func="+fn.Name, call.Expr.Pos(), "rand.New over "+a, 1)
			}
		}
	}
	// zones from a slice
	if fn := an.FindFunc(pkg, "Ring.shuffleShard"); fn != nil {
		okZ := false
		fn.InspectShallow(func(n ast.Node) bool {
			if rs, ok := n.(*ast.RangeStmt); ok && rs.Value != nil && types.ExprString(rs.Value) == "zone" {
				if _, isSlice := fn.Info().TypeOf(rs.X).Underlying().(*types.Slice); isSlice {
					okZ = true
				}
			}
			return true
		})
		c.Check(okZ, "R1", "zones:func=(*Ring).shuffleShard", fn.Pos(), "zones are iterated from a slice (stable order), not from a map", 1)
	}
	// seed function pure
	if sf := an.FindFunc(sp, "ShuffleShardSeed"); sf != nil {
		c.Analysed(sf.String())
		f := effectFindings(c, sf)
		c.Check(len(f) == 0, "R1", "cone:func=shard.ShuffleShardSeed", sf.Pos(), fmt.Sprintf("seed function has no nondeterminism source: %v", f), 1)
	} else {
		c.Miss("R1", "func=shard.ShuffleShardSeed", "not found")
	}
	c12Clock(c, pkg)
	c12ReadOnly(c, pkg)
	// R5
	if fn := an.FindFunc(pkg, "PartitionRing.shuffleShard"); fn != nil {
		got := []string{}
		fn.InspectShallow(func(n ast.Node) bool {
			if as, ok := n.(*ast.AssignStmt); ok && len(as.Lhs) == 1 && as.Tok == token.ASSIGN && fn.ObjOf(as.Lhs[0]) == fn.Obj.Type().(*types.Signature).Params().At(1) {
				got = append(got, fn.Canon(as.Rhs[0]))
			}
			return true
		})
		c.Check(len(got) == 1 && got[0] == "len(recv.desc.Partitions)", "R5", "func=(*PartitionRing).shuffleShard:size", fn.Pos(), fmt.Sprintf("size replaced by %v when out of range (must be the number of all partitions so the walk can still reach inactive partitions inside the look-back window)", got), 1)
	}
	c13Fills(c, pkg, "R7")
	c13RefreshAll(c, pkg, "R8")
	c13LowerBound(c, pkg, "R10")
	c13WindowCheck(c, pkg, "R10")
	c05Snapshot(c, pkg, "R11")
	c.As("R5", "R12", func() { c14SortedInputs(c, pkg) })
	c.As("R4", "R13", func() { c13EntryArgs(c, pkg) })
	// ---- R9: no wrapping arithmetic on the requested size
	for _, e := range []struct {
		pkg  *packages.Package
		name string
		size string
	}{{sp, "ShuffleShardExpectedInstancesPerZone", "p0"}, {pkg, "Ring.shuffleShard", "p1"}, {pkg, "PartitionRing.shuffleShard", "p1"}} {
		fn := an.FindFunc(e.pkg, e.name)
		if fn == nil {
			c.Miss("R9", "func="+e.name+":size-arith", "not found")
			continue
		}
		c.Analysed(fn.String())
		sizeRe := regexp.MustCompile(`\b` + e.size + `\b|ShuffleShardExpectedInstancesPerZone\(`)
		var bad []string
		seen := 0
		// locals that hold the size or a value computed from it without a division (assigned on some path)
		sized := map[types.Object]bool{}
		mentions := func(in *an.Fn, x ast.Expr) bool {
			if cn := in.Canon(x); sizeRe.MatchString(cn) && !strings.Contains(cn, " / ") && !strings.Contains(cn, " % ") {
				return true
			}
			hit := false
			ast.Inspect(x, func(n ast.Node) bool {
				switch y := n.(type) {
				case *ast.Ident:
					if o := in.ObjOf(y); o != nil && sized[o] {
						hit = true
					}
				case *ast.BinaryExpr:
					if y.Op == token.QUO || y.Op == token.REM {
						return false
					}
				case *ast.CallExpr:
					if id, ok := y.Fun.(*ast.Ident); ok && id.Name == "len" {
						return false
					}
				}
				return true
			})
			return hit
		}
		for changed := true; changed; {
			changed = false
			fn.InspectDeep(func(n ast.Node) bool {
				if as, ok := n.(*ast.AssignStmt); ok && len(as.Lhs) == len(as.Rhs) {
					in := fn.LitFnAt(as)
					for i, l := range as.Lhs {
						id, ok := l.(*ast.Ident)
						if !ok {
							continue
						}
						o := in.ObjOf(id)
						if b, isBasic := in.Info().TypeOf(as.Rhs[i]).Underlying().(*types.Basic); o == nil || sized[o] || !isBasic || b.Info()&types.IsInteger == 0 {
							continue
						}
						if mentions(in, as.Rhs[i]) {
							sized[o] = true
							changed = true
						}
					}
				}
				return true
			})
		}
		fn.InspectDeep(func(n ast.Node) bool {
			be, ok := n.(*ast.BinaryExpr)
			if !ok || !(be.Op == token.ADD || be.Op == token.MUL || be.Op == token.SHL) {
				return true
			}
			if t, ok := fn.Info().TypeOf(be).Underlying().(*types.Basic); !ok || t.Info()&types.IsInteger == 0 {
				return true
			}
			seen++
			in := fn.LitFnAt(be)
			for _, op := range []ast.Expr{be.X, be.Y} {
				// a quotient or remainder of the size is far from the limit
				if mentions(in, op) {
					bad = append(bad, fmt.Sprintf("%s at line %d", in.Canon(be), c.Prog.Fset.Position(be.Pos()).Line))
					break
				}
			}
			return true
		})
		c.Check(len(bad) == 0, "R9", "func="+e.name+":size-arith", fn.Pos(), fmt.Sprintf("%d integer +/*/<< expressions, none with the requested size (or the per-zone size derived from it) as an operand: %v", seen, bad), 1)
	}
	// ---- R6: the public wrappers skip the sharding walk only for size <= 0 and pass identifier and size on unchanged
	for _, name := range []string{"Ring.ShuffleShard", "Ring.ShuffleShardWithLookback"} {
		fn := an.FindFunc(pkg, name)
		if fn == nil {
			c.Miss("R6", "func="+name, "not found")
			continue
		}
		c.Analysed(fn.String())
		g := fn.Graph()
		all := fn.CallsTo(false, "ring", "(*Ring).filterOutReadOnlyInstances")
		walk := fn.CallsTo(false, "ring", "(*Ring).shuffleShard")
		if len(all) != 1 || len(walk) != 1 {
			c.Undec("R6", "func="+name, fn.Pos(), fmt.Sprintf("expected one filterOutReadOnlyInstances and one shuffleShard call, found %d/%d", len(all), len(walk)))
			continue
		}
		t := an.Table{G: g, From: g.EntryLoc(), MayOnly: true, FreeUnknown: true, Atoms: []an.Atom{{Name: "size", Values: []string{"lt", "eq", "gt"}}},
			Binder: &an.Binder{Fn: fn, Cmp: map[string]string{"p1|0": "size"}}, Targets: []an.Loc{g.Locate(all[0].Expr), g.Locate(walk[0].Expr)}, Names: []string{"all instances", "walk"},
			Want: func(r an.Row, i int) an.Tri {
				if (r["size"] == "gt") == (i == 0) {
					return an.F
				}
				return an.U
			}}
		res := t.Run()
		argsOK := fn.Canon(walk[0].Expr.Args[0]) == "p0" && fn.Canon(walk[0].Expr.Args[1]) == "p1"
		c.Check(res.OK() && argsOK, "R6", "func="+name, fn.Pos(), fmt.Sprintf("all eligible instances are returned without walking only when size ≤ 0, the walk runs only when size > 0 — whatever else is tested — with identifier and size unchanged (=%v): %s", argsOK, res.Summary()), res.Rows)
	}
}

// durationParam returns the canonical name of the time.Duration parameter of fn.
func durationParam(fn *an.Fn) (string, types.Object) {
	sig := fn.Obj.Type().(*types.Signature)
	for i := 0; i < sig.Params().Len(); i++ {
		if sig.Params().At(i).Type().String() == "time.Duration" {
			return fmt.Sprintf("p%d", i), sig.Params().At(i)
		}
	}
	return "", nil
}

func c12Clock(c *core.Ctx, pkg *packages.Package) {
	for _, name := range []string{"Ring.shuffleShard", "Ring.filterOutReadOnlyInstances", "shouldIncludeReadonlyInstanceInTheShard", "PartitionRing.shuffleShard"} {
		fn := an.FindFunc(pkg, name)
		if fn == nil {
			continue
		}
		per, _ := durationParam(fn)
		if per == "" {
			c.Undec("R2", "func="+name, fn.Pos(), "look-back period parameter not found")
			continue
		}
		g := fn.Graph()
		// threshold objects: locals named/defined from now.Add(-period).Unix(), int64 params (threshold passed in), time.Time params
		thr := map[types.Object]string{}
		sig := fn.Obj.Type().(*types.Signature)
		for i := 0; i < sig.Params().Len(); i++ {
			p := sig.Params().At(i)
			if p.Type().String() == "time.Time" || (p.Type().String() == "int64" && strings.Contains(strings.ToLower(p.Name()), "lookback")) {
				thr[p] = p.Name()
			}
		}
		for obj, ds := range fn.Defs() {
			for _, d := range ds {
				_ = d
			}
			for _, di := range fn.DefSites(obj) {
				if strings.HasSuffix(di.Canon, ".Add(-"+per+").Unix()") {
					thr[obj] = obj.Name()
				}
			}
		}
		n := 0
		fn.InspectShallow(func(x ast.Node) bool {
			id, ok := x.(*ast.Ident)
			if !ok {
				return true
			}
			obj := fn.Info().Uses[id]
			if _, isThr := thr[obj]; !isThr {
				return true
			}
			// definition of the threshold itself (now.Add(-period).Unix()) and pass-through as a call argument are not uses
			stmt := an.EnclosingStmt(fn.Body(), id)
			if as, isAs := stmt.(*ast.AssignStmt); isAs {
				definesThr := false
				for _, l := range as.Lhs {
					if lid, ok := l.(*ast.Ident); ok {
						if _, isThr := thr[fn.ObjOf(lid)]; isThr {
							definesThr = true
						}
					}
				}
				for _, r := range as.Rhs {
					if definesThr && an.InNode(r, id) && strings.Contains(fn.Canon(r), ".Add(-"+per+").Unix()") {
						return true
					}
				}
			}
			passThrough := false
			ast.Inspect(stmt, func(m ast.Node) bool {
				if call, isCall := m.(*ast.CallExpr); isCall {
					for _, a := range call.Args {
						if an.Unparen(a) == ast.Expr(id) {
							if cf, _ := an.Callee(fn.Info(), call).(*types.Func); cf != nil && cf.Pkg() == pkg.Types {
								passThrough = true
							}
						}
					}
				}
				return true
			})
			if passThrough {
				return true
			}
			n++
			// guard context inside the expression
			loc := g.Locate(id)
			var ctx []struct {
				e   ast.Expr
				neg bool
			}
			if loc.Valid() {
				node := loc.B.Nodes[loc.I]
				var walk func(e ast.Node) bool
				walk = func(e ast.Node) bool {
					be, isBin := e.(*ast.BinaryExpr)
					if isBin && (be.Op == token.LAND || be.Op == token.LOR) && an.InNode(be.Y, id) {
						ctx = append(ctx, struct {
							e   ast.Expr
							neg bool
						}{be.X, be.Op == token.LOR})
					}
					return true
				}
				ast.Inspect(node, func(m ast.Node) bool {
					if m == nil || !an.InNode(m, id) {
						return m != nil && m.Pos() <= id.Pos() && id.End() <= m.End()
					}
					return walk(m)
				})
			}
			bad := []string{}
			for _, v := range []string{"lt", "eq"} {
				bd := &an.Binder{Fn: fn, Cmp: map[string]string{per + "|0": "period"}, Row: an.Row{"period": v}}
				ex := g.Exec(g.EntryLoc(), []an.Loc{loc}, bd.Leaf, an.ExecOpts{Unroll: 0})
				if !ex.May[0] {
					continue
				}
				ctxVal := an.T
				for _, cx := range ctx {
					cv := an.EvalCond(fn.Info(), cx.e, nil, bd.Leaf)
					if cx.neg {
						cv = an.Not(cv)
					}
					ctxVal = an.And(ctxVal, cv)
				}
				if ctxVal != an.F {
					bad = append(bad, "period "+v+" 0")
				}
			}
			c.Check(len(bad) == 0, "R2", fmt.Sprintf("use:func=%s:%s", name, id.Name), id.Pos(), fmt.Sprintf("use of the look-back threshold/clock value %s is evaluated only when %s > 0 (reachable with %v)", id.Name, per, bad), 2)
			return true
		})
		if n == 0 && name != "PartitionRing.shuffleShard" {
			c.Undec("R2", "func="+name, fn.Pos(), "no use of the look-back threshold found")
		}
	}
}

func c12ReadOnly(c *core.Ctx, pkg *packages.Package) {
	// inclusion predicate table
	fn := an.FindFunc(pkg, "shouldIncludeReadonlyInstanceInTheShard")
	if fn == nil {
		c.Miss("R3", "func=shouldIncludeReadonlyInstanceInTheShard", "not found")
		return
	}
	c.Analysed(fn.String())
	g := fn.Graph()
	var tr, fr []an.Loc
	for _, b := range g.Blocks {
		if r := an.ReturnOf(b); r != nil {
			switch fn.Canon(r.Results[0]) {
			case "true":
				tr = append(tr, g.Locate(r))
			case "false":
				fr = append(fr, g.Locate(r))
			default:
				c.Undec("R3", "predicate:return", r.Pos(), "non-constant return")
			}
		}
	}
	atoms := []an.Atom{{Name: "ro", Values: []string{"T", "F"}}, {Name: "period", Values: []string{"lt", "eq", "gt"}}, {Name: "ts0", Values: []string{"eq", "gt"}}, {Name: "tsVsUntil", Values: []string{"lt", "eq", "gt"}}}
	bd := &an.Binder{Fn: fn, Bool: map[string]string{"p0.ReadOnly": "ro"}, Cmp: map[string]string{"p1|0": "period", "p0.ReadOnlyUpdatedTimestamp|0": "ts0", "p0.ReadOnlyUpdatedTimestamp|p2": "tsVsUntil"}, Unknown: map[string]bool{}}
	bad, undec := []string{}, []string{}
	rows := an.Rows(atoms)
	for _, row := range rows {
		bd.Row = row
		ex := g.Exec(g.EntryLoc(), append(append([]an.Loc{}, tr...), fr...), bd.Leaf, an.ExecOpts{})
		t, f := false, false
		for i := range tr {
			t = t || ex.Must[i]
		}
		for i := range fr {
			f = f || ex.Must[len(tr)+i]
		}
		want := row["ro"] == "F" || (row["period"] != "eq" && !(row["period"] == "gt" && row["ts0"] == "gt" && row["tsVsUntil"] == "lt"))
		switch {
		case t == f:
			undec = append(undec, rowString(row))
		case t != want:
			bad = append(bad, fmt.Sprintf("{%s} returns %v expected %v", rowString(row), t, want))
		}
	}
	switch {
	case len(bad) > 0:
		c.Viol("R3", "predicate:table", fn.Pos(), "inclusion predicate differs from 'not read-only ∨ (period≠0 ∧ ¬(period>0 ∧ ts>0 ∧ ts<threshold))': "+strings.Join(head(bad, 4), "; "))
	case len(undec) > 0:
		c.Undec("R3", "predicate:table", fn.Pos(), fmt.Sprintf("undecidable rows %v (unrecognised %v)", head(undec, 3), keys(bd.Unknown)))
	default:
		c.Hold("R3", "predicate:table", fn.Pos(), fmt.Sprintf("predicate table matches on %d rows", len(rows)), len(rows))
	}
	// stores into the shard map
	for _, name := range []string{"Ring.shuffleShard", "Ring.filterOutReadOnlyInstances"} {
		f := an.FindFunc(pkg, name)
		if f == nil {
			continue
		}
		fg := f.Graph()
		n := 0
		f.InspectShallow(func(x ast.Node) bool {
			as, ok := x.(*ast.AssignStmt)
			if !ok || len(as.Lhs) != 1 {
				return true
			}
			ix, ok := as.Lhs[0].(*ast.IndexExpr)
			if !ok {
				return true
			}
			if t := f.Info().TypeOf(ix.X); t == nil || t.String() != "map[string]github.com/grafana/dskit/ring.InstanceDesc" {
				return true
			}
			n++
			val := f.Canon(as.Rhs[0])
			loop := loopOf(f, as)
			from, opts := fg.EntryLoc(), an.ExecOpts{}
			if loop != nil {
				h, b, _ := fg.LoopBlocks(loop)
				from, opts = an.Loc{B: b, I: 0}, an.ExecOpts{Header: h}
			}
			t := an.Table{G: fg, From: from, Opts: opts, MayOnly: true, Atoms: []an.Atom{{Name: "incl", Values: []string{"T", "F"}}},
				Binder:  &an.Binder{Fn: f, Re: []an.ReRole{an.RE(`^shouldIncludeReadonlyInstanceInTheShard\(`+regexpQuote(val)+`, .*\)$`, "INCL")}, Bool: map[string]string{"INCL": "incl"}},
				Targets: []an.Loc{fg.Locate(as)}, Want: func(r an.Row, _ int) an.Tri { return an.FromBool(r["incl"] == "T") }}
			res := t.Run()
			c.Check(res.OK(), "R3", fmt.Sprintf("store:func=%s#%d", name, n), as.Pos(), "instance "+val+" enters the shard only when the inclusion predicate holds for it: "+res.Summary(), res.Rows)
			return true
		})
		if n == 0 {
			c.Undec("R3", "store:func="+name, f.Pos(), "no store into the shard map found")
		}
	}
	// ShuffleShard(size<=0) goes through the filter
	if ss := an.FindFunc(pkg, "Ring.ShuffleShard"); ss != nil {
		ok := len(ss.CallsTo(false, "ring", "(*Ring).filterOutReadOnlyInstances")) == 1 && len(ss.CallsTo(false, "ring", "(*Ring).shuffleShard")) == 1
		// both with lookbackPeriod 0
		for _, call := range ss.Calls(false) {
			if cf := call.Func(); cf != nil && (cf.Name() == "filterOutReadOnlyInstances" || cf.Name() == "shuffleShard") {
				per := 0
				if cf.Name() == "shuffleShard" {
					per = 2
				}
				if ss.Canon(call.Expr.Args[per]) != "0" {
					ok = false
				}
			}
		}
		c.Check(ok, "R3", "func=(*Ring).ShuffleShard", ss.Pos(), "ShuffleShard computes through filterOutReadOnlyInstances / shuffleShard with look-back period 0 in both branches", 2)
	}
}

func regexpQuote(s string) string {
	r := strings.NewReplacer(`\`, `\\`, `.`, `\.`, `(`, `\(`, `)`, `\)`, `[`, `\[`, `]`, `\]`, `*`, `\*`, `+`, `\+`, `?`, `\?`, `{`, `\{`, `}`, `\}`, `|`, `\|`, `^`, `\^`, `$`, `\$`)
	return r.Replace(s)
}
