// Package props: one file per property; slots, specification tables, minimum counts.
package props

import "dsverif/internal/core"

type Prop struct {
	Patterns    []string // packages loaded in the quick tier
	Run         func(c *core.Ctx)
	Thorough    func(c *core.Ctx) // extra whole-module rules
	Explanation string
	Assumptions []string
}

var Registry = map[string]Prop{}
