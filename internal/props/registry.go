// Package props: one file per property; slots, specification tables, minimum counts.
package props

import (
	"embed"
	"fmt"
	"go/types"
	"os"
	"regexp"
	"strings"

	"dsverif/internal/an"
	"dsverif/internal/core"

	"golang.org/x/tools/go/packages"
)

type Prop struct {
	Patterns    []string // packages loaded in the quick tier
	Run         func(c *core.Ctx)
	Thorough    func(c *core.Ctx) // extra whole-module rules
	Explanation string
	Assumptions []string
}

var Registry = map[string]Prop{}

// types_Object is an alias used by property files that do not import go/types themselves.
type types_Object = types.Object

// RunWithFallback evaluates the property on the tree as written. When some obligation does not hold,
// the property is evaluated once more on the normal form of its packages in which calls to same-package
// helpers that no rule refers to by name are inlined (an.Inline: behaviour-preserving, re-type-checked);
// if everything holds there, that result is kept — a rule that holds on the normal form holds on the
// code as written (typical case: a loop or a branch was extracted into a helper). Otherwise the first
// result stands unchanged.
func RunWithFallback(c *core.Ctx, p Prop, thorough bool) {
	run := func() {
		p.Run(c)
		if thorough && p.Thorough != nil {
			p.Thorough(c)
		}
	}
	defer func() {
		for _, r := range an.Renamed {
			c.Note("anchor resolved through a rename (same receiver and signature, pinned name missing): " + r)
		}
	}()
	m := c.Mark()
	run()
	force := os.Getenv("VERIF_FORCE_INLINE") != "" // testing aid: always evaluate the normal form as well
	if (c.HoldSince(m) && !force) || len(c.Fatal) > 0 {
		return
	}
	over := map[string]*packages.Package{}
	var names []string
	for _, pat := range p.Patterns {
		rel := strings.TrimPrefix(pat, "./")
		pkg := c.Prog.Pkg(rel)
		if pkg == nil {
			continue
		}
		res, err := an.Inline(pkg)
		if err != nil {
			c.Note("helper inlining of " + rel + " skipped: " + err.Error())
			if force {
				fmt.Fprintln(os.Stderr, "normal form: inlining of "+rel+" skipped: "+err.Error())
			}
			continue
		}
		if res != nil {
			over[pkg.PkgPath] = res.Pkg
			names = append(names, res.Inlined...)
		}
	}
	if len(over) == 0 {
		return
	}
	first := c.Rollback(m)
	m2 := c.Mark()
	c.Prog.Override = over
	saved := map[string]*packages.Package{}
	for path, v := range over {
		saved[path] = c.Prog.ByPath[path]
		c.Prog.ByPath[path] = v // callee resolution (an.FnOf) must land in the variant as well
	}
	func() {
		defer func() {
			if r := recover(); r != nil {
				c.Undec("R0", "normal-form", 0, "checker panic on the inlined normal form")
			}
		}()
		run()
	}()
	c.Prog.Override = nil
	for path, v := range saved {
		c.Prog.ByPath[path] = v
	}
	if force {
		fmt.Fprintf(os.Stderr, "normal form: %d helpers inlined (%s); holds=%v\n", len(names), strings.Join(names, ", "), c.HoldSince(m2))
		for _, o := range c.Obs {
			if o.Status != core.Holds {
				fmt.Fprintf(os.Stderr, "  normal form: %s %s %s: %s\n", o.Status, o.Key, o.Pos, o.Detail)
			}
		}
	}
	if c.HoldSince(m2) {
		c.Note("some construct was not found in the code as written; all rules hold on the normal form with these helpers inlined: " + strings.Join(names, ", "))
		return
	}
	for _, o := range c.Obs {
		if o.Status != core.Holds {
			c.Note("with the helpers " + strings.Join(names, ", ") + " inlined: " + o.Status + " " + o.Key + " at " + o.Pos + ": " + o.Detail)
		}
	}
	c.Rollback(m2)
	c.Restore(first)
}

//go:embed *.go
var ruleSources embed.FS

var ruleText string

func init() {
	ents, _ := ruleSources.ReadDir(".")
	var sb strings.Builder
	for _, e := range ents {
		if b, err := ruleSources.ReadFile(e.Name()); err == nil {
			sb.Write(b)
		}
	}
	ruleText = sb.String()
	known := map[string]bool{}
	an.Pinned = map[string]string{}
	for _, l := range strings.Split(knownFuncs, "\n") {
		f := strings.SplitN(strings.TrimSpace(l), "\t", 2)
		if f[0] == "" {
			continue
		}
		known[f[0]] = true
		if len(f) == 2 {
			an.Pinned[f[0]] = f[1]
		}
	}
	ruleNamed := map[string]bool{}
	for _, m := range regexp.MustCompile("[\"`]((?:\\(\\*?[A-Za-z_]\\w*\\)|[A-Za-z_]\\w*)(?:\\.[A-Za-z_]\\w*)*)[\"`]").FindAllStringSubmatch(ruleText, -1) {
		name := m[1]
		if i := strings.LastIndex(name, "."); i >= 0 {
			name = name[i+1:]
		}
		ruleNamed[strings.Trim(name, "()*")] = true
	}
	an.InlineExclude = func(f *types.Func) bool {
		// (1) a function some rule refers to by name is never inlined: the call is what the rule inspects
		// ("by name" = a string literal of a rule source that is nothing but an identifier path, such as
		// "Lifecycler.stopping", "(*KV).get" or "updateConsul"; words of explanations and obligation keys do not count)
		if ruleNamed[f.Name()] {
			return true
		}
		// (2) only helpers that did not exist on the pinned tree are inlined (the "extract helper"
		// refactoring); VERIF_INLINE_ALL lifts this for testing the inliner itself
		if os.Getenv("VERIF_INLINE_ALL") != "" {
			return false
		}
		key := strings.TrimPrefix(strings.TrimPrefix(f.Pkg().Path(), core.ModPath), "/") + ":"
		if key == ":" {
			key = ".:"
		}
		if sig, ok := f.Type().(*types.Signature); ok && sig.Recv() != nil {
			t := sig.Recv().Type()
			if p, ok := t.(*types.Pointer); ok {
				t = p.Elem()
			}
			if n, ok := t.(*types.Named); ok {
				key += n.Obj().Name() + "."
			}
		}
		return known[key+f.Name()]
	}
}

//go:embed known_funcs.txt
var knownFuncs string
