// Package props: one file per property; slots, specification tables, minimum counts.
package props

import (
	"go/types"

	"dsverif/internal/core"
)

type Prop struct {
	Patterns    []string // packages loaded in the quick tier
	Run         func(c *core.Ctx)
	Thorough    func(c *core.Ctx) // extra whole-module rules
	Explanation string
	Assumptions []string
}

var Registry = map[string]Prop{}

// types_Object is an alias used by property files that do not import go/types themselves.
type types_Object = types.Object
