package props

import (
	"fmt"
	"go/ast"
	"go/token"
	"go/types"
	"strings"

	"dsverif/internal/an"
	"dsverif/internal/core"
	"golang.org/x/tools/go/cfg"
)

func init() {
	Registry["C07"] = Prop{
		Patterns: []string{"./kv", "./kv/consul", "./kv/etcd", "./kv/memberlist"},
		Run:      runC07,
		Explanation: "Decides the optimistic-concurrency shape of every kv.Client.CAS implementation from source: (R1) the version token written back is the token read by the read whose value was handed to the caller's function, in the same retry iteration; " +
			"(R2) the only write primitive on the CAS path is the conditional one; (R3) success is returned only on a confirmed conditional write, a declining function returns before any write; (R4) the in-memory stores compare and write inside one critical section with an exact equality compare (guard tables over exists × token-equality; etcd mock comparison operators evaluated over orderings); " +
			"(R5) every write bumps the token; (R6) wrappers forward the caller's function unchanged, exactly once; (R7) in-memory stores hand out copies, never the stored object. Also: (R8) the instrumented consul API answers with the wrapped call's own results (the CAS success flag is the store's flag). (R6 also) the value MultiClient mirrors to the secondary store is the output of the last attempt: assigned once, on every path of the closure. NOT decided: linearizability of actual histories; the real Consul/etcd servers are trusted.",
		Assumptions: []string{"Consul's KV.CAS and etcd's Txn/If/Then semantics are as documented (trusted external services)"},
	}
}

func runC07(c *core.Ctx) {
	c.Rule("R1", "token written back = token read together with the value passed to f, read inside the retry iteration", 5)
	c.Rule("R2", "no unconditional write on the CAS path", 3)
	c.Rule("R3", "success only on confirmed write; declined => return before any write", 6)
	c.Rule("R4", "compare+write in one critical section with exact equality compare", 6)
	c.Rule("R5", "every write bumps the version token", 3)
	c.Rule("R6", "wrappers forward f unchanged to exactly one inner CAS", 6)
	c.Rule("R7", "in-memory stores return copies of stored entries", 1)
	c.Rule("R8", "the instrumented consul API answers with the wrapped call's own results (the CAS success flag is the store's flag)", 3)
	c07Consul(c)
	c07Etcd(c)
	c07Memberlist(c)
	c07ConsulMock(c)
	c07EtcdMock(c)
	c07Wrappers(c)
	c07ConsulAPI(c)
}

// c07ConsulAPI (R8): consul.Client talks to the store through consulInstrumentation, which times each
// request. R3 decides "success only on a confirmed write" from the flag consul.Client.cas receives, so the
// wrapper must hand on the flag (and the pair/meta results) of the wrapped call itself: every non-error
// result of a wrapper method is a variable whose only assignments come from the same-named call on
// recv.kv, at the same result position.
func c07ConsulAPI(c *core.Ctx) {
	pkg := c.Prog.Pkg("kv/consul")
	if pkg == nil {
		c.Miss("R8", "pkg=kv/consul", "not loaded")
		return
	}
	for _, m := range []string{"CAS", "Get", "List"} {
		fn := an.FindFunc(pkg, "consulInstrumentation."+m)
		if fn == nil {
			c.Miss("R8", "func=consulInstrumentation."+m, "not found")
			continue
		}
		c.Analysed(fn.String())
		var inner []an.Call
		for _, call := range fn.Calls(true) {
			if sel, ok := call.Expr.Fun.(*ast.SelectorExpr); ok && sel.Sel.Name == m && call.In.Canon(sel.X) == "recv.kv" {
				inner = append(inner, call)
			}
		}
		var bad []string
		rets := 0
		for _, b := range fn.Graph().Blocks {
			r := an.ReturnOf(b)
			if r == nil {
				continue
			}
			rets++
			for i := 0; i+1 < len(r.Results); i++ { // all but the error
				id, ok := an.Unparen(r.Results[i]).(*ast.Ident)
				if !ok {
					bad = append(bad, fmt.Sprintf("result %d is %s", i, fn.Canon(r.Results[i])))
					continue
				}
				obj := fn.ObjOf(id)
				from := 0
				for _, d := range fn.DefSites(obj) {
					if d.Zero {
						continue
					}
					okDef := false
					for _, ic := range inner {
						if d.Expr == ast.Expr(ic.Expr) && strings.HasSuffix(d.Canon, fmt.Sprintf("#%d", i)) {
							okDef = true
						}
					}
					if okDef {
						from++
					} else {
						bad = append(bad, fmt.Sprintf("result %d (%s) is also assigned %s", i, id.Name, d.Canon))
					}
				}
				if from == 0 {
					bad = append(bad, fmt.Sprintf("result %d (%s) is never assigned from recv.kv.%s", i, id.Name, m))
				}
			}
		}
		c.Check(len(inner) == 1 && rets > 0 && len(bad) == 0, "R8", "func=consulInstrumentation."+m, fn.Pos(), fmt.Sprintf("one wrapped recv.kv.%s call (%d); every non-error result is that call's result at the same position: %v", m, len(inner), bad), rets)
	}
}

// loopOf returns the innermost for/range statement of fn containing n.
func loopOf(fn *an.Fn, n ast.Node) ast.Stmt {
	var best ast.Stmt
	fn.InspectShallow(func(x ast.Node) bool {
		switch s := x.(type) {
		case *ast.ForStmt, *ast.RangeStmt:
			if an.InNode(s, n) {
				best = s.(ast.Stmt)
			}
		}
		return true
	})
	return best
}

// watchVals returns the canonical values a local variable can hold when `at` executes, over all paths of one loop iteration.
func watchVals(fn *an.Fn, loop ast.Stmt, at ast.Node, v types.Object) (map[string]bool, bool) {
	g := fn.Graph()
	header, body, _ := g.LoopBlocks(loop)
	if body == nil {
		return nil, false
	}
	loc := g.Locate(at)
	if !loc.Valid() {
		return nil, false
	}
	ex := g.Exec(an.Loc{B: body, I: 0}, []an.Loc{loc}, func(ast.Expr, an.Store) an.Tri { return an.U }, an.ExecOpts{Header: header, Watch: v})
	if ex.Overflow || !ex.May[0] {
		return nil, false
	}
	return ex.Vals[0], true
}

func stmtOf(fn *an.Fn, n ast.Node) ast.Stmt { return an.EnclosingStmt(fn.Body(), n) }

// retNilLocs returns the return statements whose (last) error result is nil / non-nil.
func returnsByLast(fn *an.Fn) (nilRets, errRets []*ast.ReturnStmt) {
	for _, b := range fn.Graph().Blocks {
		if r := an.ReturnOf(b); r != nil && len(r.Results) > 0 {
			if fn.Canon(r.Results[len(r.Results)-1]) == "nil" {
				nilRets = append(nilRets, r)
			} else {
				errRets = append(errRets, r)
			}
		}
	}
	return
}

func c07Consul(c *core.Ctx) {
	pkg := c.Prog.Pkg("kv/consul")
	fn := an.FindFunc(pkg, "Client.cas")
	if fn == nil {
		c.Miss("R1", "func=consul.Client.cas", "not found")
		return
	}
	c.Analysed(fn.String())
	g := fn.Graph()
	var casCall, getCall, fCall *an.Call
	calls := fn.Calls(false)
	for i := range calls {
		cl := &calls[i]
		sel, _ := an.Unparen(cl.Expr.Fun).(*ast.SelectorExpr)
		switch {
		case sel != nil && sel.Sel.Name == "CAS" && fn.Canon(sel.X) == "recv.kv":
			casCall = cl
		case sel != nil && sel.Sel.Name == "Get" && fn.Canon(sel.X) == "recv.kv":
			getCall = cl
		case sel != nil && (sel.Sel.Name == "Put" || sel.Sel.Name == "Delete") && fn.Canon(sel.X) == "recv.kv":
			c.Viol("R2", "backend=consul:call="+sel.Sel.Name, cl.Expr.Pos(), "unconditional write primitive called on the CAS path")
		}
		if v, ok := cl.Callee.(*types.Var); ok && fn.Canon(cl.Expr.Fun) == "p2" {
			_ = v
			fCall = cl
		}
	}
	if casCall == nil || getCall == nil || fCall == nil {
		c.Undec("R1", "backend=consul", fn.Pos(), "could not find the Get / f / CAS calls in consul.Client.cas")
		return
	}
	c.Hold("R2", "backend=consul", casCall.Expr.Pos(), "only write primitive in cas is recv.kv.CAS (conditional)", len(calls))
	loop := loopOf(fn, casCall.Expr)
	inLoop := loop != nil && an.InNode(loop, getCall.Expr) && an.InNode(loop, fCall.Expr)
	order := g.NodeBefore(getCall.Expr, fCall.Expr) && g.NodeBefore(fCall.Expr, casCall.Expr)
	// token in the KVPair literal
	var tokenExpr ast.Expr
	if len(casCall.Expr.Args) > 0 {
		ast.Inspect(casCall.Expr.Args[0], func(n ast.Node) bool {
			if kv, ok := n.(*ast.KeyValueExpr); ok {
				if id, ok := kv.Key.(*ast.Ident); ok && id.Name == "ModifyIndex" {
					tokenExpr = kv.Value
				}
			}
			return true
		})
	}
	G := fn.Canon(getCall.Expr) + "#0"
	okTok, okVal := false, false
	detail := ""
	if tokenExpr != nil && loop != nil && len(fCall.Expr.Args) == 1 {
		tv, ok1 := watchVals(fn, loop, casCall.Expr, fn.ObjOf(tokenExpr))
		av, ok2 := watchVals(fn, loop, fCall.Expr, fn.ObjOf(fCall.Expr.Args[0]))
		okTok, okVal = ok1, ok2
		for v := range tv {
			if v != G+".ModifyIndex" && v != "<entry>" {
				okTok = false
			}
		}
		for v := range av {
			if v != "recv.codec.Decode("+G+".Value)#0" && v != "zero" {
				okVal = false
			}
		}
		if !tv[G+".ModifyIndex"] || !av["recv.codec.Decode("+G+".Value)#0"] {
			okTok = false
		}
		detail = fmt.Sprintf("token at CAS ∈ %v; f argument ∈ %v; read=%s", keys(tv), keys(av), G)
		// the two assignments happen together: the token assignment and value assignment are in one block
	}
	c.Check(inLoop && order && okTok && okVal && tokenExpr != nil, "R1", "backend=consul", casCall.Expr.Pos(),
		fmt.Sprintf("Get inside retry loop=%v, Get≺f≺CAS=%v, %s", inLoop, order, detail), 3)
	// both set in the same branch
	c07Together(c, fn, "consul", G+".ModifyIndex", "recv.codec.Decode("+G+".Value)#0")

	// R3
	header, _, _ := g.LoopBlocks(loop)
	nilRets, _ := returnsByLast(fn)
	var after, declined []*ast.ReturnStmt
	for _, r := range nilRets {
		if g.NodeBefore(casCall.Expr, r) {
			after = append(after, r)
		} else {
			declined = append(declined, r)
		}
	}
	casStmt := stmtOf(fn, casCall.Expr)
	CC := fn.Canon(casCall.Expr)
	if len(after) == 1 && casStmt != nil {
		t := an.Table{G: g, From: g.Locate(casStmt), Opts: an.ExecOpts{Header: header},
			Atoms: []an.Atom{{Name: "ok", Values: []string{"T", "F"}}, {Name: "errnil", Values: []string{"T", "F"}}},
			Binder: &an.Binder{Fn: fn, Re: []an.ReRole{an.RE(`^recv\.kv\.CAS\(.*\)#(\d)$`, "CAS#$1")},
				Bool: map[string]string{"CAS#0": "ok"}, Eq: map[string]string{"CAS#2|nil": "errnil"}},
			Targets: []an.Loc{g.Locate(after[0])}, Names: []string{"return nil"},
			Want: func(r an.Row, _ int) an.Tri { return an.FromBool(r["ok"] == "T" && r["errnil"] == "T") }}
		_ = CC
		res := t.Run()
		c.Check(res.OK(), "R3", "backend=consul:success", after[0].Pos(), "success return ⇔ CAS ok ∧ err==nil: "+res.Summary(), res.Rows)
	} else {
		c.Undec("R3", "backend=consul:success", fn.Pos(), fmt.Sprintf("expected one nil return after the CAS call, found %d", len(after)))
	}
	c07Declined(c, fn, "consul", fCall, casCall, declined, header)
}

// c07Together: the assignment of the token and of the decoded value happen in the same basic block.
func c07Together(c *core.Ctx, fn *an.Fn, backend, tokCanon, valCanon string) {
	g := fn.Graph()
	var tokB, valB []*cfg.Block
	fn.InspectShallow(func(n ast.Node) bool {
		as, ok := n.(*ast.AssignStmt)
		if !ok {
			return true
		}
		for i, r := range as.Rhs {
			rc := fn.Canon(r)
			if _, isCopy := an.Unparen(r).(*ast.Ident); isCopy {
				continue // a copy of a local (e.g. an argument bound to a parameter) reads nothing from the response
			}
			if len(as.Lhs) == len(as.Rhs) {
				if rc == tokCanon {
					tokB = append(tokB, g.Locate(as).B)
				}
				if rc == valCanon {
					valB = append(valB, g.Locate(as).B)
				}
			} else if i == 0 && rc+"#0" == valCanon {
				valB = append(valB, g.Locate(as).B)
			}
		}
		return true
	})
	ok := len(tokB) == 1 && len(valB) >= 1
	if ok {
		// the token assignment is dominated by a value assignment (decode happens first, token taken from the same response)
		ok = false
		for _, vb := range valB {
			if vb == tokB[0] || g.Dom(vb, tokB[0]) {
				ok = true
			}
		}
	}
	c.Check(ok, "R1", "backend="+backend+":together", fn.Pos(), fmt.Sprintf("token (%s) is assigned once, on the path where the value decoded from the same response is assigned (token sites %d, value sites %d)", tokCanon, len(tokB), len(valB)), 1)
}

// c07Declined: from the f call: the declined return is reached iff err==nil ∧ out==nil, and the write call is reachable only if err==nil ∧ out!=nil.
func c07Declined(c *core.Ctx, fn *an.Fn, backend string, fCall, writeCall *an.Call, declined []*ast.ReturnStmt, header *cfg.Block) {
	g := fn.Graph()
	fStmt := stmtOf(fn, fCall.Expr)
	if fStmt == nil || len(declined) != 1 {
		c.Undec("R3", "backend="+backend+":declined", fn.Pos(), fmt.Sprintf("expected one nil return before the write (function declined), found %d", len(declined)))
		return
	}
	nres := 3
	t := an.Table{G: g, From: g.Locate(fStmt), Opts: an.ExecOpts{Header: header}, MayOnly: true,
		Atoms: []an.Atom{{Name: "ferrnil", Values: []string{"T", "F"}}, {Name: "outnil", Values: []string{"T", "F"}}},
		Binder: &an.Binder{Fn: fn, Re: []an.ReRole{an.RE(`^p2\(.*\)#(\d)$`, "F#$1")},
			Eq: map[string]string{fmt.Sprintf("F#%d|nil", nres-1): "ferrnil", "F#0|nil": "outnil"}},
		Targets: []an.Loc{g.Locate(declined[0]), g.Locate(writeCall.Expr)}, Names: []string{"declined return", "conditional write"},
		Want: func(r an.Row, i int) an.Tri {
			if i == 0 {
				return an.FromBool(r["ferrnil"] == "T" && r["outnil"] == "T")
			}
			return an.FromBool(r["ferrnil"] == "T" && r["outnil"] == "F")
		}}
	res := t.Run()
	c.Check(res.OK(), "R3", "backend="+backend+":declined", declined[0].Pos(), "declined return ⇔ f err==nil ∧ out==nil; write reachable only if err==nil ∧ out!=nil: "+res.Summary(), res.Rows)
}

func c07Etcd(c *core.Ctx) {
	pkg := c.Prog.Pkg("kv/etcd")
	fn := an.FindFunc(pkg, "Client.CAS")
	if fn == nil {
		c.Miss("R1", "func=etcd.Client.CAS", "not found")
		return
	}
	c.Analysed(fn.String())
	g := fn.Graph()
	var getCall, fCall, commit, compare, opPut, ifCall, thenCall *an.Call
	calls := fn.Calls(false)
	for i := range calls {
		cl := &calls[i]
		sel, _ := an.Unparen(cl.Expr.Fun).(*ast.SelectorExpr)
		name := ""
		if sel != nil {
			name = sel.Sel.Name
		}
		switch {
		case name == "Get" && fn.Canon(sel.X) == "recv.cli":
			getCall = cl
		case (name == "Put" || name == "Delete" || name == "Do") && fn.Canon(sel.X) == "recv.cli":
			c.Viol("R2", "backend=etcd:call="+name, cl.Expr.Pos(), "unconditional write primitive called on the CAS path")
		case name == "Commit":
			commit = cl
		case name == "If":
			ifCall = cl
		case name == "Then":
			thenCall = cl
		case cl.Is("clientv3", "Compare"):
			compare = cl
		case cl.Is("clientv3", "OpPut"):
			opPut = cl
		}
		if fn.Canon(cl.Expr.Fun) == "p2" {
			fCall = cl
		}
	}
	if getCall == nil || fCall == nil || commit == nil || compare == nil || opPut == nil || ifCall == nil || thenCall == nil {
		c.Undec("R1", "backend=etcd", fn.Pos(), "could not find the Get / f / Txn.If(Compare).Then(OpPut).Commit calls")
		return
	}
	// R2: OpPut only as argument of Then, Compare only as argument of If, same chain as Commit
	chainOK := an.InNode(thenCall.Expr, opPut.Expr) && an.InNode(ifCall.Expr, compare.Expr) && an.InNode(commit.Expr, thenCall.Expr) && an.InNode(thenCall.Expr, ifCall.Expr)
	argOK := false
	for _, a := range thenCall.Expr.Args {
		if a == opPut.Expr {
			argOK = true
		}
	}
	c.Check(chainOK && argOK, "R2", "backend=etcd", opPut.Expr.Pos(), "the only write is OpPut inside .Then(...) of the Txn that carries .If(Compare(...))", len(calls))
	// R1
	loop := loopOf(fn, commit.Expr)
	inLoop := loop != nil && an.InNode(loop, getCall.Expr) && an.InNode(loop, fCall.Expr)
	order := g.NodeBefore(getCall.Expr, fCall.Expr) && g.NodeBefore(fCall.Expr, commit.Expr)
	G := fn.Canon(getCall.Expr) + "#0"
	cmpOK := len(compare.Expr.Args) == 3 && fn.Canon(compare.Expr.Args[0]) == "clientv3.Version(p1)" && fn.Canon(compare.Expr.Args[1]) == `"="`
	putKeyOK := len(opPut.Expr.Args) >= 2 && fn.Canon(opPut.Expr.Args[0]) == "p1"
	okTok, okVal := false, false
	detail := ""
	if cmpOK && loop != nil && len(fCall.Expr.Args) == 1 {
		tv, ok1 := watchVals(fn, loop, commit.Expr, fn.ObjOf(compare.Expr.Args[2]))
		av, ok2 := watchVals(fn, loop, fCall.Expr, fn.ObjOf(fCall.Expr.Args[0]))
		okTok, okVal = ok1, ok2
		wantTok, wantVal := G+".Kvs[0].Version", "recv.codec.Decode("+G+".Kvs[0].Value)#0"
		for v := range tv {
			if v != wantTok && v != "<entry>" {
				okTok = false
			}
		}
		for v := range av {
			if v != wantVal && v != "zero" {
				okVal = false
			}
		}
		if !tv[wantTok] || !av[wantVal] {
			okTok = false
		}
		detail = fmt.Sprintf("token at Commit ∈ %v; f argument ∈ %v", keys(tv), keys(av))
		c07Together(c, fn, "etcd", wantTok, wantVal)
	}
	c.Check(inLoop && order && cmpOK && putKeyOK && okTok && okVal, "R1", "backend=etcd", compare.Expr.Pos(),
		fmt.Sprintf("Get in loop=%v, Get≺f≺Commit=%v, Compare(Version(key),\"=\",token)=%v, put key=%v, %s", inLoop, order, cmpOK, putKeyOK, detail), 3)
	// R3
	header, _, _ := g.LoopBlocks(loop)
	nilRets, _ := returnsByLast(fn)
	var after, declined []*ast.ReturnStmt
	for _, r := range nilRets {
		if g.NodeBefore(commit.Expr, r) {
			after = append(after, r)
		} else {
			declined = append(declined, r)
		}
	}
	cStmt := stmtOf(fn, commit.Expr)
	if len(after) == 1 && cStmt != nil {
		t := an.Table{G: g, From: g.Locate(cStmt), Opts: an.ExecOpts{Header: header},
			Atoms: []an.Atom{{Name: "succ", Values: []string{"T", "F"}}, {Name: "errnil", Values: []string{"T", "F"}}},
			Binder: &an.Binder{Fn: fn, Re: []an.ReRole{an.RE(`^recv\.cli\.Txn\(.*\)\.Commit\(\)#(\d)`, "TXN#$1")},
				Bool: map[string]string{"TXN#0.Succeeded": "succ"}, Eq: map[string]string{"TXN#1|nil": "errnil"}},
			Targets: []an.Loc{g.Locate(after[0])}, Names: []string{"return nil"},
			Want: func(r an.Row, _ int) an.Tri { return an.FromBool(r["succ"] == "T" && r["errnil"] == "T") }}
		res := t.Run()
		c.Check(res.OK(), "R3", "backend=etcd:success", after[0].Pos(), "success return ⇔ Txn err==nil ∧ result.Succeeded: "+res.Summary(), res.Rows)
	} else {
		c.Undec("R3", "backend=etcd:success", fn.Pos(), fmt.Sprintf("expected one nil return after Commit, found %d", len(after)))
	}
	c07Declined(c, fn, "etcd", fCall, commit, declined, header)
}

func c07Memberlist(c *core.Ctx) {
	pkg := c.Prog.Pkg("kv/memberlist")
	fn := an.FindFunc(pkg, "KV.trySingleCas")
	if fn == nil {
		c.Miss("R1", "func=memberlist.KV.trySingleCas", "not found")
		return
	}
	c.Analysed(fn.String())
	g := fn.Graph()
	var getCall, fCall, merge *an.Call
	calls := fn.Calls(false)
	for i := range calls {
		cl := &calls[i]
		switch {
		case cl.Is("kv/memberlist", "(*KV).get"):
			getCall = cl
		case cl.Is("kv/memberlist", "(*KV).mergeValueForKey"):
			merge = cl
		case fn.Canon(cl.Expr.Fun) == "p2":
			fCall = cl
		}
	}
	if getCall == nil || fCall == nil || merge == nil || len(merge.Expr.Args) < 4 || len(fCall.Expr.Args) != 1 {
		c.Undec("R1", "backend=memberlist", fn.Pos(), "could not find get / f / mergeValueForKey calls")
		return
	}
	G := fn.Canon(getCall.Expr)
	ok := fn.Canon(fCall.Expr.Args[0]) == G+"#0" && fn.Canon(merge.Expr.Args[3]) == G+"#1" && fn.Canon(merge.Expr.Args[0]) == "p0" &&
		g.NodeBefore(getCall.Expr, fCall.Expr) && g.NodeBefore(fCall.Expr, merge.Expr) && len(fn.CallsTo(false, "kv/memberlist", "(*KV).get")) == 1
	c.Check(ok, "R1", "backend=memberlist", merge.Expr.Pos(), fmt.Sprintf("f argument=%s, casVersion=%s, both results of the single %s", fn.Canon(fCall.Expr.Args[0]), fn.Canon(merge.Expr.Args[3]), G), 3)
	// the incoming value is f's output
	c.Check(strings.HasPrefix(fn.Canon(merge.Expr.Args[1]), fn.Canon(fCall.Expr)+"#0"), "R1", "backend=memberlist:incoming", merge.Expr.Pos(), "value merged = f's output: "+fn.Canon(merge.Expr.Args[1]), 1)
	// R2: the only store writer reachable is mergeValueForKey
	c.Hold("R2", "backend=memberlist", merge.Expr.Pos(), "trySingleCas writes only through mergeValueForKey (conditional on casVersion; see R4)", len(calls))
	// R3
	nilRets, _ := returnsByLast(fn)
	var after, declined []*ast.ReturnStmt
	for _, r := range nilRets {
		if g.NodeBefore(merge.Expr, r) {
			after = append(after, r)
		} else {
			declined = append(declined, r)
		}
	}
	MC := fn.Canon(merge.Expr)
	mStmt := stmtOf(fn, merge.Expr)
	if len(after) == 1 && mStmt != nil {
		t := an.Table{G: g, From: g.Locate(mStmt),
			Atoms: []an.Atom{{Name: "errnil", Values: []string{"T", "F"}}, {Name: "ver", Values: []string{"eq", "gt"}}},
			Binder: &an.Binder{Fn: fn, Eq: map[string]string{MC + "#4|nil": "errnil", MC + "#4|pkg.errVersionMismatch": "mismatch"},
				Cmp: map[string]string{MC + "#1|0": "ver"}},
			Targets: []an.Loc{g.Locate(after[0])}, Names: []string{"success return"},
			Want: func(r an.Row, _ int) an.Tri { return an.FromBool(r["errnil"] == "T" && r["ver"] == "gt") }}
		// errVersionMismatch comparison: when errnil=T it is false; otherwise unknown -> either way returns error
		t.Binder.Row = nil
		res := t.Run()
		// the mismatch atom is not in Atoms: it evaluates as not-T => treat as F; acceptable since both branches return errors
		c.Check(len(res.Bad) == 0, "R3", "backend=memberlist:success", after[0].Pos(), "success return ⇔ merge err==nil ∧ newver>0: "+res.Summary(), res.Rows)
	} else {
		c.Undec("R3", "backend=memberlist:success", fn.Pos(), fmt.Sprintf("expected one nil-error return after mergeValueForKey, found %d", len(after)))
	}
	// declined
	fStmt := stmtOf(fn, fCall.Expr)
	FC := fn.Canon(fCall.Expr)
	if len(declined) == 1 && fStmt != nil {
		t := an.Table{G: g, From: g.Locate(fStmt), MayOnly: true,
			Atoms:   []an.Atom{{Name: "ferrnil", Values: []string{"T", "F"}}, {Name: "outnil", Values: []string{"T", "F"}}},
			Binder:  &an.Binder{Fn: fn, Eq: map[string]string{FC + "#2|nil": "ferrnil", FC + "#0|nil": "outnil"}},
			Targets: []an.Loc{g.Locate(declined[0]), g.Locate(merge.Expr)}, Names: []string{"declined return", "merge"},
			Want: func(r an.Row, i int) an.Tri {
				if i == 0 {
					return an.FromBool(r["ferrnil"] == "T" && r["outnil"] == "T")
				}
				return an.FromBool(r["ferrnil"] == "T" && r["outnil"] == "F")
			}}
		res := t.Run()
		c.Check(res.OK(), "R3", "backend=memberlist:declined", declined[0].Pos(), "declined return ⇔ f err==nil ∧ out==nil; merge reachable only if err==nil ∧ out!=nil: "+res.Summary(), res.Rows)
	} else {
		c.Undec("R3", "backend=memberlist:declined", fn.Pos(), fmt.Sprintf("expected one nil-error return before the merge, found %d", len(declined)))
	}
	// KV.CAS: return nil ⇔ trySingleCas err == nil
	if cas := an.FindFunc(pkg, "KV.CAS"); cas != nil {
		c.Analysed(cas.String())
		cg := cas.Graph()
		tcs := cas.CallsTo(false, "kv/memberlist", "(*KV).trySingleCas")
		nilR, _ := returnsByLast(cas)
		if len(tcs) == 1 && len(nilR) == 1 {
			TC := cas.Canon(tcs[0].Expr)
			loop := loopOf(cas, tcs[0].Expr)
			header, _, _ := cg.LoopBlocks(loop)
			t := an.Table{G: cg, From: cg.Locate(stmtOf(cas, tcs[0].Expr)), Opts: an.ExecOpts{Header: header},
				Atoms:   []an.Atom{{Name: "errnil", Values: []string{"T", "F"}}},
				Binder:  &an.Binder{Fn: cas, Eq: map[string]string{TC + "#5|nil": "errnil"}},
				Targets: []an.Loc{cg.Locate(nilR[0])}, Names: []string{"return nil"},
				Want: func(r an.Row, _ int) an.Tri { return an.FromBool(r["errnil"] == "T") }}
			res := t.Run()
			c.Check(res.OK(), "R3", "backend=memberlist:KV.CAS", nilR[0].Pos(), "KV.CAS returns nil ⇔ the attempt returned no error: "+res.Summary(), res.Rows)
			c.Check(len(tcs[0].Expr.Args) == 3 && cas.Canon(tcs[0].Expr.Args[2]) == "p3", "R6", "wrapper=memberlist.KV.CAS", tcs[0].Expr.Pos(), "f forwarded unchanged to trySingleCas", 1)
		} else {
			c.Undec("R3", "backend=memberlist:KV.CAS", cas.Pos(), "unexpected shape of KV.CAS")
		}
	}
	// R4/R5 mergeValueForKey
	mv := an.FindFunc(pkg, "KV.mergeValueForKey")
	if mv == nil {
		c.Miss("R4", "func=KV.mergeValueForKey", "not found")
		return
	}
	c.Analysed(mv.String())
	mg := mv.Graph()
	var store *ast.AssignStmt
	mv.InspectShallow(func(n ast.Node) bool {
		if as, ok := n.(*ast.AssignStmt); ok && len(as.Lhs) == 1 && mv.Canon(as.Lhs[0]) == "recv.store[p0]" {
			store = as
		}
		return true
	})
	if store == nil {
		c.Undec("R4", "store=memberlist", mv.Pos(), "store write recv.store[key] = … not found")
		return
	}
	// every effect on the stored value is behind the version compare: the store write AND the in-place merge
	// (computeNewValue merges into curr.value, which is the stored Mergeable itself)
	effects := []an.Loc{mg.Locate(store)}
	effNames := []string{"store write"}
	for _, call := range mv.Calls(false) {
		if call.Func() != nil && (call.Func().Name() == "computeNewValue" || call.Func().Name() == "Merge" || call.Func().Name() == "RemoveTombstones") {
			effects = append(effects, mg.Locate(call.Expr))
			effNames = append(effNames, call.Func().Name())
		}
	}
	t := an.Table{G: mg, From: mg.EntryLoc(), MayOnly: true,
		Atoms:   []an.Atom{{Name: "cas", Values: []string{"eq", "gt"}}, {Name: "same", Values: []string{"T", "F"}}},
		Binder:  &an.Binder{Fn: mv, Cmp: map[string]string{"p3|0": "cas"}, Eq: map[string]string{"recv.store[p0].Version|p3": "same"}},
		Targets: effects, Names: effNames,
		Want: func(r an.Row, _ int) an.Tri {
			return an.FromBool(!(r["cas"] == "gt" && r["same"] == "F"))
		}}
	res := t.Run()
	lockOK := lockedThroughout(mv, "recv.storeMu")
	c.Check(res.OK() && lockOK, "R4", "store=memberlist", store.Pos(), fmt.Sprintf("neither the store write nor the in-place merge/GC of the stored value (%v) is reachable when casVersion>0 ∧ stored version≠casVersion; whole function under storeMu=%v: %s", effNames, lockOK, res.Summary()), res.Rows)
	// R5 version bump
	bump := ""
	ast.Inspect(store.Rhs[0], func(n ast.Node) bool {
		if kv, ok := n.(*ast.KeyValueExpr); ok {
			if id, ok := kv.Key.(*ast.Ident); ok && id.Name == "Version" {
				bump = mv.CanonSt(kv.Value, nil)
				if obj := mv.ObjOf(kv.Value); obj != nil {
					if ex, all := mv.DefExprs(obj); all && len(ex) == 1 {
						bump = mv.Canon(ex[0])
					}
				}
			}
		}
		return true
	})
	c.Check(bump == "(recv.store[p0].Version + 1)", "R5", "store=memberlist", store.Pos(), "stored Version = "+bump+" (must be current version + 1)", 1)
}

// lockedThroughout: the first statement locks mu and the second defers its unlock.
func lockedThroughout(fn *an.Fn, mu string) bool {
	body := fn.Body().List
	locked, deferred := false, false
	for i, s := range body {
		if i > 3 {
			break
		}
		switch x := s.(type) {
		case *ast.ExprStmt:
			if call, ok := x.X.(*ast.CallExpr); ok {
				if sel, ok := call.Fun.(*ast.SelectorExpr); ok && sel.Sel.Name == "Lock" && fn.Canon(sel.X) == mu && !deferred {
					locked = true
				}
			}
		case *ast.DeferStmt:
			if sel, ok := x.Call.Fun.(*ast.SelectorExpr); ok && sel.Sel.Name == "Unlock" && fn.Canon(sel.X) == mu && locked {
				deferred = true
			}
		}
	}
	if !locked || !deferred {
		return false
	}
	// no other Unlock of mu in the function
	n := 0
	fn.InspectDeep(func(x ast.Node) bool {
		if call, ok := x.(*ast.CallExpr); ok {
			if sel, ok := call.Fun.(*ast.SelectorExpr); ok && sel.Sel.Name == "Unlock" && fn.Canon(sel.X) == mu {
				n++
			}
		}
		return true
	})
	return n == 1
}

func c07ConsulMock(c *core.Ctx) {
	pkg := c.Prog.Pkg("kv/consul")
	fn := an.FindFunc(pkg, "mockKV.CAS")
	if fn == nil {
		c.Miss("R4", "func=consul.mockKV.CAS", "not found")
		return
	}
	c.Analysed(fn.String())
	g := fn.Graph()
	var writes []an.Loc
	var names []string
	var bumps []string
	fn.InspectShallow(func(n ast.Node) bool {
		as, ok := n.(*ast.AssignStmt)
		if !ok || len(as.Lhs) != len(as.Rhs) {
			return true
		}
		for i, l := range as.Lhs {
			lc := fn.Canon(l)
			switch {
			case lc == "recv.kvps[p0.Key].Value":
				writes = append(writes, g.Locate(as))
				names = append(names, "existing.Value=")
			case lc == "recv.kvps[p0.Key].ModifyIndex":
				bumps = append(bumps, fn.Canon(as.Rhs[i]))
				if !dominatedByInc(fn, as, "recv.current") {
					bumps = append(bumps, "NOT-AFTER-INCREMENT")
				}
			case lc == "recv.kvps[p0.Key]":
				writes = append(writes, g.Locate(as))
				names = append(names, "kvps[key]=")
				ast.Inspect(as.Rhs[i], func(x ast.Node) bool {
					if kv, ok := x.(*ast.KeyValueExpr); ok {
						if id, ok := kv.Key.(*ast.Ident); ok && id.Name == "ModifyIndex" {
							bumps = append(bumps, fn.Canon(kv.Value))
							if !dominatedByInc(fn, as, "recv.current") {
								bumps = append(bumps, "NOT-AFTER-INCREMENT")
							}
						}
					}
					return true
				})
			}
		}
		return true
	})
	var trueRets, falseRets []an.Loc
	for _, b := range g.Blocks {
		if r := an.ReturnOf(b); r != nil && len(r.Results) == 3 {
			switch fn.Canon(r.Results[0]) {
			case "true":
				trueRets = append(trueRets, g.Locate(r))
			case "false":
				falseRets = append(falseRets, g.Locate(r))
			default:
				c.Undec("R4", "store=consul-mock:return", r.Pos(), "CAS result is not a boolean constant")
			}
		}
	}
	if len(writes) < 2 || len(trueRets) == 0 || len(falseRets) == 0 {
		c.Undec("R4", "store=consul-mock", fn.Pos(), fmt.Sprintf("unexpected shape: %d writes, %d true returns, %d false returns", len(writes), len(trueRets), len(falseRets)))
		return
	}
	targets := append(append(append([]an.Loc{}, writes...), trueRets...), falseRets...)
	nW, nT := len(writes), len(trueRets)
	var bad, undec []string
	atoms := []an.Atom{{Name: "exists", Values: []string{"T", "F"}}, {Name: "same", Values: []string{"T", "F"}}}
	bd := &an.Binder{Fn: fn, Bool: map[string]string{"ok(recv.kvps[p0.Key])": "exists"}, Eq: map[string]string{"recv.kvps[p0.Key].ModifyIndex|p0.ModifyIndex": "same"}, Unknown: map[string]bool{}}
	rows := an.Rows(atoms)
	for pass := 0; pass < 2; pass++ {
		bad, undec = nil, nil
		for _, row := range rows {
			bd.Row = row
			ex := g.Exec(g.EntryLoc(), targets, bd.Leaf, an.ExecOpts{})
			or := func(lo, hi int) an.Tri {
				v := an.F
				for i := lo; i < hi; i++ {
					v = an.Or(v, ex.Tri(i))
				}
				return v
			}
			w, tr, fr := or(0, nW), or(nW, nW+nT), or(nW+nT, len(targets))
			want := row["exists"] == "F" || row["same"] == "T"
			if w == an.U || tr == an.U || fr == an.U {
				undec = append(undec, rowString(row))
				continue
			}
			if (w == an.T) != want || (tr == an.T) != want || (fr == an.T) == want {
				bad = append(bad, fmt.Sprintf("{%s} write=%v returnTrue=%v returnFalse=%v expected write=%v", rowString(row), w, tr, fr, want))
			}
		}
		if len(undec) > 0 && pass == 0 && len(bd.Unknown) > 0 && len(bd.Unknown) <= 3 {
			for u := range bd.Unknown {
				atoms = append(atoms, an.Atom{Name: "extra:" + u, Values: []string{"T", "F"}})
				bd.Bool[u] = "extra:" + u
			}
			bd.Unknown = map[string]bool{}
			rows = an.Rows(atoms)
			continue
		}
		break
	}
	lockOK := lockedThroughout(fn, "recv.mtx")
	switch {
	case len(bad) > 0:
		c.Viol("R4", "store=consul-mock", fn.Pos(), "compare-and-write differs from 'write ⇔ ¬exists ∨ stored.ModifyIndex == given.ModifyIndex': "+strings.Join(head(bad, 4), "; "))
	case len(undec) > 0:
		c.Undec("R4", "store=consul-mock", fn.Pos(), fmt.Sprintf("undecidable rows %v (unrecognised %v)", head(undec, 3), keys(bd.Unknown)))
	default:
		c.Check(lockOK, "R4", "store=consul-mock", fn.Pos(), fmt.Sprintf("write ⇔ return true ⇔ ¬exists ∨ index equal on %d rows; under recv.mtx throughout=%v", len(rows), lockOK), len(rows))
	}
	okBump := len(bumps) >= 2
	for _, b := range bumps {
		if b != "recv.current" {
			okBump = false
		}
	}
	c.Check(okBump, "R5", "store=consul-mock", fn.Pos(), fmt.Sprintf("every written ModifyIndex is the freshly incremented recv.current: %v", bumps), len(bumps))

	// R7: Get/List return copies
	for _, name := range []string{"mockKV.Get", "mockKV.List"} {
		f := an.FindFunc(pkg, name)
		if f == nil {
			c.Miss("R7", "func=consul."+name, "not found")
			continue
		}
		c.Analysed(f.String())
		bad := []string{}
		n := 0
		check := func(e ast.Expr, pos token.Pos) {
			cs := f.Canon(e)
			if cs == "nil" {
				return
			}
			n++
			if !strings.HasPrefix(cs, "copyKVPair(") {
				bad = append(bad, c.Prog.PosStr(pos)+": "+cs)
			}
		}
		if name == "mockKV.Get" {
			for _, b := range f.Graph().Blocks {
				if r := an.ReturnOf(b); r != nil && len(r.Results) > 0 {
					check(r.Results[0], r.Pos())
				}
			}
		} else {
			// List: every append into the result slice appends a copy
			for _, call := range f.CallsTo(false, "", "append") {
				if len(call.Expr.Args) == 2 {
					if tv := f.Info().TypeOf(call.Expr.Args[1]); tv != nil && strings.HasSuffix(tv.String(), "api.KVPair") {
						check(call.Expr.Args[1], call.Expr.Pos())
					}
				}
			}
		}
		c.Check(len(bad) == 0 && n > 0, "R7", "func=consul."+name, f.Pos(), fmt.Sprintf("%d returned/appended entries are copyKVPair(...) results; offending: %v", n, bad), n)
	}
}

// dominatedByInc: an increment `<canon>++` dominates node n.
func dominatedByInc(fn *an.Fn, n ast.Node, canon string) bool {
	g := fn.Graph()
	ok := false
	fn.InspectShallow(func(x ast.Node) bool {
		if inc, isInc := x.(*ast.IncDecStmt); isInc && inc.Tok == token.INC && fn.Canon(inc.X) == canon && g.NodeBefore(inc, n) {
			ok = true
		}
		return true
	})
	return ok
}

func c07EtcdMock(c *core.Ctx) {
	pkg := c.Prog.Pkg("kv/etcd")
	// lock discipline: Do is the only function that takes valuesMtx among the op executors, and doInternal is reached only from Do / doTxn
	do := an.FindFunc(pkg, "mockKV.Do")
	if do == nil {
		c.Miss("R4", "func=etcd.mockKV.Do", "not found")
		return
	}
	c.Analysed(do.String())
	lockOK := lockedThroughout(do, "recv.valuesMtx")
	callers := []string{}
	for _, f := range an.Funcs(pkg) {
		for _, call := range f.Calls(true) {
			if call.Is("kv/etcd", "(*mockKV).doInternal") || call.Is("kv/etcd", "(*mockKV).doTxn") || call.Is("kv/etcd", "(*mockKV).doPut") {
				callers = append(callers, f.Name+"->"+call.Func().Name())
			}
		}
	}
	okCallers := true
	for _, cl := range callers {
		switch cl {
		case "(*mockKV).Do->doInternal", "(*mockKV).doInternal->doTxn", "(*mockKV).doInternal->doPut", "(*mockKV).doTxn->doInternal":
		default:
			okCallers = false
		}
	}
	c.Check(lockOK && okCallers && len(callers) >= 4, "R4", "store=etcd-mock:lock", do.Pos(), fmt.Sprintf("Do holds valuesMtx throughout=%v; op executors reached only through Do: %v", lockOK, callers), len(callers))
	// doTxn: thens ⇔ evalCmps
	if tx := an.FindFunc(pkg, "mockKV.doTxn"); tx != nil {
		c.Analysed(tx.String())
		g := tx.Graph()
		var thenAs, elseAs *ast.AssignStmt
		tx.InspectShallow(func(n ast.Node) bool {
			if as, ok := n.(*ast.AssignStmt); ok && len(as.Lhs) == 1 && len(as.Rhs) == 1 {
				switch tx.Canon(as.Rhs[0]) {
				case "p0.Txn()#1":
					thenAs = as
				case "p0.Txn()#2":
					elseAs = as
				}
			}
			return true
		})
		if thenAs == nil || elseAs == nil {
			c.Undec("R4", "store=etcd-mock:txn", tx.Pos(), "then/else selection not recognised")
		} else {
			t := an.Table{G: g, From: g.EntryLoc(), Atoms: []an.Atom{{Name: "cmp", Values: []string{"T", "F"}}},
				Binder:  &an.Binder{Fn: tx, Bool: map[string]string{"recv.evalCmps(p0.Txn()#0)": "cmp"}},
				Targets: []an.Loc{g.Locate(thenAs), g.Locate(elseAs)}, Names: []string{"run thens", "run elses"},
				Want: func(r an.Row, i int) an.Tri {
					return an.FromBool((r["cmp"] == "T") == (i == 0))
				}}
			res := t.Run()
			c.Check(res.OK(), "R4", "store=etcd-mock:txn", tx.Pos(), "then-ops run ⇔ evalCmps(cmps): "+res.Summary(), res.Rows)
		}
	}
	// evalCmps: all comparisons must hold
	if ec := an.FindFunc(pkg, "mockKV.evalCmps"); ec != nil {
		g := ec.Graph()
		loops := []*ast.RangeStmt{}
		ec.InspectShallow(func(n ast.Node) bool {
			if rs, ok := n.(*ast.RangeStmt); ok {
				loops = append(loops, rs)
			}
			return true
		})
		ok := false
		if len(loops) == 1 {
			header, body, _ := g.LoopBlocks(loops[0])
			var falseRet an.Loc
			for _, b := range g.Blocks {
				if r := an.ReturnOf(b); r != nil && len(r.Results) == 1 && ec.Canon(r.Results[0]) == "false" && an.InNode(loops[0], r) {
					falseRet = g.Locate(r)
				}
			}
			if falseRet.Valid() && body != nil {
				t := an.Table{G: g, From: an.Loc{B: body, I: 0}, Opts: an.ExecOpts{Header: header}, Atoms: []an.Atom{{Name: "holds", Values: []string{"T", "F"}}},
					Binder:  &an.Binder{Fn: ec, Bool: map[string]string{"recv.evalCmp(each(p0))": "holds"}},
					Targets: []an.Loc{falseRet}, Want: func(r an.Row, _ int) an.Tri { return an.FromBool(r["holds"] == "F") }}
				res := t.Run()
				ok = res.OK()
				// final return true
				finalTrue := false
				for _, b := range g.Blocks {
					if r := an.ReturnOf(b); r != nil && !an.InNode(loops[0], r) && ec.Canon(r.Results[0]) == "true" {
						finalTrue = true
					}
				}
				ok = ok && finalTrue
			}
		}
		c.Check(ok, "R4", "store=etcd-mock:evalCmps", ec.Pos(), "evalCmps returns false as soon as one comparison fails, true otherwise", 2)
	}
	// evalCmp: VERSION target compares entry.Version with the given version
	if ev := an.FindFunc(pkg, "mockKV.evalCmp"); ev != nil {
		c.Analysed(ev.String())
		found := false
		for _, call := range ev.CallsTo(false, "kv/etcd", "(*mockKV).evalEntryInt64") {
			cc := an.EnclosingCase(ev.Body(), call.Expr)
			if cc != nil && len(cc.List) == 1 && ev.ConstName(cc.List[0]) == "Compare_VERSION" {
				found = true
				a0, a1 := ev.Canon(call.Expr.Args[0]), ev.Canon(call.Expr.Args[1])
				c.Check(a0 == "recv.values[p0.KeyBytes()].Version" && strings.HasSuffix(a1, ".Version") && strings.HasPrefix(a1, "p0.TargetUnion"), "R4", "store=etcd-mock:evalCmp:VERSION", call.Expr.Pos(),
					fmt.Sprintf("Compare_VERSION compares %s with %s", a0, a1), 1)
			}
		}
		if !found {
			c.Undec("R4", "store=etcd-mock:evalCmp:VERSION", ev.Pos(), "case Compare_VERSION not recognised")
		}
	}
	// evalEntryInt64: operator table
	if ei := an.FindFunc(pkg, "mockKV.evalEntryInt64"); ei != nil {
		c.Analysed(ei.String())
		g := ei.Graph()
		ops := map[string]token.Token{"Compare_EQUAL": token.EQL, "Compare_GREATER": token.GTR, "Compare_LESS": token.LSS, "Compare_NOT_EQUAL": token.NEQ}
		var rets []*ast.ReturnStmt
		var locs []an.Loc
		for _, b := range g.Blocks {
			if r := an.ReturnOf(b); r != nil {
				rets = append(rets, r)
				locs = append(locs, g.Locate(r))
			}
		}
		bad := []string{}
		n := 0
		for opName, tok := range ops {
			for _, ord := range []string{"lt", "eq", "gt"} {
				bd := &an.Binder{Fn: ei, Enum: map[string]string{"p2.Result": "op"}, Cmp: map[string]string{"p0|p1": "ord"}, Row: an.Row{"op": opName, "ord": ord}}
				ex := g.Exec(g.EntryLoc(), locs, bd.Leaf, an.ExecOpts{IgnorePanic: true})
				hit := -1
				for i := range locs {
					if ex.Must[i] {
						hit = i
					}
				}
				n++
				if hit < 0 {
					bad = append(bad, fmt.Sprintf("%s/%s: no definite return", opName, ord))
					continue
				}
				got := an.EvalCond(ei.Info(), rets[hit].Results[0], nil, bd.Leaf)
				if got != an.CmpTri(tok, ord) {
					bad = append(bad, fmt.Sprintf("%s with v1 %s v2 returns %v", opName, ord, got))
				}
			}
		}
		c.Check(len(bad) == 0, "R4", "store=etcd-mock:evalEntryInt64", ei.Pos(), fmt.Sprintf("comparison results agree with the operator for 4 operators × 3 orderings; mismatches: %v", bad), n)
	}
	// R5: doPut bumps Version
	if dp := an.FindFunc(pkg, "mockKV.doPut"); dp != nil {
		c.Analysed(dp.String())
		bumps := []string{}
		dp.InspectShallow(func(n ast.Node) bool {
			if as, ok := n.(*ast.AssignStmt); ok && len(as.Lhs) == 1 && len(as.Rhs) == 1 {
				if sel, ok := as.Lhs[0].(*ast.SelectorExpr); ok && sel.Sel.Name == "Version" {
					bumps = append(bumps, types.ExprString(as.Rhs[0]))
					if be, ok := as.Rhs[0].(*ast.BinaryExpr); !ok || be.Op != token.ADD || types.ExprString(be.X) != types.ExprString(as.Lhs[0]) || types.ExprString(be.Y) != "1" {
						bumps = append(bumps, "NOT-INCREMENT")
					}
				}
			}
			if kv, ok := n.(*ast.KeyValueExpr); ok {
				if id, ok := kv.Key.(*ast.Ident); ok && id.Name == "Version" {
					bumps = append(bumps, "new:"+types.ExprString(kv.Value))
					if types.ExprString(kv.Value) != "1" {
						bumps = append(bumps, "NOT-ONE")
					}
				}
			}
			return true
		})
		ok := len(bumps) == 2
		// stored value is newVal, which on the exists path is oldVal with Version+1
		stores := 0
		dp.InspectShallow(func(n ast.Node) bool {
			if as, ok := n.(*ast.AssignStmt); ok && len(as.Lhs) == 1 && strings.HasPrefix(dp.Canon(as.Lhs[0]), "recv.values[") {
				stores++
			}
			return true
		})
		c.Check(ok && stores == 1, "R5", "store=etcd-mock", dp.Pos(), fmt.Sprintf("doPut: Version assignments %v, %d store(s)", bumps, stores), 2)
	}
}

func c07Wrappers(c *core.Ctx) {
	kvp := c.Prog.Pkg("kv")
	iface := an.LookupIface(kvp, "Client")
	if iface == nil {
		c.Miss("R6", "type=kv.Client", "interface not found")
		return
	}
	backends := map[string]bool{"kv/consul.Client": true, "kv/etcd.Client": true}
	null := map[string]string{"kv.mockClient": "null client used for testing: never calls f, reports success without writing (documented mock; not reachable from NewClient for a real store)"}
	for _, rel := range []string{"kv", "kv/consul", "kv/etcd", "kv/memberlist"} {
		pkg := c.Prog.Pkg(rel)
		if pkg == nil {
			c.Miss("R6", "pkg="+rel, "not loaded")
			continue
		}
		for _, nt := range an.NamedTypes(pkg) {
			if _, isIface := nt.Underlying().(*types.Interface); isIface || !an.Implements(nt, iface) {
				continue
			}
			id := rel + "." + nt.Obj().Name()
			if backends[id] {
				continue
			}
			fn := an.Method(c.Prog.ByPath, nt, "CAS")
			if fn == nil {
				c.Miss("R6", "wrapper="+id, "CAS method body not found")
				continue
			}
			c.Analysed(fn.String())
			if reason, ok := null[id]; ok {
				c.HoldTrivial("R6", "wrapper="+id, fn.Pos(), "exception: "+reason)
				continue
			}
			var inner []an.Call
			for _, call := range fn.Calls(true) {
				if call.Func() != nil && call.Func().Name() == "CAS" {
					inner = append(inner, call)
				}
			}
			if len(inner) != 1 {
				c.Viol("R6", "wrapper="+id, fn.Pos(), fmt.Sprintf("wrapper must call exactly one inner CAS, found %d", len(inner)))
				continue
			}
			call := inner[0]
			// locate the func argument
			var farg ast.Expr
			for _, a := range call.Expr.Args {
				if _, ok := call.In.Info().TypeOf(a).Underlying().(*types.Signature); ok {
					farg = a
				}
			}
			if farg == nil {
				c.Viol("R6", "wrapper="+id, call.Expr.Pos(), "no function argument passed to the inner CAS")
				continue
			}
			if lit, ok := an.Unparen(farg).(*ast.FuncLit); ok {
				lf := fn.LitFn(lit)
				lg := lf.Graph()
				fcalls := []an.Call{}
				for _, cl := range lf.Calls(false) {
					if v, ok := cl.Callee.(*types.Var); ok && v.Name() != "" && fn.Canon(cl.Expr.Fun) == "p2" {
						fcalls = append(fcalls, cl)
					}
				}
				ok := len(fcalls) == 1
				detail := fmt.Sprintf("closure calls f %d times", len(fcalls))
				if ok {
					FC := lf.Canon(fcalls[0].Expr)
					ok = lf.Canon(fcalls[0].Expr.Args[0]) == "λp0"
					for _, b := range lg.Blocks {
						if r := an.ReturnOf(b); r != nil {
							if len(r.Results) != 3 || lf.Canon(r.Results[0]) != FC+"#0" || lf.Canon(r.Results[1]) != FC+"#1" || lf.Canon(r.Results[2]) != FC+"#2" {
								ok = false
								detail += "; return does not forward f's results unchanged"
							}
							ex := lg.Exec(lg.EntryLoc(), []an.Loc{lg.Locate(fcalls[0].Expr)}, func(ast.Expr, an.Store) an.Tri { return an.U }, an.ExecOpts{})
							if !ex.Must[0] {
								ok = false
								detail += "; f not called on every path"
							}
						}
					}
				}
				c.Check(ok, "R6", "wrapper="+id, call.Expr.Pos(), "closure passed to inner CAS calls f exactly once with its own argument and returns f's three results unchanged: "+detail, 1)
				// mirroring only after success
				if id == "kv.MultiClient" {
					g := fn.Graph()
					ws := fn.CallsTo(false, "kv", "(*MultiClient).writeToSecondary")
					okM := len(ws) == 1
					if okM {
						CC := fn.Canon(call.Expr)
						t := an.Table{G: g, From: g.EntryLoc(), MayOnly: true, Atoms: []an.Atom{{Name: "errnil", Values: []string{"T", "F"}}},
							Binder: &an.Binder{Fn: fn, Eq: map[string]string{CC + "|nil": "errnil"}}, Targets: []an.Loc{g.Locate(ws[0].Expr)},
							Want: func(r an.Row, _ int) an.Tri { return an.FromBool(r["errnil"] == "T") }}
						res := t.Run()
						okM = res.OK()
					}
					c.Check(okM, "R6", "wrapper=kv.MultiClient:mirror", fn.Pos(), "secondary is written only after the primary CAS returned nil", 2)
					// the answer of the wrapper is the primary's answer: every return hands back the primary CAS's error and nothing else
					CCp := fn.Canon(call.Expr)
					okR := true
					vals := []string{}
					for _, b := range g.Blocks {
						r := an.ReturnOf(b)
						if r == nil || len(r.Results) != 1 {
							continue
						}
						if obj := fn.ObjOf(r.Results[0]); obj != nil && fn.DefCount(obj) > 1 {
							ex := g.Exec(g.EntryLoc(), []an.Loc{g.Locate(r)}, func(ast.Expr, an.Store) an.Tri { return an.U }, an.ExecOpts{Watch: obj})
							for v := range ex.Vals[0] {
								vals = append(vals, v)
								if v != CCp {
									okR = false
								}
							}
						} else {
							v := fn.Canon(r.Results[0])
							vals = append(vals, v)
							if v != CCp {
								okR = false
							}
						}
					}
					c.Check(okR && len(vals) > 0, "R6", "wrapper=kv.MultiClient:result", fn.Pos(), fmt.Sprintf("CAS reports exactly what the primary store's CAS reported (a mirror failure must not turn a committed update into a failed call): returned %v", vals), 1)
					// what is mirrored is what the LAST attempt asked to store: the variable handed to writeToSecondary is
					// assigned f's first result on every path of the closure, unconditionally (a value remembered from an
					// earlier, losing attempt would be written to the secondary store although no CAS committed it)
					if len(ws) == 1 && len(ws[0].Expr.Args) >= 1 && len(fcalls) == 1 {
						FC := lf.Canon(fcalls[0].Expr)
						varg := ws[0].Expr.Args[len(ws[0].Expr.Args)-1]
						obj := fn.ObjOf(varg)
						okV, nAsg := obj != nil, 0
						detailV := ""
						if obj != nil {
							ast.Inspect(lit.Body, func(nd ast.Node) bool {
								as, ok := nd.(*ast.AssignStmt)
								if !ok {
									return true
								}
								for i, l := range as.Lhs {
									if lf.ObjOf(l) != obj {
										continue
									}
									nAsg++
									val := ""
									if len(as.Rhs) == len(as.Lhs) {
										val = lf.Canon(as.Rhs[i])
									}
									ex := lg.Exec(lg.EntryLoc(), []an.Loc{lg.Locate(as)}, func(ast.Expr, an.Store) an.Tri { return an.U }, an.ExecOpts{})
									if val != FC+"#0" || !ex.Must[0] {
										okV = false
										detailV += fmt.Sprintf(" [%s = %s, on every path of the attempt: %v]", obj.Name(), val, ex.Must[0])
									}
								}
								return true
							})
						}
						c.Check(okV && nAsg == 1, "R6", "wrapper=kv.MultiClient:mirrored-value", fn.Pos(), fmt.Sprintf("the value mirrored to the secondary store is the output of the last attempt: the closure assigns it f's first result once, on every path (assignments: %d)%s", nAsg, detailV), 1)
					}
				}
			} else {
				fc := call.In.Canon(farg)
				c.Check(fc == "p2" || fc == "p3", "R6", "wrapper="+id, call.Expr.Pos(), "function argument forwarded to the inner CAS is "+fc+" (the caller's f)", 1)
			}
		}
	}
}
