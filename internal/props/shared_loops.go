package props

import (
	"fmt"
	"go/ast"
	"go/constant"
	"go/token"
	"go/types"
	"sort"
	"strings"

	"dsverif/internal/an"
	"dsverif/internal/core"

	"golang.org/x/tools/go/packages"
)

// pairwiseLoopsAs: every loop of the package that decides "these two lists are equal" element by element —
// its body compares A[i] with B[i] (or with the range value of the same position) for the loop's own index i —
// visits EVERY index of the lists: `for i := range A`, `for i, v := range A`, `for i := 0; i < len(A); i++`,
// or the descending form down to and including 0. A loop that starts at 1, stops before 0, steps by more than
// one or ranges over a sub-slice leaves positions uncompared, so two different lists are taken for equal (for the
// ring: a changed token is not seen by the equality shortcut and the token index goes stale).
// The rule looks at the loop header only; what happens on a mismatch is the business of the tables of the
// functions concerned.
func pairwiseLoopsAs(c *core.Ctx, pkg *packages.Package, R string, min int) {
	type site struct {
		fn     *an.Fn
		pos    token.Pos
		ok     bool
		detail string
	}
	var sites []site
	var all []*an.Fn
	for _, top := range an.Funcs(pkg) {
		all = append(all, top)
	}
	for _, fn := range all {
		if strings.HasSuffix(c.Prog.Fset.Position(fn.Pos()).Filename, ".pb.go") {
			continue
		}
		info := fn.Info()
		intConst := func(e ast.Expr) (int64, bool) {
			if tv, ok := info.Types[e]; ok && tv.Value != nil && tv.Value.Kind() == constant.Int {
				return constant.Int64Val(tv.Value)
			}
			return 0, false
		}
		isSliceLike := func(e ast.Expr) bool {
			t := info.TypeOf(e)
			if t == nil {
				return false
			}
			switch t.Underlying().(type) {
			case *types.Slice, *types.Array:
				return true
			}
			return false
		}
		// lenOf: e is len(S) (directly or through a single-definition local): the canonical form of S
		lenOf := func(e ast.Expr) (string, bool) {
			e = an.Unparen(e)
			if id, ok := e.(*ast.Ident); ok {
				if obj := info.Uses[id]; obj != nil {
					if d, ok := fn.SingleDefExpr(obj); ok {
						e = an.Unparen(d)
					}
				}
			}
			if call, ok := e.(*ast.CallExpr); ok && len(call.Args) == 1 {
				if id, ok := call.Fun.(*ast.Ident); ok && id.Name == "len" {
					if _, isB := info.Uses[id].(*types.Builtin); isB {
						return fn.Canon(call.Args[0]), true
					}
				}
			}
			return "", false
		}
		fn.InspectDeep(func(nd ast.Node) bool {
			var body *ast.BlockStmt
			var idx types.Object
			var rangeVal types.Object
			var rangeX ast.Expr
			switch l := nd.(type) {
			case *ast.RangeStmt:
				if !isSliceLike(l.X) {
					return true
				}
				body = l.Body
				if id, ok := l.Key.(*ast.Ident); ok && id.Name != "_" {
					idx = info.ObjectOf(id)
				}
				if id, ok := l.Value.(*ast.Ident); ok && id.Name != "_" {
					rangeVal = info.ObjectOf(id)
				}
				rangeX = l.X
			case *ast.ForStmt:
				body = l.Body
				// index variable: the one the post statement steps
				switch p := l.Post.(type) {
				case *ast.IncDecStmt:
					idx = fn.ObjOf(p.X)
				case *ast.AssignStmt:
					if len(p.Lhs) == 1 {
						idx = fn.ObjOf(p.Lhs[0])
					}
				}
			default:
				return true
			}
			if idx == nil || body == nil {
				return true
			}
			// comparisons A[idx] ==/!= B[idx]  (or rangeVal on one side)
			var pairs [][2]string
			ast.Inspect(body, func(m ast.Node) bool {
				if _, nested := m.(*ast.FuncLit); nested {
					return false
				}
				be, ok := m.(*ast.BinaryExpr)
				if !ok || (be.Op != token.EQL && be.Op != token.NEQ) {
					return true
				}
				side := func(e ast.Expr) (string, bool) {
					e = an.Unparen(e)
					if ie, ok := e.(*ast.IndexExpr); ok && isSliceLike(ie.X) && fn.ObjOf(ie.Index) == idx {
						return fn.Canon(ie.X), true
					}
					if rangeVal != nil && fn.ObjOf(e) == rangeVal {
						return fn.Canon(rangeX), true
					}
					return "", false
				}
				a, okA := side(be.X)
				b, okB := side(be.Y)
				if okA && okB && a != b {
					pairs = append(pairs, [2]string{a, b})
				}
				return true
			})
			if len(pairs) == 0 {
				return true
			}
			a, b := pairs[0][0], pairs[0][1]
			s := site{fn: fn, pos: nd.Pos()}
			switch l := nd.(type) {
			case *ast.RangeStmt:
				x := an.Unparen(l.X)
				if se, isSub := x.(*ast.SliceExpr); isSub {
					lowZero := se.Low == nil
					if v, ok := intConst(se.Low); se.Low != nil && ok && v == 0 {
						lowZero = true
					}
					s.ok = lowZero && se.High == nil
					s.detail = fmt.Sprintf("ranges over the sub-slice %s while comparing %s with %s", types.ExprString(l.X), a, b)
				} else {
					cx := fn.Canon(l.X)
					s.ok = cx == a || cx == b
					s.detail = fmt.Sprintf("range over %s compares %s with %s at every index", cx, a, b)
				}
			case *ast.ForStmt:
				s.ok, s.detail = false, "loop header not recognised as visiting every index"
				var initV ast.Expr
				if as, ok := l.Init.(*ast.AssignStmt); ok && len(as.Lhs) >= 1 && len(as.Lhs) == len(as.Rhs) {
					for i, lh := range as.Lhs {
						if fn.ObjOf(lh) == idx {
							initV = as.Rhs[i]
						}
					}
				}
				step := 0
				switch p := l.Post.(type) {
				case *ast.IncDecStmt:
					if p.Tok == token.INC {
						step = 1
					} else {
						step = -1
					}
				case *ast.AssignStmt:
					if len(p.Rhs) == 1 {
						if v, ok := intConst(p.Rhs[0]); ok && v == 1 {
							if p.Tok == token.ADD_ASSIGN {
								step = 1
							} else if p.Tok == token.SUB_ASSIGN {
								step = -1
							}
						}
					}
				}
				cond, _ := an.Unparen(l.Cond).(*ast.BinaryExpr)
				if initV == nil || cond == nil || step == 0 {
					break
				}
				// normalise the condition to  idx OP bound
				x, y, op := cond.X, cond.Y, cond.Op
				if fn.ObjOf(y) == idx {
					x, y = y, x
					switch op {
					case token.LSS:
						op = token.GTR
					case token.GTR:
						op = token.LSS
					case token.LEQ:
						op = token.GEQ
					case token.GEQ:
						op = token.LEQ
					}
				}
				if fn.ObjOf(x) != idx {
					break
				}
				if step == 1 {
					iv, isC := intConst(initV)
					ls, isLen := lenOf(y)
					s.ok = isC && iv == 0 && isLen && (ls == a || ls == b) && (op == token.LSS || op == token.NEQ)
					s.detail = fmt.Sprintf("ascending loop from %s while %s %s %s compares %s with %s", types.ExprString(initV), idx.Name(), op, types.ExprString(y), a, b)
				} else {
					// descending: init len(S)-1, cond idx >= 0 (or > -1)
					okInit := false
					if ib, ok := an.Unparen(initV).(*ast.BinaryExpr); ok && ib.Op == token.SUB {
						if v, isC := intConst(ib.Y); isC && v == 1 {
							if ls, isLen := lenOf(ib.X); isLen && (ls == a || ls == b) {
								okInit = true
							}
						}
					}
					bv, isC := intConst(y)
					okCond := isC && ((op == token.GEQ && bv == 0) || (op == token.GTR && bv == -1))
					s.ok = okInit && okCond
					s.detail = fmt.Sprintf("descending loop from %s while %s %s %s compares %s with %s", types.ExprString(initV), idx.Name(), op, types.ExprString(y), a, b)
				}
			}
			sites = append(sites, s)
			return true
		})
	}
	sort.Slice(sites, func(i, j int) bool { return sites[i].pos < sites[j].pos })
	perFn := map[string]int{}
	for _, s := range sites {
		perFn[s.fn.Name]++
		key := fmt.Sprintf("pairwise-loop:func=%s#%d", s.fn.Name, perFn[s.fn.Name])
		c.Analysed(s.fn.String())
		if s.ok {
			c.Hold(R, key, s.pos, "element-wise comparison visits every index: "+s.detail, 1)
		} else {
			c.Viol(R, key, s.pos, "element-wise comparison does not visit every index (positions left uncompared make different lists look equal): "+s.detail)
		}
	}
	std := 0
	for _, fn := range all {
		for _, call := range fn.CallsTo(true, "slices", "Equal") {
			std++
			c.Hold(R, fmt.Sprintf("pairwise-loop:func=%s:slices.Equal#%d", fn.Name, std), call.Expr.Pos(), "standard library comparison (lengths, then every element)", 1)
		}
	}
	if len(sites)+std < min {
		c.Undec(R, "pairwise-loop:count", pkg.Syntax[0].Pos(), fmt.Sprintf("expected ≥ %d element-wise comparison loops in package %s, found %d", min, pkg.Name, len(sites)+std))
	}
}
