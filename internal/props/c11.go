package props

import (
	"fmt"
	"go/ast"
	"go/token"
	"go/types"
	"strings"

	"dsverif/internal/an"
	"dsverif/internal/core"
	"golang.org/x/tools/go/cfg"
)

func init() {
	Registry["C11"] = Prop{
		Patterns: []string{"./ring"},
		Run:      runC11,
		Explanation: "Decides structural necessary conditions of 'quorum reads return only quorum-backed results and release everything else' in DoUntilQuorumWithoutSuccessfulContextCancellation (which backs DoUntilQuorum and the multi-set variant) and ReplicationSet.Do: (R1) every spawned per-instance goroutine sends exactly one result on every path; (R2) every receive is accounted (decrement on every path of the receiving case; the deferred drain loops on the counter, decrements per receive and cleans successful late results); " +
			"(R3) ownership: a successfully received result is always recorded before anything else can return (it is dropped only if its error is non-nil); every error return after the spawn loop runs the cleanup of recorded results exactly once; on success every recorded result is either returned or cleaned, never both or neither; (R4) cancellation: terminate cancels all contexts, a failed instance and every instance whose result is not returned get cancelContextFor; (R5) a terminal error returns before resultTracker.done; (R6) f has one call site, in the goroutine spawned per element of the instance loop; " +
			"(R7) in ReplicationSet.Do each held-back goroutine waits on a timer it created itself (a shared timer channel delivers only once). Also: (R8) DoUntilQuorum and DoMultiUntilQuorum… delegate to the analysed functions with arguments, configuration and results untouched; (R10) multi-set read: every worker reads its set, failures recorded once, successes appended in full, answer after Wait; (R11) the configuration check refuses exactly a negative hedging delay (no other configuration makes a read fail before any call). (R12) ReplicationSet.Do's collecting loop never blocks on a send: the force-start send is unreachable whenever the zone-aware tracker was chosen. NOT decided: the success criterion arithmetic of the trackers beyond the ordering tables of R9, hedging timing, the in-flight tracker that decides when the multi-set workers context may be cancelled.",
	}
}

func caseBodyBlock(g *an.Graph, cc *ast.CommClause) *cfg.Block {
	for _, b := range g.G.Blocks {
		if b.Kind == cfg.KindSelectCaseBody && b.Stmt == ast.Stmt(cc) {
			return b
		}
	}
	return nil
}

func runC11(c *core.Ctx) {
	c.Rule("R1", "each spawned call reports exactly once", 1)
	c.Rule("R2", "receive/decrement accounting and the deferred drain", 3)
	c.Rule("R3", "ownership of received results: recorded, cleaned on error returns exactly once, returned xor cleaned on success", 4)
	c.Rule("R4", "cancellation of unused or failed calls", 3)
	c.Rule("R5", "terminal error returns before resultTracker.done", 1)
	c.Rule("R6", "at most one call per instance", 1)
	c.Rule("R7", "ReplicationSet.Do: per-goroutine delay timers", 1)
	c.Rule("R12", "ReplicationSet.Do: the collecting loop never blocks on a send: the force-start send is unreachable when the zone-aware tracker was chosen", 1)
	c.Rule("R8", "DoUntilQuorum and DoMultiUntilQuorum… delegate to the analysed functions with arguments, configuration and results untouched", 4)
	c.Rule("R10", "multi-set read: every worker reads its set, failures recorded once, successes appended in full, answer after Wait", 3)
	c.Rule("R11", "the configuration check refuses exactly a negative hedging delay (no other configuration makes a read fail before any call)", 1)
	c.Rule("R9", "result trackers: success / failure / inclusion predicates and thresholds; what done() releases", 10)
	pkg := c.Prog.Pkg("ring")
	fn := an.FindFunc(pkg, "DoUntilQuorumWithoutSuccessfulContextCancellation")
	if fn == nil {
		c.Miss("R1", "func=DoUntilQuorumWithoutSuccessfulContextCancellation", "not found")
		return
	}
	c.Analysed(fn.String())
	g := fn.Graph()
	anyLeaf := func(ast.Expr, an.Store) an.Tri { return an.U }
	// channel and counter objects
	var resultsChan, remaining, resultsMap types.Object
	fn.InspectShallow(func(n ast.Node) bool {
		if as, ok := n.(*ast.AssignStmt); ok && as.Tok == token.DEFINE && len(as.Lhs) == 1 && len(as.Rhs) == 1 {
			obj := fn.ObjOf(as.Lhs[0])
			switch t := fn.Info().TypeOf(as.Lhs[0]).Underlying().(type) {
			case *types.Chan:
				if strings.Contains(t.Elem().String(), "instanceResult") {
					resultsChan = obj
				}
			case *types.Basic:
				if fn.Canon(as.Rhs[0]) == "len(p1.Instances)" && t.Kind() == types.Int {
					remaining = obj
				}
			case *types.Map:
				if strings.Contains(t.Key().String(), "InstanceDesc") {
					resultsMap = obj
				}
			}
		}
		return true
	})
	if resultsChan == nil || remaining == nil || resultsMap == nil {
		c.Undec("R1", "objects", fn.Pos(), "results channel / remaining counter / results map not recognised")
		return
	}
	isRecv := func(f *an.Fn, e ast.Expr) bool {
		u, ok := an.Unparen(e).(*ast.UnaryExpr)
		return ok && u.Op == token.ARROW && f.ObjOf(u.X) == resultsChan
	}
	// ---- spawn loop
	var spawn *ast.GoStmt
	var spawnLoop *ast.RangeStmt
	fn.InspectShallow(func(n ast.Node) bool {
		if gs, ok := n.(*ast.GoStmt); ok {
			if rs, ok := loopOf(fn, gs).(*ast.RangeStmt); ok && fn.Canon(rs.X) == "p1.Instances" {
				spawn, spawnLoop = gs, rs
			}
		}
		return true
	})
	if spawn == nil {
		c.Undec("R1", "spawn", fn.Pos(), "per-instance goroutine spawn in a loop over r.Instances not found")
		return
	}
	lit, _ := spawn.Call.Fun.(*ast.FuncLit)
	if lit == nil {
		c.Undec("R1", "spawn", spawn.Pos(), "spawned function is not a literal")
		return
	}
	lf := fn.LitFn(lit)
	lg := lf.Graph()
	var sends []an.Loc
	lf.InspectShallow(func(n ast.Node) bool {
		if s, ok := n.(*ast.SendStmt); ok && lf.ObjOf(s.Chan) == resultsChan {
			sends = append(sends, lg.Locate(s))
		}
		return true
	})
	ex := lg.Exec(lg.EntryLoc(), sends, anyLeaf, an.ExecOpts{Record: true})
	bad := 0
	for _, tr := range ex.Traces {
		if len(tr) != 1 {
			bad++
		}
	}
	c.Check(bad == 0 && len(ex.Traces) > 0 && len(sends) > 0, "R1", "goroutine:sends", lit.Pos(), fmt.Sprintf("%d paths through the per-instance goroutine, each with exactly one send on the results channel (%d send sites; %d paths differ)", len(ex.Traces), len(sends), bad), len(ex.Traces))
	// R6
	fcalls := []an.Call{}
	for _, call := range fn.Calls(true) {
		if fn.Canon(call.Expr.Fun) == "p3" || call.In.Canon(call.Expr.Fun) == "p3" {
			fcalls = append(fcalls, call)
		}
	}
	c.Check(len(fcalls) == 1 && fcalls[0].In == lf, "R6", "f:callsite", spawn.Pos(), fmt.Sprintf("the caller's function has %d call site(s), inside the goroutine spawned once per element of r.Instances", len(fcalls)), 1)

	// ---- receiving case in the main loop
	var recvCase *ast.CommClause
	var mainSel *ast.SelectStmt
	fn.InspectShallow(func(n ast.Node) bool {
		if sel, ok := n.(*ast.SelectStmt); ok {
			for _, cl := range sel.Body.List {
				cc := cl.(*ast.CommClause)
				if as, ok := cc.Comm.(*ast.AssignStmt); ok && len(as.Rhs) == 1 && isRecv(fn, as.Rhs[0]) {
					recvCase, mainSel = cc, sel
				}
			}
		}
		return true
	})
	if recvCase == nil {
		c.Undec("R2", "main:receive", fn.Pos(), "receiving select case not found")
		return
	}
	body := caseBodyBlock(g, recvCase)
	mainLoop := loopOf(fn, mainSel)
	header, _, _ := g.LoopBlocks(mainLoop)
	var dec an.Loc
	ast.Inspect(recvCase, func(n ast.Node) bool {
		if id, ok := n.(*ast.IncDecStmt); ok && id.Tok == token.DEC && fn.ObjOf(id.X) == remaining {
			dec = g.Locate(id)
		}
		return true
	})
	if body == nil || !dec.Valid() {
		c.Viol("R2", "main:receive", recvCase.Pos(), "no decrement of the remaining-results counter in the receiving case")
	} else {
		ex := g.Exec(an.Loc{B: body, I: 0}, []an.Loc{dec}, anyLeaf, an.ExecOpts{Header: header})
		c.Check(ex.Must[0], "R2", "main:receive", recvCase.Pos(), fmt.Sprintf("every path of the receiving case decrements the remaining counter (%d paths)", ex.Paths), ex.Paths)
	}
	// drain goroutine
	c11Drain(c, fn, resultsChan, remaining)

	// ---- R3a: a successful result is recorded before any return
	resVar := fn.ObjOf(recvCase.Comm.(*ast.AssignStmt).Lhs[0])
	var record an.Loc
	ast.Inspect(recvCase, func(n ast.Node) bool {
		if as, ok := n.(*ast.AssignStmt); ok && len(as.Lhs) == 1 {
			if ix, ok := as.Lhs[0].(*ast.IndexExpr); ok && fn.ObjOf(ix.X) == resultsMap {
				record = g.Locate(as)
			}
		}
		return true
	})
	if !record.Valid() || body == nil {
		c.Viol("R3", "main:record", recvCase.Pos(), "received results are not recorded in the results map")
	} else {
		leaf := func(val an.Tri) an.Leaf {
			return func(e ast.Expr, st an.Store) an.Tri {
				if be, ok := an.Unparen(e).(*ast.BinaryExpr); ok && (be.Op == token.EQL || be.Op == token.NEQ) {
					if sel, ok := an.Unparen(be.X).(*ast.SelectorExpr); ok && sel.Sel.Name == "err" && fn.ObjOf(sel.X) == resVar && fn.Canon(be.Y) == "nil" {
						if be.Op == token.EQL {
							return val
						}
						return an.Not(val)
					}
				}
				return an.U
			}
		}
		exOK := g.Exec(an.Loc{B: body, I: 0}, []an.Loc{record}, leaf(an.T), an.ExecOpts{Header: header})
		exErr := g.Exec(an.Loc{B: body, I: 0}, []an.Loc{record}, leaf(an.F), an.ExecOpts{Header: header})
		c.Check(exOK.Must[0] && !exErr.May[0], "R3", "main:record", recvCase.Pos(), fmt.Sprintf("a result with err == nil is recorded on every path of the case (also those that return); results with errors are never recorded (ok paths %d, err paths %d)", exOK.Paths, exErr.Paths), exOK.Paths+exErr.Paths)
	}
	// ---- closures
	var cleanupLit, terminateLit *ast.FuncLit
	var cleanupObj, terminateObj types.Object
	fn.InspectShallow(func(n ast.Node) bool {
		if as, ok := n.(*ast.AssignStmt); ok && as.Tok == token.DEFINE && len(as.Lhs) == 1 {
			if l, ok := as.Rhs[0].(*ast.FuncLit); ok {
				lf2 := fn.LitFn(l)
				cleans, cancels := 0, 0
				for _, call := range lf2.Calls(false) {
					if lf2.Canon(call.Expr.Fun) == "p4" {
						cleans++
					}
					if s, ok := call.Expr.Fun.(*ast.SelectorExpr); ok && s.Sel.Name == "cancelAllContexts" {
						cancels++
					}
				}
				if cleans > 0 && cancels == 0 {
					cleanupLit, cleanupObj = l, fn.ObjOf(as.Lhs[0])
				}
				if cancels > 0 {
					terminateLit, terminateObj = l, fn.ObjOf(as.Lhs[0])
				}
			}
		}
		return true
	})
	if cleanupLit == nil || terminateLit == nil {
		c.Undec("R3", "closures", fn.Pos(), "cleanup / terminate closures not recognised")
		return
	}
	// cleanup closure: cleanupFunc for every recorded result
	{
		cf := fn.LitFn(cleanupLit)
		ok := false
		for _, rs := range rangeLoops(cf, fn.Canon(ast.NewIdent("x"))) {
			_ = rs
		}
		cf.InspectShallow(func(n ast.Node) bool {
			if rs, isR := n.(*ast.RangeStmt); isR && cf.ObjOf(rs.X) == resultsMap {
				for _, call := range cf.Calls(false) {
					if cf.Canon(call.Expr.Fun) == "p4" && an.InNode(rs, call.Expr) && cf.ObjOf(call.Expr.Args[0]) == cf.ObjOf(rs.Value) {
						cg := cf.Graph()
						h, b, _ := cg.LoopBlocks(rs)
						e := cg.Exec(an.Loc{B: b, I: 0}, []an.Loc{cg.Locate(call.Expr)}, anyLeaf, an.ExecOpts{Header: h})
						ok = e.Must[0]
					}
				}
			}
			return true
		})
		c.Check(ok, "R3", "closure:cleanupResultsAlreadyReceived", cleanupLit.Pos(), "the cleanup closure passes every recorded result to cleanupFunc", 1)
	}
	// terminate closure: cancelAllContexts and cleanup exactly once each
	{
		tf := fn.LitFn(terminateLit)
		tg := tf.Graph()
		var cl, ca []an.Loc
		for _, call := range tf.Calls(false) {
			if tf.ObjOf(call.Expr.Fun) == cleanupObj {
				cl = append(cl, tg.Locate(call.Expr))
			}
			if s, ok := call.Expr.Fun.(*ast.SelectorExpr); ok && s.Sel.Name == "cancelAllContexts" {
				ca = append(ca, tg.Locate(call.Expr))
			}
		}
		e := tg.Exec(tg.EntryLoc(), append(append([]an.Loc{}, cl...), ca...), anyLeaf, an.ExecOpts{})
		ok := len(cl) == 1 && len(ca) == 1 && e.Must[0] && e.Must[1]
		c.Check(ok, "R4", "closure:terminate", terminateLit.Pos(), "terminate cancels all contexts and cleans the recorded results, once each, on every path", e.Paths)
	}
	// ---- R3b: error returns after the spawn loop
	_, _, spawnDone := g.LoopBlocks(spawnLoop)
	var errRets []*ast.ReturnStmt
	var okRets []*ast.ReturnStmt
	for _, b := range g.Blocks {
		r := an.ReturnOf(b)
		if r == nil || spawnDone == nil || !g.Dom(spawnDone, b) {
			continue
		}
		if len(r.Results) == 2 && fn.Canon(r.Results[1]) == "nil" {
			okRets = append(okRets, r)
		} else {
			errRets = append(errRets, r)
		}
	}
	var cleanCalls, termCalls []an.Loc
	fn.InspectShallow(func(n ast.Node) bool {
		if call, ok := n.(*ast.CallExpr); ok {
			if fn.ObjOf(call.Fun) == cleanupObj {
				cleanCalls = append(cleanCalls, g.Locate(call))
			}
			if fn.ObjOf(call.Fun) == terminateObj {
				termCalls = append(termCalls, g.Locate(call))
			}
		}
		return true
	})
	var retLocs []an.Loc
	for _, r := range errRets {
		retLocs = append(retLocs, g.Locate(r))
	}
	targets := append(append(append([]an.Loc{}, cleanCalls...), termCalls...), retLocs...)
	nC := len(cleanCalls) + len(termCalls)
	if spawnDone != nil && len(errRets) > 0 {
		e := g.Exec(an.Loc{B: spawnDone, I: 0}, targets, anyLeaf, an.ExecOpts{Record: true, Unroll: 1, MaxPaths: 200000})
		badP, total := 0, 0
		for _, tr := range e.Traces {
			cnt, reached := 0, false
			for _, h := range tr {
				if h.Target < nC {
					cnt++
				} else {
					reached = true
				}
			}
			if reached {
				total++
				if cnt != 1 {
					badP++
				}
			}
		}
		c.Check(badP == 0 && total > 0 && !e.Overflow, "R3", "error-returns:cleanup-once", fn.Pos(), fmt.Sprintf("%d paths from the end of the spawn loop to one of %d error returns, each running the cleanup of recorded results exactly once (directly or through terminate); %d paths differ", total, len(errRets), badP), total)
	} else {
		c.Undec("R3", "error-returns:cleanup-once", fn.Pos(), "error returns after the spawn loop not found")
	}
	// ---- R3c/R4: final loop
	var finalLoop *ast.RangeStmt
	fn.InspectShallow(func(n ast.Node) bool {
		if rs, ok := n.(*ast.RangeStmt); ok && rs != spawnLoop && fn.Canon(rs.X) == "p1.Instances" {
			finalLoop = rs
		}
		return true
	})
	if finalLoop == nil || len(okRets) != 1 {
		c.Undec("R3", "success:returned-xor-cleaned", fn.Pos(), "final loop over the instances / single success return not found")
	} else {
		fh, fb, _ := g.LoopBlocks(finalLoop)
		var appendLoc an.Loc
		var cleanLocs []an.Loc
		var cancelLocs []an.Loc
		var haveCanon, inclCanon string
		ast.Inspect(finalLoop.Body, func(n ast.Node) bool {
			switch x := n.(type) {
			case *ast.AssignStmt:
				if len(x.Lhs) == 2 && len(x.Rhs) == 1 {
					if ix, ok := x.Rhs[0].(*ast.IndexExpr); ok && fn.ObjOf(ix.X) == resultsMap {
						haveCanon = "ok(" + fn.Canon(ix) + ")"
					}
				}
				if len(x.Lhs) == 1 && len(x.Rhs) == 1 {
					if call, ok := x.Rhs[0].(*ast.CallExpr); ok && an.ObjIs(an.Callee(fn.Info(), call), "", "append") && fn.ObjOf(x.Lhs[0]) == fn.ObjOf(okRets[0].Results[0]) {
						appendLoc = g.Locate(x)
					}
				}
			case *ast.CallExpr:
				if fn.Canon(x.Fun) == "p4" {
					cleanLocs = append(cleanLocs, g.Locate(x))
				}
				if s, ok := x.Fun.(*ast.SelectorExpr); ok {
					if s.Sel.Name == "cancelContextFor" {
						cancelLocs = append(cancelLocs, g.Locate(x))
					}
					if s.Sel.Name == "shouldIncludeResultFrom" {
						inclCanon = fn.Canon(x)
					}
				}
			}
			return true
		})
		if !appendLoc.Valid() || len(cleanLocs) == 0 || haveCanon == "" || inclCanon == "" {
			c.Undec("R3", "success:returned-xor-cleaned", finalLoop.Pos(), "append / cleanup / membership test not recognised in the final loop")
		} else {
			bd := &an.Binder{Fn: fn, Bool: map[string]string{haveCanon: "have", inclCanon: "incl"}, Unknown: map[string]bool{}}
			badRows := []string{}
			n := 0
			for _, row := range an.Rows([]an.Atom{{Name: "have", Values: []string{"T", "F"}}, {Name: "incl", Values: []string{"T", "F"}}}) {
				bd.Row = row
				tg := append(append([]an.Loc{appendLoc}, cleanLocs...), cancelLocs...)
				e := g.Exec(an.Loc{B: fb, I: 0}, tg, bd.Leaf, an.ExecOpts{Header: fh})
				n++
				app := e.Tri(0)
				cl := an.F
				for i := range cleanLocs {
					cl = an.Or(cl, e.Tri(1+i))
				}
				canc := an.F
				for i := range cancelLocs {
					canc = an.Or(canc, e.Tri(1+len(cleanLocs)+i))
				}
				have, incl := row["have"] == "T", row["incl"] == "T"
				wantApp, wantCl, wantCanc := have && incl, have && !incl, !(have && incl)
				if app != an.FromBool(wantApp) || cl != an.FromBool(wantCl) || canc != an.FromBool(wantCanc) {
					badRows = append(badRows, fmt.Sprintf("{%s} returned=%v cleaned=%v cancelled=%v", rowString(row), app, cl, canc))
				}
			}
			c.Check(len(badRows) == 0, "R3", "success:returned-xor-cleaned", finalLoop.Pos(), fmt.Sprintf("per instance: returned ⇔ have ∧ include; cleaned ⇔ have ∧ ¬include (never both, never neither): %v", badRows), n)
			c.Check(len(badRows) == 0 && len(cancelLocs) >= 2, "R4", "success:cancel-unused", finalLoop.Pos(), "every instance whose result is not returned gets cancelContextFor (context cancelled ⇔ ¬(have ∧ include))", n)
		}
	}
	// ---- R4: failed instance cancelled at the point of failure
	if body != nil {
		var cancelFail an.Loc
		ast.Inspect(recvCase, func(n ast.Node) bool {
			if call, ok := n.(*ast.CallExpr); ok {
				if s, ok := call.Fun.(*ast.SelectorExpr); ok && s.Sel.Name == "cancelContextFor" {
					cancelFail = g.Locate(call)
				}
			}
			return true
		})
		// reached on every error path that does not return through terminate
		var doneLoc an.Loc
		var doneLocs []an.Loc
		ast.Inspect(recvCase, func(n ast.Node) bool {
			if call, ok := n.(*ast.CallExpr); ok {
				if s, ok := call.Fun.(*ast.SelectorExpr); ok && s.Sel.Name == "done" {
					doneLoc = g.Locate(call)
					doneLocs = append(doneLocs, doneLoc)
				}
			}
			return true
		})
		if cancelFail.Valid() && doneLoc.Valid() {
			leaf := func(e ast.Expr, st an.Store) an.Tri {
				if be, ok := an.Unparen(e).(*ast.BinaryExpr); ok && (be.Op == token.EQL || be.Op == token.NEQ) {
					if sel, ok := an.Unparen(be.X).(*ast.SelectorExpr); ok && sel.Sel.Name == "err" && fn.ObjOf(sel.X) == resVar {
						if be.Op == token.EQL {
							return an.F
						}
						return an.T
					}
				}
				return an.U
			}
			e := g.Exec(an.Loc{B: doneLoc.B, I: doneLoc.I}, []an.Loc{cancelFail}, leaf, an.ExecOpts{Header: header})
			c.Check(e.Must[0], "R4", "main:cancel-failed", recvCase.Pos(), "after resultTracker.done, an instance that returned an error gets cancelContextFor on every path", e.Paths)
			// R5: no path from done to the terminal-error return
			var termFirst an.Loc
			for _, tl := range termCalls {
				if an.InNode(recvCase, fn.Graph().Fn.Body()) || true {
					if tl.B != nil && (!termFirst.Valid()) {
						termFirst = tl
					}
				}
			}
			// the first terminate call in source order inside the case is the terminal-error one
			var first *ast.CallExpr
			ast.Inspect(recvCase, func(n ast.Node) bool {
				if call, ok := n.(*ast.CallExpr); ok && fn.ObjOf(call.Fun) == terminateObj && first == nil {
					first = call
				}
				return true
			})
			if first != nil {
				e1 := g.Exec(an.Loc{B: body, I: 0}, append(append([]an.Loc{}, doneLocs...), g.Locate(first)), anyLeaf, an.ExecOpts{Header: header, Record: true})
				badT := 0
				for _, tr := range e1.Traces {
					seenDone := false
					for _, h := range tr {
						if h.Target < len(doneLocs) {
							seenDone = true
						}
						if h.Target == len(doneLocs) && seenDone {
							badT++
						}
					}
				}
				// and that first terminate is guarded by the terminal-error predicate on a non-nil error
				c.Check(badT == 0, "R5", "main:terminal-before-done", first.Pos(), "the terminal-error return is never preceded by resultTracker.done in the same iteration (done could start further requests)", len(e1.Traces))
			}
		} else {
			c.Undec("R4", "main:cancel-failed", recvCase.Pos(), "cancelContextFor / resultTracker.done not found in the receiving case")
		}
	}
	c11Legacy(c)
	c11Entry(c)
	c11Trackers(c)
	c11Done(c)
	c11Multi(c)
}

func c11Drain(c *core.Ctx, fn *an.Fn, resultsChan, remaining types.Object) {
	// the deferred func spawns a goroutine that loops while remaining > 0
	var drain *an.Fn
	for _, l := range fn.AllLits() {
		for _, rs := range []ast.Node{l.Lit} {
			_ = rs
		}
		hasLoop := false
		l.InspectShallow(func(n ast.Node) bool {
			if fs, ok := n.(*ast.ForStmt); ok && fs.Cond != nil {
				if be, ok := fs.Cond.(*ast.BinaryExpr); ok && l.ObjOf(be.X) == remaining && be.Op == token.GTR && l.Canon(be.Y) == "0" {
					hasLoop = true
				}
			}
			return true
		})
		if hasLoop {
			drain = l
		}
	}
	cleanCanon := "p4"
	var viaGo *ast.GoStmt
	if drain == nil {
		// the drain loop may live in a named function started with `go drain(resultsChan, remaining, cleanup)`:
		// the arguments are evaluated when the go statement runs, exactly like the captured variables of a literal
		pkg := c.Prog.Pkg("ring")
		fn.InspectDeep(func(n ast.Node) bool {
			gs, ok := n.(*ast.GoStmt)
			if !ok || drain != nil {
				return true
			}
			var inFn *an.Fn
			for _, l := range append([]*an.Fn{fn}, fn.AllLits()...) {
				if an.InNode(l.Body(), gs) {
					inFn = l // innermost last
				}
			}
			if inFn == nil {
				return true
			}
			fo, _ := an.Callee(inFn.Info(), gs.Call).(*types.Func)
			if fo == nil || fo.Pkg() != pkg.Types {
				return true
			}
			h := an.FnOf(c.Prog.ByPath, fo)
			if h == nil || h.Decl == nil {
				return true
			}
			sig := h.Obj.Type().(*types.Signature)
			var rem, ch types.Object
			cc := ""
			for i, a := range gs.Call.Args {
				if i >= sig.Params().Len() {
					break
				}
				switch {
				case inFn.ObjOf(a) == remaining:
					rem = sig.Params().At(i)
				case inFn.ObjOf(a) == resultsChan:
					ch = sig.Params().At(i)
				case fn.Canon(a) == "p4" || inFn.Canon(a) == "p4":
					cc = fmt.Sprintf("p%d", i)
				}
			}
			if rem != nil && ch != nil && cc != "" {
				drain, remaining, resultsChan, cleanCanon, viaGo = h, rem, ch, cc, gs
			}
			return true
		})
	}
	if drain == nil {
		c.Viol("R2", "drain", fn.Pos(), "no deferred drain loop `for remaining > 0` found: late results would never be cleaned up")
		return
	}
	// it must be started from a defer
	deferred := false
	fn.InspectShallow(func(n ast.Node) bool {
		if ds, ok := n.(*ast.DeferStmt); ok && ((drain.Lit != nil && an.InNode(ds, drain.Lit)) || (viaGo != nil && an.InNode(ds, viaGo))) {
			deferred = true
		}
		return true
	})
	dg := drain.Graph()
	var loop *ast.ForStmt
	drain.InspectShallow(func(n ast.Node) bool {
		if fs, ok := n.(*ast.ForStmt); ok {
			loop = fs
		}
		return true
	})
	h, b, _ := dg.LoopBlocks(loop)
	var recv, dec, clean an.Loc
	var resObj types.Object
	ast.Inspect(loop.Body, func(n ast.Node) bool {
		switch x := n.(type) {
		case *ast.AssignStmt:
			if len(x.Rhs) == 1 {
				if u, ok := an.Unparen(x.Rhs[0]).(*ast.UnaryExpr); ok && u.Op == token.ARROW && drain.ObjOf(u.X) == resultsChan {
					recv = dg.Locate(x)
					resObj = drain.ObjOf(x.Lhs[0])
				}
			}
		case *ast.IncDecStmt:
			if x.Tok == token.DEC && drain.ObjOf(x.X) == remaining {
				dec = dg.Locate(x)
			}
		case *ast.CallExpr:
			if drain.Canon(x.Fun) == cleanCanon {
				clean = dg.Locate(x)
			}
		}
		return true
	})
	if !recv.Valid() || !dec.Valid() || !clean.Valid() {
		c.Viol("R2", "drain", drain.Pos(), "drain loop must receive, decrement and clean successful results")
		return
	}
	e := dg.Exec(an.Loc{B: b, I: 0}, []an.Loc{recv, dec}, func(ast.Expr, an.Store) an.Tri { return an.U }, an.ExecOpts{Header: h})
	c.Check(deferred && e.Must[0] && e.Must[1], "R2", "drain:accounting", drain.Pos(), fmt.Sprintf("deferred drain: each iteration receives one result and decrements the counter (deferred=%v)", deferred), e.Paths)
	leaf := func(val an.Tri) an.Leaf {
		return func(ex ast.Expr, st an.Store) an.Tri {
			if be, ok := an.Unparen(ex).(*ast.BinaryExpr); ok && (be.Op == token.EQL || be.Op == token.NEQ) {
				if sel, ok := an.Unparen(be.X).(*ast.SelectorExpr); ok && sel.Sel.Name == "err" && drain.ObjOf(sel.X) == resObj {
					if be.Op == token.EQL {
						return val
					}
					return an.Not(val)
				}
			}
			return an.U
		}
	}
	e1 := dg.Exec(an.Loc{B: b, I: 0}, []an.Loc{clean}, leaf(an.T), an.ExecOpts{Header: h})
	e2 := dg.Exec(an.Loc{B: b, I: 0}, []an.Loc{clean}, leaf(an.F), an.ExecOpts{Header: h})
	c.Check(e1.Must[0] && !e2.May[0], "R2", "drain:cleanup", drain.Pos(), "a late result is passed to cleanupFunc ⇔ its error is nil", e1.Paths+e2.Paths)
}

func c11Legacy(c *core.Ctx) {
	pkg := c.Prog.Pkg("ring")
	fn := an.FindFunc(pkg, "ReplicationSet.Do")
	if fn == nil {
		c.Miss("R7", "func=ReplicationSet.Do", "not found")
		return
	}
	c.Analysed(fn.String())
	n := 0
	bad := []string{}
	for _, lf := range fn.AllLits() {
		// only literals spawned by `go` inside a loop
		spawned := false
		fn.InspectDeep(func(x ast.Node) bool {
			if gs, ok := x.(*ast.GoStmt); ok && gs.Call.Fun == ast.Expr(lf.Lit) && loopOf(fn, gs) != nil {
				spawned = true
			}
			return true
		})
		if !spawned {
			continue
		}
		lf.InspectShallow(func(x ast.Node) bool {
			u, ok := x.(*ast.UnaryExpr)
			if !ok || u.Op != token.ARROW {
				return true
			}
			// receive from <timer>.C or time.After(...)
			if sel, ok := an.Unparen(u.X).(*ast.SelectorExpr); ok && sel.Sel.Name == "C" {
				if t := lf.Info().TypeOf(sel.X); t != nil && strings.Contains(t.String(), "time.Timer") || t != nil && strings.Contains(t.String(), "time.Ticker") {
					n++
					obj := lf.ObjOf(sel.X)
					inside := false
					if obj != nil {
						for _, d := range lf.DefSites(obj) {
							if d.Lit == lf.Lit {
								inside = true
							}
						}
					}
					if !inside {
						bad = append(bad, c.Prog.PosStr(u.Pos()))
					}
				}
			}
			return true
		})
	}
	c.Check(len(bad) == 0 && n >= 1, "R7", "func=ReplicationSet.Do:timers", fn.Pos(), fmt.Sprintf("%d timer receives inside per-instance goroutines, each on a timer created by that goroutine; shared timers: %v", n, bad), n)
	// R12: the collecting loop never blocks on a send. A bare send (not a select alternative) in the function's own
	// goroutine goes to a channel whose capacity is the number of tolerated errors; only the default tracker ends the
	// loop after that many failures, so the send must be unreachable whenever the zone-aware tracker was chosen
	// (there the capacity is 0 and nobody is held back: the send would block for ever, past the caller's context).
	g := fn.Graph()
	var sends []ast.Node
	inSelect := map[ast.Node]bool{}
	fn.InspectShallow(func(x ast.Node) bool {
		switch y := x.(type) {
		case *ast.CommClause:
			if y.Comm != nil {
				inSelect[y.Comm] = true
			}
		case *ast.SendStmt:
			if !inSelect[y] {
				sends = append(sends, y)
			}
		}
		return true
	})
	var zoneTracker []ast.Node
	for _, call := range fn.CallsTo(false, "ring", "newZoneAwareResultTracker") {
		zoneTracker = append(zoneTracker, call.Expr)
	}
	if len(zoneTracker) == 0 {
		c.Miss("R12", "func=ReplicationSet.Do:zone-aware-tracker", "the call that selects the zone-aware tracker was not found")
		return
	}
	nb := 0
	for i, sd := range sends {
		targets := []an.Loc{g.Locate(zoneTracker[0]), g.Locate(sd)}
		atoms := []an.Atom{{Name: "muz", Values: []string{"lt", "eq", "gt"}}, {Name: "delay", Values: []string{"lt", "eq", "gt"}}}
		b := &an.Binder{Fn: fn, Cmp: map[string]string{"recv.MaxUnavailableZones|0": "muz", "p1|0": "delay"}}
		var both, sendRows []string
		for _, row := range an.Rows(atoms) {
			b.Row = row
			b.Unknown = map[string]bool{}
			ex := g.Exec(g.EntryLoc(), targets, b.Leaf, an.ExecOpts{Unroll: 1})
			if ex.May[1] {
				sendRows = append(sendRows, an.RowString(row))
				if ex.May[0] {
					both = append(both, an.RowString(row))
				}
			}
		}
		nb++
		c.Check(len(both) == 0 && len(sendRows) > 0, "R12", fmt.Sprintf("func=ReplicationSet.Do:bare-send#%d", i+1), sd.Pos(), fmt.Sprintf("bare send %s in the collecting loop: reachable for %v; reachable together with the zone-aware tracker (channel capacity = tolerated errors = 0, nobody held back) for %v", types.ExprString(sd.(*ast.SendStmt).Chan), sendRows, both), 9)
	}
	if nb == 0 {
		c.HoldTrivial("R12", "func=ReplicationSet.Do:bare-send", fn.Pos(), "the collecting loop has no bare send: it cannot block on one")
	}
}

func c11Entry(c *core.Ctx) {
	pkg := c.Prog.Pkg("ring")
	target := "DoUntilQuorumWithoutSuccessfulContextCancellation("
	if fn := an.FindFunc(pkg, "DoUntilQuorum"); fn != nil {
		c.Analysed(fn.String())
		g := fn.Graph()
		ok, rc := false, ""
		nret := 0
		for _, b := range g.Blocks {
			if r := an.ReturnOf(b); r != nil {
				nret++
				rc = fn.Canon(r.Results[0])
				ok = len(r.Results) == 1 && (strings.HasPrefix(rc, target+"context.WithCancel(p0)#0, p1, p2, ") || strings.HasPrefix(rc, target+"ctx, p1, p2, ")) && strings.HasSuffix(rc, ", p4)")
			}
		}
		// the adapter calls f exactly once with the context/instance it was given
		adapters := 0
		for _, l := range fn.AllLits() {
			calls := []an.Call{}
			for _, call := range l.Calls(false) {
				if l.Canon(call.Expr.Fun) == "p3" {
					calls = append(calls, call)
				}
			}
			if len(calls) == 1 && l.Canon(calls[0].Expr.Args[0]) == "λp0" && l.Canon(calls[0].Expr.Args[1]) == "λp1" {
				adapters++
			}
		}
		// cancel deferred
		deferred := false
		fn.InspectShallow(func(n ast.Node) bool {
			if ds, isD := n.(*ast.DeferStmt); isD && strings.HasPrefix(fn.Canon(ds.Call.Fun), "context.WithCancel(") && strings.HasSuffix(fn.Canon(ds.Call.Fun), ")#1") {
				deferred = true
			}
			return true
		})
		// the adapter hands f's results back untouched: its body is the single statement `return f(ctx, instance)`
		pure := false
		for _, lf := range fn.AllLits() {
			calls := 0
			for _, call := range lf.Calls(false) {
				if lf.Canon(call.Expr.Fun) == "p3" {
					calls++
				}
			}
			if calls == 1 && len(lf.Body().List) == 1 {
				if r, isRet := lf.Body().List[0].(*ast.ReturnStmt); isRet && len(r.Results) == 1 {
					if call, isCall := an.Unparen(r.Results[0]).(*ast.CallExpr); isCall && lf.Canon(call.Fun) == "p3" {
						pure = true
					}
				}
			}
		}
		c.Check(pure, "R8", "func=DoUntilQuorum:adapter", fn.Pos(), "the adapter around f is `return f(ctx, instance)`: a result is never replaced or dropped between f and the accounting (every success reaches the returned set or the cleanup)", 1)
		c.Check(ok && nret == 1 && adapters == 1 && deferred, "R8", "func=DoUntilQuorum", fn.Pos(), fmt.Sprintf("single return delegating to the analysed function with a cancellable child context whose cancel is deferred (=%v) and an adapter that calls f once (=%d): %s", deferred, adapters, rc), 1)
	} else {
		c.Miss("R8", "func=DoUntilQuorum", "not found")
	}
	if fn := an.FindFunc(pkg, "DoMultiUntilQuorumWithoutSuccessfulContextCancellation"); fn != nil {
		c.Analysed(fn.String())
		g := fn.Graph()
		var single an.Loc
		rcs := []string{}
		for _, b := range g.Blocks {
			if r := an.ReturnOf(b); r != nil && len(r.Results) >= 1 {
				rc := fn.Canon(r.Results[0])
				rcs = append(rcs, rc)
				if strings.HasPrefix(rc, target+"p0, p1[0], p2, p3, p4)") {
					single = g.Locate(r)
				}
			}
		}
		ok := single.Valid()
		if ok {
			t := an.Table{G: g, From: g.EntryLoc(), Atoms: []an.Atom{{Name: "n", Values: []string{"0", "1", "many"}}}, MayOnly: true,
				Binder: &an.Binder{Fn: fn}, Targets: []an.Loc{single}, Want: func(r an.Row, _ int) an.Tri { return an.FromBool(r["n"] == "1") }}
			t.Binder.Eq = map[string]string{}
			// len(sets) == 0 / == 1 are equality tests against constants: evaluate with a custom leaf
			bad := []string{}
			for _, v := range []string{"0", "1", "2"} {
				leaf := func(e ast.Expr, st an.Store) an.Tri {
					if be, isB := an.Unparen(e).(*ast.BinaryExpr); isB && be.Op == token.EQL && fn.Canon(be.X) == "len(p1)" {
						return an.FromBool(fn.Canon(be.Y) == v)
					}
					return an.U
				}
				ex := g.Exec(g.EntryLoc(), []an.Loc{single}, leaf, an.ExecOpts{})
				if ex.May[0] != (v == "1") {
					bad = append(bad, "len(sets)="+v)
				}
			}
			ok = len(bad) == 0
			_ = t
		}
		c.Check(ok, "R8", "func=DoMultiUntilQuorumWithoutSuccessfulContextCancellation:single", fn.Pos(), fmt.Sprintf("with exactly one replication set the call is delegated unchanged to the analysed single-set function (returns: %v)", rcs), 3)
		// the multi-set path hands its arguments on unchanged, and the configuration is not modified on the way
		multi := fn.CallsTo(false, "ring", "doMultiUntilQuorumWithoutSuccessfulContextCancellation")
		okM := len(multi) == 1 && len(multi[0].Expr.Args) == 5
		argsM := []string{}
		if okM {
			for i, a := range multi[0].Expr.Args {
				argsM = append(argsM, fn.Canon(a))
				if fn.Canon(a) != fmt.Sprintf("p%d", i) {
					okM = false
				}
			}
		}
		writesCfg := 0
		fn.InspectDeep(func(n ast.Node) bool {
			if as, ok := n.(*ast.AssignStmt); ok {
				for _, l := range as.Lhs {
					if lc := fn.Canon(l); lc == "p2" || strings.HasPrefix(lc, "p2.") || lc == "p3" || lc == "p4" {
						writesCfg++
					}
				}
			}
			return true
		})
		c.Check(okM && writesCfg == 0, "R8", "func=DoMultiUntilQuorumWithoutSuccessfulContextCancellation:multi", fn.Pos(), fmt.Sprintf("with several sets the call is handed on as (ctx, sets, cfg, f, cleanup) unchanged (args %v) and neither the configuration nor the callbacks are reassigned (%d writes): the per-set reads run with the caller's error classification", argsM, writesCfg), 1)
	}
}

// c11Done (R9): what a tracker does with one result. defaultResultTracker: a failure releases a held-back
// request on every path (nothing else decides it); a success checks for completion. zoneAwareResultTracker:
// the first failure of a zone — and only the first — releases another zone.
func c11Done(c *core.Ctx) {
	pkg := c.Prog.Pkg("ring")
	if f := an.FindFunc(pkg, "DoUntilQuorumConfig.Validate"); f != nil {
		c.Analysed(f.String())
		g := f.Graph()
		var okRet, errRet []*ast.ReturnStmt
		for _, b := range g.Blocks {
			if r := an.ReturnOf(b); r != nil && len(r.Results) == 1 {
				if f.Canon(r.Results[0]) == "nil" {
					okRet = append(okRet, r)
				} else {
					errRet = append(errRet, r)
				}
			}
		}
		if len(okRet) != 1 || len(errRet) == 0 {
			c.Undec("R11", "func=DoUntilQuorumConfig.Validate", f.Pos(), "expected one accepting return and at least one refusing return")
		} else {
			t := an.Table{G: g, From: g.EntryLoc(), FreeUnknown: true, Atoms: []an.Atom{{Name: "delay", Values: []string{"lt", "eq", "gt"}}},
				Binder: &an.Binder{Fn: f, Cmp: map[string]string{"recv.HedgingDelay|0": "delay"}}, Targets: targetsOf(g, okRet[0], errRet), Names: []string{"accept", "refuse"},
				Want: func(r an.Row, i int) an.Tri {
					if i == 0 {
						return an.FromBool(r["delay"] != "lt")
					}
					if r["delay"] != "lt" {
						return an.F
					}
					return an.U
				}}
			res := t.Run()
			c.Check(res.OK(), "R11", "func=DoUntilQuorumConfig.Validate", f.Pos(), "a configuration is refused ⇔ its hedging delay is negative, whatever else it says: "+res.Summary(), res.Rows)
		}
	} else {
		c.Miss("R11", "func=DoUntilQuorumConfig.Validate", "not found")
	}
	if f := an.FindFunc(pkg, "defaultResultTracker.done"); f != nil {
		c.Analysed(f.String())
		g := f.Graph()
		rel := f.CallsTo(false, "ring", "(*defaultResultTracker).startAdditionalRequestsDueTo")
		if len(rel) != 1 {
			c.Undec("R9", "func=defaultResultTracker.done", f.Pos(), fmt.Sprintf("expected one startAdditionalRequestsDueTo call, found %d", len(rel)))
		} else {
			t := an.Table{G: g, From: g.EntryLoc(), FreeUnknown: true, Atoms: []an.Atom{{Name: "ok", Values: []string{"T", "F"}}},
				Binder: &an.Binder{Fn: f, Eq: map[string]string{"p1|nil": "ok"}}, Targets: []an.Loc{g.Locate(rel[0].Expr)}, Names: []string{"release a held-back request"},
				Want: func(r an.Row, _ int) an.Tri { return an.FromBool(r["ok"] == "F") }}
			res := t.Run()
			c.Check(res.OK(), "R9", "func=defaultResultTracker.done", f.Pos(), "a failed call releases one held-back request ⇔ it failed — on every path, whatever else is counted (a read must not stall with quorum still reachable): "+res.Summary(), res.Rows)
		}
	} else {
		c.Miss("R9", "func=defaultResultTracker.done", "not found")
	}
	if f := an.FindFunc(pkg, "zoneAwareResultTracker.done"); f != nil {
		c.Analysed(f.String())
		g := f.Graph()
		rel := f.CallsTo(false, "ring", "(*zoneAwareResultTracker).startAdditionalRequestsDueTo")
		if len(rel) != 1 {
			c.Undec("R9", "func=zoneAwareResultTracker.done", f.Pos(), fmt.Sprintf("expected one startAdditionalRequestsDueTo call, found %d", len(rel)))
		} else {
			t := an.Table{G: g, From: g.EntryLoc(), FreeUnknown: true, Atoms: []an.Atom{{Name: "ok", Values: []string{"T", "F"}}, {Name: "first", Values: []string{"lt", "eq", "gt"}}},
				Binder: &an.Binder{Fn: f, Eq: map[string]string{"p1|nil": "ok"}, Cmp: map[string]string{"recv.failuresByZone[p0.Zone]|1": "first"}}, Targets: []an.Loc{g.Locate(rel[0].Expr)}, Names: []string{"release another zone"},
				Want: func(r an.Row, _ int) an.Tri { return an.FromBool(r["ok"] == "F" && r["first"] == "eq") }}
			res := t.Run()
			c.Check(res.OK(), "R9", "func=zoneAwareResultTracker.done", f.Pos(), "another zone is released ⇔ the call failed ∧ it is the zone's first failure: "+res.Summary(), res.Rows)
		}
	} else {
		c.Miss("R9", "func=zoneAwareResultTracker.done", "not found")
	}
}

// c11Multi (R10): the multi-set variant. Every set's worker runs the analysed single-set read on the
// workers' context (no path of the worker skips it), a failed set records its error, a successful set's
// results are appended in full to the slice that is returned, and the function answers only after all
// workers finished, with the recorded error when there is one.
func c11Multi(c *core.Ctx) {
	pkg := c.Prog.Pkg("ring")
	fn := an.FindFunc(pkg, "doMultiUntilQuorumWithoutSuccessfulContextCancellation")
	if fn == nil {
		c.Miss("R10", "func=doMultiUntilQuorumWithoutSuccessfulContextCancellation", "not found")
		return
	}
	c.Analysed(fn.String())
	g := fn.Graph()
	// the worker: a go statement inside the loop over the sets
	var worker *an.Fn
	var read an.Call
	nRead := 0
	for _, call := range fn.Calls(true) {
		if call.Is("ring", "DoUntilQuorumWithoutSuccessfulContextCancellation") {
			nRead++
			read = call
			worker = call.In
		}
	}
	if nRead != 1 || worker == nil || worker == fn {
		c.Undec("R10", "func=doMulti:worker", fn.Pos(), fmt.Sprintf("expected exactly one per-set call of the single-set function inside a worker closure, found %d", nRead))
		return
	}
	wg := worker.Graph()
	ex := wg.Exec(wg.EntryLoc(), []an.Loc{wg.Locate(read.Expr)}, func(ast.Expr, an.Store) an.Tri { return an.U }, an.ExecOpts{})
	args := []string{}
	for _, a := range read.Expr.Args {
		args = append(args, worker.Canon(a))
	}
	setArg := len(args) == 5 && (args[1] == "λp1" || args[1] == "each(p1)")
	c.Check(ex.Must[0] && setArg && strings.HasPrefix(args[0], "context.WithCancelCause(p0)"), "R10", "func=doMulti:worker", read.Expr.Pos(),
		fmt.Sprintf("every path of a set's worker performs the quorum read of its own set on the workers' context (must=%v, args=%v)", ex.Must[0], args), ex.Paths)
	// outcome of the read
	RC := worker.Canon(read.Expr)
	var errRec, app ast.Node
	worker.InspectShallow(func(n ast.Node) bool {
		switch x := n.(type) {
		case *ast.CallExpr:
			if s, ok := x.Fun.(*ast.SelectorExpr); ok && s.Sel.Name == "Do" && len(x.Args) == 1 {
				if lit, ok := x.Args[0].(*ast.FuncLit); ok {
					lf := worker.LitFn(lit)
					if lf == nil {
						lf = fn.LitFn(lit)
					}
					if lf != nil {
						lf.InspectShallow(func(m ast.Node) bool {
							if as, ok := m.(*ast.AssignStmt); ok && len(as.Rhs) == 1 && lf.Canon(as.Rhs[0]) == RC+"#1" {
								errRec = x
							}
							return true
						})
					}
				}
			}
		case *ast.AssignStmt:
			if len(x.Rhs) == 1 && len(x.Lhs) == 1 {
				if ap, ok := an.Unparen(x.Rhs[0]).(*ast.CallExpr); ok && an.ObjIs(an.Callee(worker.Info(), ap), "", "append") && ap.Ellipsis.IsValid() && len(ap.Args) == 2 &&
					worker.ObjOf(ap.Args[0]) == worker.ObjOf(x.Lhs[0]) && worker.ObjOf(x.Lhs[0]) != nil && worker.Canon(ap.Args[1]) == RC+"#0" {
					app = x
				}
			}
		}
		return true
	})
	if errRec == nil || app == nil {
		c.Undec("R10", "func=doMulti:outcome", read.Expr.Pos(), fmt.Sprintf("result collection idiom not recognised: error recorded once=%v, results appended in full (R = append(R, setResults...))=%v", errRec != nil, app != nil))
	} else {
		t := an.Table{G: wg, From: wg.LocAfter(stmtOf(worker, read.Expr)), FreeUnknown: true, Atoms: []an.Atom{{Name: "ok", Values: []string{"T", "F"}}},
			Binder: &an.Binder{Fn: worker, Eq: map[string]string{RC + "#1|nil": "ok"}}, Targets: []an.Loc{wg.Locate(errRec), wg.Locate(app)}, Names: []string{"record error", "append results"},
			Want: func(r an.Row, i int) an.Tri { return an.FromBool((r["ok"] == "F") == (i == 0)) }}
		res := t.Run()
		resObj := worker.ObjOf(app.(*ast.AssignStmt).Lhs[0])
		// the slice appended to is the one returned, and only after Wait
		retOK, waitOK := false, true
		waits := []an.Call{}
		for _, call := range fn.Calls(false) {
			if s, ok := call.Expr.Fun.(*ast.SelectorExpr); ok && s.Sel.Name == "Wait" {
				waits = append(waits, call)
			}
		}
		nOK := 0
		for _, b := range g.Blocks {
			r := an.ReturnOf(b)
			if r == nil || len(r.Results) != 3 {
				continue
			}
			if len(waits) != 1 || !g.NodeBefore(waits[0].Expr, r) {
				waitOK = false
			}
			if fn.Canon(r.Results[2]) == "nil" {
				nOK++
				retOK = fn.ObjOf(r.Results[0]) == resObj
			}
		}
		c.Check(res.OK() && retOK && nOK == 1 && waitOK, "R10", "func=doMulti:outcome", app.Pos(), fmt.Sprintf("set failed ⇔ its error is offered to the once-recorder; set succeeded ⇔ all its results are appended to the slice that the only success return hands back (=%v), every return after workers.Wait() (=%v): %s", retOK, waitOK, res.Summary()), res.Rows)
	}
	// the recorded error wins
	var errObj types.Object
	for _, b := range g.Blocks {
		if r := an.ReturnOf(b); r != nil && len(r.Results) == 3 && fn.Canon(r.Results[2]) != "nil" {
			errObj = fn.ObjOf(r.Results[2])
		}
	}
	if errObj == nil {
		c.Viol("R10", "func=doMulti:error", fn.Pos(), "no return hands back the recorded error")
		return
	}
	var okRets []an.Loc
	for _, b := range g.Blocks {
		if r := an.ReturnOf(b); r != nil && len(r.Results) == 3 && fn.Canon(r.Results[2]) == "nil" {
			okRets = append(okRets, g.Locate(r))
		}
	}
	t := an.Table{G: g, From: g.EntryLoc(), MayOnly: true, Atoms: []an.Atom{{Name: "err", Values: []string{"T", "F"}}},
		Binder: &an.Binder{Fn: fn, Eq: map[string]string{errObj.Name() + "|nil": "noerr"}}, Targets: okRets,
		Want: func(r an.Row, _ int) an.Tri {
			if r["noerr"] == "F" {
				return an.F
			}
			return an.U
		}}
	t.Atoms = []an.Atom{{Name: "noerr", Values: []string{"T", "F"}}}
	res := t.Run()
	c.Check(res.OK(), "R10", "func=doMulti:error", fn.Pos(), "with a recorded error no success return is reachable: "+res.Summary(), res.Rows)
}

// c11Trackers (R9): the result trackers' success / failure / inclusion predicates, as frozen canonical forms and tables.
func c11Trackers(c *core.Ctx) {
	pkg := c.Prog.Pkg("ring")
	retCanon := func(name string) (string, *an.Fn) {
		f := an.FindFunc(pkg, name)
		if f == nil {
			c.Miss("R9", "func="+name, "not found")
			return "", nil
		}
		c.Analysed(f.String())
		out := []string{}
		for _, b := range f.Graph().Blocks {
			if r := an.ReturnOf(b); r != nil && len(r.Results) == 1 {
				out = append(out, f.Canon(r.Results[0]))
			}
		}
		return strings.Join(out, " | "), f
	}
	// predicates evaluated over orderings (insensitive to operand order / negation forms)
	type pred struct {
		fn    string
		atoms []an.Atom
		cmp   map[string]string
		want  func(r an.Row) bool
		text  string
	}
	for _, p := range []pred{
		{"defaultResultTracker.succeeded", []an.Atom{{Name: "o", Values: []string{"lt", "eq", "gt"}}}, map[string]string{"recv.numSucceeded|recv.minSucceeded": "o"},
			func(r an.Row) bool { return r["o"] != "lt" }, "succeeded ⇔ numSucceeded ≥ minSucceeded"},
		{"defaultResultTracker.failed", []an.Atom{{Name: "o", Values: []string{"lt", "eq", "gt"}}}, map[string]string{"recv.numErrors|recv.maxErrors": "o"},
			func(r an.Row) bool { return r["o"] == "gt" }, "failed ⇔ numErrors > maxErrors"},
		{"zoneAwareResultTracker.failed", []an.Atom{{Name: "o", Values: []string{"lt", "eq", "gt"}}}, map[string]string{"len(recv.failuresByZone)|recv.maxUnavailableZones": "o"},
			func(r an.Row) bool { return r["o"] == "gt" }, "failed ⇔ number of zones with a failure > maxUnavailableZones"},
		{"zoneAwareResultTracker.shouldIncludeResultFrom", []an.Atom{{Name: "f", Values: []string{"eq", "gt"}}, {Name: "w", Values: []string{"eq", "gt"}}},
			map[string]string{"recv.failuresByZone[p0.Zone]|0": "f", "recv.waitingByZone[p0.Zone]|0": "w"},
			func(r an.Row) bool { return r["f"] == "eq" && r["w"] == "eq" }, "include ⇔ the instance's zone has no failure ∧ nothing outstanding"},
	} {
		f := an.FindFunc(pkg, p.fn)
		if f == nil {
			c.Miss("R9", "func="+p.fn, "not found")
			continue
		}
		c.Analysed(f.String())
		g := f.Graph()
		var rets []*ast.ReturnStmt
		var locs []an.Loc
		for _, b := range g.Blocks {
			if r := an.ReturnOf(b); r != nil && len(r.Results) == 1 {
				rets = append(rets, r)
				locs = append(locs, g.Locate(r))
			}
		}
		bad := []string{}
		rows := an.Rows(p.atoms)
		for _, row := range rows {
			bd := &an.Binder{Fn: f, Cmp: p.cmp, Row: row}
			ex := g.Exec(g.EntryLoc(), locs, bd.Leaf, an.ExecOpts{})
			got := an.Tri(an.U)
			n := 0
			for i, r := range rets {
				if ex.May[i] {
					n++
					got = an.EvalCond(f.Info(), r.Results[0], nil, bd.Leaf)
				}
			}
			if n != 1 || got == an.U || (got == an.T) != p.want(row) {
				bad = append(bad, fmt.Sprintf("{%s} -> %v", rowString(row), got))
			}
		}
		c.Check(len(bad) == 0, "R9", "func="+p.fn, f.Pos(), p.text+fmt.Sprintf(" on %d orderings; mismatches %v", len(rows), bad), len(rows))
	}
	if got, f := retCanon("defaultResultTracker.shouldIncludeResultFrom"); f != nil {
		c.Check(got == "true", "R9", "func=defaultResultTracker.shouldIncludeResultFrom", f.Pos(), "without zone-awareness every received result is included: returns "+got, 1)
	}
	// constructors: thresholds
	if f := an.FindFunc(pkg, "newDefaultResultTracker"); f != nil {
		vals := map[string]string{}
		f.InspectShallow(func(n ast.Node) bool {
			if kv, ok := n.(*ast.KeyValueExpr); ok {
				if id, ok := kv.Key.(*ast.Ident); ok {
					vals[id.Name] = f.Canon(kv.Value)
				}
			}
			return true
		})
		c.Check(vals["minSucceeded"] == "(len(p0) - p1)" && vals["maxErrors"] == "p1" && vals["numSucceeded"] == "0" && vals["numErrors"] == "0", "R9", "func=newDefaultResultTracker", f.Pos(), fmt.Sprintf("minSucceeded=%s maxErrors=%s (required len(instances)-maxErrors, maxErrors), counters start at 0", vals["minSucceeded"], vals["maxErrors"]), 1)
	}
	// default done: success counter ⇔ err == nil; error counter ⇔ err != nil
	if f := an.FindFunc(pkg, "defaultResultTracker.done"); f != nil {
		g := f.Graph()
		var incS, incE an.Loc
		f.InspectShallow(func(n ast.Node) bool {
			if id, ok := n.(*ast.IncDecStmt); ok && id.Tok == token.INC {
				switch f.Canon(id.X) {
				case "recv.numSucceeded":
					incS = g.Locate(id)
				case "recv.numErrors":
					incE = g.Locate(id)
				}
			}
			return true
		})
		if incS.Valid() && incE.Valid() {
			t := an.Table{G: g, From: g.EntryLoc(), FreeUnknown: true, Atoms: []an.Atom{{Name: "errnil", Values: []string{"T", "F"}}},
				Binder: &an.Binder{Fn: f, Eq: map[string]string{"p1|nil": "errnil"}}, Targets: []an.Loc{incS, incE}, Names: []string{"numSucceeded++", "numErrors++"},
				Want: func(r an.Row, i int) an.Tri { return an.FromBool((r["errnil"] == "T") == (i == 0)) }}
			res := t.Run()
			c.Check(res.OK(), "R9", "func=defaultResultTracker.done", f.Pos(), "a result counts as success ⇔ its error is nil, as failure otherwise, under no other condition: "+res.Summary(), res.Rows)
		} else {
			c.Undec("R9", "func=defaultResultTracker.done", f.Pos(), "counters not found")
		}
	}
	// zone-aware succeeded: a zone is successful ⇔ nothing waiting ∧ no failure; succeeded ⇔ successful zones ≥ minSuccessfulZones
	if f := an.FindFunc(pkg, "zoneAwareResultTracker.succeeded"); f != nil {
		g := f.Graph()
		var inc an.Loc
		var loop *ast.RangeStmt
		f.InspectShallow(func(n ast.Node) bool {
			if rs, ok := n.(*ast.RangeStmt); ok {
				loop = rs
			}
			if id, ok := n.(*ast.IncDecStmt); ok && id.Tok == token.INC {
				inc = g.Locate(id)
			}
			return true
		})
		ret, _ := retCanon("zoneAwareResultTracker.succeeded")
		okT := false
		detail := ""
		if loop != nil && inc.Valid() && f.Canon(loop.X) == "recv.waitingByZone" {
			h, b, _ := g.LoopBlocks(loop)
			t := an.Table{G: g, From: an.Loc{B: b, I: 0}, Opts: an.ExecOpts{Header: h}, FreeUnknown: true,
				Atoms:   []an.Atom{{Name: "waiting", Values: []string{"eq", "gt"}}, {Name: "failures", Values: []string{"eq", "gt"}}},
				Binder:  &an.Binder{Fn: f, Cmp: map[string]string{"each(recv.waitingByZone)|0": "waiting", "recv.failuresByZone[keyof(recv.waitingByZone)]|0": "failures"}},
				Targets: []an.Loc{inc}, Want: func(r an.Row, _ int) an.Tri { return an.FromBool(r["waiting"] == "eq" && r["failures"] == "eq") }}
			res := t.Run()
			okT = res.OK()
			detail = res.Summary()
		}
		c.Check(okT && ret == "(successfulZones >= recv.minSuccessfulZones)", "R9", "func=zoneAwareResultTracker.succeeded", f.Pos(), "a zone counts ⇔ none of its calls is outstanding ∧ none failed; succeeded ⇔ counted zones ≥ minSuccessfulZones (returns "+ret+"): "+detail, 4)
	}
	if f := an.FindFunc(pkg, "newZoneAwareResultTracker"); f != nil {
		got := ""
		f.InspectShallow(func(n ast.Node) bool {
			if as, ok := n.(*ast.AssignStmt); ok && len(as.Lhs) == 1 && strings.HasSuffix(types.ExprString(as.Lhs[0]), ".minSuccessfulZones") && got == "" {
				got = types.ExprString(as.Rhs[0])
			}
			return true
		})
		// the clamp at zero may follow as an if, or be written with the max builtin
		base := "len(t.waitingByZone) - maxUnavailableZones"
		okMin := got == base || got == "max("+base+", 0)" || got == "max(0, "+base+")"
		c.Check(okMin, "R9", "func=newZoneAwareResultTracker", f.Pos(), "minSuccessfulZones = "+got+" (zones present − tolerated unavailable zones)", 1)
	}
}
