package props

import (
	"fmt"
	"go/ast"
	"go/token"
	"go/types"
	"sort"
	"strings"

	"dsverif/internal/an"
	"dsverif/internal/core"
)

// ---- specification slots for the LWW registers of the two ring descriptors (C03/C04)

type lwwReg struct {
	Name      string
	TS        string   // timestamp field
	TombField string   // state field ("" = register has no tombstone)
	TombConst string   // tombstone constant
	Fields    []string // fields of the register when copied field-wise (nil: whole entry only)
}

type lwwMap struct {
	Type, Map string
	Regs      []lwwReg
	Normalize string // function that must normalise the incoming value before the loop ("" = none)
}

var lwwSpec = []lwwMap{
	{Type: "Desc", Map: "Ingesters", Normalize: "normalizeIngestersMap",
		Regs: []lwwReg{{Name: "instance", TS: "Timestamp", TombField: "State", TombConst: "LEFT"}}},
	{Type: "PartitionRingDesc", Map: "Partitions",
		Regs: []lwwReg{
			{Name: "partition-state", TS: "StateTimestamp", TombField: "State", TombConst: "PartitionDeleted", Fields: []string{"State", "StateTimestamp"}},
			{Name: "partition-lock", TS: "StateChangeLockedTimestamp", Fields: []string{"StateChangeLocked", "StateChangeLockedTimestamp"}},
		}},
	{Type: "PartitionRingDesc", Map: "Owners",
		Regs: []lwwReg{{Name: "owner", TS: "UpdatedTimestamp", TombField: "State", TombConst: "OwnerDeleted"}}},
}

func init() {
	Registry["C03"] = Prop{
		Patterns: []string{"./ring", "./kv/memberlist"},
		Run:      runC03,
		Explanation: "Decides structural necessary conditions of the CRDT property from the source of the Merge implementations: " +
			"(R1) for every last-writer-wins register of ring.Desc and ring.PartitionRingDesc the statements that copy incoming data over stored data execute exactly on " +
			"'entry missing OR incoming timestamp newer OR (equal timestamps AND incoming is a tombstone AND stored is not)', decided by exhaustive evaluation of the guard over the finite set of orderings; " +
			"(R2) a receiver-map store executes iff the same key is recorded in the returned change, nil is returned iff nothing was recorded; (R3) normalisation dominates the merge loop; " +
			"(R4) every other store and every use of the clock parameter is control-dependent on localCAS. Also: (R5) one merge path: Merge is a pure delegation to the analysed merge function, and the KV store hands the decoded incoming value to Merge untouched; (R6) what is merged is what was received and what is sent is what is stored: queued updates are consumed by their key's worker only, push/pull encodes the stored value afresh (shared with C06.R10, C04.R6). (R7) every received update reaches the store's merge and what the merge accepted is what is re-gossiped (shared with C06.R3). NOT decided: the algebraic laws over all operand triples, token conflict resolution algebra, delta sufficiency beyond R2.",
		Assumptions: []string{"go/cfg models control flow of the merge functions faithfully", "fields of the incoming/stored entries are not modified between the guard and the copy other than by the statements classified"},
	}
}

// mergeFns returns, for every type of package ring implementing memberlist.Mergeable, the function holding the merge logic.
func mergeFns(c *core.Ctx, rule string) map[string]*an.Fn {
	ring := c.Prog.Pkg("ring")
	ml := c.Prog.Pkg("kv/memberlist")
	out := map[string]*an.Fn{}
	if ring == nil || ml == nil {
		c.Miss(rule, "pkg", "packages ring / kv/memberlist not loaded")
		return out
	}
	iface := an.LookupIface(ml, "Mergeable")
	// the interface as package ring sees it (ring's own import), so that the answer does not depend on
	// which variant of kv/memberlist is being analysed
	if imp := ring.Imports[ml.PkgPath]; imp != nil && imp.Types != nil {
		if tn, ok := imp.Types.Scope().Lookup("Mergeable").(*types.TypeName); ok {
			if it, ok := tn.Type().Underlying().(*types.Interface); ok {
				iface = it
			}
		}
	}
	if iface == nil {
		c.Miss(rule, "type=memberlist.Mergeable", "interface not found")
		return out
	}
	for _, nt := range an.NamedTypes(ring) {
		if _, isIface := nt.Underlying().(*types.Interface); isIface {
			continue
		}
		if !an.Implements(nt, iface) {
			continue
		}
		name := nt.Obj().Name()
		fn := an.FindFunc(ring, name+".mergeWithTime")
		if fn == nil {
			fn = an.FindFunc(ring, name+".Merge")
		}
		if fn == nil {
			c.Miss(rule, "func="+name+".mergeWithTime", "merge function of Mergeable implementation not found")
			continue
		}
		out[name] = fn
	}
	return out
}

type mergeStmt struct {
	kind  string // copy-whole, copy-field, writeback, direct, record
	field string
	stmt  ast.Stmt
	loc   an.Loc
	desc  string
}

func runC03(c *core.Ctx) {
	c.Rule("R1", "LWW decision table: incoming data overwrites a stored register iff missing ∨ newer ∨ (equal timestamp ∧ incoming tombstone ∧ stored not tombstone); field groups of a register are copied together and written back", 4)
	c.Rule("R2", "every store into a receiver map is paired with recording the same key in the returned change; nil change is returned iff nothing was recorded", 5)
	c.Rule("R3", "normalisation of the incoming descriptor dominates the merge loop", 1)
	c.Rule("R4", "stores outside the LWW loops and every use of the clock parameter are control-dependent on localCAS; the merge's helper cone reads no clock (gossip merges are a function of the operands)", 6)
	c.Rule("R5", "one merge path: Merge is a pure delegation to the analysed merge function, and the KV store hands the decoded incoming value to Merge untouched", 3)
	c.Rule("R7", "every received update reaches the merge: each receive path calls the store's merge function directly, and what it accepted is what is re-gossiped (shared with C06.R3)", 5)
	c.Rule("R6", "what is merged is what was received and what is sent is what is stored: queued updates are consumed by their key's worker only, push/pull encodes the stored value afresh (shared with C06.R10, C04.R6)", 3)
	fns := mergeFns(c, "R1")
	covered := map[string]bool{}
	for _, sp := range lwwSpec {
		fn := fns[sp.Type]
		if fn == nil {
			c.Miss("R1", "type="+sp.Type, "no Mergeable implementation with that name in package ring")
			continue
		}
		covered[sp.Type] = true
		c.Analysed(fn.String())
		analyseLWWLoop(c, fn, sp, lwwIDs{"R1", "R2", "R3"})
	}
	for name, fn := range fns {
		if !covered[name] {
			c.Undec("R1", "type="+name, fn.Pos(), "a new memberlist.Mergeable implementation in package ring is not covered by the register table in props/c03.go")
		}
	}
	c03SinglePath(c, fns)
	// R4 once per merge function
	done := map[*an.Fn]bool{}
	for _, sp := range lwwSpec {
		fn := fns[sp.Type]
		if fn == nil || done[fn] {
			continue
		}
		done[fn] = true
		analyseLocalCAS(c, fn)
		analyseNilReturn(c, fn)
	}
}

func lwwRoles(m string) an.Roles {
	return an.Roles{
		{From: "keyof(p0." + m + ")", To: "k"},
		{From: "each(p0." + m + ")", To: "o"},
		{From: "recv." + m + "[k]", To: "t"},
	}
}

// incomingLoops finds `for k, v := range <incoming>.<Map>` in fn.
func rangeLoops(fn *an.Fn, canonX string) []*ast.RangeStmt {
	var out []*ast.RangeStmt
	fn.InspectShallow(func(n ast.Node) bool {
		if rs, ok := n.(*ast.RangeStmt); ok && fn.Canon(rs.X) == canonX {
			out = append(out, rs)
		}
		return true
	})
	return out
}

// lwwIDs names the rule ids under which analyseLWWLoop reports (empty = skip that part).
type lwwIDs struct{ table, pair, norm string }

type regRes struct {
	bad      []string
	undec    []string
	rowsOK   int
	distinct map[string]bool
}

func analyseLWWLoop(c *core.Ctx, fn *an.Fn, sp lwwMap, ids lwwIDs) {
	R1, R2, R3 := ids.table, ids.pair, ids.norm
	id := sp.Type + "." + sp.Map
	loops := rangeLoops(fn, "p0."+sp.Map)
	if len(loops) != 1 {
		c.Undec(R1, "loop="+id, fn.Pos(), fmt.Sprintf("expected exactly one range loop over the incoming %s map in %s, found %d", sp.Map, fn.Name, len(loops)))
		return
	}
	rs := loops[0]
	g := fn.Graph()
	header, body, doneB := g.LoopBlocks(rs)
	if header == nil || body == nil {
		c.Undec(R1, "loop="+id, rs.Pos(), "range loop blocks not found in CFG")
		return
	}
	roles := lwwRoles(sp.Map)
	C := func(e ast.Expr) string { return roles.Apply(fn.Canon(e)) }

	// R3 normalisation
	if sp.Normalize != "" && R3 != "" {
		calls := fn.CallsTo(false, "", sp.Normalize)
		ok := false
		var pos token.Pos = rs.Pos()
		for _, call := range calls {
			if len(call.Expr.Args) == 1 && fn.Canon(call.Expr.Args[0]) == "p0" && g.NodeBefore(call.Expr, rs.X) {
				ok = true
				pos = call.Expr.Pos()
			}
		}
		c.Check(ok, R3, "func="+fn.Name+":call="+sp.Normalize, pos, sp.Normalize+"(incoming) must dominate the range over incoming."+sp.Map, 1)
	}

	// ---- classify assignments of the loop body
	var stmts []mergeStmt
	working := map[types.Object]bool{} // locals written back into the receiver map at key k
	hasExists := false
	var assigns []*ast.AssignStmt
	ast.Inspect(rs.Body, func(n ast.Node) bool {
		if _, ok := n.(*ast.FuncLit); ok {
			return false
		}
		if as, ok := n.(*ast.AssignStmt); ok {
			assigns = append(assigns, as)
		}
		return true
	})
	for _, as := range assigns {
		if len(as.Lhs) == 2 && len(as.Rhs) == 1 {
			if C(as.Rhs[0]) == "t" {
				hasExists = true
			}
		}
		if len(as.Lhs) != len(as.Rhs) {
			continue
		}
		for i, l := range as.Lhs {
			if ix, ok := an.Unparen(l).(*ast.IndexExpr); ok && C(ix) == "t" {
				if obj := fn.ObjOf(as.Rhs[i]); obj != nil && C(as.Rhs[i]) != "o" {
					working[obj] = true
				}
			}
		}
	}
	var problems []string
	for _, as := range assigns {
		if len(as.Lhs) != len(as.Rhs) {
			continue
		}
		for i, l := range as.Lhs {
			l = an.Unparen(l)
			r := as.Rhs[i]
			loc := g.Locate(as)
			switch x := l.(type) {
			case *ast.IndexExpr:
				lc := C(x)
				switch {
				case lc == "t":
					if C(r) == "o" {
						stmts = append(stmts, mergeStmt{kind: "direct", stmt: as, loc: loc, desc: "recv." + sp.Map + "[k] = incoming"})
					} else if obj := fn.ObjOf(r); obj != nil && working[obj] {
						stmts = append(stmts, mergeStmt{kind: "writeback", stmt: as, loc: loc, desc: "recv." + sp.Map + "[k] = " + obj.Name()})
					} else {
						problems = append(problems, "store into receiver map of a value that is neither the incoming entry nor the working copy: "+types.ExprString(as.Lhs[i])+" = "+types.ExprString(r))
					}
				case strings.HasPrefix(lc, "recv."):
					problems = append(problems, "store into a receiver map at a key other than the loop key: "+types.ExprString(l))
				case C(x.Index) == "k" && !strings.HasPrefix(lc, "p0.") && !strings.HasPrefix(lc, "o"):
					stmts = append(stmts, mergeStmt{kind: "record", stmt: as, loc: loc, desc: types.ExprString(l) + " = …"})
				}
			case *ast.Ident:
				obj := fn.ObjOf(x)
				if obj != nil && working[obj] && C(r) == "o" {
					stmts = append(stmts, mergeStmt{kind: "copy-whole", stmt: as, loc: loc, desc: x.Name + " = incoming"})
				} else if call, ok := an.Unparen(r).(*ast.CallExpr); ok && an.ObjIs(an.Callee(fn.Info(), call), "", "append") && len(call.Args) >= 2 && C(call.Args[1]) == "k" {
					stmts = append(stmts, mergeStmt{kind: "record", stmt: as, loc: loc, desc: x.Name + " = append(" + x.Name + ", k)"})
				}
			case *ast.SelectorExpr:
				obj := fn.ObjOf(x.X)
				if obj != nil && working[obj] {
					rc := C(r)
					if rc == "o."+x.Sel.Name {
						stmts = append(stmts, mergeStmt{kind: "copy-field", field: x.Sel.Name, stmt: as, loc: loc, desc: types.ExprString(l) + " = incoming." + x.Sel.Name})
					} else {
						problems = append(problems, "field of the stored entry assigned from something other than the same field of the incoming entry: "+types.ExprString(l)+" = "+types.ExprString(r))
					}
				}
			}
		}
	}
	for _, p := range problems {
		c.Undec(R1, "loop="+id+":stmt", rs.Pos(), p)
	}
	if len(stmts) == 0 {
		c.Undec(R1, "loop="+id, rs.Pos(), "no copy/store statements recognised in the merge loop")
		return
	}

	// ---- atoms
	var atoms []an.Atom
	bd := &an.Binder{Fn: fn, Roles: roles, Cmp: map[string]string{}, Eq: map[string]string{}, Bool: map[string]string{}, Unknown: map[string]bool{}}
	if hasExists {
		atoms = append(atoms, an.Atom{Name: "exists", Values: []string{"T", "F"}})
		bd.Bool["ok(t)"] = "exists"
	}
	for _, r := range sp.Regs {
		atoms = append(atoms, an.Atom{Name: "cmp:" + r.Name, Values: []string{"lt", "eq", "gt"}})
		bd.Cmp["o."+r.TS+"|t."+r.TS] = "cmp:" + r.Name
		if r.TombConst != "" {
			atoms = append(atoms, an.Atom{Name: "oTomb:" + r.Name, Values: []string{"T", "F"}}, an.Atom{Name: "tTomb:" + r.Name, Values: []string{"T", "F"}})
			bd.Eq["o."+r.TombField+"|"+r.TombConst] = "oTomb:" + r.Name
			bd.Eq["t."+r.TombField+"|"+r.TombConst] = "tTomb:" + r.Name
		}
	}
	locs := make([]an.Loc, len(stmts))
	for i, s := range stmts {
		locs[i] = s.loc
		if !s.loc.Valid() {
			c.Undec(R1, "loop="+id, s.stmt.Pos(), "statement not found in CFG")
			return
		}
	}
	opts := an.ExecOpts{Header: header}
	if doneB != nil {
		opts.Stops = nil
	}
	start := an.Loc{B: body, I: 0}

	var rows []an.Row
	var res map[string]*regRes
	var pairBad, pairUndec, wbBad []string
	evalAll := func() bool {
		rows = an.Rows(atoms)
		res = map[string]*regRes{}
		for _, r := range sp.Regs {
			res[r.Name] = &regRes{distinct: map[string]bool{}}
		}
		pairBad, pairUndec, wbBad = nil, nil, nil
		for _, row := range rows {
			bd.Row = row
			ex := g.Exec(start, locs, bd.Leaf, opts)
			if ex.Overflow {
				c.Undec(R1, "loop="+id, rs.Pos(), "path enumeration overflow")
				return false
			}
			triOr := func(pred func(s mergeStmt) bool) an.Tri {
				v := an.F
				for i, s := range stmts {
					if pred(s) {
						v = an.Or(v, ex.Tri(i))
					}
				}
				return v
			}
			rowStr := rowString(row)
			exists := !hasExists || row["exists"] == "T"
			for _, r := range sp.Regs {
				fields := r.Fields
				if fields == nil {
					fields = []string{""}
				}
				want := !exists || row["cmp:"+r.Name] == "gt" ||
					(r.TombConst != "" && row["cmp:"+r.Name] == "eq" && row["oTomb:"+r.Name] == "T" && row["tTomb:"+r.Name] == "F")
				rr := res[r.Name]
				for _, f := range fields {
					got := triOr(func(s mergeStmt) bool {
						return s.kind == "direct" || s.kind == "copy-whole" || (s.kind == "copy-field" && f != "" && s.field == f)
					})
					switch {
					case got == an.U:
						rr.undec = append(rr.undec, rowStr)
					case (got == an.T) != want:
						rr.bad = append(rr.bad, fmt.Sprintf("{%s} field=%q overwritten=%v expected=%v", rowStr, f, got, an.FromBool(want)))
					default:
						rr.rowsOK++
					}
					rr.distinct[fmt.Sprintf("%v", want)] = true
				}
			}
			// write-back: any copy into the working variable must be followed by the store
			copied := triOr(func(s mergeStmt) bool { return s.kind == "copy-whole" || s.kind == "copy-field" })
			stored := triOr(func(s mergeStmt) bool { return s.kind == "writeback" || s.kind == "direct" })
			if copied == an.T && stored != an.T {
				wbBad = append(wbBad, rowStr)
			}
			// R2 pairing
			recorded := triOr(func(s mergeStmt) bool { return s.kind == "record" })
			if stored == an.U || recorded == an.U {
				pairUndec = append(pairUndec, rowStr)
			} else if stored != recorded {
				pairBad = append(pairBad, fmt.Sprintf("{%s} stored=%v recorded=%v", rowStr, stored, recorded))
			}
		}
		return true
	}
	if !evalAll() {
		return
	}
	// Conditions that are not part of the LWW rule become free boolean atoms: the table must not depend on them.
	if extra := keys(bd.Unknown); len(extra) > 0 && len(extra) <= 4 {
		for _, u := range extra {
			atoms = append(atoms, an.Atom{Name: "extra:" + u, Values: []string{"T", "F"}})
			bd.Bool[u] = "extra:" + u
		}
		bd.Unknown = map[string]bool{}
		if !evalAll() {
			return
		}
	}
	unknown := keys(bd.Unknown)
	for _, r := range sp.Regs {
		rr := res[r.Name]
		key := "register=" + id + "/" + r.Name
		detail := fmt.Sprintf("%d rows over atoms %v; statements: %s", len(rows), atomNames(atoms), stmtDescs(stmts))
		switch {
		case len(rr.bad) > 0:
			c.Viol(R1, key, rs.Pos(), "decision table differs from LWW oracle on rows: "+strings.Join(head(rr.bad, 6), "; ")+" | "+detail)
		case len(rr.undec) > 0:
			c.Undec(R1, key, rs.Pos(), fmt.Sprintf("guard not decidable on %d rows (unrecognised conditions: %v), e.g. {%s}", len(rr.undec), unknown, rr.undec[0]))
		default:
			c.Hold(R1, key, rs.Pos(), detail, rr.rowsOK)
		}
		// field-wise copies of fields outside the declared group
		for _, s := range stmts {
			if s.kind == "copy-field" {
				found := false
				for _, rg := range sp.Regs {
					for _, f := range rg.Fields {
						if f == s.field {
							found = true
						}
					}
				}
				if !found {
					c.Undec(R1, key+":field="+s.field, s.stmt.Pos(), "field copied from the incoming entry belongs to no register in the table")
				}
			}
		}
	}
	// write-back obligations
	nCopy := 0
	for _, s := range stmts {
		if s.kind == "copy-whole" || s.kind == "copy-field" {
			nCopy++
			// ordering: no path from a write-back to this copy inside one iteration
			for j, w := range stmts {
				if w.kind != "writeback" {
					continue
				}
				ex := g.Exec(an.Loc{B: w.loc.B, I: w.loc.I + 1}, []an.Loc{s.loc}, func(ast.Expr, an.Store) an.Tri { return an.U }, opts)
				if ex.May[0] {
					wbBad = append(wbBad, fmt.Sprintf("copy %q can execute after write-back #%d", s.desc, j))
				}
			}
		}
	}
	if nCopy > 0 {
		c.Check(len(wbBad) == 0, R1, "writeback="+id, rs.Pos(), fmt.Sprintf("every copy into the working entry is followed by the store into recv.%s[k]; failing: %v", sp.Map, head(wbBad, 4)), len(rows))
	}
	key := "pair=" + id
	switch {
	case R2 == "":
	case len(pairBad) > 0:
		c.Viol(R2, key, rs.Pos(), "store and change record disagree on rows: "+strings.Join(head(pairBad, 6), "; "))
	case len(pairUndec) > 0:
		c.Undec(R2, key, rs.Pos(), fmt.Sprintf("pairing undecidable on %d rows (unrecognised: %v)", len(pairUndec), unknown))
	default:
		c.Hold(R2, key, rs.Pos(), fmt.Sprintf("store ⇔ record on all %d rows; statements: %s", len(rows), stmtDescs(stmts)), len(rows))
	}
	// record value must be what was stored
	for _, s := range stmts {
		if s.kind != "record" || R2 == "" {
			continue
		}
		as := s.stmt.(*ast.AssignStmt)
		if _, isIdx := an.Unparen(as.Lhs[0]).(*ast.IndexExpr); !isIdx {
			continue
		}
		robj := fn.ObjOf(as.Rhs[0])
		ok := false
		for _, w := range stmts {
			if w.kind == "writeback" || w.kind == "direct" {
				was := w.stmt.(*ast.AssignStmt)
				if fn.ObjOf(was.Rhs[0]) == robj && robj != nil && g.Before(w.loc, s.loc) || (w.loc.B == s.loc.B) && fn.ObjOf(was.Rhs[0]) == robj && robj != nil {
					ok = true
				}
			}
		}
		c.Check(ok, R2, "recordvalue="+id, s.stmt.Pos(), "the value recorded in the change is the value stored into the receiver map in the same block/path: "+s.desc, 1)
	}
}

// analyseLocalCAS: R4 — stores into receiver maps outside the incoming loops, and all uses of the time parameter, need localCAS.
func analyseLocalCAS(c *core.Ctx, fn *an.Fn) {
	// the helpers a merge calls read no clock, no random source and no package state: the outcome of a
	// gossip merge is a function of the two operands only (a timestamp adjusted against the local wall
	// clock makes A.Merge(B) and B.Merge(A) disagree)
	if pkg := c.Prog.Pkg("ring"); pkg != nil {
		cone := coneOf(c, pkg, fn)
		var eff []string
		n := 0
		for name, f := range cone {
			if f == fn {
				continue // the merge function itself: its clock parameter is decided below
			}
			n++
			for _, e := range effectFindings(c, f) {
				if strings.Contains(e, ": clock:") || strings.Contains(e, "randomness") || strings.Contains(e, "environment") || strings.Contains(e, "go statement") {
					eff = append(eff, name+": "+e)
				}
			}
		}
		sort.Strings(eff)
		c.Check(len(eff) == 0, "R4", "func="+fn.Name+":cone", fn.Pos(), fmt.Sprintf("the %d same-package functions reachable from the merge read no clock, random source, environment or goroutine: %v", n, head(eff, 4)), n)
	}
	g := fn.Graph()
	// find the bool parameter and the time.Time parameter positionally by type
	var flag, clock types.Object
	sig := fn.Obj.Type().(*types.Signature)
	for i := 0; i < sig.Params().Len(); i++ {
		p := sig.Params().At(i)
		if b, ok := p.Type().Underlying().(*types.Basic); ok && b.Kind() == types.Bool {
			flag = p
		}
		if p.Type().String() == "time.Time" {
			clock = p
		}
	}
	if flag == nil {
		c.Miss("R4", "func="+fn.Name+":param=localCAS", "merge function has no bool parameter")
		return
	}
	incoming := []*ast.RangeStmt{}
	fn.InspectShallow(func(n ast.Node) bool {
		if rs, ok := n.(*ast.RangeStmt); ok && strings.HasPrefix(fn.Canon(rs.X), "p0.") {
			incoming = append(incoming, rs)
		}
		return true
	})
	inIncoming := func(n ast.Node) bool {
		for _, rs := range incoming {
			if an.InNode(rs, n) {
				return true
			}
		}
		return false
	}
	type tgt struct {
		n    ast.Node
		desc string
	}
	var targets []tgt
	fn.InspectShallow(func(n ast.Node) bool {
		switch x := n.(type) {
		case *ast.AssignStmt:
			if inIncoming(x) {
				return true
			}
			for i, l := range x.Lhs {
				if ix, ok := an.Unparen(l).(*ast.IndexExpr); ok && strings.HasPrefix(fn.Canon(ix.X), "recv.") {
					targets = append(targets, tgt{x, "store " + types.ExprString(l)})
				}
				if sel, ok := an.Unparen(l).(*ast.SelectorExpr); ok && fn.Canon(sel.X) == "recv" && len(x.Rhs) == len(x.Lhs) {
					if fn.Canon(x.Rhs[i]) != fn.Canon(sel) { // d.Ingesters = thisIngesterMap (same map) is an identity
						targets = append(targets, tgt{x, "assign " + types.ExprString(l)})
					}
				}
			}
		case *ast.CallExpr:
			if an.ObjIs(an.Callee(fn.Info(), x), "", "delete") && len(x.Args) == 2 && strings.HasPrefix(fn.Canon(x.Args[0]), "recv.") {
				targets = append(targets, tgt{x, "delete from " + types.ExprString(x.Args[0])})
			}
		case *ast.Ident:
			if clock != nil && fn.Info().Uses[x] == clock {
				targets = append(targets, tgt{x, "use of clock parameter " + x.Name})
			}
		}
		return true
	})
	// also: any call to time.Now / rand in the function (gossip path must not read them)
	for _, call := range fn.Calls(false) {
		if call.Is("time", "Now") || call.Is("time", "Since") || (call.Callee != nil && call.Callee.Pkg() != nil && strings.HasPrefix(call.Callee.Pkg().Path(), "math/rand")) {
			targets = append(targets, tgt{call.Expr, "nondeterministic call " + types.ExprString(call.Expr.Fun)})
		}
	}
	leafFor := func(val an.Tri) an.Leaf {
		return func(e ast.Expr, st an.Store) an.Tri {
			if id, ok := an.Unparen(e).(*ast.Ident); ok && fn.Info().Uses[id] == flag {
				return val
			}
			return an.U
		}
	}
	for _, t := range targets {
		loc := g.Locate(t.n)
		if !loc.Valid() {
			c.Undec("R4", "func="+fn.Name+":site", t.n.Pos(), "node not found in CFG: "+t.desc)
			continue
		}
		exF := g.Exec(g.EntryLoc(), []an.Loc{loc}, leafFor(an.F), an.ExecOpts{})
		exT := g.Exec(g.EntryLoc(), []an.Loc{loc}, leafFor(an.T), an.ExecOpts{})
		key := "func=" + fn.Name + ":" + strings.SplitN(t.desc, " ", 2)[0] + "=" + strings.SplitN(t.desc, " ", 2)[1]
		if exF.May[0] {
			c.Viol("R4", key, t.n.Pos(), t.desc+" is reachable with localCAS=false (a gossip merge would depend on it)")
		} else {
			c.Hold("R4", key, t.n.Pos(), fmt.Sprintf("%s: reachable with localCAS=true (%v), unreachable with localCAS=false", t.desc, exT.May[0]), exF.Paths+exT.Paths)
		}
	}
}

// analyseNilReturn: nil change returned iff nothing recorded.
func analyseNilReturn(c *core.Ctx, fn *an.Fn) {
	g := fn.Graph()
	// containers: `len(X) == 0` conditions in the function after the loops
	loops := []*ast.RangeStmt{}
	fn.InspectShallow(func(n ast.Node) bool {
		if rs, ok := n.(*ast.RangeStmt); ok && strings.HasPrefix(fn.Canon(rs.X), "p0.") {
			loops = append(loops, rs)
		}
		return true
	})
	if len(loops) == 0 {
		return
	}
	hdr, _, _ := g.LoopBlocks(loops[0])
	// record containers: X in `X[k] = …` / `X = append(X,k)` classified above are re-derived from len() tests
	conts := map[string]bool{}
	fn.InspectShallow(func(n ast.Node) bool {
		if be, ok := n.(*ast.BinaryExpr); ok && be.Op == token.EQL {
			if call, ok := an.Unparen(be.X).(*ast.CallExpr); ok && an.ObjIs(an.Callee(fn.Info(), call), "", "len") && fn.Canon(be.Y) == "0" {
				conts[fn.Canon(call)] = true
			}
		}
		return true
	})
	if len(conts) == 0 {
		c.Undec("R2", "func="+fn.Name+":nil-return", fn.Pos(), "no `len(record) == 0` test found")
		return
	}
	var atoms []an.Atom
	bd := &an.Binder{Fn: fn, Eq: map[string]string{}, Unknown: map[string]bool{}}
	for _, k := range keys(conts) {
		atoms = append(atoms, an.Atom{Name: "empty:" + k, Values: []string{"T", "F"}})
		bd.Eq[k+"|0"] = "empty:" + k
	}
	var nilRets, chgRets []ast.Node
	for _, b := range g.Blocks {
		r := an.ReturnOf(b)
		if r == nil || len(r.Results) == 0 || hdr == nil || !g.Dom(hdr, b) {
			continue
		}
		if fn.Canon(r.Results[0]) == "nil" {
			nilRets = append(nilRets, r)
		} else {
			chgRets = append(chgRets, r)
		}
	}
	if len(nilRets) == 0 || len(chgRets) == 0 {
		c.Undec("R2", "func="+fn.Name+":nil-return", fn.Pos(), fmt.Sprintf("expected a nil-change return and a change return after the merge loops, found %d / %d", len(nilRets), len(chgRets)))
		return
	}
	var tl []an.Loc
	for _, r := range append(append([]ast.Node{}, nilRets...), chgRets...) {
		tl = append(tl, g.Locate(r))
	}
	bad := []string{}
	rows := an.Rows(atoms)
	for _, row := range rows {
		bd.Row = row
		allEmpty := true
		for _, v := range row {
			if v == "F" {
				allEmpty = false
			}
		}
		ex := g.Exec(an.Loc{B: hdr, I: 0}, tl, bd.Leaf, an.ExecOpts{})
		nilMay, chgMay := false, false
		for i := range nilRets {
			nilMay = nilMay || ex.May[i]
		}
		for i := range chgRets {
			chgMay = chgMay || ex.May[len(nilRets)+i]
		}
		if allEmpty && chgMay {
			bad = append(bad, "{"+rowString(row)+"} a non-nil change can be returned although nothing was recorded")
		}
		if !allEmpty && nilMay {
			bad = append(bad, "{"+rowString(row)+"} nil change can be returned although an entry was recorded")
		}
	}
	c.Check(len(bad) == 0, "R2", "func="+fn.Name+":nil-return", nilRets[0].Pos(), fmt.Sprintf("nil change ⇔ all record containers empty (%v); %v", keys(conts), bad), len(rows))
}

// ---- small helpers shared by property files

func rowString(r an.Row) string {
	ks := make([]string, 0, len(r))
	for k := range r {
		ks = append(ks, k)
	}
	sort.Strings(ks)
	parts := make([]string, len(ks))
	for i, k := range ks {
		parts[i] = k + "=" + r[k]
	}
	return strings.Join(parts, ",")
}

func keys[V any](m map[string]V) []string {
	ks := make([]string, 0, len(m))
	for k := range m {
		ks = append(ks, k)
	}
	sort.Strings(ks)
	return ks
}

func atomNames(a []an.Atom) []string {
	out := make([]string, len(a))
	for i, x := range a {
		out[i] = x.Name
	}
	return out
}

func stmtDescs(s []mergeStmt) string {
	parts := make([]string, len(s))
	for i, x := range s {
		parts[i] = x.kind + ":" + x.desc
	}
	return strings.Join(parts, " | ")
}

func head(s []string, n int) []string {
	if len(s) > n {
		return append(append([]string{}, s[:n]...), fmt.Sprintf("… (%d more)", len(s)-n))
	}
	return s
}

// c03SinglePath: R5.
func c03SinglePath(c *core.Ctx, fns map[string]*an.Fn) {
	ring := c.Prog.Pkg("ring")
	for name, mf := range fns {
		if !strings.HasSuffix(mf.Name, ".mergeWithTime") {
			continue // the Merge method itself holds the logic and was analysed
		}
		m := an.FindFunc(ring, name+".Merge")
		if m == nil {
			c.Miss("R5", "func="+name+".Merge", "not found")
			continue
		}
		c.Analysed(m.String())
		g := m.Graph()
		nret, ok := 0, true
		for _, b := range g.Blocks {
			if r := an.ReturnOf(b); r != nil {
				nret++
				if len(r.Results) != 1 || !strings.HasPrefix(m.Canon(r.Results[0]), "recv.mergeWithTime(p0, p1, ") {
					ok = false
				}
			}
		}
		stmts := len(m.Body().List)
		c.Check(ok && nret == 1 && stmts == 1, "R5", "func="+name+".Merge", m.Pos(), fmt.Sprintf("Merge consists of the single statement `return mergeWithTime(other, localCAS, now)` (%d statements, %d returns): no second merge path escapes the decision tables", stmts, nret), 1)
	}
	// memberlist: decoded value -> Merge untouched
	ml := c.Prog.Pkg("kv/memberlist")
	if fn := an.FindFunc(ml, "KV.mergeBytesValueForKey"); fn != nil {
		c.Analysed(fn.String())
		ms := fn.CallsTo(false, "kv/memberlist", "(*KV).mergeValueForKey")
		ok := len(ms) == 1
		detail := ""
		if ok {
			arg := fn.Canon(ms[0].Expr.Args[1])
			ok = strings.HasPrefix(arg, "p2.Decode(") && strings.HasSuffix(arg, ")#0")
			detail = arg
			// no other use of the decoded value (method call on it / passed elsewhere) before the merge
			obj := fn.ObjOf(ms[0].Expr.Args[1])
			uses := 0
			fn.InspectShallow(func(n ast.Node) bool {
				if call, isCall := n.(*ast.CallExpr); isCall && call != ms[0].Expr {
					touch := false
					ast.Inspect(call, func(x ast.Node) bool {
						if id, isId := x.(*ast.Ident); isId && obj != nil && fn.Info().Uses[id] == obj {
							touch = true
						}
						return true
					})
					if touch && !an.InNode(ms[0].Expr, call) {
						uses++
					}
				}
				return true
			})
			if uses > 0 {
				ok = false
				detail += fmt.Sprintf(" (but %d other call(s) touch the decoded value before the merge)", uses)
			}
		}
		c.Check(ok, "R5", "memberlist:mergeBytesValueForKey", fn.Pos(), "the value merged is the decoded incoming value, untouched: "+detail, 1)
	} else {
		c.Miss("R5", "func=KV.mergeBytesValueForKey", "not found")
	}
	c03ComputeNewValue(c, "R5")
	if ml := c.Prog.Pkg("kv/memberlist"); ml != nil {
		c06QueuesAs(c, ml, "R6")
		c04LocalState(c, "R6")
		c.As("R3", "R7", func() { c06Notify(c, ml) })
	}
}

// c03ComputeNewValue: the stored value is merged as oldVal.Merge(incoming, cas) with the parameters
// unchanged, and the only caller derives the origin flag from the CAS version alone (casVersion > 0):
// a merge is treated as a full-state local CAS only when it is a CAS on a version that was read
// (shared with C06.R8: treating a first write or a gossiped value as full state would tombstone the
// entries of every other node).
func c03ComputeNewValue(c *core.Ctx, R string) {
	ml := c.Prog.Pkg("kv/memberlist")
	if fn := an.FindFunc(ml, "computeNewValue"); fn != nil {
		c.Analysed(fn.String())
		ok := false
		merges := 0
		for _, call := range fn.Calls(true) {
			if call.Func() == nil || call.Func().Name() != "Merge" || len(call.Expr.Args) != 2 {
				continue
			}
			merges++
			if call.In == fn && fn.Canon(call.Expr.Args[0]) == "p0" && fn.Canon(call.Expr.Args[1]) == "p3" {
				if s, isSel := call.Expr.Fun.(*ast.SelectorExpr); isSel && fn.Canon(s.X) == "p2" {
					ok = true
				}
			}
		}
		c.Check(ok && merges == 1, R, "memberlist:computeNewValue", fn.Pos(), fmt.Sprintf("computeNewValue merges once (%d Merge calls), as oldVal.Merge(incoming, cas) with its parameters unchanged — the stored value is the receiver, so the change returned describes what the store learned", merges), 1)
	}
	if fn := an.FindFunc(ml, "KV.mergeValueForKey"); fn != nil {
		c.Analysed(fn.String())
		calls := fn.CallsTo(false, "kv/memberlist", "computeNewValue")
		ok := len(calls) == 1 && len(calls[0].Expr.Args) == 4
		flag := ""
		if ok {
			flag = fn.Canon(calls[0].Expr.Args[3])
			ok = flag == "(p3 > 0)" || flag == "(0 < p3)"
		}
		c.Check(ok, R, "memberlist:mergeValueForKey:origin", fn.Pos(), "the origin flag given to the merge is derived from the CAS version alone: "+flag+" (must be casVersion > 0)", 1)
		c03NoChangeExits(c, R, fn, calls)
	} else {
		c.Miss(R, "func=KV.mergeValueForKey", "not found")
	}
}

// c03NoChangeExits: after the merge, mergeValueForKey may answer "no change" (nil change, nil error) and
// skip the store/notify/re-gossip. Each such exit must be decided by the emptiness of the change's own
// content, measured after the last RemoveTombstones on the change that precedes the exit — not by a
// count taken earlier or from another value.
func c03NoChangeExits(c *core.Ctx, R string, fn *an.Fn, calls []an.Call) {
	if len(calls) != 1 {
		return
	}
	g := fn.Graph()
	// the variable that receives the merge's change
	var chObj types.Object
	fn.InspectShallow(func(n ast.Node) bool {
		if as, ok := n.(*ast.AssignStmt); ok && len(as.Rhs) == 1 && an.Unparen(as.Rhs[0]) == ast.Expr(calls[0].Expr) && len(as.Lhs) == 3 {
			chObj = fn.ObjOf(as.Lhs[1])
		}
		return true
	})
	if chObj == nil {
		c.Undec(R, "memberlist:mergeValueForKey:no-change", fn.Pos(), "the variable receiving computeNewValue's change was not found")
		return
	}
	isChange := func(e ast.Expr) bool {
		id, ok := an.Unparen(e).(*ast.Ident)
		return ok && fn.ObjOf(id) == chObj
	}
	var rts []*ast.CallExpr // RemoveTombstones on the change
	for _, call := range fn.Calls(false) {
		if sel, ok := call.Expr.Fun.(*ast.SelectorExpr); ok && sel.Sel.Name == "RemoveTombstones" && isChange(sel.X) {
			rts = append(rts, call.Expr)
		}
	}
	// measuresChange: len(change.MergeContent()), possibly through a local all of whose definitions are 0 or that length
	var measure func(e ast.Expr, after token.Pos) bool
	measure = func(e ast.Expr, after token.Pos) bool {
		e = an.Unparen(e)
		if call, ok := e.(*ast.CallExpr); ok {
			if id, ok := call.Fun.(*ast.Ident); ok && id.Name == "len" && len(call.Args) == 1 {
				if mc, ok := an.Unparen(call.Args[0]).(*ast.CallExpr); ok {
					if sel, ok := mc.Fun.(*ast.SelectorExpr); ok && sel.Sel.Name == "MergeContent" && isChange(sel.X) {
						return e.Pos() > after
					}
				}
			}
			return false
		}
		if id, ok := e.(*ast.Ident); ok {
			defs := fn.DefSites(fn.ObjOf(id))
			n := 0
			for _, d := range defs {
				if d.Zero || d.Canon == "0" {
					continue
				}
				if d.Expr == nil || !measure(d.Expr, after) {
					return false
				}
				n++
			}
			return n > 0
		}
		return false
	}
	n := 0
	var bad []string
	for _, b := range g.Blocks {
		r := an.ReturnOf(b)
		if r == nil || len(r.Results) != 5 || fn.Canon(r.Results[0]) != "nil" || fn.Canon(r.Results[4]) != "nil" || !g.NodeBefore(calls[0].Expr, r) {
			continue
		}
		n++
		var after token.Pos
		for _, rt := range rts {
			if g.NodeBefore(rt, r) && rt.Pos() > after {
				after = rt.Pos()
			}
		}
		// innermost if whose then-branch contains the return
		var guard ast.Expr
		fn.InspectShallow(func(x ast.Node) bool {
			if is, ok := x.(*ast.IfStmt); ok && an.InNode(is.Body, r) {
				guard = is.Cond
			}
			return true
		})
		okGuard := false
		if guard != nil {
			// the guard in conjunctive form (negations pushed inwards): some clause must contain "the change is empty"
			for _, clause := range cnf(fn, guard, false, 0) {
				for _, lit := range clause {
					be, ok := an.Unparen(lit.e).(*ast.BinaryExpr)
					if !ok {
						continue
					}
					op := be.Op
					if lit.neg {
						op = map[token.Token]token.Token{token.EQL: token.NEQ, token.NEQ: token.EQL, token.LSS: token.GEQ, token.GEQ: token.LSS, token.GTR: token.LEQ, token.LEQ: token.GTR}[op]
					}
					k := fn.Canon(be.Y)
					if ((op == token.EQL || op == token.LEQ) && k == "0" || op == token.LSS && k == "1") && measure(be.X, after) {
						okGuard = true
					}
				}
			}
		}
		if !okGuard {
			bad = append(bad, fmt.Sprintf("line %d (guard %s)", c.Prog.Fset.Position(r.Pos()).Line, types.ExprString(guard)))
		}
	}
	c.Check(n > 0 && len(bad) == 0, R, "memberlist:mergeValueForKey:no-change", fn.Pos(), fmt.Sprintf("%d 'no change' exits after the merge, each decided by len(change.MergeContent()) measured after the last tombstone removal on the change; others: %v", n, bad), n)
}

// disjuncts splits e at top-level || operators.
func disjuncts(e ast.Expr) []ast.Expr {
	e = an.Unparen(e)
	if b, ok := e.(*ast.BinaryExpr); ok && b.Op == token.LOR {
		return append(disjuncts(b.X), disjuncts(b.Y)...)
	}
	return []ast.Expr{e}
}

type c03Lit struct {
	e   ast.Expr
	neg bool
}

// cnf returns e (negated when neg) as a conjunction of clauses of literals; !, && and || are interpreted,
// everything else is a literal. Small guards only (the product is not bounded).
func cnf(fn *an.Fn, e ast.Expr, neg bool, depth int) [][]c03Lit {
	e = an.Unparen(e)
	switch x := e.(type) {
	case *ast.Ident:
		// a boolean local with one definition stands for the expression it holds
		if depth < 3 {
			if obj := fn.ObjOf(x); obj != nil {
				if b, ok := obj.Type().Underlying().(*types.Basic); ok && b.Kind() == types.Bool {
					if d, ok := fn.SingleDefExpr(obj); ok {
						return cnf(fn, d, neg, depth+1)
					}
				}
			}
		}
	case *ast.UnaryExpr:
		if x.Op == token.NOT {
			return cnf(fn, x.X, !neg, depth)
		}
	case *ast.BinaryExpr:
		and := x.Op == token.LAND && !neg || x.Op == token.LOR && neg
		or := x.Op == token.LOR && !neg || x.Op == token.LAND && neg
		if and {
			return append(cnf(fn, x.X, neg, depth), cnf(fn, x.Y, neg, depth)...)
		}
		if or {
			var out [][]c03Lit
			for _, a := range cnf(fn, x.X, neg, depth) {
				for _, b := range cnf(fn, x.Y, neg, depth) {
					out = append(out, append(append([]c03Lit{}, a...), b...))
				}
			}
			return out
		}
	}
	return [][]c03Lit{{{e, neg}}}
}
