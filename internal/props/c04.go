package props

import (
	"fmt"
	"go/ast"
	"go/types"
	"strings"

	"dsverif/internal/an"
	"dsverif/internal/core"
)

func init() {
	Registry["C04"] = Prop{
		Patterns: []string{"./ring", "./kv/memberlist"},
		Run:      runC04,
		Explanation: "Decides the mechanism clauses of tombstone handling from source: (R1) in every localCAS branch the tombstone state is stored together with a timestamp of the merge's clock parameter, exactly for entries missing from the incoming value and not yet tombstones; " +
			"(R2) the LWW tables give removals priority on equal timestamps (C03.R1 re-evaluated); (R3) the stored Mergeable (ValueDesc.value) is reachable only from a closed set of functions, KV.get strips all tombstones from a clone, and every value handed to a reader/watcher/CAS callback is get's result; " +
			"(R4) RemoveTombstones is called only with the zero limit on the clone or with now-LeftIngestersTimeout under LeftIngestersTimeout>0; (R5) each RemoveTombstones implementation deletes iff tombstone ∧ (limit zero ∨ timestamp before limit); (R6) push/pull encodes the stored value unstripped. " +
			" Also: (R7) Clone copies every entry, tombstones included (gossiped changes and push/pull are clones of stored values). (R8) a watcher is told about every later change, removals included: its wake-up is consumed only by the select that reads the value next (shared with C06.R11). NOT decided: that no interleaving of delayed messages resurrects an entry (a history property); these rules are its mechanism.",
		Assumptions: []string{"the status page (http_status_handler.go) is an operator view, not a kv reader (documented exception)"},
	}
}

func runC04(c *core.Ctx) {
	c.Rule("R1", "localCAS tombstones: state=tombstone and timestamp=clock.Unix() are stored together, iff the entry is missing from the incoming value and is not yet a tombstone", 5)
	c.Rule("R2", "removal wins ties: LWW decision table of every register (same evaluation as C03.R1)", 4)
	c.Rule("R3", "readers never see tombstones: closed census of ValueDesc.value accesses; get = Clone + RemoveTombstones(zero) on every non-nil path; reader exits receive get's result", 11)
	c.Rule("R4", "RemoveTombstones call sites: zero-limit on the clone in get; retention-bounded (now - LeftIngestersTimeout, under LeftIngestersTimeout > 0) in mergeValueForKey; nowhere else", 3)
	c.Rule("R5", "RemoveTombstones implementations delete ⇔ tombstone ∧ (limit.IsZero() ∨ timestamp.Before(limit))", 3)
	c.Rule("R7", "Clone copies every entry, tombstones included (gossiped changes and push/pull are clones of stored values)", 2)
	c.Rule("R8", "a watcher is told about every later change — a removal included: its wake-up is consumed only by the select that reads the value next (shared with C06.R11)", 2)
	c.Rule("R6", "push/pull (LocalState) encodes the stored value with its tombstones, freshly on every call", 2)

	fns := mergeFns(c, "R1")
	for _, sp := range lwwSpec {
		fn := fns[sp.Type]
		if fn == nil {
			c.Miss("R1", "type="+sp.Type, "merge function not found")
			continue
		}
		c.Analysed(fn.String())
		analyseLWWLoop(c, fn, sp, lwwIDs{table: "R2"})
		analyseTombstoneStamp(c, fn, sp)
		analyseRemoveTombstones(c, sp)
	}
	c04Readers(c)
	if ml := c.Prog.Pkg("kv/memberlist"); ml != nil {
		c.As("R11", "R8", func() { c06Wakeups(c, ml) })
	}
}

// R1
func analyseTombstoneStamp(c *core.Ctx, fn *an.Fn, sp lwwMap) {
	id := sp.Type + "." + sp.Map
	var reg *lwwReg
	for i := range sp.Regs {
		if sp.Regs[i].TombConst != "" {
			reg = &sp.Regs[i]
		}
	}
	if reg == nil {
		return
	}
	loops := rangeLoops(fn, "recv."+sp.Map)
	if len(loops) != 1 {
		c.Undec("R1", "loop="+id, fn.Pos(), fmt.Sprintf("expected one localCAS loop ranging over the receiver's %s, found %d", sp.Map, len(loops)))
		return
	}
	rs := loops[0]
	g := fn.Graph()
	header, body, _ := g.LoopBlocks(rs)
	// clock parameter
	clock := ""
	sig := fn.Obj.Type().(*types.Signature)
	for i := 0; i < sig.Params().Len(); i++ {
		if sig.Params().At(i).Type().String() == "time.Time" {
			clock = fmt.Sprintf("p%d", i)
		}
	}
	roles := an.Roles{
		{From: "keyof(recv." + sp.Map + ")", To: "k"},
		{From: "each(recv." + sp.Map + ")", To: "t"},
	}
	C := func(e ast.Expr) string { return roles.Apply(fn.Canon(e)) }
	var stateSets, tsSets, stores []*ast.AssignStmt
	var other []string
	ast.Inspect(rs.Body, func(n ast.Node) bool {
		as, ok := n.(*ast.AssignStmt)
		if !ok || len(as.Lhs) != len(as.Rhs) {
			return true
		}
		for i, l := range as.Lhs {
			lc := C(l)
			switch {
			case lc == "t."+reg.TombField:
				if fn.ConstName(as.Rhs[i]) == reg.TombConst {
					stateSets = append(stateSets, as)
				} else {
					other = append(other, "assignment of "+C(as.Rhs[i])+" to the tombstone field")
				}
			case lc == "t."+reg.TS:
				if clock != "" && (C(as.Rhs[i]) == clock+".Unix()" || C(as.Rhs[i]) == "time.Now().Unix()") {
					tsSets = append(tsSets, as)
				} else {
					other = append(other, "timestamp assigned from "+C(as.Rhs[i]))
				}
			case lc == "recv."+sp.Map+"[k]":
				if C(as.Rhs[i]) == "t" {
					stores = append(stores, as)
				} else {
					other = append(other, "store of "+C(as.Rhs[i]))
				}
			}
		}
		return true
	})
	key := "stamp=" + id
	if len(stateSets) == 0 || len(stores) == 0 {
		c.Undec("R1", key, rs.Pos(), "no tombstone assignment / write-back recognised in the localCAS loop")
		return
	}
	if len(other) > 0 {
		c.Viol("R1", key, rs.Pos(), "unexpected assignment in the localCAS loop: "+strings.Join(other, "; "))
		return
	}
	ok := len(tsSets) > 0
	for _, st := range stores {
		sOK, tOK := false, false
		for _, s := range stateSets {
			if g.NodeBefore(s, st) {
				sOK = true
			}
		}
		for _, t := range tsSets {
			if g.NodeBefore(t, st) {
				tOK = true
			}
		}
		if !sOK || !tOK {
			ok = false
		}
	}
	c.Check(ok, "R1", key, stores[0].Pos(), fmt.Sprintf("every write-back of a tombstoned entry is dominated by %s=%s and %s=%s.Unix() (found %d state, %d timestamp assignments, %d stores)", reg.TombField, reg.TombConst, reg.TS, clock, len(stateSets), len(tsSets), len(stores)), 1)

	// decision: store ⇔ missing ∧ ¬tomb
	atoms := []an.Atom{{Name: "present", Values: []string{"T", "F"}}, {Name: "tomb", Values: []string{"T", "F"}}}
	bd := &an.Binder{Fn: fn, Roles: roles, Bool: map[string]string{"ok(p0." + sp.Map + "[k])": "present"},
		Eq: map[string]string{"t." + reg.TombField + "|" + reg.TombConst: "tomb"}, Unknown: map[string]bool{}}
	var locs []an.Loc
	for _, st := range stores {
		locs = append(locs, g.Locate(st))
	}
	var bad, undec []string
	rows := an.Rows(atoms)
	for _, row := range rows {
		bd.Row = row
		ex := g.Exec(an.Loc{B: body, I: 0}, locs, bd.Leaf, an.ExecOpts{Header: header})
		got := an.F
		for i := range locs {
			got = an.Or(got, ex.Tri(i))
		}
		want := row["present"] == "F" && row["tomb"] == "F"
		if got == an.U {
			undec = append(undec, rowString(row))
		} else if (got == an.T) != want {
			bad = append(bad, fmt.Sprintf("{%s} tombstoned=%v expected=%v", rowString(row), got, want))
		}
	}
	key = "decision=" + id
	switch {
	case len(bad) > 0:
		c.Viol("R1", key, rs.Pos(), "localCAS tombstoning differs from 'missing ∧ not yet tombstone': "+strings.Join(bad, "; "))
	case len(undec) > 0:
		c.Undec("R1", key, rs.Pos(), fmt.Sprintf("undecidable rows %v (unrecognised: %v)", undec, keys(bd.Unknown)))
	default:
		c.Hold("R1", key, rs.Pos(), "tombstone written ⇔ entry missing from incoming ∧ not already a tombstone (4 rows)", len(rows))
	}
}

// R5
func analyseRemoveTombstones(c *core.Ctx, sp lwwMap) {
	ring := c.Prog.Pkg("ring")
	fn := an.FindFunc(ring, sp.Type+".RemoveTombstones")
	id := sp.Type + "." + sp.Map
	if fn == nil {
		c.Miss("R5", "func="+sp.Type+".RemoveTombstones", "not found")
		return
	}
	c.Analysed(fn.String())
	var reg *lwwReg
	for i := range sp.Regs {
		if sp.Regs[i].TombConst != "" {
			reg = &sp.Regs[i]
		}
	}
	loops := rangeLoops(fn, "recv."+sp.Map)
	if len(loops) != 1 || reg == nil {
		c.Undec("R5", "loop="+id, fn.Pos(), "expected one loop over the receiver's "+sp.Map)
		return
	}
	rs := loops[0]
	g := fn.Graph()
	header, body, _ := g.LoopBlocks(rs)
	roles := an.Roles{{From: "keyof(recv." + sp.Map + ")", To: "k"}, {From: "each(recv." + sp.Map + ")", To: "t"}}
	var dels []an.Loc
	for _, call := range fn.CallsTo(false, "", "delete") {
		if an.InNode(rs.Body, call.Expr) && len(call.Expr.Args) == 2 && roles.Apply(fn.Canon(call.Expr.Args[0])) == "recv."+sp.Map && roles.Apply(fn.Canon(call.Expr.Args[1])) == "k" {
			dels = append(dels, g.Locate(call.Expr))
		}
	}
	// any other delete/store on receiver maps inside the function is unexpected
	nDel := len(fn.CallsTo(false, "", "delete"))
	if len(dels) == 0 {
		c.Undec("R5", "delete="+id, rs.Pos(), "no delete(recv."+sp.Map+", k) in the loop")
		return
	}
	atoms := []an.Atom{{Name: "tomb", Values: []string{"T", "F"}}, {Name: "zero", Values: []string{"T", "F"}}, {Name: "before", Values: []string{"T", "F"}}}
	bd := &an.Binder{Fn: fn, Roles: roles,
		Eq:      map[string]string{"t." + reg.TombField + "|" + reg.TombConst: "tomb"},
		Bool:    map[string]string{"p0.IsZero()": "zero", "time.Unix(t." + reg.TS + ", 0).Before(p0)": "before"},
		Unknown: map[string]bool{}}
	var bad, undec []string
	rows := an.Rows(atoms)
	for _, row := range rows {
		bd.Row = row
		ex := g.Exec(an.Loc{B: body, I: 0}, dels, bd.Leaf, an.ExecOpts{Header: header})
		got := an.F
		for i := range dels {
			got = an.Or(got, ex.Tri(i))
		}
		want := row["tomb"] == "T" && (row["zero"] == "T" || row["before"] == "T")
		if got == an.U {
			undec = append(undec, rowString(row))
		} else if (got == an.T) != want {
			bad = append(bad, fmt.Sprintf("{%s} deleted=%v expected=%v", rowString(row), got, want))
		}
	}
	key := "delete=" + id
	switch {
	case len(bad) > 0:
		c.Viol("R5", key, rs.Pos(), "delete guard differs from tomb ∧ (zero ∨ before): "+strings.Join(bad, "; "))
	case len(undec) > 0:
		c.Undec("R5", key, rs.Pos(), fmt.Sprintf("undecidable rows %v (unrecognised: %v)", head(undec, 3), keys(bd.Unknown)))
	default:
		c.Hold("R5", key, rs.Pos(), fmt.Sprintf("delete ⇔ %s==%s ∧ (limit.IsZero() ∨ time.Unix(%s,0).Before(limit)) on 8 rows; %d delete calls in function", reg.TombField, reg.TombConst, reg.TS, nDel), len(rows))
	}
}

// valueAccessTable: functions allowed to touch ValueDesc.value, one reason each.
var valueAccessTable = map[string]string{
	"(ValueDesc).Clone":              "deep copy",
	"(*KV).get":                      "reader path: strips tombstones on a clone (obligations below)",
	"(*KV).Delete":                   "passes the stored value as the incoming side of a merge; nothing is returned to the caller",
	"(*KV).LocalState":               "push/pull encoding: tombstones must travel (R6)",
	"(*KV).mergeValueForKey":         "merge in place under storeMu; returns the change (gossiped), not the state",
	"viewKey":                        "status page, operator view (documented exception: not a kv reader)",
	"downloadKey":                    "status page, operator view (documented exception)",
	"(*KV).ServeHTTP":                "status page, operator view (documented exception)",
	"viewMessage":                    "status page",
	"computeStoreSizes":              "status page: encodes stored values only to measure their size",
	"(*HTTPStatusHandler).ServeHTTP": "status page, operator view (documented exception)",
}

func c04Readers(c *core.Ctx) {
	ml := c.Prog.Pkg("kv/memberlist")
	if ml == nil {
		c.Miss("R3", "pkg=kv/memberlist", "not loaded")
		return
	}
	vd := an.LookupType(ml, "ValueDesc")
	if vd == nil {
		c.Miss("R3", "type=ValueDesc", "not found")
		return
	}
	var valueField *types.Var
	if st, ok := vd.Underlying().(*types.Struct); ok {
		for i := 0; i < st.NumFields(); i++ {
			if st.Field(i).Name() == "value" {
				valueField = st.Field(i)
			}
		}
	}
	if valueField == nil {
		c.Miss("R3", "field=ValueDesc.value", "not found")
		return
	}
	// census
	for _, fn := range an.Funcs(ml) {
		n := 0
		var first ast.Node
		fn.InspectDeep(func(x ast.Node) bool {
			switch s := x.(type) {
			case *ast.SelectorExpr:
				if sel := fn.Info().Selections[s]; sel != nil && sel.Obj() == valueField {
					n++
					if first == nil {
						first = s
					}
				}
			case *ast.KeyValueExpr:
				if id, ok := s.Key.(*ast.Ident); ok && fn.Info().Uses[id] == valueField {
					n++
					if first == nil {
						first = s
					}
				}
			}
			return true
		})
		if n == 0 {
			continue
		}
		reason, ok := valueAccessTable[fn.Name]
		if ok {
			c.Hold("R3", "census:func="+fn.Name, first.Pos(), fmt.Sprintf("%d accesses to ValueDesc.value; allowed: %s", n, reason), n)
		} else {
			c.Viol("R3", "census:func="+fn.Name, first.Pos(), "function accesses the stored Mergeable (ValueDesc.value) but is not in the reviewed table of props/c04.go: a reader path that may expose tombstones")
		}
	}
	// get
	get := an.FindFunc(ml, "KV.get")
	if get == nil {
		c.Miss("R3", "func=KV.get", "not found")
		return
	}
	c.Analysed(get.String())
	g := get.Graph()
	var rtCalls []an.Call
	for _, call := range get.Calls(false) {
		if call.Func() != nil && call.Func().Name() == "RemoveTombstones" {
			rtCalls = append(rtCalls, call)
		}
	}
	var rets []*ast.ReturnStmt
	for _, b := range g.Blocks {
		if r := an.ReturnOf(b); r != nil {
			rets = append(rets, r)
		}
	}
	for _, r := range rets {
		if len(r.Results) == 0 {
			c.Undec("R3", "get:return", r.Pos(), "naked return in get")
			continue
		}
		rc := get.Canon(r.Results[0])
		if rc == "nil" {
			c.HoldTrivial("R3", "get:return=nil", r.Pos(), "returns nil value")
			continue
		}
		// the returned object must be a clone derived from the store entry of the key
		okClone := strings.Contains(rc, "recv.store[p0]") && strings.Contains(rc, ".Clone()")
		// RemoveTombstones on exactly the returned object with the zero time, executed whenever it is non-nil
		var rt *an.Call
		for i := range rtCalls {
			sel, _ := an.Unparen(rtCalls[i].Expr.Fun).(*ast.SelectorExpr)
			if sel == nil {
				continue
			}
			recvC := get.Canon(sel.X)
			if recvC == rc && len(rtCalls[i].Expr.Args) == 1 && get.Canon(rtCalls[i].Expr.Args[0]) == "time.Time{}" {
				rt = &rtCalls[i]
			}
			if !strings.Contains(recvC, ".Clone()") {
				c.Viol("R3", "get:strip-on-store", rtCalls[i].Expr.Pos(), "RemoveTombstones is applied to "+recvC+", which is not a clone: reading would delete tombstones from the replicated state")
			}
		}
		if !okClone {
			c.Viol("R3", "get:return", r.Pos(), "get returns "+rc+", expected a Clone() derived from the store entry recv.store[key]")
			continue
		}
		if rt == nil {
			c.Viol("R3", "get:strip", r.Pos(), "no RemoveTombstones(time.Time{}) call on the returned clone ("+rc+")")
			continue
		}
		bd := &an.Binder{Fn: get, Eq: map[string]string{rc + "|nil": "isnil"}, Unknown: map[string]bool{}}
		bd.Row = an.Row{"isnil": "F"}
		ex := g.Exec(g.EntryLoc(), []an.Loc{g.Locate(rt.Expr), g.Locate(r)}, bd.Leaf, an.ExecOpts{})
		ok := ex.Must[0] && ex.Must[1] // the return ends the path, so the call precedes it
		c.Check(ok, "R3", "get:strip", rt.Expr.Pos(), fmt.Sprintf("RemoveTombstones(time.Time{}) on the clone executes on every path with value != nil and dominates the return (paths=%d)", ex.Paths), ex.Paths)
		// lock: the store read happens between Lock and Unlock — covered by C06.R4
	}
	// reader exits: calls of func-typed parameters with an interface{} argument inside KV methods; KV.Get's return
	kv := an.LookupType(ml, "KV")
	exits := 0
	for _, fn := range an.Funcs(ml) {
		if fn.Obj == nil {
			continue
		}
		sig := fn.Obj.Type().(*types.Signature)
		if sig.Recv() == nil || kv == nil || !strings.HasSuffix(sig.Recv().Type().String(), "memberlist.KV") {
			continue
		}
		fparams := map[types.Object]bool{}
		for i := 0; i < sig.Params().Len(); i++ {
			if fs, ok := sig.Params().At(i).Type().Underlying().(*types.Signature); ok {
				for j := 0; j < fs.Params().Len(); j++ {
					if types.IsInterface(fs.Params().At(j).Type()) {
						fparams[sig.Params().At(i)] = true
					}
				}
			}
		}
		if len(fparams) == 0 {
			continue
		}
		for _, call := range fn.Calls(true) {
			v, ok := call.Callee.(*types.Var)
			if !ok || !fparams[v] {
				continue
			}
			fs := v.Type().Underlying().(*types.Signature)
			for j, a := range call.Expr.Args {
				if j < fs.Params().Len() && types.IsInterface(fs.Params().At(j).Type()) {
					exits++
					ac := call.In.Canon(a)
					ok := strings.HasPrefix(ac, "recv.get(") && strings.HasSuffix(ac, ")#0")
					c.Check(ok, "R3", "exit:func="+fn.Name+":callback="+v.Name(), call.Expr.Pos(), "value handed to the caller's function is "+ac+" (must be the first result of m.get)", 1)
				}
			}
		}
		// forwarding f to another KV method (CAS -> trySingleCas) is fine: that method is checked itself
	}
	if getFn := an.FindFunc(ml, "KV.Get"); getFn != nil {
		for _, b := range getFn.Graph().Blocks {
			if r := an.ReturnOf(b); r != nil && len(r.Results) > 0 {
				exits++
				rc := getFn.Canon(r.Results[0])
				c.Check(strings.HasPrefix(rc, "recv.get(") && strings.HasSuffix(rc, ")#0") || rc == "nil", "R3", "exit:func=(*KV).Get:return", r.Pos(), "KV.Get returns "+rc, 1)
			}
		}
	} else {
		c.Miss("R3", "func=KV.Get", "not found")
	}

	// R4: RemoveTombstones call sites in package memberlist
	for _, fn := range an.Funcs(ml) {
		for _, call := range fn.Calls(true) {
			if call.Func() == nil || call.Func().Name() != "RemoveTombstones" {
				continue
			}
			key := "site:func=" + fn.Name
			arg := ""
			if len(call.Expr.Args) == 1 {
				arg = call.In.Canon(call.Expr.Args[0])
			}
			switch fn.Name {
			case "(*KV).get":
				c.Check(arg == "time.Time{}", "R4", key, call.Expr.Pos(), "limit argument is "+arg+" (zero time: strip all, on the clone)", 1)
			case "(*KV).mergeValueForKey":
				okArg := arg == "time.Now().Add(-recv.cfg.LeftIngestersTimeout)"
				g := fn.Graph()
				bd := &an.Binder{Fn: fn, Cmp: map[string]string{"recv.cfg.LeftIngestersTimeout|0": "timeout"}, Unknown: map[string]bool{}}
				reach := map[string]bool{}
				for _, v := range []string{"lt", "eq", "gt"} {
					bd.Row = an.Row{"timeout": v}
					ex := g.Exec(g.EntryLoc(), []an.Loc{g.Locate(call.Expr)}, bd.Leaf, an.ExecOpts{})
					reach[v] = ex.May[0]
				}
				c.Check(okArg && reach["gt"] && !reach["eq"] && !reach["lt"], "R4", key, call.Expr.Pos(),
					fmt.Sprintf("limit=%s; reachable for LeftIngestersTimeout <0:%v =0:%v >0:%v (must be retention-bounded and only when the timeout is positive)", arg, reach["lt"], reach["eq"], reach["gt"]), 3)
			default:
				c.Viol("R4", key, call.Expr.Pos(), "RemoveTombstones called outside get/mergeValueForKey: tombstones may be discarded before the retention or on the stored value")
			}
		}
	}
	c04CloneComplete(c, "R7")
	c04LocalState(c, "R6")
	_ = exits
}

// c04LocalState: the full-state exchange encodes the stored value itself, tombstones included (shared
// with C06.R9: a removal whose gossip messages were lost can only be repaired by push/pull).
func c04LocalState(c *core.Ctx, R string) {
	ml := c.Prog.Pkg("kv/memberlist")
	// R6: LocalState
	if ls := an.FindFunc(ml, "KV.LocalState"); ls != nil {
		c.Analysed(ls.String())
		found := false
		for _, call := range ls.Calls(false) {
			if call.Func() != nil && call.Func().Name() == "Encode" && len(call.Expr.Args) == 1 {
				found = true
				ac := ls.Canon(call.Expr.Args[0])
				c.Check(ac == "each(recv.store).value", R, "func=(*KV).LocalState:encode", call.Expr.Pos(), "encoded value is "+ac+" (the stored value itself, tombstones included)", 1)
				// the bytes sent for the key are that encoding, computed in this very pass (no cached or derived bytes)
				want := ls.Canon(call.Expr) + "#0"
				ls.InspectShallow(func(n ast.Node) bool {
					// the pair's Value is set either by an assignment kvPair.Value = X or in a literal KeyValuePair{Value: X}
					var valExpr ast.Expr
					var at ast.Node
					switch x := n.(type) {
					case *ast.AssignStmt:
						if len(x.Lhs) == 1 && len(x.Rhs) == 1 {
							if sel, ok := an.Unparen(x.Lhs[0]).(*ast.SelectorExpr); ok && sel.Sel.Name == "Value" {
								if t := ls.Info().TypeOf(sel.X); t != nil && strings.HasSuffix(t.String(), "KeyValuePair") {
									valExpr, at = x.Rhs[0], x
								}
							}
						}
					case *ast.CompositeLit:
						if t := ls.Info().TypeOf(x); t != nil && strings.HasSuffix(t.String(), "KeyValuePair") {
							for _, el := range x.Elts {
								if kv, ok := el.(*ast.KeyValueExpr); ok {
									if id, ok := kv.Key.(*ast.Ident); ok && id.Name == "Value" {
										valExpr, at = kv.Value, stmtOf(ls, x)
									}
								}
							}
						}
					}
					if valExpr == nil || at == nil {
						return true
					}
					as := &ast.AssignStmt{Rhs: []ast.Expr{valExpr}}
					asPos := at
					g := ls.Graph()
					vals := map[string]bool{}
					if obj := ls.ObjOf(as.Rhs[0]); obj != nil && ls.DefCount(obj) > 1 {
						ex := g.Exec(g.EntryLoc(), []an.Loc{g.Locate(asPos)}, func(ast.Expr, an.Store) an.Tri { return an.U }, an.ExecOpts{Watch: obj, Unroll: 1})
						for v := range ex.Vals[0] {
							vals[v] = true
						}
					} else {
						vals[ls.Canon(as.Rhs[0])] = true
					}
					okv := len(vals) == 1 && vals[want]
					c.Check(okv, R, "func=(*KV).LocalState:payload", asPos.Pos(), fmt.Sprintf("the value bytes of every pair sent are codec.Encode(stored value) of this pass (%v): a copy kept from an earlier call could miss changes that did not bump the version", keys(vals)), 1)
					return true
				})
			}
		}
		if !found {
			c.Undec(R, "func=(*KV).LocalState:encode", ls.Pos(), "no Encode call found")
		}
	} else {
		c.Miss(R, "func=KV.LocalState", "not found")
	}
}

// c04CloneComplete (R7): the KV store clones a value before it is gossiped, pushed or handed to readers;
// only the reader path strips tombstones afterwards. A Clone that leaves entries out makes a tombstone
// invisible to the cluster. Every Clone of a ring Mergeable either delegates to a library copy
// (maps.Clone / proto.Clone) or stores every element of each receiver map it ranges over: the store under
// the loop key is executed on every path of an iteration.
func c04CloneComplete(c *core.Ctx, R string) {
	pkg := c.Prog.Pkg("ring")
	for _, name := range []string{"Desc.Clone", "PartitionRingDesc.Clone"} {
		fn := an.FindFunc(pkg, name)
		if fn == nil {
			c.Miss(R, "func="+name, "not found")
			continue
		}
		c.Analysed(fn.String())
		g := fn.Graph()
		lib := 0
		for _, call := range fn.Calls(false) {
			if call.Is("maps", "Clone") || call.Is("proto", "Clone") || call.Is("github.com/gogo/protobuf/proto", "Clone") {
				lib++
			}
		}
		var bad []string
		loops := 0
		fn.InspectShallow(func(n ast.Node) bool {
			rs, ok := n.(*ast.RangeStmt)
			if !ok || !strings.HasPrefix(fn.Canon(rs.X), "recv.") {
				return true
			}
			if _, isMap := fn.Info().TypeOf(rs.X).Underlying().(*types.Map); !isMap {
				return true
			}
			loops++
			header, body, _ := g.LoopBlocks(rs)
			var stores []an.Loc
			ast.Inspect(rs.Body, func(m ast.Node) bool {
				if as, ok := m.(*ast.AssignStmt); ok && len(as.Lhs) == 1 {
					if ix, ok := as.Lhs[0].(*ast.IndexExpr); ok && fn.Canon(ix.Index) == "keyof("+fn.Canon(rs.X)+")" {
						stores = append(stores, g.Locate(as))
					}
				}
				return true
			})
			if len(stores) != 1 || body == nil {
				bad = append(bad, fmt.Sprintf("loop over %s: %d stores under the loop key", fn.Canon(rs.X), len(stores)))
				return true
			}
			ex := g.Exec(an.Loc{B: body, I: 0}, stores, func(ast.Expr, an.Store) an.Tri { return an.U }, an.ExecOpts{Header: header})
			if !ex.Must[0] {
				bad = append(bad, fmt.Sprintf("loop over %s: some iteration skips the copy", fn.Canon(rs.X)))
			}
			return true
		})
		c.Check(len(bad) == 0 && (lib > 0 || loops > 0), R, "func="+name, fn.Pos(), fmt.Sprintf("library copies: %d; hand-written loops over receiver maps: %d, each copying every element: %v", lib, loops, bad), 1)
	}
}
