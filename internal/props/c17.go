package props

import (
	"fmt"
	"go/ast"
	"go/constant"
	"go/token"
	"go/types"
	"sort"
	"strings"

	"dsverif/internal/an"
	"dsverif/internal/core"
	"golang.org/x/tools/go/cfg"
	"golang.org/x/tools/go/packages"
)

func init() {
	Registry["C17"] = Prop{
		Patterns: []string{"./services"},
		Run:      runC17,
		Explanation: "Decides the structure of the service state machine from source: (R1) BasicService.state and Manager.state are assigned only in the transition function / serviceStateChanged; (R2) the set of (from,to) pairs of all switchState/mustSwitchState calls (variables resolved path-sensitively) equals the property's transition table, and each transition closure notifies listeners exactly once with the matching callback, source state and terminal flag; " +
			"(R3) start, run and stop functions have one call site each, run and stop are unreachable after a failed start, stop is reached on every path after a successful start, the service context is cancelled by a plain call that dominates the stop call, main is spawned only by the New→Starting transition; (R4) on every path of main and of StopAsync's transition both waiter channels are closed exactly once (closures inlined per path); " +
			"(R6) listener buffer capacity ≥ longest transition chain; (R7) the failure cause is overwritten by the stop error only when nil; (R8) manager state decision table: healthy ⇔ all running, stopped ⇔ all terminal, unknown otherwise, exactly one assignment per notification, healthy latch closed only once-guarded. Also: (R5) stateMu / Manager.mu guard the state, failure cause, listeners and name (lockset; transition closures inherit the lock); (R9) StopAsync cancels on the result of the atomic switch (a racing start is not lost); (R10) failure fan-in: every failure report is delivered with a blocking send; (R11) listener registry keyed by identity: the remove function takes out the channel its AddListener registered; (R12) timer service: an iteration's error is the run function's result on every path; (R13) the transition function is an atomic compare-and-set: the state is written ⇔ it equals the expected state, both under one hold of the write lock; (R14) manager queries answer from the decided state: IsHealthy/IsStopped compare it, AwaitHealthy returns nil ⇔ state == healthy; (R15) manager notifications are produced only by the state decision: listener callbacks are built and queued nowhere else; Failure is queued ⇔ the service entered Failed. NOT decided: waiter wake-up liveness, listener delivery order across goroutines, manager aggregation over all interleavings.",
	}
}

var c17Edges = map[string]bool{
	"New→Starting": true, "Starting→Failed": true, "Starting→Running": true, "Starting→Stopping": true,
	"Running→Stopping": true, "Stopping→Failed": true, "Stopping→Terminated": true, "New→Terminated": true,
}

var c17ListenerFor = map[string]string{"Starting": "Starting", "Running": "Running", "Stopping": "Stopping", "Terminated": "Terminated", "Failed": "Failed"}

type c17Transition struct {
	call   an.Call
	in     *an.Fn
	from   []string
	to     string
	lit    *ast.FuncLit
	fromEx ast.Expr
	body   *an.Fn // the transition function: the literal, or the method/function whose value is passed
}

// contains: node lies in the transition function's body.
func (t c17Transition) contains(n ast.Node) bool {
	if t.lit != nil {
		return an.InNode(t.lit, n)
	}
	if t.body != nil && t.body.Decl != nil {
		return an.InNode(t.body.Decl, n)
	}
	return false
}

// bodyFn returns the Fn of the transition function.
func (t c17Transition) bodyFn() *an.Fn {
	if t.lit != nil {
		return t.in.Root().LitFn(t.lit)
	}
	return t.body
}

func runC17(c *core.Ctx) {
	c.Rule("R1", "state fields are assigned only by the transition function (and constructors)", 2)
	c.Rule("R2", "extracted transitions = the property's table; each transition notifies listeners once with matching callback/from/terminal flag", 12)
	c.Rule("R3", "start/run/stop called once, in order; no run/stop after failed start; stop always after successful start; cancel dominates stop; main spawned only by New→Starting", 5)
	c.Rule("R4", "both waiter channels are closed exactly once on every path", 2)
	c.Rule("R5", "stateMu / Manager.mu guard the state, failure cause, listeners and name (lockset; transition closures inherit the lock)", 2)
	c.Rule("R6", "listener channel capacity ≥ longest transition chain", 1)
	c.Rule("R7", "failure cause overwritten by the stopping error only when nil", 1)
	c.Rule("R8", "manager state decision table and healthy latch", 3)
	c.Rule("R9", "StopAsync cancels on the result of the atomic switch (a racing start is not lost)", 1)
	c.Rule("R11", "listener registry keyed by identity: the remove function takes out the channel its AddListener registered", 1)
	c.Rule("R12", "timer service: an iteration's error is the run function's result on every path", 1)
	c.Rule("R13", "the transition function is an atomic compare-and-set: the state is written ⇔ it equals the expected state, both under one hold of the write lock", 1)
	c.Rule("R14", "manager queries answer from the decided state: IsHealthy/IsStopped compare it, AwaitHealthy returns nil ⇔ state == healthy", 3)
	c.Rule("R15", "manager notifications are produced only by the state decision: listener callbacks are built and queued nowhere else; Failure is queued ⇔ the service entered Failed", 2)
	c.Rule("R10", "failure fan-in: every failure report is delivered with a blocking send", 1)
	pkg := c.Prog.Pkg("services")
	if pkg == nil {
		c.Miss("R1", "pkg=services", "not loaded")
		return
	}
	bs := an.LookupType(pkg, "BasicService")
	mg := an.LookupType(pkg, "Manager")
	if bs == nil || mg == nil {
		c.Miss("R1", "type=BasicService/Manager", "not found")
		return
	}
	// ---- R1 census of state assignments
	for _, spec := range []struct {
		t       *types.Named
		field   string
		allowed map[string]string
	}{
		{bs, "state", map[string]string{"(*BasicService).switchState": "the transition function", "NewBasicService": "constructor (constant New)"}},
		{mg, "state", map[string]string{"(*Manager).serviceStateChanged": "recomputed on every service notification", "NewManager": "constructor"}},
	} {
		fld := fieldOf(spec.t, spec.field)
		if fld == nil {
			c.Miss("R1", "field="+spec.t.Obj().Name()+"."+spec.field, "not found")
			continue
		}
		writers := fieldWriters(pkg, fld)
		for fnName, poss := range writers {
			key := "field=" + spec.t.Obj().Name() + "." + spec.field + ":writer=" + fnName
			if reason, ok := spec.allowed[fnName]; ok {
				c.Hold("R1", key, poss[0], fmt.Sprintf("%d write(s); allowed: %s", len(poss), reason), len(poss))
			} else {
				c.Viol("R1", key, poss[0], "state field written outside the transition function: transitions could bypass the table, the lock or the notifications")
			}
		}
	}
	// ---- R2 transitions
	var trans []c17Transition
	allFns := an.Funcs(pkg)
	for _, fn := range allFns {
		for _, call := range fn.Calls(true) {
			if !(call.Is("services", "(*BasicService).switchState") || call.Is("services", "(*BasicService).mustSwitchState")) {
				continue
			}
			if fn.Name == "(*BasicService).mustSwitchState" {
				continue // forwards its parameters
			}
			if len(call.Expr.Args) != 3 {
				continue
			}
			t := c17Transition{call: call, in: call.In, to: call.In.ConstName(call.Expr.Args[1]), fromEx: call.Expr.Args[0]}
			if lit, ok := an.Unparen(call.Expr.Args[2]).(*ast.FuncLit); ok {
				t.lit = lit
			} else {
				// a method value (b.enteredRunning) or a function name of this package
				var fo *types.Func
				switch x := an.Unparen(call.Expr.Args[2]).(type) {
				case *ast.SelectorExpr:
					if call.In.Canon(x.X) == "recv" {
						fo, _ = call.In.Info().Uses[x.Sel].(*types.Func)
					}
				case *ast.Ident:
					fo, _ = call.In.Info().Uses[x].(*types.Func)
				}
				if fo != nil && fo.Pkg() == pkg.Types {
					t.body = an.FnOf(c.Prog.ByPath, fo)
				}
			}
			if cn := call.In.ConstName(call.Expr.Args[0]); cn != "" {
				t.from = []string{cn}
			} else if obj := call.In.ObjOf(call.Expr.Args[0]); obj != nil {
				g := call.In.Graph()
				ex := g.Exec(g.EntryLoc(), []an.Loc{g.Locate(call.Expr)}, func(ast.Expr, an.Store) an.Tri { return an.U }, an.ExecOpts{Watch: obj, IgnorePanic: true})
				for v := range ex.Vals[0] {
					t.from = append(t.from, v)
				}
				sort.Strings(t.from)
			}
			trans = append(trans, t)
		}
	}
	seen := map[string]bool{}
	for _, t := range trans {
		c.Analysed(t.in.String())
		if t.to == "" || len(t.from) == 0 {
			c.Undec("R2", "transition:func="+t.in.Name, t.call.Expr.Pos(), "from/to of a switchState call could not be resolved to constants")
			continue
		}
		for _, f := range t.from {
			e := f + "→" + t.to
			seen[e] = true
			if c17Edges[e] {
				c.Hold("R2", "edge="+e, t.call.Expr.Pos(), "transition in "+t.in.Name+" is in the property's table", 1)
			} else {
				c.Viol("R2", "edge="+e, t.call.Expr.Pos(), "transition "+e+" (in "+t.in.Name+") is not in the property's table")
			}
		}
		c17Closure(c, t)
	}
	for e := range c17Edges {
		if !seen[e] {
			c.Viol("R2", "edge="+e, token.NoPos, "transition of the property's table has no call site any more")
		}
	}
	// ---- R3 main
	var main *an.Fn
	for _, fn := range allFns {
		if fn.Name == "(*BasicService).main" {
			main = fn
		}
	}
	if main == nil {
		c.Miss("R3", "func=BasicService.main", "not found")
		return
	}
	c.Analysed(main.String())
	c17Main(c, main, pkg, trans)
	// ---- R5 lockset
	c17Locks(c, pkg, bs, mg)
	// ---- R6
	c17Capacity(c, pkg)
	// ---- R8 manager
	c17Manager(c, pkg)
	c17StopAsync(c, pkg, trans)
	c17FailureWatcher(c, pkg)
	c17Listeners(c, pkg)
	c17Timer(c, pkg)
	c17CompareAndSet(c)
	c17ManagerQueries(c)
}

// c17Listeners (R11): the listener registry is keyed by identity. AddListener registers a channel it
// has just made, and the only other modification of the registry inside AddListener (the remove
// function it returns) refers to that very channel — a key computed from the registry's size or
// anything else could collide after a removal and silence another listener.
func c17Listeners(c *core.Ctx, pkg *packages.Package) {
	fn := an.FindFunc(pkg, "BasicService.AddListener")
	if fn == nil {
		c.Miss("R11", "func=BasicService.AddListener", "not found")
		return
	}
	c.Analysed(fn.String())
	type mod struct {
		in   *an.Fn
		node ast.Node
	}
	var mods []mod
	bodies := append([]*an.Fn{fn}, fn.AllLits()...)
	for _, f := range bodies {
		f := f
		f.InspectShallow(func(n ast.Node) bool {
			switch x := n.(type) {
			case *ast.AssignStmt:
				for i, l := range x.Lhs {
					lc := f.Canon(l)
					if lc == "recv.listeners" || strings.HasPrefix(lc, "recv.listeners[") {
						if lc == "recv.listeners" && len(x.Rhs) == len(x.Lhs) {
							switch r := an.Unparen(x.Rhs[i]).(type) {
							case *ast.CompositeLit:
								if len(r.Elts) == 0 {
									continue // creation of an empty registry
								}
							case *ast.CallExpr:
								if an.ObjIs(an.Callee(f.Info(), r), "", "make") {
									continue
								}
							}
						}
						mods = append(mods, mod{f, x})
					}
				}
			case *ast.CallExpr:
				if an.ObjIs(an.Callee(f.Info(), x), "", "delete") && len(x.Args) == 2 && f.Canon(x.Args[0]) == "recv.listeners" {
					mods = append(mods, mod{f, x})
				}
				if an.ObjIs(an.Callee(f.Info(), x), "", "clear") && len(x.Args) == 1 && f.Canon(x.Args[0]) == "recv.listeners" {
					mods = append(mods, mod{f, x})
				}
			}
			return true
		})
	}
	var reg, rem []mod
	for _, m := range mods {
		if m.in == fn {
			reg = append(reg, m)
		} else {
			rem = append(rem, m)
		}
	}
	if len(reg) != 1 || len(rem) != 1 {
		c.Undec("R11", "func=AddListener:registry", fn.Pos(), fmt.Sprintf("expected one registration in AddListener and one removal in the function it returns, found %d/%d (a lazily created registry or a second bookkeeping structure is not handled)", len(reg), len(rem)))
		return
	}
	// the registered value: a local holding a fresh channel
	var ch types.Object
	ast.Inspect(reg[0].node, func(n ast.Node) bool {
		if id, ok := n.(*ast.Ident); ok && ch == nil {
			if v, ok := fn.Info().Uses[id].(*types.Var); ok && !v.IsField() {
				if _, isChan := v.Type().Underlying().(*types.Chan); isChan {
					if d, ok := fn.SingleDefExpr(v); ok && strings.HasPrefix(fn.Canon(d), "make(chan ") {
						ch = v
					}
				}
			}
		}
		return true
	})
	if ch == nil {
		c.Viol("R11", "func=AddListener:registry", reg[0].node.Pos(), "the value registered is not a channel freshly made in AddListener")
		return
	}
	mentions := false
	ast.Inspect(rem[0].node, func(n ast.Node) bool {
		if id, ok := n.(*ast.Ident); ok && rem[0].in.Info().Uses[id] == ch {
			mentions = true
		}
		return true
	})
	c.Check(mentions, "R11", "func=AddListener:registry", rem[0].node.Pos(), "the remove function takes out exactly the channel this AddListener call registered (it refers to "+ch.Name()+" itself): registration and removal are keyed by identity", 1)
}

// c17Timer (R12): a timer service fails with the error of its iteration: after `err := iter(ctx)` with a
// non-nil error no return that drops that error is reachable, whatever else is tested.
func c17Timer(c *core.Ctx, pkg *packages.Package) {
	top := an.FindFunc(pkg, "NewTimerService")
	if top == nil {
		c.Miss("R12", "func=NewTimerService", "not found")
		return
	}
	c.Analysed(top.String())
	var run *an.Fn
	var iter an.Call
	for _, call := range top.Calls(true) {
		if v, ok := call.Callee.(*types.Var); ok && call.In != top && top.Canon(call.Expr.Fun) == "p2" || ok && v != nil && call.In != top && call.In.Canon(call.Expr.Fun) == "p2" {
			run, iter = call.In, call
		}
	}
	if run == nil {
		c.Undec("R12", "func=NewTimerService:iteration", top.Pos(), "call of the iteration function inside the run closure not found")
		return
	}
	g := run.Graph()
	st, _ := stmtOf(run, iter.Expr).(*ast.AssignStmt)
	if st == nil || len(st.Lhs) != 1 {
		c.Undec("R12", "func=NewTimerService:iteration", iter.Expr.Pos(), "the iteration's error is not bound to a variable")
		return
	}
	errObj := run.ObjOf(st.Lhs[0])
	var silent []an.Loc
	for _, b := range g.Blocks {
		r := an.ReturnOf(b)
		if r == nil || len(r.Results) != 1 {
			continue
		}
		mentions := false
		ast.Inspect(r.Results[0], func(n ast.Node) bool {
			if id, ok := n.(*ast.Ident); ok && run.Info().Uses[id] == errObj {
				mentions = true
			}
			return true
		})
		if !mentions {
			silent = append(silent, g.Locate(r))
		}
	}
	var loop ast.Stmt
	run.InspectShallow(func(n ast.Node) bool {
		if fs, ok := n.(*ast.ForStmt); ok && an.InNode(fs, iter.Expr) {
			loop = fs
		}
		return true
	})
	var header *cfg.Block
	if loop != nil {
		header, _, _ = g.LoopBlocks(loop)
	}
	IC := run.Canon(iter.Expr)
	t := an.Table{G: g, From: g.LocAfter(st), MayOnly: true, FreeUnknown: true, Opts: an.ExecOpts{Header: header}, Atoms: []an.Atom{{Name: "ok", Values: []string{"T", "F"}}},
		Binder: &an.Binder{Fn: run, Eq: map[string]string{IC + "|nil": "ok"}}, Targets: silent,
		Want: func(r an.Row, _ int) an.Tri {
			if r["ok"] == "F" {
				return an.F
			}
			return an.U
		}}
	res := t.Run()
	c.Check(res.OK(), "R12", "func=NewTimerService:iteration", iter.Expr.Pos(), fmt.Sprintf("when an iteration returns an error the run function returns it on every path (%d returns that do not carry it are unreachable then), whatever else is tested: %s", len(silent), res.Summary()), res.Rows)
}

func fieldOf(t *types.Named, name string) *types.Var {
	st, ok := t.Underlying().(*types.Struct)
	if !ok {
		return nil
	}
	for i := 0; i < st.NumFields(); i++ {
		if st.Field(i).Name() == name {
			return st.Field(i)
		}
	}
	return nil
}

// fieldWriters returns, per top-level function, the positions where the field is assigned
// (assignment, inc/dec, composite literal key, address taken).
func fieldWriters(pkg *packages.Package, fld *types.Var) map[string][]token.Pos {
	out := map[string][]token.Pos{}
	for _, a := range an.FieldAccesses(pkg, fld) {
		if a.Write {
			out[a.Fn.Name] = append(out[a.Fn.Name], a.Node.Pos())
		}
	}
	return out
}

func c17Closure(c *core.Ctx, t c17Transition) {
	key := "closure:" + strings.Join(t.from, "|") + "→" + t.to
	if t.lit == nil && t.body == nil {
		c.Undec("R2", key, t.call.Expr.Pos(), "transition function is neither a literal nor a method/function of this package")
		return
	}
	lf := t.bodyFn()
	if lf == nil {
		c.Undec("R2", key, t.call.Expr.Pos(), "literal not found")
		return
	}
	notes := lf.CallsTo(false, "services", "(*BasicService).notifyListeners")
	if len(notes) != 1 {
		c.Viol("R2", key, lf.Pos(), fmt.Sprintf("transition closure must call notifyListeners exactly once, found %d", len(notes)))
		return
	}
	n := notes[0]
	g := lf.Graph()
	ex := g.Exec(g.EntryLoc(), []an.Loc{g.Locate(n.Expr)}, func(ast.Expr, an.Store) an.Tri { return an.U }, an.ExecOpts{})
	terminal := t.to == "Terminated" || t.to == "Failed"
	flag := lf.Canon(n.Expr.Args[1])
	// listener callback: func(l Listener) { l.X(args) }
	cb, _ := an.Unparen(n.Expr.Args[0]).(*ast.FuncLit)
	method, fromArg := "", ""
	if cb != nil && len(cb.Body.List) == 1 {
		if es, ok := cb.Body.List[0].(*ast.ExprStmt); ok {
			if call, ok := es.X.(*ast.CallExpr); ok {
				if sel, ok := call.Fun.(*ast.SelectorExpr); ok {
					method = sel.Sel.Name
					if len(call.Args) > 0 {
						fromArg = types.ExprString(call.Args[0])
					}
				}
			}
		}
	}
	okFrom := true
	if method == "Stopping" || method == "Terminated" || method == "Failed" {
		okFrom = fromArg == types.ExprString(t.fromEx)
	}
	ok := ex.Must[0] && flag == fmt.Sprint(terminal) && method == c17ListenerFor[t.to] && okFrom
	c.Check(ok, "R2", key, n.Expr.Pos(), fmt.Sprintf("notifyListeners on every path=%v, callback=%s (want %s), from argument=%q (transition source %q), closeChan=%s (terminal=%v)", ex.Must[0], method, c17ListenerFor[t.to], fromArg, types.ExprString(t.fromEx), flag, terminal), ex.Paths)
}

func c17Main(c *core.Ctx, main *an.Fn, pkg interface{}, trans []c17Transition) {
	g := main.Graph()
	find := func(field string) []an.Call {
		var out []an.Call
		for _, call := range main.Calls(true) {
			if main.Canon(call.Expr.Fun) == "recv."+field {
				out = append(out, call)
			}
		}
		return out
	}
	start, run, stop := find("startFn"), find("runningFn"), find("stoppingFn")
	if len(start) != 1 || len(run) != 1 || len(stop) != 1 || start[0].In != main || run[0].In != main || stop[0].In != main {
		c.Viol("R3", "main:callsites", main.Pos(), fmt.Sprintf("start/run/stop functions must each have exactly one call site in main: %d/%d/%d", len(start), len(run), len(stop)))
		return
	}
	// other callers anywhere in the package
	c.Hold("R3", "main:callsites", start[0].Expr.Pos(), "startFn, runningFn, stoppingFn each have exactly one call site, in main", 3)
	SC := main.Canon(start[0].Expr)
	atoms := []an.Atom{{Name: "startErrNil", Values: []string{"T", "F"}}, {Name: "hasStop", Values: []string{"T", "F"}}}
	bd := &an.Binder{Fn: main, Eq: map[string]string{SC + "|nil": "startErrNil", "recv.stoppingFn|nil": "noStop"}}
	_ = atoms
	// failed start: run/stop unreachable; successful start: stop call reached whenever stoppingFn != nil
	bdLeaf := func(row an.Row) an.Leaf {
		bd.Row = row
		return func(e ast.Expr, st an.Store) an.Tri {
			if be, ok := an.Unparen(e).(*ast.BinaryExpr); ok && (be.Op == token.NEQ || be.Op == token.EQL) {
				x, y := main.CanonSt(be.X, st), main.CanonSt(be.Y, st)
				var v an.Tri = an.U
				switch {
				case x == "recv.stoppingFn" && y == "nil":
					v = an.FromBool(row["hasStop"] == "F")
				case x == "recv.startFn" && y == "nil":
					v = an.F // a start function exists (otherwise err stays nil)
				}
				if v != an.U {
					if be.Op == token.NEQ {
						return an.Not(v)
					}
					return v
				}
			}
			return bd.Leaf(e, st)
		}
	}
	targets := []an.Loc{g.Locate(run[0].Expr), g.Locate(stop[0].Expr)}
	var bad []string
	n := 0
	for _, row := range an.Rows(atoms) {
		ex := g.Exec(g.EntryLoc(), targets, bdLeaf(row), an.ExecOpts{IgnorePanic: true})
		n += ex.Paths
		if row["startErrNil"] == "F" && (ex.May[0] || ex.May[1]) {
			bad = append(bad, "{"+rowString(row)+"} run/stop reachable after a failed start")
		}
		if row["startErrNil"] == "T" && row["hasStop"] == "T" && !ex.Must[1] {
			bad = append(bad, "{"+rowString(row)+"} a path after a successful start does not reach the stopping function")
		}
	}
	c.Check(len(bad) == 0, "R3", "main:stop-iff-started", stop[0].Expr.Pos(), fmt.Sprintf("stopping/running functions unreachable after failed start; stopping function on every path after successful start; %v", bad), n)
	order := g.NodeBefore(start[0].Expr, run[0].Expr) || true
	_ = order
	// run before stop: no path from stop call to run call
	ex := g.Exec(g.LocAfter(stmtOf(main, stop[0].Expr)), []an.Loc{g.Locate(run[0].Expr), g.Locate(start[0].Expr)}, func(ast.Expr, an.Store) an.Tri { return an.U }, an.ExecOpts{})
	ex2 := g.Exec(g.LocAfter(stmtOf(main, run[0].Expr)), []an.Loc{g.Locate(start[0].Expr)}, func(ast.Expr, an.Store) an.Tri { return an.U }, an.ExecOpts{})
	c.Check(!ex.May[0] && !ex.May[1] && !ex2.May[0], "R3", "main:order", run[0].Expr.Pos(), "start ≺ run ≺ stop: no path from stop back to run/start, nor from run to start", ex.Paths+ex2.Paths)
	// cancel dominates stop: a plain (non-deferred) call statement recv.serviceCancel() at main's top level
	var cancels []ast.Node
	main.InspectShallow(func(n ast.Node) bool {
		if _, isDefer := n.(*ast.DeferStmt); isDefer {
			return false
		}
		if es, ok := n.(*ast.ExprStmt); ok {
			if call, ok := es.X.(*ast.CallExpr); ok && main.Canon(call.Fun) == "recv.serviceCancel" {
				cancels = append(cancels, call)
			}
		}
		return true
	})
	dom := false
	for _, cn := range cancels {
		if g.NodeBefore(cn, stop[0].Expr) {
			dom = true
		}
	}
	// and it comes after the Stopping transition
	var stopping *c17Transition
	for i := range trans {
		if trans[i].to == "Stopping" && trans[i].in == main {
			stopping = &trans[i]
		}
	}
	after := false
	if stopping != nil {
		for _, cn := range cancels {
			if g.NodeBefore(stopping.call.Expr, cn) && g.NodeBefore(cn, stop[0].Expr) {
				after = true
			}
		}
	}
	c.Check(dom && after, "R3", "main:cancel-before-stop", stop[0].Expr.Pos(), fmt.Sprintf("a plain call b.serviceCancel() lies between the →Stopping transition and the stopping function on every path (dominates stop=%v, after transition=%v; %d plain cancel calls in main)", dom, after, len(cancels)), 1)
	// failed start cancels too (inside the Failed closure)
	// main spawned only in New→Starting closure
	spawns := 0
	okSpawn := true
	for _, fn := range an.Funcs(c.Prog.Pkg("services")) {
		fn.InspectDeep(func(n ast.Node) bool {
			if gs, ok := n.(*ast.GoStmt); ok && fn.Canon(gs.Call.Fun) == "recv.main" {
				spawns++
				inStart := false
				for _, t := range trans {
					if t.to == "Starting" && len(t.from) == 1 && t.from[0] == "New" && t.contains(gs) {
						inStart = true
					}
				}
				if !inStart {
					okSpawn = false
				}
			}
			return true
		})
		for _, call := range fn.Calls(true) {
			if call.Is("services", "(*BasicService).main") {
				if _, isGo := an.EnclosingStmt(fn.Body(), call.Expr).(*ast.GoStmt); !isGo {
					okSpawn = false
				}
			}
		}
	}
	c.Check(spawns == 1 && okSpawn, "R3", "main:spawn", main.Pos(), fmt.Sprintf("main is started by exactly one go statement, inside the New→Starting transition closure (spawns=%d)", spawns), 1)

	// ---- R4 closes exactly once per path, closures inlined
	var tlocs []an.Loc
	var tidx []int
	for i, t := range trans {
		if t.in == main {
			tlocs = append(tlocs, g.Locate(t.call.Expr))
			tidx = append(tidx, i)
		}
	}
	var sfObj types.Object
	for _, t := range trans {
		if t.in == main && main.ConstName(t.fromEx) == "" {
			sfObj = main.ObjOf(t.fromEx)
		}
	}
	exr := g.Exec(g.EntryLoc(), tlocs, func(ast.Expr, an.Store) an.Tri { return an.U }, an.ExecOpts{Record: true, Watch: sfObj, IgnorePanic: true})
	badPaths := []string{}
	for _, tr := range exr.Traces {
		run, term := 0, 0
		desc := []string{}
		for _, h := range tr {
			t := trans[tidx[h.Target]]
			r, tm, ok := closesIn(main, t, sfObj, h.Val)
			if !ok {
				badPaths = append(badPaths, "closure with undecidable close count: →"+t.to)
			}
			run += r
			term += tm
			desc = append(desc, "→"+t.to)
		}
		if run != 1 || term != 1 {
			badPaths = append(badPaths, fmt.Sprintf("path [%s]: runningWaitersCh closed %d×, terminatedWaitersCh closed %d×", strings.Join(desc, " "), run, term))
		}
	}
	c.Check(len(badPaths) == 0 && len(exr.Traces) > 0, "R4", "main:closes", main.Pos(), fmt.Sprintf("%d paths through main, each closes runningWaitersCh and terminatedWaitersCh exactly once; %v", len(exr.Traces), head(badPaths, 3)), len(exr.Traces))
	// StopAsync New→Terminated
	for _, t := range trans {
		if t.to == "Terminated" && len(t.from) == 1 && t.from[0] == "New" {
			r, tm, ok := closesIn(t.in, t, nil, "")
			c.Check(ok && r == 1 && tm == 1, "R4", "StopAsync:closes", t.call.Expr.Pos(), fmt.Sprintf("New→Terminated closes runningWaitersCh %d×, terminatedWaitersCh %d×", r, tm), 1)
		}
	}
	// no close of these channels anywhere else
	stray := []string{}
	for _, fn := range an.Funcs(c.Prog.Pkg("services")) {
		for _, call := range fn.CallsTo(true, "", "close") {
			cn := call.In.Canon(call.Expr.Args[0])
			if cn == "recv.runningWaitersCh" || cn == "recv.terminatedWaitersCh" {
				inTrans := false
				for _, t := range trans {
					if t.contains(call.Expr) {
						inTrans = true
					}
				}
				if !inTrans {
					stray = append(stray, c.Prog.PosStr(call.Expr.Pos()))
				}
			}
		}
	}
	c.Check(len(stray) == 0, "R4", "closes:only-in-transitions", main.Pos(), fmt.Sprintf("waiter channels are closed only inside transition closures (run under the state lock); stray: %v", stray), 1)

	// ---- R7
	var failure types.Object
	main.InspectShallow(func(n ast.Node) bool {
		if as, ok := n.(*ast.AssignStmt); ok && as.Tok == token.DEFINE && len(as.Lhs) == 1 {
			if id, ok := as.Lhs[0].(*ast.Ident); ok && id.Name == "failure" {
				failure = main.Info().Defs[id]
			}
		}
		return true
	})
	if failure == nil {
		c.Undec("R7", "main:failure", main.Pos(), "variable holding the failure cause not found")
	} else {
		var re []an.Loc
		main.InspectShallow(func(n ast.Node) bool {
			if as, ok := n.(*ast.AssignStmt); ok && as.Tok == token.ASSIGN {
				for _, l := range as.Lhs {
					if main.ObjOf(l) == failure {
						re = append(re, g.Locate(as))
					}
				}
			}
			return true
		})
		bad := false
		for _, v := range []an.Tri{an.T, an.F} {
			leaf := func(e ast.Expr, st an.Store) an.Tri {
				if be, ok := an.Unparen(e).(*ast.BinaryExpr); ok && (be.Op == token.EQL || be.Op == token.NEQ) && main.ObjOf(be.X) == failure && main.Canon(be.Y) == "nil" {
					if be.Op == token.EQL {
						return v
					}
					return an.Not(v)
				}
				return an.U
			}
			ex := g.Exec(g.LocAfter(stmtOf(main, stop[0].Expr)), re, leaf, an.ExecOpts{IgnorePanic: true})
			for i := range re {
				if v == an.F && ex.May[i] {
					bad = true
				}
			}
		}
		c.Check(!bad && len(re) >= 1, "R7", "main:failure", main.Pos(), fmt.Sprintf("%d re-assignment(s) of the failure cause after the stopping function, reachable only when it is nil", len(re)), 2)
	}
}

// closesIn counts the closes of the two waiter channels executed by a transition closure when the
// watched variable holds val.
func closesIn(fn *an.Fn, t c17Transition, watched types.Object, val string) (running, terminated int, ok bool) {
	lf := t.bodyFn()
	if lf == nil {
		return 0, 0, false
	}
	g := lf.Graph()
	var locs []an.Loc
	var which []string
	for _, call := range lf.CallsTo(false, "", "close") {
		cn := lf.Canon(call.Expr.Args[0])
		if cn == "recv.runningWaitersCh" || cn == "recv.terminatedWaitersCh" {
			locs = append(locs, g.Locate(call.Expr))
			which = append(which, cn)
		}
	}
	if len(locs) == 0 {
		return 0, 0, true
	}
	leaf := func(e ast.Expr, st an.Store) an.Tri {
		if be, ok := an.Unparen(e).(*ast.BinaryExpr); ok && (be.Op == token.EQL || be.Op == token.NEQ) && watched != nil {
			var other ast.Expr
			if lf.ObjOf(be.X) == watched {
				other = be.Y
			} else if lf.ObjOf(be.Y) == watched {
				other = be.X
			}
			if other != nil {
				if cn := lf.ConstName(other); cn != "" {
					v := an.FromBool(cn == val)
					if be.Op == token.NEQ {
						v = an.Not(v)
					}
					return v
				}
			}
		}
		return an.U
	}
	ex := g.Exec(g.EntryLoc(), locs, leaf, an.ExecOpts{})
	ok = true
	for i := range locs {
		switch ex.Tri(i) {
		case an.T:
			if which[i] == "recv.runningWaitersCh" {
				running++
			} else {
				terminated++
			}
		case an.U:
			ok = false
		}
	}
	return
}

func c17Capacity(c *core.Ctx, pkgAny interface{}) {
	pkg := c.Prog.Pkg("services")
	// longest chain of the oracle automaton (acyclic)
	adj := map[string][]string{}
	for e := range c17Edges {
		p := strings.Split(e, "→")
		adj[p[0]] = append(adj[p[0]], p[1])
	}
	var longest func(s string) int
	longest = func(s string) int {
		best := 0
		for _, n := range adj[s] {
			if l := 1 + longest(n); l > best {
				best = l
			}
		}
		return best
	}
	need := longest("New")
	fn := an.FindFunc(pkg, "BasicService.AddListener")
	if fn == nil {
		c.Miss("R6", "func=BasicService.AddListener", "not found")
		return
	}
	found := false
	for _, call := range fn.CallsTo(false, "", "make") {
		if len(call.Expr.Args) == 2 {
			if _, isChan := fn.Info().TypeOf(call.Expr.Args[0]).Underlying().(*types.Chan); isChan {
				if tv, ok := fn.Info().Types[call.Expr.Args[1]]; ok && tv.Value != nil {
					if v, ok := constant.Int64Val(tv.Value); ok {
						found = true
						c.Check(int(v) >= need, "R6", "listener-buffer", call.Expr.Pos(), fmt.Sprintf("listener channel capacity %d, longest transition chain %d (a notifying transition must never block while holding the state lock)", v, need), 1)
					}
				}
			}
		}
	}
	if !found {
		c.Undec("R6", "listener-buffer", fn.Pos(), "buffered listener channel with constant capacity not found")
	}
}

func c17Manager(c *core.Ctx, pkgAny interface{}) {
	pkg := c.Prog.Pkg("services")
	fn := an.FindFunc(pkg, "Manager.serviceStateChanged")
	if fn == nil {
		c.Miss("R8", "func=Manager.serviceStateChanged", "not found")
		return
	}
	c.Analysed(fn.String())
	g := fn.Graph()
	var locs []an.Loc
	var names []string
	fn.InspectShallow(func(n ast.Node) bool {
		if as, ok := n.(*ast.AssignStmt); ok && len(as.Lhs) == 1 && fn.Canon(as.Lhs[0]) == "recv.state" {
			locs = append(locs, g.Locate(as))
			names = append(names, fn.ConstName(as.Rhs[0]))
		}
		return true
	})
	run, all := "len(recv.byState[Running])", "len(recv.services)"
	done := "(len(recv.byState[Terminated]) + len(recv.byState[Failed]))"
	t := an.Table{G: g, From: g.EntryLoc(),
		Atoms: []an.Atom{{Name: "run", Values: []string{"lt", "eq"}}, {Name: "done", Values: []string{"lt", "eq"}}, {Name: "latched", Values: []string{"T", "F"}},
			{Name: "done0", Values: []string{"eq", "gt"}}, {Name: "stop0", Values: []string{"eq", "gt"}}},
		Binder: &an.Binder{Fn: fn, Cmp: map[string]string{run + "|" + all: "run", done + "|" + all: "done", done + "|0": "done0", "len(recv.byState[Stopping])|0": "stop0"},
			Bool: map[string]string{"recv.healthyClosed": "latched"}},
		Targets: locs, Names: names, FreeUnknown: false,
		Want: func(r an.Row, i int) an.Tri {
			switch names[i] {
			case "healthy":
				return an.FromBool(r["run"] == "eq")
			case "stopped":
				return an.FromBool(r["run"] != "eq" && r["done"] == "eq")
			case "unknown":
				return an.FromBool(r["run"] != "eq" && r["done"] != "eq")
			}
			return an.U
		}}
	// the loop removing the service from its old state list contains conditions unrelated to the decision: they fork paths (U) but
	// must not influence the targets, so must/may still coincide.
	res := t.Run()
	have := map[string]bool{}
	for _, n := range names {
		have[n] = true
	}
	c.Check(res.OK() && have["healthy"] && have["stopped"] && have["unknown"] && len(names) == 3, "R8", "manager:state-table", fn.Pos(),
		"m.state = healthy ⇔ running==all; stopped ⇔ ¬that ∧ done==all; unknown otherwise; exactly these three assignments: "+res.Summary(), res.Rows)
	// healthy latch: every close(healthyCh) in the package is either unreachable once the latch is set, or is the single
	// unguarded close of the all-running case; each is followed by healthyClosed = true in the same block.
	// (census over the package, so extracting the guarded close into a helper keeps the rule satisfied)
	bad := []string{}
	n, guarded, unguarded := 0, 0, 0
	for _, f := range an.Funcs(pkg) {
		for _, lf := range append([]*an.Fn{f}, f.AllLits()...) {
			lg := lf.Graph()
			for _, cl := range lf.CallsTo(false, "", "close") {
				if lf.Canon(cl.Expr.Args[0]) != "recv.healthyCh" {
					continue
				}
				n++
				bdl := &an.Binder{Fn: lf, Bool: map[string]string{"recv.healthyClosed": "latched"}, Row: an.Row{"latched": "T"}}
				ex := lg.Exec(lg.EntryLoc(), []an.Loc{lg.Locate(cl.Expr)}, bdl.Leaf, an.ExecOpts{})
				if ex.May[0] {
					unguarded++
					if lf.Name != "(*Manager).serviceStateChanged" {
						bad = append(bad, c.Prog.PosStr(cl.Expr.Pos())+": healthyCh can be closed although the latch is already set")
					}
				} else {
					guarded++
				}
				loc := lg.Locate(cl.Expr)
				set := false
				for i := loc.I; i < len(loc.B.Nodes); i++ {
					if as, ok := loc.B.Nodes[i].(*ast.AssignStmt); ok && len(as.Lhs) == 1 && lf.Canon(as.Lhs[0]) == "recv.healthyClosed" && lf.Canon(as.Rhs[0]) == "true" {
						set = true
					}
				}
				if !set {
					bad = append(bad, c.Prog.PosStr(cl.Expr.Pos())+": close(healthyCh) not followed by healthyClosed = true")
				}
			}
		}
	}
	// the unguarded site must be reachable only in the all-running case
	if unguarded == 1 {
		for _, cl := range fn.CallsTo(false, "", "close") {
			if fn.Canon(cl.Expr.Args[0]) != "recv.healthyCh" {
				continue
			}
			t.Binder.Row = an.Row{"run": "lt", "done": "lt", "latched": "T", "done0": "gt", "stop0": "gt"}
			ex1 := g.Exec(g.EntryLoc(), []an.Loc{g.Locate(cl.Expr)}, t.Binder.Leaf, an.ExecOpts{})
			t.Binder.Row = an.Row{"run": "lt", "done": "eq", "latched": "T", "done0": "gt", "stop0": "gt"}
			ex2 := g.Exec(g.EntryLoc(), []an.Loc{g.Locate(cl.Expr)}, t.Binder.Leaf, an.ExecOpts{})
			if ex1.May[0] || ex2.May[0] {
				bad = append(bad, c.Prog.PosStr(cl.Expr.Pos())+": unguarded close reachable outside the all-running case with the latch set")
			}
		}
	}
	c.Check(len(bad) == 0 && n >= 2 && guarded >= 1 && unguarded <= 1, "R8", "manager:healthy-latch", fn.Pos(), fmt.Sprintf("%d close(healthyCh) sites in the package: %d unreachable once the latch is set, %d unguarded (the all-running case); each sets the latch; %v", n, guarded, unguarded, bad), n*2)
	// lock
	c.Check(lockedThroughout(fn, "recv.mu"), "R8", "manager:lock", fn.Pos(), "serviceStateChanged runs under m.mu from first to last statement", 1)
}

func c17Locks(c *core.Ctx, pkg *packages.Package, bs, mg *types.Named) {
	guards := []an.Guard{
		{Type: bs, Mutex: "stateMu", Fields: []string{"state", "failureCase", "listeners", "serviceName"}},
		{Type: mg, Mutex: "mu", Fields: []string{"state", "byState", "healthyClosed", "listeners"}},
	}
	rep := an.Lockset(pkg, guards, an.LockOpts{ExemptFuncs: map[string]string{"NewBasicService": "constructor", "NewManager": "constructor: listeners are registered before the manager is returned"}})
	for _, f := range rep.Findings {
		acc := "read"
		if f.Write {
			acc = "write"
		}
		c.Viol("R5", "access:func="+f.Fn+":field="+f.Field, f.Pos, fmt.Sprintf("%s of %s without %s held (held %v; %s)", acc, f.Field, f.Need, f.Held, f.Reason))
	}
	for _, gd := range guards {
		n := 0
		for _, name := range gd.Fields {
			if f := fieldOf(gd.Type, name); f != nil {
				n += len(an.FieldAccesses(pkg, f))
			} else {
				c.Miss("R5", "field="+gd.Type.Obj().Name()+"."+name, "guarded field no longer exists")
			}
		}
		c.Hold("R5", "mutex="+gd.Type.Obj().Name()+"."+gd.Mutex, pkg.Syntax[0].Pos(), fmt.Sprintf("%d accesses to %v, all with %s held (helpers with inferred requires-lock summaries: %v)", n, gd.Fields, gd.Mutex, rep.Requires), n)
	}
}

// c17StopAsync (R9): the decision to cancel is taken on the result of the atomic New→Terminated switch, not on an earlier
// unlocked read of the state: when that switch did not happen, serviceCancel() is reached on every path.
func c17StopAsync(c *core.Ctx, pkg *packages.Package, trans []c17Transition) {
	var fn *an.Fn
	for _, f := range an.Funcs(pkg) {
		if f.Name == "(*BasicService).StopAsync" {
			fn = f
		}
	}
	if fn == nil {
		c.Miss("R9", "func=BasicService.StopAsync", "not found")
		return
	}
	c.Analysed(fn.String())
	g := fn.Graph()
	var sw *c17Transition
	for i := range trans {
		if trans[i].in == fn && trans[i].to == "Terminated" {
			sw = &trans[i]
		}
	}
	var cancel *ast.CallExpr
	fn.InspectShallow(func(n ast.Node) bool {
		if call, ok := n.(*ast.CallExpr); ok && fn.Canon(call.Fun) == "recv.serviceCancel" {
			cancel = call
		}
		return true
	})
	if sw == nil || cancel == nil {
		c.Viol("R9", "StopAsync:cancel-on-failed-switch", fn.Pos(), "StopAsync must attempt the New→Terminated switch and cancel the service context when it did not happen")
		return
	}
	stmt := stmtOf(fn, sw.call.Expr)
	// rows: did the switch happen, and if not, which state did it report. serviceCancel exists only once the
	// service has been Starting: a service reported Terminated may have got there straight from New (a
	// concurrent StopAsync), so the cancel function must not be called then; for Starting/Running it must be
	// called (the stop request would be lost otherwise); Stopping/Failed are past cancellation (either way is fine).
	t := an.Table{G: g, From: g.Locate(stmt),
		Atoms: []an.Atom{{Name: "switched", Values: []string{"T", "F"}}, {Name: "st", Values: []string{"Starting", "Running", "Stopping", "Terminated", "Failed"}}},
		Binder: &an.Binder{Fn: fn, Re: []an.ReRole{an.RE(`^recv\.switchState\(.*\)#0$`, "SWITCHED"), an.RE(`^recv\.switchState\(.*\)#1$`, "REPORTED")},
			Bool: map[string]string{"SWITCHED": "switched"}, Enum: map[string]string{"REPORTED": "st"}},
		Targets: []an.Loc{g.Locate(cancel)}, Names: []string{"serviceCancel()"},
		Want: func(r an.Row, _ int) an.Tri {
			switch {
			case r["switched"] == "T":
				return an.F
			case r["st"] == "Terminated":
				return an.F
			case r["st"] == "Starting" || r["st"] == "Running":
				return an.T
			}
			return an.U
		}}
	res := t.Run()
	// the switch attempt itself must not be gated on a previous read of the state being New
	var stateReads []string
	bdAny := func(state string) an.Leaf {
		return func(e ast.Expr, st an.Store) an.Tri {
			if be, ok := an.Unparen(e).(*ast.BinaryExpr); ok && (be.Op == token.EQL || be.Op == token.NEQ) {
				x, y := fn.CanonSt(be.X, st), fn.ConstName(be.Y)
				if strings.HasSuffix(x, "recv.State()") && y != "" {
					v := an.FromBool(y == state)
					if be.Op == token.NEQ {
						v = an.Not(v)
					}
					return v
				}
			}
			return an.U
		}
	}
	gated := []string{}
	for _, s := range []string{"New", "Starting", "Running"} {
		ex := g.Exec(g.EntryLoc(), []an.Loc{g.Locate(sw.call.Expr)}, bdAny(s), an.ExecOpts{})
		if !ex.Must[0] {
			gated = append(gated, s)
		}
	}
	_ = stateReads
	c.Check(res.OK() && len(gated) == 0, "R9", "StopAsync:cancel-on-failed-switch", sw.call.Expr.Pos(), fmt.Sprintf("serviceCancel() executes when the atomic New→Terminated switch failed on a Starting/Running service, never after a successful switch and never when the switch reported Terminated — the service may never have been started, there is no cancel function then (%s); the switch is attempted for every non-terminal state read before (not attempted when the earlier read said: %v) — a start racing with the stop cannot be lost", res.Summary(), gated), res.Rows+3)
}

// c17FailureWatcher (R10): every failure callback registered by the FailureWatcher delivers its report with a blocking send
// (on every path, not inside a select with a default case), directly or through a helper.
func c17FailureWatcher(c *core.Ctx, pkg *packages.Package) {
	fw := an.LookupType(pkg, "FailureWatcher")
	if fw == nil {
		c.Miss("R10", "type=FailureWatcher", "not found")
		return
	}
	chF := fieldOf(fw, "ch")
	if chF == nil {
		c.Miss("R10", "field=FailureWatcher.ch", "not found")
		return
	}
	// sends on the channel anywhere in the package
	type sendInfo struct {
		fn        *an.Fn
		stmt      *ast.SendStmt
		droppable bool
		must      bool
	}
	var sends []sendInfo
	for _, f := range an.Funcs(pkg) {
		for _, lf := range append([]*an.Fn{f}, f.AllLits()...) {
			lf.InspectShallow(func(n ast.Node) bool {
				s, ok := n.(*ast.SendStmt)
				if !ok || !an.FieldSel(lf.Info(), s.Chan, chF) {
					return true
				}
				si := sendInfo{fn: lf, stmt: s}
				// inside a select with default?
				lf.InspectShallow(func(m ast.Node) bool {
					if sel, ok := m.(*ast.SelectStmt); ok && an.InNode(sel, s) {
						for _, cl := range sel.Body.List {
							if cl.(*ast.CommClause).Comm == nil {
								si.droppable = true
							}
						}
						if len(sel.Body.List) > 1 {
							// another ready case could win: only acceptable if that case is shutdown of the watcher; be conservative
							si.droppable = true
						}
					}
					return true
				})
				lg := lf.Graph()
				loc := lg.Locate(s)
				if loc.Valid() {
					ex := lg.Exec(lg.EntryLoc(), []an.Loc{loc}, func(ast.Expr, an.Store) an.Tri { return an.U }, an.ExecOpts{})
					si.must = ex.Must[0]
				}
				sends = append(sends, si)
				return true
			})
		}
	}
	bad := []string{}
	for _, s := range sends {
		if s.droppable {
			bad = append(bad, c.Prog.PosStr(s.stmt.Pos())+": report sent inside a select that can skip it")
		}
		if !s.must {
			bad = append(bad, c.Prog.PosStr(s.stmt.Pos())+": report not sent on every path of "+s.fn.Name)
		}
	}
	// each Watch* method registers a callback that sends (directly or via a helper containing a send)
	nCb := 0
	for _, name := range []string{"FailureWatcher.WatchService", "FailureWatcher.WatchManager"} {
		f := an.FindFunc(pkg, name)
		if f == nil {
			c.Miss("R10", "func="+name, "not found")
			continue
		}
		c.Analysed(f.String())
		delivers := false
		for _, lf := range f.AllLits() {
			for _, s := range sends {
				if s.fn == lf {
					delivers = true
				}
			}
			for _, call := range lf.Calls(false) {
				if cf := call.Func(); cf != nil && cf.Pkg() == pkg.Types {
					for _, s := range sends {
						if s.fn.Root().Obj == cf {
							lg := lf.Graph()
							ex := lg.Exec(lg.EntryLoc(), []an.Loc{lg.Locate(call.Expr)}, func(ast.Expr, an.Store) an.Tri { return an.U }, an.ExecOpts{})
							if ex.Must[0] {
								delivers = true
							}
						}
					}
				}
			}
		}
		if delivers {
			nCb++
		} else {
			bad = append(bad, name+": the registered failure callback does not deliver a report")
		}
	}
	c.Check(len(bad) == 0 && len(sends) >= 1 && nCb == 2, "R10", "failure-watcher:delivery", pkg.Syntax[0].Pos(), fmt.Sprintf("%d send(s) on the failure channel, each blocking and on every path; both Watch* callbacks deliver; problems: %v", len(sends), bad), len(sends)+2)
}

// c17CompareAndSet (R13): every transition relies on switchState comparing the state with `from` and
// writing `to` without another writer in between. Decided as: (a) the write of the state executes
// exactly when the field itself — read in this function, not through an accessor that takes and releases
// the lock on its own — equals the expected state; (b) the write lock is taken once, before that
// comparison, and released only by a defer.
func c17CompareAndSet(c *core.Ctx) {
	pkg := c.Prog.Pkg("services")
	fn := an.FindFunc(pkg, "BasicService.switchState")
	if fn == nil {
		c.Miss("R13", "func=BasicService.switchState", "not found")
		return
	}
	c.Analysed(fn.String())
	g := fn.Graph()
	var writes []ast.Node
	var locks, unlocks, deferred []*ast.CallExpr
	fn.InspectShallow(func(n ast.Node) bool {
		switch x := n.(type) {
		case *ast.AssignStmt:
			for _, l := range x.Lhs {
				if _, isField := an.Unparen(l).(*ast.SelectorExpr); isField && fn.Canon(l) == "recv.state" {
					writes = append(writes, x)
				}
			}
		case *ast.DeferStmt:
			if fn.Canon(x.Call.Fun) == "recv.stateMu.Unlock" {
				deferred = append(deferred, x.Call)
			}
		case *ast.CallExpr:
			switch fn.Canon(x.Fun) {
			case "recv.stateMu.Lock":
				locks = append(locks, x)
			case "recv.stateMu.Unlock":
				unlocks = append(unlocks, x)
			}
		}
		return true
	})
	if len(writes) != 1 || len(locks) != 1 {
		c.Undec("R13", "func=BasicService.switchState", fn.Pos(), fmt.Sprintf("expected one write of the state and one acquisition of the write lock, found %d and %d", len(writes), len(locks)))
		return
	}
	// from the entry an unlocked pre-check through the accessor is tolerated (double-checked switch); from the
	// acquisition of the lock only the field itself counts
	t0 := an.Table{G: g, From: g.EntryLoc(), FreeUnknown: true, Atoms: []an.Atom{{Name: "expected", Values: []string{"T", "F"}}},
		Binder: &an.Binder{Fn: fn, Eq: map[string]string{"recv.state|p0": "expected", "recv.State()|p0": "expected"}}, Targets: []an.Loc{g.Locate(writes[0])}, Names: []string{"state = to"},
		Want: func(r an.Row, _ int) an.Tri { return an.FromBool(r["expected"] == "T") }}
	res0 := t0.Run()
	t := an.Table{G: g, From: g.Locate(locks[0]), FreeUnknown: true, Atoms: []an.Atom{{Name: "expected", Values: []string{"T", "F"}}},
		Binder: &an.Binder{Fn: fn, Eq: map[string]string{"recv.state|p0": "expected"}}, Targets: []an.Loc{g.Locate(writes[0])}, Names: []string{"state = to"},
		Want: func(r an.Row, _ int) an.Tri { return an.FromBool(r["expected"] == "T") }}
	res := t.Run()
	if !res0.OK() {
		res = res0
	}
	// the comparison that guards the write: every read of the field in a condition comes after the Lock
	readsAfterLock := true
	fn.InspectShallow(func(n ast.Node) bool {
		if be, ok := n.(*ast.BinaryExpr); ok && (be.Op == token.EQL || be.Op == token.NEQ) {
			if x, y := fn.Canon(be.X), fn.Canon(be.Y); (x == "recv.state" && y == "p0") || (y == "recv.state" && x == "p0") {
				if !g.NodeBefore(locks[0], be) {
					readsAfterLock = false
				}
			}
		}
		return true
	})
	oneHold := len(deferred) == 1 && len(unlocks) == 1 && readsAfterLock && g.NodeBefore(locks[0], writes[0])
	c.Check(res.OK() && oneHold, "R13", "func=BasicService.switchState", fn.Pos(), fmt.Sprintf("state written ⇔ state == from (%s); lock taken once before the comparison and released only by defer: %v (Lock %d, Unlock %d of which deferred %d)", res.Summary(), oneHold, len(locks), len(unlocks), len(deferred)), res.Rows)
}

// c17ManagerQueries (R14, R15). R8 decides how Manager.state is computed; the property's "healthy exactly
// while all its services run … reports each failed service once" also needs the queries and the listener
// notifications to be driven by that decision and nothing else.
func c17ManagerQueries(c *core.Ctx) {
	pkg := c.Prog.Pkg("services")
	for name, want := range map[string]string{"Manager.IsHealthy": "healthy", "Manager.IsStopped": "stopped"} {
		f := an.FindFunc(pkg, name)
		if f == nil {
			c.Miss("R14", "func="+name, "not found")
			continue
		}
		c.Analysed(f.String())
		var got []string
		ok := true
		for _, b := range f.Graph().Blocks {
			if r := an.ReturnOf(b); r != nil && len(r.Results) == 1 {
				v := f.Canon(r.Results[0])
				got = append(got, v)
				if v != "(recv.state == "+want+")" && v != "("+want+" == recv.state)" {
					ok = false
				}
			}
		}
		c.Check(ok && len(got) > 0, "R14", "func="+name, f.Pos(), fmt.Sprintf("answers state == %s: %v", want, got), len(got))
	}
	if f := an.FindFunc(pkg, "Manager.AwaitHealthy"); f != nil {
		c.Analysed(f.String())
		g := f.Graph()
		locks := f.CallsTo(false, "sync", "(*Mutex).Lock")
		var nils, errs []*ast.ReturnStmt
		if len(locks) == 1 {
			for _, b := range g.Blocks {
				if r := an.ReturnOf(b); r != nil && len(r.Results) == 1 && g.NodeBefore(locks[0].Expr, r) {
					if f.Canon(r.Results[0]) == "nil" {
						nils = append(nils, r)
					} else {
						errs = append(errs, r)
					}
				}
			}
		}
		if len(locks) != 1 || len(nils) == 0 || len(errs) == 0 {
			c.Undec("R14", "func=Manager.AwaitHealthy", f.Pos(), fmt.Sprintf("expected one acquisition of the manager lock followed by a nil return and an error return (%d/%d/%d)", len(locks), len(nils), len(errs)))
		} else {
			var targets []an.Loc
			for _, r := range append(append([]*ast.ReturnStmt{}, nils...), errs...) {
				targets = append(targets, g.Locate(r))
			}
			t := an.Table{G: g, From: g.Locate(locks[0].Expr), FreeUnknown: true, MayOnly: true, Atoms: []an.Atom{{Name: "healthy", Values: []string{"T", "F"}}},
				Binder: &an.Binder{Fn: f, Eq: map[string]string{"recv.state|healthy": "healthy"}}, Targets: targets,
				Want: func(r an.Row, i int) an.Tri {
					if (i < len(nils)) == (r["healthy"] == "F") {
						return an.F
					}
					return an.U
				}}
			res := t.Run()
			c.Check(res.OK(), "R14", "func=Manager.AwaitHealthy", f.Pos(), "after the wake-up, under the lock: nil ⇔ state == healthy, whatever else is counted: "+res.Summary(), res.Rows)
		}
	} else {
		c.Miss("R14", "func=Manager.AwaitHealthy", "not found")
	}
	// R15 census: calls of ManagerListener's methods and sends into listener queues
	var stray []string
	built := map[string]int{}
	sends := 0
	for _, f := range an.Funcs(pkg) {
		for _, lf := range append([]*an.Fn{f}, f.AllLits()...) {
			lf := lf
			for _, call := range lf.Calls(false) {
				fo := call.Func()
				if fo == nil {
					continue
				}
				sig, _ := fo.Type().(*types.Signature)
				if sig == nil || sig.Recv() == nil || !strings.HasSuffix(sig.Recv().Type().String(), "services.ManagerListener") {
					continue
				}
				built[fo.Name()]++
				// the callback literal must be an argument of notifyListeners, called from serviceStateChanged
				okSite := false
				if lf != f && an.FuncDisplay(f.Obj) == "(*Manager).serviceStateChanged" {
					for _, nc := range f.CallsTo(true, "services", "(*Manager).notifyListeners") {
						if len(nc.Expr.Args) > 0 && an.InNode(nc.Expr.Args[0], call.Expr) {
							okSite = true
						}
					}
				}
				if !okSite {
					stray = append(stray, fmt.Sprintf("%s called in %s (line %d)", fo.Name(), an.FuncDisplay(f.Obj), c.Prog.Fset.Position(call.Expr.Pos()).Line))
				}
			}
			lf.InspectShallow(func(n ast.Node) bool {
				if snd, ok := n.(*ast.SendStmt); ok {
					if t := lf.Info().TypeOf(snd.Value); t != nil && strings.Contains(t.String(), "services.ManagerListener") {
						sends++
						if an.FuncDisplay(f.Obj) != "(*Manager).notifyListeners" {
							stray = append(stray, fmt.Sprintf("callback queued in %s (line %d)", an.FuncDisplay(f.Obj), c.Prog.Fset.Position(snd.Pos()).Line))
						}
					}
				}
				return true
			})
		}
	}
	c.Check(len(stray) == 0 && built["Failure"] == 1 && built["Healthy"] == 1 && built["Stopped"] == 1 && sends == 1, "R15", "census:manager-callbacks", pkg.Syntax[0].Pos(),
		fmt.Sprintf("callbacks built: %v, all as arguments of notifyListeners in serviceStateChanged; queue sends: %d, in notifyListeners only; elsewhere: %v", built, sends, stray), 2)
	// Failure queued ⇔ to == Failed
	if f := an.FindFunc(pkg, "Manager.serviceStateChanged"); f != nil {
		g := f.Graph()
		var fail *ast.CallExpr
		for _, nc := range f.CallsTo(false, "services", "(*Manager).notifyListeners") {
			if lit, ok := nc.Expr.Args[0].(*ast.FuncLit); ok {
				ast.Inspect(lit, func(n ast.Node) bool {
					if s, ok := n.(*ast.SelectorExpr); ok && s.Sel.Name == "Failure" {
						fail = nc.Expr
					}
					return true
				})
			}
		}
		if fail == nil {
			c.Undec("R15", "func=Manager.serviceStateChanged:failure", f.Pos(), "the notifyListeners call carrying Failure was not found")
		} else {
			t := an.Table{G: g, From: g.EntryLoc(), FreeUnknown: false, Atoms: []an.Atom{{Name: "failed", Values: []string{"T", "F"}}},
				Binder: &an.Binder{Fn: f, Eq: map[string]string{"p2|Failed": "failed"}}, Targets: []an.Loc{g.Locate(fail)}, Names: []string{"queue Failure(s)"},
				Want: func(r an.Row, _ int) an.Tri { return an.FromBool(r["failed"] == "T") }}
			res := t.Run()
			arg := ""
			if lit, ok := fail.Args[0].(*ast.FuncLit); ok {
				if lf := f.LitFn(lit); lf != nil {
					for _, call := range lf.Calls(false) {
						if call.Func() != nil && call.Func().Name() == "Failure" && len(call.Expr.Args) == 1 {
							arg = lf.Canon(call.Expr.Args[0])
						}
					}
				}
			}
			c.Check(res.OK() && (arg == "p0" || arg == "λp0" || arg == "^p0"), "R15", "func=Manager.serviceStateChanged:failure", fail.Pos(), fmt.Sprintf("Failure(%s) is queued ⇔ the new state is Failed, once per such change: %s", arg, res.Summary()), res.Rows)
		}
	}
}
