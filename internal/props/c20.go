package props

import (
	"fmt"
	"go/ast"
	"go/constant"
	"go/token"
	"go/types"
	"regexp"
	"sort"
	"strings"

	"dsverif/internal/an"
	"dsverif/internal/core"
	"golang.org/x/tools/go/packages"
)

func init() {
	Registry["C20"] = Prop{
		Patterns: []string{"./tenant", "./user", "./middleware"},
		Run:      runC20,
		Explanation: "Decides, from source: (R1) the accepted tenant-id alphabet exactly: the contents of validTenantIdChars are computed by constant-folding the init() loops and must be a subset of the documented safe set and contain none of the tenant-list separator, the metadata separators, path separators, NUL, space, control or high bytes; MaxTenantIDLength = 150; " +
			"(R2) ValidTenantID accepts ⇔ every byte of the string is in the table (byte-indexed loop over 0..len) ∧ len ≤ max ∧ not '.'/'..' (8-row table after the loop); (R3) every successful return of the resolver entry points returns a value on which ValidTenantID returned nil on that path, metadata trimmed before validation and comparison in both resolvers, the multi-tenant result normalised after trimming; " +
			"(R5) transport: HTTP get/set use the same header constant, the gRPC key is its lower-casing, inject/extract use the same context key, values are forwarded unchanged (identity flow); (R6) no default tenant: the next handler/invoker is reachable only when extraction/injection returned no error, injection into the context only for a non-empty single value. R6 also requires every extractor to have no reachable success return when the identifier is absent, whatever else it tests. Also: (R7) one resolution path: identifiers are validated only inside the three analysed resolvers, and every other entry point answers with a resolver's result unchanged. NOT decided: net/http header canonicalisation and gRPC metadata semantics (trusted libraries).",
	}
}

var c20Documented = "abcdefghijklmnopqrstuvwxyzABCDEFGHIJKLMNOPQRSTUVWXYZ0123456789!-_.*'()"

// foldBoolTable evaluates the init()-time contents of a package-level [256]bool table.
func foldBoolTable(pkg *packages.Package, name string) (set [256]bool, ok bool, why string) {
	obj := pkg.Types.Scope().Lookup(name)
	if obj == nil {
		return set, false, "table not found"
	}
	info := pkg.TypesInfo
	isTable := func(e ast.Expr) bool {
		id, ok := an.Unparen(e).(*ast.Ident)
		return ok && info.Uses[id] == obj
	}
	constInt := func(e ast.Expr) (int64, bool) {
		if tv, ok := info.Types[e]; ok && tv.Value != nil {
			v, exact := constant.Int64Val(constant.ToInt(tv.Value))
			return v, exact
		}
		return 0, false
	}
	ok = true
	setIdx := func(v int64) {
		if v < 0 || v > 255 {
			ok, why = false, fmt.Sprintf("index %d out of byte range", v)
			return
		}
		set[v] = true
	}
	for _, fn := range an.Funcs(pkg) {
		writes := false
		fn.InspectDeep(func(n ast.Node) bool {
			if as, isAs := n.(*ast.AssignStmt); isAs {
				for _, l := range as.Lhs {
					if ix, isIx := an.Unparen(l).(*ast.IndexExpr); isIx && isTable(ix.X) {
						writes = true
					}
				}
			}
			return true
		})
		if !writes {
			continue
		}
		if fn.Decl == nil || fn.Decl.Name.Name != "init" || fn.Decl.Recv != nil {
			return set, false, "table written outside init(): " + fn.Name
		}
		for _, st := range fn.Body().List {
			switch s := st.(type) {
			case *ast.AssignStmt: // T[K] = true
				if len(s.Lhs) == 1 {
					if ix, isIx := s.Lhs[0].(*ast.IndexExpr); isIx && isTable(ix.X) {
						v, c := constInt(ix.Index)
						if !c || fn.Canon(s.Rhs[0]) != "true" {
							return set, false, "unsupported table assignment form"
						}
						setIdx(v)
						continue
					}
				}
			case *ast.ForStmt: // for c := K1; c <= K2; c++ { T[c] = true }
				init, okI := s.Init.(*ast.AssignStmt)
				cond, okC := s.Cond.(*ast.BinaryExpr)
				post, okP := s.Post.(*ast.IncDecStmt)
				if okI && okC && okP && len(init.Lhs) == 1 && len(s.Body.List) == 1 && post.Tok == token.INC && (cond.Op == token.LEQ || cond.Op == token.LSS) {
					lo, c1 := constInt(init.Rhs[0])
					hi, c2 := constInt(cond.Y)
					body, okB := s.Body.List[0].(*ast.AssignStmt)
					if c1 && c2 && okB && len(body.Lhs) == 1 {
						if ix, isIx := body.Lhs[0].(*ast.IndexExpr); isIx && isTable(ix.X) && fn.ObjOf(ix.Index) == fn.ObjOf(init.Lhs[0]) && fn.ObjOf(cond.X) == fn.ObjOf(init.Lhs[0]) && fn.Canon(body.Rhs[0]) == "true" {
							if cond.Op == token.LSS {
								hi--
							}
							for v := lo; v <= hi; v++ {
								setIdx(v)
							}
							continue
						}
					}
				}
				if touchesTable(s, isTable) {
					return set, false, "unsupported for-loop form writing the table"
				}
			case *ast.RangeStmt: // for _, c := range "lit" { T[c] = true }
				if tv, isC := info.Types[s.X]; isC && tv.Value != nil && tv.Value.Kind() == constant.String && len(s.Body.List) == 1 {
					body, okB := s.Body.List[0].(*ast.AssignStmt)
					if okB && len(body.Lhs) == 1 {
						if ix, isIx := body.Lhs[0].(*ast.IndexExpr); isIx && isTable(ix.X) && s.Value != nil && fn.ObjOf(ix.Index) == fn.ObjOf(s.Value) && fn.Canon(body.Rhs[0]) == "true" {
							for _, r := range constant.StringVal(tv.Value) {
								setIdx(int64(r))
							}
							continue
						}
					}
				}
				if touchesTable(s, isTable) {
					return set, false, "unsupported range form writing the table"
				}
			default:
				if touchesTable(st, isTable) {
					return set, false, "unsupported statement writing the table"
				}
			}
		}
	}
	return set, ok, why
}

func touchesTable(n ast.Node, isTable func(ast.Expr) bool) bool {
	found := false
	ast.Inspect(n, func(x ast.Node) bool {
		if ix, ok := x.(*ast.IndexExpr); ok && isTable(ix.X) {
			found = true
		}
		return true
	})
	return found
}

func constByte(pkg *packages.Package, name string) (int64, bool) {
	if c, ok := pkg.Types.Scope().Lookup(name).(*types.Const); ok {
		v, exact := constant.Int64Val(constant.ToInt(c.Val()))
		return v, exact
	}
	return 0, false
}

func runC20(c *core.Ctx) {
	c.Rule("R1", "accepted alphabet ⊆ documented set and excludes every separator; length limit 150", 3)
	c.Rule("R2", "ValidTenantID accepts ⇔ all bytes valid ∧ len ≤ max ∧ not '.'/'..'", 2)
	c.Rule("R3", "resolver entry points return only validated, metadata-trimmed, normalised identifiers; every further identifier is compared", 7)
	c.Rule("R7", "one resolution path: identifiers are validated only inside the three analysed resolvers, and every other entry point answers with a resolver's result unchanged", 5)
	c.Rule("R8", "NormalizeTenantIDs sorts and removes every repetition (a recognised compaction idiom: slices.Compact, or the read-index/write-index loop)", 1)
	c.Rule("R5", "transport: same header/context keys on both sides, values forwarded unchanged", 6)
	c.Rule("R6", "no default tenant: handlers reachable only after successful extraction; extraction fails when the identifier is absent", 8)
	tp := c.Prog.Pkg("tenant")
	up := c.Prog.Pkg("user")
	mp := c.Prog.Pkg("middleware")
	if tp == nil || up == nil || mp == nil {
		c.Miss("R1", "pkg=tenant/user/middleware", "not loaded")
		return
	}
	// ---- R1
	set, ok, why := foldBoolTable(tp, "validTenantIdChars")
	if !ok {
		c.Undec("R1", "table=validTenantIdChars", tp.Syntax[0].Pos(), "table contents cannot be computed statically: "+why)
	} else {
		doc := map[byte]bool{}
		for i := 0; i < len(c20Documented); i++ {
			doc[c20Documented[i]] = true
		}
		extra := []string{}
		n := 0
		for b := 0; b < 256; b++ {
			if set[b] {
				n++
				if !doc[byte(b)] {
					extra = append(extra, fmt.Sprintf("%q", rune(b)))
				}
			}
		}
		c.Check(len(extra) == 0 && n > 0, "R1", "table=validTenantIdChars:subset", tp.Syntax[0].Pos(), fmt.Sprintf("%d accepted bytes, all within the documented safe set [a-zA-Z0-9!-_.*'()]; extra: %v", n, extra), 256)
		bad := []string{}
		sep, _ := constByte(tp, "tenantIDsSeparator")
		msep, _ := constByte(tp, "metadataSeparator")
		kv, okKV := constByte(tp, "metadataKVSeparator")
		forbidden := map[string]int64{"tenant list separator": sep, "metadata separator": msep, "'/'": '/', "'\\\\'": '\\', "NUL": 0, "space": ' ', "'%'": '%', "'?'": '?', "'#'": '#'}
		if okKV {
			forbidden["metadata key/value separator"] = kv
		}
		for name, v := range forbidden {
			if v >= 0 && v < 256 && set[v] {
				bad = append(bad, name)
			}
		}
		for b := 0; b < 256; b++ {
			if (b < 0x20 || b >= 0x7f) && set[b] {
				bad = append(bad, fmt.Sprintf("byte 0x%02x", b))
			}
		}
		sort.Strings(bad)
		c.Check(len(bad) == 0 && sep == '|' && msep == ':', "R1", "table=validTenantIdChars:separators", tp.Syntax[0].Pos(), fmt.Sprintf("no separator/control/high byte is accepted (tenant separator %q, metadata separator %q); accepted but forbidden: %v", rune(sep), rune(msep), bad), len(forbidden)+130)
	}
	if v, ok := constByte(tp, "MaxTenantIDLength"); ok {
		c.Check(v == 150, "R1", "const=MaxTenantIDLength", tp.Syntax[0].Pos(), fmt.Sprintf("MaxTenantIDLength = %d (documented: 150)", v), 1)
	} else {
		c.Miss("R1", "const=MaxTenantIDLength", "not found")
	}
	// ---- R2
	c20Valid(c, tp)
	// ---- R3
	c20Resolvers(c, tp)
	c20SinglePath(c, tp)
	c20Normalize(c, tp)
	// ---- R5, R6
	c20Transport(c, up, mp)
}

func c20Valid(c *core.Ctx, tp *packages.Package) {
	fn := an.FindFunc(tp, "ValidTenantID")
	if fn == nil {
		c.Miss("R2", "func=ValidTenantID", "not found")
		return
	}
	c.Analysed(fn.String())
	g := fn.Graph()
	// the byte loop
	var loop ast.Stmt
	idxOK := false
	detail := "no loop over the bytes of the string found"
	fn.InspectShallow(func(n ast.Node) bool {
		switch s := n.(type) {
		case *ast.ForStmt:
			init, okI := s.Init.(*ast.AssignStmt)
			cond, okC := s.Cond.(*ast.BinaryExpr)
			post, okP := s.Post.(*ast.IncDecStmt)
			if okI && okC && okP && len(init.Lhs) == 1 && fn.Canon(init.Rhs[0]) == "0" && cond.Op == token.LSS && fn.Canon(cond.Y) == "len(p0)" && post.Tok == token.INC {
				loop = s
				iv := fn.ObjOf(init.Lhs[0])
				// condition `!T[p0[i]]` → return error
				ast.Inspect(s.Body, func(m ast.Node) bool {
					if ix, ok := m.(*ast.IndexExpr); ok {
						if id, ok := ix.X.(*ast.Ident); ok && id.Name == "validTenantIdChars" {
							if in, ok := an.Unparen(ix.Index).(*ast.IndexExpr); ok && fn.Canon(in.X) == "p0" && fn.ObjOf(in.Index) == iv {
								idxOK = true
								detail = "for i := 0; i < len(s); i++ with lookup validTenantIdChars[s[i]]"
							} else {
								detail = "table lookup index is " + types.ExprString(ix.Index) + ", not the i-th byte of the string"
							}
						}
					}
					return true
				})
			}
		case *ast.RangeStmt:
			loop = s
			xs := fn.Canon(s.X)
			ast.Inspect(s.Body, func(m ast.Node) bool {
				if ix, ok := m.(*ast.IndexExpr); ok {
					if id, ok := ix.X.(*ast.Ident); ok && id.Name == "validTenantIdChars" {
						switch {
						case xs == "len(p0)" && s.Key != nil:
							if in, ok := an.Unparen(ix.Index).(*ast.IndexExpr); ok && fn.Canon(in.X) == "p0" && fn.ObjOf(in.Index) == fn.ObjOf(s.Key) {
								idxOK = true
								detail = "range over len(s) with lookup of s[i]"
							}
						case xs == "p0" && s.Value != nil && fn.Info().TypeOf(s.X).String() == "[]byte":
							idxOK = fn.ObjOf(ix.Index) == fn.ObjOf(s.Value)
							detail = "range over the bytes"
						default:
							detail = "range over " + xs + " (" + fn.Info().TypeOf(s.X).String() + ") with lookup index " + types.ExprString(ix.Index) + ": ranging over a string yields runes, truncating them to a byte accepts multi-byte characters"
						}
					}
				}
				return true
			})
		}
		return true
	})
	if loop == nil {
		c.Undec("R2", "func=ValidTenantID:loop", fn.Pos(), detail)
		return
	}
	// inside the loop: invalid byte → error return, decided by table
	header, body, done := g.LoopBlocks(loop)
	okLoop := false
	if idxOK && body != nil {
		var errRets []an.Loc
		for _, b := range g.Blocks {
			if r := an.ReturnOf(b); r != nil && an.InNode(loop, r) && fn.Canon(r.Results[0]) != "nil" {
				errRets = append(errRets, g.Locate(r))
			}
		}
		t := an.Table{G: g, From: an.Loc{B: body, I: 0}, Opts: an.ExecOpts{Header: header}, FreeUnknown: true, Atoms: []an.Atom{{Name: "valid", Values: []string{"T", "F"}}},
			Binder:  &an.Binder{Fn: fn, Re: []an.ReRole{an.RE(`^pkg\.validTenantIdChars\[p0\[[a-z]+\]\]$`, "VALID")}, Bool: map[string]string{"VALID": "valid"}},
			Targets: errRets, Want: func(r an.Row, _ int) an.Tri { return an.FromBool(r["valid"] == "F") }}
		res := t.Run()
		okLoop = res.OK() && len(errRets) == 1
		detail += "; error return ⇔ byte not in table: " + res.Summary()
	}
	c.Check(idxOK && okLoop, "R2", "func=ValidTenantID:loop", loop.Pos(), detail, 2)
	// after the loop
	var nilRets []an.Loc
	for _, b := range g.Blocks {
		if r := an.ReturnOf(b); r != nil && !an.InNode(loop, r) && fn.Canon(r.Results[0]) == "nil" {
			nilRets = append(nilRets, g.Locate(r))
		}
	}
	if done == nil || len(nilRets) != 1 {
		c.Undec("R2", "func=ValidTenantID:tail", fn.Pos(), "expected exactly one `return nil` after the loop")
		return
	}
	t := an.Table{G: g, From: an.Loc{B: done, I: 0}, FreeUnknown: true,
		Atoms:   []an.Atom{{Name: "len", Values: []string{"lt", "eq", "gt"}}, {Name: "dot", Values: []string{"T", "F"}}, {Name: "dotdot", Values: []string{"T", "F"}}},
		Binder:  &an.Binder{Fn: fn, Cmp: map[string]string{"len(p0)|MaxTenantIDLength": "len"}, Eq: map[string]string{`p0|"."`: "dot", `p0|".."`: "dotdot"}},
		Targets: nilRets, Want: func(r an.Row, _ int) an.Tri {
			return an.FromBool(r["len"] != "gt" && r["dot"] == "F" && r["dotdot"] == "F")
		}}
	res := t.Run()
	c.Check(res.OK(), "R2", "func=ValidTenantID:tail", fn.Pos(), "accepts ⇔ len ≤ MaxTenantIDLength ∧ s ≠ \".\" ∧ s ≠ \"..\": "+res.Summary(), res.Rows)
}

func c20Resolvers(c *core.Ctx, tp *packages.Package) {
	// single-value entry points
	for _, name := range []string{"TenantID", "ParseWithMetadata"} {
		fn := an.FindFunc(tp, name)
		if fn == nil {
			c.Miss("R3", "func="+name, "not found")
			continue
		}
		c.Analysed(fn.String())
		g := fn.Graph()
		valids := fn.CallsTo(false, "tenant", "ValidTenantID")
		var succ []*ast.ReturnStmt
		for _, b := range g.Blocks {
			if r := an.ReturnOf(b); r != nil && fn.Canon(r.Results[len(r.Results)-1]) == "nil" {
				succ = append(succ, r)
			}
		}
		if len(valids) != 1 || len(succ) == 0 {
			c.Undec("R3", "func="+name, fn.Pos(), fmt.Sprintf("expected one ValidTenantID call and a successful return: %d/%d", len(valids), len(succ)))
			continue
		}
		varg := fn.Canon(valids[0].Expr.Args[0])
		for _, r := range succ {
			rv := fn.Canon(r.Results[0])
			t := an.Table{G: g, From: g.EntryLoc(), MayOnly: true, Atoms: []an.Atom{{Name: "valid", Values: []string{"T", "F"}}},
				Binder: &an.Binder{Fn: fn, Re: []an.ReRole{an.RE(`^ValidTenantID\(.*\)$`, "VALID")}, Eq: map[string]string{"VALID|nil": "valid"}}, Targets: []an.Loc{g.Locate(r)},
				Want: func(row an.Row, _ int) an.Tri {
					if row["valid"] == "F" {
						return an.F
					}
					return an.U
				}}
			res := t.Run()
			trimmed := strings.HasPrefix(varg, "TrimMetadata(") || strings.HasPrefix(varg, "splitTenantAndMetadata(")
			c.Check(res.OK() && rv == varg && trimmed, "R3", "func="+name+":return", r.Pos(), fmt.Sprintf("returns %s; validated value %s (must be identical and metadata-trimmed); unreachable when validation fails: %s", rv, varg, res.Summary()), res.Rows)
		}
		// comparisons of further identifiers ignore metadata consistently (TenantID)
		if name == "TenantID" {
			okCmp := false
			fn.InspectShallow(func(n ast.Node) bool {
				if be, ok := n.(*ast.BinaryExpr); ok && be.Op == token.NEQ {
					x, y := fn.Canon(be.X), fn.Canon(be.Y)
					if (x == varg && strings.HasPrefix(y, "TrimMetadata(")) || (y == varg && strings.HasPrefix(x, "TrimMetadata(")) {
						okCmp = true
					}
				}
				return true
			})
			c.Check(okCmp, "R3", "func=TenantID:compare", fn.Pos(), "further identifiers are compared with the first one after TrimMetadata on both sides", 1)
		}
		// every further identifier is compared with the first one, and a difference ends the loop abnormally
		c20EachCompared(c, tp, fn, name, varg)
	}
	// multi-value
	fn := an.FindFunc(tp, "parseTenantIDs")
	if fn == nil {
		c.Miss("R3", "func=parseTenantIDs", "not found")
		return
	}
	c.Analysed(fn.String())
	g := fn.Graph()
	var loop *ast.RangeStmt
	fn.InspectShallow(func(n ast.Node) bool {
		if rs, ok := n.(*ast.RangeStmt); ok {
			loop = rs
		}
		return true
	})
	valids := fn.CallsTo(false, "tenant", "ValidTenantID")
	if loop == nil || len(valids) != 1 || !an.InNode(loop, valids[0].Expr) {
		c.Undec("R3", "func=parseTenantIDs", fn.Pos(), "loop with one ValidTenantID call not found")
		return
	}
	slice := fn.ObjOf(loop.X)
	header, body, done := g.LoopBlocks(loop)
	elem := "each(" + fn.Canon(loop.X) + ")"
	varg := fn.Canon(valids[0].Expr.Args[0])
	// the store back: slice[i] = validated value
	var store *ast.AssignStmt
	ast.Inspect(loop.Body, func(n ast.Node) bool {
		if as, ok := n.(*ast.AssignStmt); ok && len(as.Lhs) == 1 {
			if ix, ok := as.Lhs[0].(*ast.IndexExpr); ok && fn.ObjOf(ix.X) == slice && loop.Key != nil && fn.ObjOf(ix.Index) == fn.ObjOf(loop.Key) {
				store = as
			}
		}
		return true
	})
	if store == nil {
		c.Viol("R3", "func=parseTenantIDs:store", loop.Pos(), "the validated value is not stored back into the element that was validated")
		return
	}
	t := an.Table{G: g, From: an.Loc{B: body, I: 0}, Opts: an.ExecOpts{Header: header}, FreeUnknown: true, Atoms: []an.Atom{{Name: "valid", Values: []string{"T", "F"}}},
		Binder: &an.Binder{Fn: fn, Re: []an.ReRole{an.RE(`^ValidTenantID\(.*\)$`, "VALID")}, Eq: map[string]string{"VALID|nil": "valid"}}, Targets: []an.Loc{g.Locate(store)},
		Want: func(r an.Row, _ int) an.Tri { return an.FromBool(r["valid"] == "T") }}
	res := t.Run()
	c.Check(res.OK() && fn.Canon(store.Rhs[0]) == varg && varg == "TrimMetadata("+elem+")", "R3", "func=parseTenantIDs:store", store.Pos(),
		fmt.Sprintf("each element is overwritten with %s ⇔ ValidTenantID(%s) == nil (validated value = stored value = TrimMetadata(element)): %s", fn.Canon(store.Rhs[0]), varg, res.Summary()), res.Rows)
	// successful return = NormalizeTenantIDs(slice) evaluated after the loop
	okRet := false
	detail := ""
	for _, b := range g.Blocks {
		if r := an.ReturnOf(b); r != nil && fn.Canon(r.Results[len(r.Results)-1]) == "nil" {
			call, isCall := an.Unparen(r.Results[0]).(*ast.CallExpr)
			detail = types.ExprString(r.Results[0])
			if isCall && an.ObjIs(an.Callee(fn.Info(), call), "tenant", "NormalizeTenantIDs") && len(call.Args) == 1 && fn.ObjOf(call.Args[0]) == slice && done != nil && g.Dom(done, b) {
				okRet = true
			}
		}
	}
	c.Check(okRet, "R3", "func=parseTenantIDs:normalise", fn.Pos(), "the successful return is NormalizeTenantIDs(<validated slice>) evaluated after the loop (sorting/de-duplication on trimmed identifiers): returns "+detail, 1)
	// TenantIDs delegates to parseTenantIDs with the context's org id
	if f2 := an.FindFunc(tp, "TenantIDs"); f2 != nil {
		okD := false
		for _, b := range f2.Graph().Blocks {
			if r := an.ReturnOf(b); r != nil && len(r.Results) == 1 && strings.HasPrefix(f2.Canon(r.Results[0]), "parseTenantIDs(user.ExtractOrgID(p0)#0)") {
				okD = true
			}
		}
		c.Check(okD, "R3", "func=TenantIDs", f2.Pos(), "TenantIDs returns parseTenantIDs(ExtractOrgID(ctx)) unchanged", 1)
	}
}

// ctxAssignedFrom: obj is (re)assigned from a result of call in lf.
func ctxAssignedFrom(lf *an.Fn, obj types.Object, call *ast.CallExpr) bool {
	for _, d := range lf.DefSites(obj) {
		if d.Expr == ast.Expr(call) {
			return true
		}
	}
	return false
}

func c20Transport(c *core.Ctx, up, mp *packages.Package) {
	// header constants
	hv, lv := "", ""
	if k, ok := up.Types.Scope().Lookup("OrgIDHeaderName").(*types.Const); ok {
		hv = constant.StringVal(k.Val())
	}
	if k, ok := up.Types.Scope().Lookup("lowerOrgIDHeaderName").(*types.Const); ok {
		lv = constant.StringVal(k.Val())
	}
	c.Check(hv != "" && strings.ToLower(hv) == lv, "R5", "const=lowerOrgIDHeaderName", up.Syntax[0].Pos(), fmt.Sprintf("gRPC metadata key %q is the lower-casing of the HTTP header %q", lv, hv), 1)
	type spec struct {
		fn     string
		checks func(fn *an.Fn)
	}
	get := func(name string) *an.Fn {
		f := an.FindFunc(up, name)
		if f == nil {
			c.Miss("R5", "func=user."+name, "not found")
		} else {
			c.Analysed(f.String())
		}
		return f
	}
	if f := get("ExtractOrgID"); f != nil {
		ok := false
		for _, call := range f.Calls(false) {
			if call.Callee != nil && call.Callee.Name() == "Value" && f.Canon(call.Expr.Args[0]) == "orgIDContextKey" {
				ok = true
			}
		}
		c.Check(ok, "R5", "func=user.ExtractOrgID:key", f.Pos(), "reads the context value under orgIDContextKey", 1)
	}
	if f := get("InjectOrgID"); f != nil {
		ok := false
		for _, call := range f.CallsTo(false, "context", "WithValue") {
			if f.Canon(call.Expr.Args[1]) == "orgIDContextKey" && f.Canon(call.Expr.Args[2]) == "p1" {
				ok = true
			}
		}
		c.Check(ok, "R5", "func=user.InjectOrgID:key", f.Pos(), "stores the org id unchanged under orgIDContextKey", 1)
	}
	if f := get("ExtractOrgIDFromHTTPRequest"); f != nil {
		g := f.Graph()
		inj := f.CallsTo(false, "user", "InjectOrgID")
		ok := len(inj) == 1 && f.Canon(inj[0].Expr.Args[1]) == "p0.Header.Get(OrgIDHeaderName)"
		c.Check(ok, "R5", "func=user.ExtractOrgIDFromHTTPRequest:value", f.Pos(), "injects the header value read under OrgIDHeaderName unchanged", 1)
		if len(inj) == 1 {
			t := an.Table{G: g, From: g.EntryLoc(), MayOnly: true, Atoms: []an.Atom{{Name: "empty", Values: []string{"T", "F"}}},
				Binder: &an.Binder{Fn: f, Eq: map[string]string{`p0.Header.Get(OrgIDHeaderName)|""`: "empty"}}, Targets: []an.Loc{g.Locate(inj[0].Expr)},
				Want: func(r an.Row, _ int) an.Tri { return an.FromBool(r["empty"] == "F") }}
			res := t.Run()
			c.Check(res.OK(), "R6", "func=user.ExtractOrgIDFromHTTPRequest", f.Pos(), "an org id is injected only when the header is non-empty (otherwise ErrNoOrgID): "+res.Summary(), res.Rows)
		}
		c20Rejects(c, f, &an.Binder{Fn: f, Eq: map[string]string{`p0.Header.Get(OrgIDHeaderName)|""`: "absent"}}, "the header is empty")
	}
	if f := get("InjectOrgIDIntoHTTPRequest"); f != nil {
		ok := false
		for _, call := range f.Calls(false) {
			if call.Callee != nil && call.Callee.Name() == "Set" && len(call.Expr.Args) == 2 && f.Canon(call.Expr.Args[0]) == "OrgIDHeaderName" && f.Canon(call.Expr.Args[1]) == "ExtractOrgID(p0)#0" {
				ok = true
			}
		}
		c.Check(ok, "R5", "func=user.InjectOrgIDIntoHTTPRequest:value", f.Pos(), "sets header OrgIDHeaderName to ExtractOrgID(ctx) unchanged", 1)
	}
	if f := get("ExtractFromGRPCRequest"); f != nil {
		g := f.Graph()
		inj := f.CallsTo(false, "user", "InjectOrgID")
		src := "metadata.ValueFromIncomingContext(p0, lowerOrgIDHeaderName)"
		ok := len(inj) == 1 && f.Canon(inj[0].Expr.Args[1]) == src+"[0]"
		c.Check(ok, "R5", "func=user.ExtractFromGRPCRequest:value", f.Pos(), "injects the single metadata value read under lowerOrgIDHeaderName unchanged", 1)
		if len(inj) == 1 {
			t := an.Table{G: g, From: g.EntryLoc(), MayOnly: true, Atoms: []an.Atom{{Name: "n", Values: []string{"lt", "eq", "gt"}}},
				Binder: &an.Binder{Fn: f, Cmp: map[string]string{"len(" + src + ")|1": "n"}}, Targets: []an.Loc{g.Locate(inj[0].Expr)},
				Want: func(r an.Row, _ int) an.Tri { return an.FromBool(r["n"] == "eq") }}
			res := t.Run()
			c.Check(res.OK(), "R6", "func=user.ExtractFromGRPCRequest", f.Pos(), "an org id is injected only when exactly one value is present: "+res.Summary(), res.Rows)
		}
		c20Rejects(c, f, &an.Binder{Fn: f, Cmp: map[string]string{"len(" + src + ")|1": "n"}}, "not exactly one metadata value is present")
	}
	if f := get("InjectIntoGRPCRequest"); f != nil {
		ok := false
		f.InspectShallow(func(n ast.Node) bool {
			if as, isAs := n.(*ast.AssignStmt); isAs && len(as.Lhs) == 1 {
				if ix, isIx := as.Lhs[0].(*ast.IndexExpr); isIx && f.Canon(ix.Index) == "lowerOrgIDHeaderName" && f.Canon(as.Rhs[0]) == "[]string{ExtractOrgID(p0)#0}" {
					ok = true
				}
			}
			return true
		})
		c.Check(ok, "R5", "func=user.InjectIntoGRPCRequest:value", f.Pos(), "outgoing metadata[lowerOrgIDHeaderName] = [ExtractOrgID(ctx)] unchanged", 1)
	}
	// ---- R6 middleware: next handler reachable only when err == nil
	type mw struct{ fn, source string }
	for _, m := range []mw{
		{"ClientUserHeaderInterceptor", "user.InjectIntoGRPCRequest"}, {"StreamClientUserHeaderInterceptor", "user.InjectIntoGRPCRequest"},
		{"ServerUserHeaderInterceptor", "user.ExtractFromGRPCRequest"}, {"StreamServerUserHeaderInterceptor", "user.ExtractFromGRPCRequest"},
		{"var AuthenticateUser$1", "user.ExtractOrgIDFromHTTPRequest"},
	} {
		var f *an.Fn
		for _, x := range an.Funcs(mp) {
			if x.Name == m.fn {
				f = x
			}
		}
		if f == nil && strings.HasPrefix(m.fn, "var ") {
			// the middleware value built from a named function instead of a literal: Func(authenticateUser)
			name := strings.TrimSuffix(strings.TrimPrefix(m.fn, "var "), "$1")
			for _, file := range mp.Syntax {
				for _, d := range file.Decls {
					gd, ok := d.(*ast.GenDecl)
					if !ok {
						continue
					}
					for _, sp := range gd.Specs {
						vs, ok := sp.(*ast.ValueSpec)
						if !ok || len(vs.Names) != 1 || vs.Names[0].Name != name || len(vs.Values) != 1 {
							continue
						}
						ast.Inspect(vs.Values[0], func(n ast.Node) bool {
							if id, ok := n.(*ast.Ident); ok && f == nil {
								if fo, ok := mp.TypesInfo.Uses[id].(*types.Func); ok && fo.Pkg() == mp.Types {
									f = an.FnOf(c.Prog.ByPath, fo)
								}
							}
							return true
						})
					}
				}
			}
		}
		if f == nil {
			c.Miss("R6", "func=middleware."+m.fn, "not found")
			continue
		}
		fns := append([]*an.Fn{f}, f.AllLits()...)
		found := false
		for _, lf := range fns {
			var src *an.Call
			var next []an.Call
			for _, call := range lf.Calls(false) {
				call := call
				if call.Callee != nil && call.Callee.Pkg() != nil && call.Callee.Pkg().Name() == "user" && "user."+call.Callee.Name() == m.source {
					src = &call
				}
				if v, ok := call.Callee.(*types.Var); ok && v != nil {
					next = append(next, call) // call of a function-typed parameter: invoker/streamer/handler
				}
				if s, ok := call.Expr.Fun.(*ast.SelectorExpr); ok && s.Sel.Name == "ServeHTTP" {
					next = append(next, call)
				}
			}
			if src == nil || len(next) == 0 {
				continue
			}
			found = true
			c.Analysed(lf.String())
			g := lf.Graph()
			SC := lf.Canon(src.Expr)
			nres := src.Func().Type().(*types.Signature).Results().Len()
			var locs []an.Loc
			for _, n := range next {
				locs = append(locs, g.Locate(n.Expr))
			}
			t := an.Table{G: g, From: g.EntryLoc(), MayOnly: true, Atoms: []an.Atom{{Name: "ok", Values: []string{"T", "F"}}},
				Binder: &an.Binder{Fn: lf, Re: []an.ReRole{an.RE(`^user\.\w+\(.*\)#(\d)$`, "SRC#$1")}, Eq: map[string]string{fmt.Sprintf("SRC#%d|nil", nres-1): "ok"}}, Targets: locs,
				Want: func(r an.Row, _ int) an.Tri { return an.FromBool(r["ok"] == "T") }}
			res := t.Run()
			// the context handed on is the one returned by the extraction/injection
			ctxOK := false
			for _, n := range next {
				for _, a := range n.Expr.Args {
					ac := lf.Canon(a)
					if strings.Contains(ac, SC+"#") || (lf.ObjOf(a) != nil && ctxAssignedFrom(lf, lf.ObjOf(a), src.Expr)) {
						ctxOK = true
					}
				}
			}
			c.Check(res.OK() && ctxOK, "R6", "func=middleware."+m.fn, lf.Pos(), fmt.Sprintf("next handler/invoker reachable only when %s returned no error, and it receives the context produced by it (ctx passed on=%v): %s", m.source, ctxOK, res.Summary()), res.Rows)
		}
		if !found {
			c.Undec("R6", "func=middleware."+m.fn, f.Pos(), "extraction call and next-handler call not found")
		}
	}
}

// c20Rejects: when the identifier is absent (binder atom "absent"=T, or "n"≠eq) no return with a nil
// error is reachable, whatever else the function tests: a request without an org id is rejected, never
// given one from somewhere else.
func c20Rejects(c *core.Ctx, f *an.Fn, bd *an.Binder, when string) {
	g := f.Graph()
	var okRets []an.Loc
	for _, b := range g.Blocks {
		if r := an.ReturnOf(b); r != nil && len(r.Results) > 0 && f.Canon(r.Results[len(r.Results)-1]) == "nil" {
			okRets = append(okRets, g.Locate(r))
		}
	}
	atoms := []an.Atom{{Name: "absent", Values: []string{"T", "F"}}}
	if bd.Cmp != nil {
		atoms = []an.Atom{{Name: "n", Values: []string{"lt", "eq", "gt"}}}
	}
	t := an.Table{G: g, From: g.EntryLoc(), MayOnly: true, FreeUnknown: true, Atoms: atoms, Binder: bd, Targets: okRets,
		Want: func(r an.Row, _ int) an.Tri {
			if r["absent"] == "T" || (r["n"] != "" && r["n"] != "eq") {
				return an.F
			}
			return an.U
		}}
	res := t.Run()
	c.Check(res.OK() && len(okRets) > 0, "R6", "func=user."+f.Name+":reject", f.Pos(), fmt.Sprintf("when %s no successful return is reachable (%d success returns): %s", when, len(okRets), res.Summary()), res.Rows)
}

// c20EachCompared: the loop over the further identifiers (in the entry point itself or in a same-package
// helper it calls) compares each of them with the first one; an identifier that differs leaves the
// loop abnormally on every path (return / break), an equal one continues with the next, whatever else
// the loop tests — so no identifier is skipped. The abnormal exit must lead to ErrTooManyOrgIDs.
func c20EachCompared(c *core.Ctx, tp *packages.Package, fn *an.Fn, name, varg string) {
	key := "func=" + name + ":each-compared"
	type found struct {
		in   *an.Fn
		loop *ast.ForStmt
		cmp  *ast.BinaryExpr
	}
	search := func(f *an.Fn, first func(string) bool) *found {
		var out *found
		f.InspectShallow(func(n ast.Node) bool {
			fs, ok := n.(*ast.ForStmt)
			if !ok || out != nil {
				return true
			}
			cuts := false
			ast.Inspect(fs.Body, func(m ast.Node) bool {
				if call, ok := m.(*ast.CallExpr); ok {
					if o := an.Callee(f.Info(), call); o != nil && (an.PinnedName(o) == "stringsCut" || o.Name() == "Cut") {
						cuts = true
					}
				}
				return true
			})
			if !cuts {
				return true
			}
			ast.Inspect(fs.Body, func(m ast.Node) bool {
				is, ok := m.(*ast.IfStmt)
				if !ok || out != nil {
					return true
				}
				be, ok := an.Unparen(is.Cond).(*ast.BinaryExpr)
				if !ok || (be.Op != token.NEQ && be.Op != token.EQL) {
					return true
				}
				isStr := func(e ast.Expr) bool {
					t := f.Info().TypeOf(e)
					if t == nil {
						return false
					}
					b, ok := t.Underlying().(*types.Basic)
					return ok && b.Info()&types.IsString != 0
				}
				_, xLit := an.Unparen(be.X).(*ast.BasicLit)
				_, yLit := an.Unparen(be.Y).(*ast.BasicLit)
				if isStr(be.X) && isStr(be.Y) && !xLit && !yLit && !first("") {
					out = &found{f, fs, be}
				}
				return true
			})
			return true
		})
		return out
	}
	_ = varg
	fd := search(fn, func(s string) bool { return s == varg })
	viaHelper := ""
	if fd == nil {
		for _, call := range fn.Calls(false) {
			if cf := call.Func(); cf != nil && cf.Pkg() == tp.Types {
				if h := an.FnOf(c.Prog.ByPath, cf); h != nil {
					if c.Prog.Override != nil {
						h = an.FindFunc(tp, h.Name)
					}
					if h == nil {
						continue
					}
					if r := search(h, func(string) bool { return false }); r != nil {
						fd = r
						viaHelper = h.Name
						// the caller must turn the helper's answer into ErrTooManyOrgIDs
						okErr := false
						fn.InspectShallow(func(n ast.Node) bool {
							if is, ok := n.(*ast.IfStmt); ok && an.InNode(is.Cond, call.Expr) {
								ast.Inspect(is.Body, func(m ast.Node) bool {
									if rs, ok := m.(*ast.ReturnStmt); ok && len(rs.Results) > 0 && strings.HasSuffix(fn.Canon(rs.Results[len(rs.Results)-1]), "ErrTooManyOrgIDs") {
										okErr = true
									}
									return true
								})
							}
							return true
						})
						if !okErr {
							c.Viol("R3", key, call.Expr.Pos(), "the helper's answer is not turned into ErrTooManyOrgIDs by the caller")
							return
						}
					}
				}
			}
		}
	}
	if fd == nil {
		c.Undec("R3", key, fn.Pos(), "loop over the further identifiers with a comparison against the first one not found (neither here nor in a helper called from here)")
		return
	}
	f, loop, cmp := fd.in, fd.loop, fd.cmp
	g := f.Graph()
	header, body, _ := g.LoopBlocks(loop)
	// abnormal exits of the loop body
	var exits []an.Loc
	errExit := viaHelper != ""
	ast.Inspect(loop.Body, func(n ast.Node) bool {
		switch x := n.(type) {
		case *ast.FuncLit:
			return false
		case *ast.ReturnStmt:
			exits = append(exits, g.Locate(x))
			if len(x.Results) > 0 && strings.HasSuffix(f.Canon(x.Results[len(x.Results)-1]), "ErrTooManyOrgIDs") {
				errExit = true
			}
		case *ast.BranchStmt:
			if x.Tok == token.BREAK || x.Tok == token.GOTO {
				exits = append(exits, g.Locate(x))
			}
		}
		return true
	})
	bad := []string{}
	paths := 0
	for _, same := range []bool{true, false} {
		leaf := func(e ast.Expr, _ an.Store) an.Tri {
			if an.Unparen(e) == ast.Expr(cmp) {
				return an.FromBool(same == (cmp.Op == token.EQL))
			}
			return an.U
		}
		ex := g.Exec(an.Loc{B: body, I: 0}, exits, leaf, an.ExecOpts{Header: header, Record: true})
		paths += ex.Paths
		for _, tr := range ex.Traces {
			if same && len(tr) > 0 {
				bad = append(bad, "an identifier equal to the first one can end the loop")
			}
			if !same && len(tr) == 0 {
				bad = append(bad, "an identifier different from the first one does not end the loop on every path (some path skips the comparison or ignores its result)")
			}
		}
	}
	if !errExit {
		bad = append(bad, "no abnormal exit of the loop returns ErrTooManyOrgIDs")
	}
	where := ""
	if viaHelper != "" {
		where = " (loop in helper " + viaHelper + ")"
	}
	c.Check(len(bad) == 0 && len(exits) > 0, "R3", key, loop.Pos(), fmt.Sprintf("for every further identifier%s: it differs from the first ⇔ the loop is left through its error exit, whatever else the loop tests (no identifier is skipped): %d paths %v", where, paths, head(bad, 3)), paths)
}

// c20SinglePath (R7): R3 analyses TenantID, parseTenantIDs and ParseWithMetadata. That covers the package
// only if nothing else resolves identifiers on its own: (a) ValidTenantID has no caller outside those three,
// (b) the other entry points return, on success, the result of one of them (or of TenantIDs) unchanged,
// applied to the unmodified identifier string / context they were given.
func c20SinglePath(c *core.Ctx, tp *packages.Package) {
	resolvers := map[string]bool{"TenantID": true, "parseTenantIDs": true, "ParseWithMetadata": true}
	var others []string
	n := 0
	for _, f := range an.Funcs(tp) {
		for _, call := range f.CallsTo(true, "tenant", "ValidTenantID") {
			n++
			root := call.In.Root()
			if name := an.PinnedName(root.Obj); !resolvers[name] || root.Obj.Type().(*types.Signature).Recv() != nil {
				others = append(others, fmt.Sprintf("%s (line %d)", an.FuncDisplay(root.Obj), c.Prog.Fset.Position(call.Expr.Pos()).Line))
			}
		}
	}
	c.Check(len(others) == 0 && n > 0, "R7", "census:ValidTenantID", tp.Syntax[0].Pos(), fmt.Sprintf("%d validation sites, all inside TenantID / parseTenantIDs / ParseWithMetadata; elsewhere: %v", n, others), n)
	for _, e := range []struct{ fn, want string }{
		{"ExtractTenantIDFromHTTPRequest", `^TenantID\(user\.ExtractOrgIDFromHTTPRequest\(p0\)#1\)#0$`},
		{"TenantIDsFromOrgID", `^TenantIDs\(user\.InjectOrgID\([^,]*, p0\)\)(#0)?$`},
		{"ExtractWithMetadata", `^ParseWithMetadata\(user\.ExtractOrgID\(p0\)#0\)(#0)?$`},
		{"MultiResolver.TenantID", `^TenantID\(p0\)(#0)?$`},
		{"MultiResolver.TenantIDs", `^TenantIDs\(p0\)(#0)?$`},
	} {
		f := an.FindFunc(tp, e.fn)
		if f == nil {
			c.Miss("R7", "func="+e.fn+":delegates", "not found")
			continue
		}
		c.Analysed(f.String())
		re := regexp.MustCompile(e.want)
		var bad []string
		succ := 0
		for _, b := range f.Graph().Blocks {
			r := an.ReturnOf(b)
			if r == nil || len(r.Results) == 0 {
				continue
			}
			last := f.Canon(r.Results[len(r.Results)-1])
			if len(r.Results) > 1 && last != "nil" {
				continue // an error return
			}
			succ++
			if v := f.Canon(r.Results[0]); !re.MatchString(v) {
				bad = append(bad, fmt.Sprintf("%s (line %d)", v, c.Prog.Fset.Position(r.Pos()).Line))
			}
		}
		c.Check(succ > 0 && len(bad) == 0, "R7", "func="+e.fn+":delegates", f.Pos(), fmt.Sprintf("%d successful returns, each the analysed resolver's answer for the unmodified input; others: %v", succ, bad), succ)
	}
}

// c20Normalize (R8): every multi-tenant resolver ends in NormalizeTenantIDs, which must return the sorted
// list without repetitions for any number of repetitions. Two formulations are recognised — anything else
// is undecided: (a) `slices.Compact` of the sorted slice; (b) the two-index compaction: a loop whose read
// index visits every position from 1, copies x[in] to x[out] and advances out exactly when x[in] differs
// from x[in-1], and the result is x[:out]. Deleting from the slice while a loop index walks it is neither.
func c20Normalize(c *core.Ctx, tp *packages.Package) {
	fn := an.FindFunc(tp, "NormalizeTenantIDs")
	if fn == nil {
		c.Miss("R8", "func=NormalizeTenantIDs", "not found")
		return
	}
	c.Analysed(fn.String())
	g := fn.Graph()
	var sortCall ast.Node
	for _, call := range fn.Calls(false) {
		if (call.Is("sort", "Strings") || call.Is("slices", "Sort")) && len(call.Expr.Args) == 1 {
			if id, ok := an.Unparen(call.Expr.Args[0]).(*ast.Ident); ok && fn.ObjOf(id) == types.Object(fn.Obj.Type().(*types.Signature).Params().At(0)) {
				sortCall = call.Expr
			}
		}
	}
	for _, call := range fn.Calls(false) {
		if call.Is("slices", "Delete") || call.Is("slices", "DeleteFunc") {
			c.Viol("R8", "func=NormalizeTenantIDs", call.Expr.Pos(), "elements are deleted from the slice while it is being walked: after a deletion the element that moved into the current position is not compared (runs of three or more survive)")
			return
		}
	}
	if sortCall == nil {
		c.Viol("R8", "func=NormalizeTenantIDs", fn.Pos(), "the identifiers are not sorted (sort.Strings / slices.Sort on the parameter)")
		return
	}
	// (a)
	okA := false
	for _, b := range g.Blocks {
		if r := an.ReturnOf(b); r != nil && len(r.Results) == 1 && fn.Canon(r.Results[0]) == "slices.Compact(p0)" && g.NodeBefore(sortCall, r) {
			okA = true
		}
	}
	// (b)
	okB := false
	var out types.Object
	fn.InspectShallow(func(n ast.Node) bool {
		is, ok := n.(*ast.IfStmt)
		if !ok || is.Else != nil {
			return true
		}
		be, ok := an.Unparen(is.Cond).(*ast.BinaryExpr)
		if !ok || be.Op != token.NEQ {
			return true
		}
		xi, ok1 := an.Unparen(be.X).(*ast.IndexExpr)
		yi, ok2 := an.Unparen(be.Y).(*ast.IndexExpr)
		if !ok1 || !ok2 || fn.Canon(xi.X) != "p0" || fn.Canon(yi.X) != "p0" {
			return true
		}
		in, isID := an.Unparen(xi.Index).(*ast.Ident)
		if !isID || types.ExprString(yi.Index) != in.Name+" - 1" {
			return true
		}
		copied, advanced := false, false
		for _, st := range is.Body.List {
			switch x := st.(type) {
			case *ast.AssignStmt:
				if len(x.Lhs) == 1 && len(x.Rhs) == 1 {
					l, lok := x.Lhs[0].(*ast.IndexExpr)
					r, rok := an.Unparen(x.Rhs[0]).(*ast.IndexExpr)
					if lok && rok && fn.Canon(l.X) == "p0" && fn.Canon(r.X) == "p0" && types.ExprString(r.Index) == in.Name {
						if oid, ok := l.Index.(*ast.Ident); ok {
							out = fn.ObjOf(oid)
							copied = true
						}
					}
				}
			case *ast.IncDecStmt:
				if id, ok := x.X.(*ast.Ident); ok && x.Tok == token.INC && out != nil && fn.ObjOf(id) == out {
					advanced = true
				}
			}
		}
		// the read index walks 1..len-1 in a for loop that contains this if
		loop, _ := loopOf(fn, is).(*ast.ForStmt)
		if copied && advanced && loop != nil && len(is.Body.List) == 2 {
			if init, ok := loop.Init.(*ast.AssignStmt); ok && len(init.Rhs) == 1 && types.ExprString(init.Rhs[0]) == "1" {
				if post, ok := loop.Post.(*ast.IncDecStmt); ok && post.Tok == token.INC && types.ExprString(post.X) == in.Name {
					okB = true
				}
			}
		}
		return true
	})
	if okB {
		okB = false
		for _, b := range g.Blocks {
			if r := an.ReturnOf(b); r != nil && len(r.Results) == 1 {
				if sl, ok := an.Unparen(r.Results[0]).(*ast.SliceExpr); ok && fn.Canon(sl.X) == "p0" && sl.High != nil {
					if hid, ok := sl.High.(*ast.Ident); ok && fn.ObjOf(hid) == out && (sl.Low == nil || types.ExprString(sl.Low) == "0") {
						okB = true
					}
				}
			}
		}
	}
	if okA || okB {
		c.Hold("R8", "func=NormalizeTenantIDs", fn.Pos(), fmt.Sprintf("sorted, then compacted by %s", map[bool]string{true: "slices.Compact", false: "the read-index/write-index loop (copy and advance ⇔ differs from the predecessor; result x[:out])"}[okA]), 1)
	} else {
		c.Undec("R8", "func=NormalizeTenantIDs", fn.Pos(), "the de-duplication is neither slices.Compact of the sorted slice nor the two-index compaction loop")
	}
}
