package props

import (
	"fmt"
	"go/ast"
	"go/token"
	"go/types"
	"sort"
	"strings"

	"dsverif/internal/an"
	"dsverif/internal/core"
	"golang.org/x/tools/go/cfg"
	"golang.org/x/tools/go/packages"
)

func init() {
	Registry["C06"] = Prop{
		Patterns: []string{"./kv/memberlist", "./ring"},
		Run:      runC06,
		Thorough: thoroughC06,
		Explanation: "Decides structural necessary conditions of 'a gossiping KV cluster converges and never crashes on bad input': (R1) malformed input is dropped before any state change: the update is enqueued / merged only when unmarshalling succeeded, the key is non-empty and the codec is known; every slice expression on the received buffer is dominated by a length check on that bound with no re-assignment of the buffer in between; merging requires a successful decode and type assertion; the store is written only when computing the new value succeeded; " +
			"(R2) no explicit panic is reachable from the memberlist delegate's receive paths; (R3) every accepted change (error nil ∧ new version > 0) wakes the watchers and re-gossips exactly the merge's own change and version; pending key notifications are detached from the accumulator in the same critical section in which they are read; (R4) lock discipline: storeMu, watchersMu, notifMu, workersMu, messagesMu guard their fields and worker-channel sends happen under workersMu; " +
			"(R5) delegate publication: delegateReady is set only after memberlist and the broadcast queues are assigned, and the delegate's data methods touch them only when delegateReady is true. (R6) a queued broadcast is invalidated only by one for the same key with a version not older, after a loop over the old content that can refuse; (R7) the ring's Mergeable implementations accept an incoming entry by the same last-writer-wins table for local and gossiped merges (analysis shared with C03.R1). (R8) the origin flag of a merge is casVersion > 0 and reaches Merge unchanged; (R9) LocalState encodes the stored value itself, tombstones included (both shared with C03/C04). Also: (R10) every queued update is consumed by its key's worker only; watcher lists are edited by append / slice-out only; (R11) a watcher's wake-up is consumed only by the select that reads the value next (no notification is dropped after the read); (R12) token conflicts are resolved by a symmetric rule of the two holders, so replicas holding the same entries agree on ownership whatever their map iteration order (shared with C05.R3). (R13) every protobuf message decoded on the receive paths starts empty — generated Unmarshal merges into its receiver, so a reused message is Reset in the same iteration. NOT decided: convergence itself (liveness over all gossip schedules), absence of implicit runtime panics in decoders.",
	}
}

func runC06(c *core.Ctx) {
	c.Rule("R1", "malformed or truncated input is dropped before any state change; buffer slicing is bounds-checked", 8)
	c.Rule("R2", "no explicit panic reachable from the receive paths", 5)
	c.Rule("R3", "accepted changes notify watchers and re-gossip the merge's own change; notifications detached atomically", 5)
	c.Rule("R4", "lock discipline of the KV's shared maps", 5)
	c.Rule("R5", "delegate publication order and readiness gate", 5)
	c.Rule("R6", "broadcast invalidation: same key, version not older, superset loop before any 'true'", 2)
	c.Rule("R8", "a merge is treated as a full-state local CAS only for a CAS on a version that was read (flag = casVersion > 0, passed on unchanged)", 2)
	c.Rule("R9", "push/pull sends the stored value with its tombstones, freshly encoded", 2)
	c.Rule("R10", "every queued update is consumed by its key's worker only; watcher lists are edited by append / slice-out only", 2)
	c.Rule("R11", "a watcher's wake-up is consumed only by the select that reads the value next (no notification is dropped after the read)", 2)
	c.Rule("R12", "token conflicts are resolved by a symmetric rule of the two holders, so replicas holding the same entries agree on ownership whatever their map iteration order (shared with C05.R3)", 2)
	c.Rule("R13", "every message decoded on the receive paths starts empty: generated Unmarshal merges into its receiver, so a reused message is Reset in the same iteration", 2)
	c.Rule("R7", "ring Mergeables accept an incoming entry by the same LWW table whatever the origin (local CAS or gossip)", 3)
	pkg := c.Prog.Pkg("kv/memberlist")
	if pkg == nil {
		c.Miss("R1", "pkg=kv/memberlist", "not loaded")
		return
	}
	c06Input(c, pkg)
	c06Panics(c, pkg)
	c06Notify(c, pkg)
	c06Locks(c, pkg)
	c06Delegate(c, pkg)
	c06Invalidates(c, pkg)
	c06MergeOrigin(c)
	c03ComputeNewValue(c, "R8")
	c04LocalState(c, "R9")
	c06Queues(c, pkg)
	c06Wakeups(c, pkg)
	c05WinnerAs(c, "R12")
	c06FreshDecode(c, pkg)
}

// c06Invalidates (R6): a queued broadcast is dropped in favour of a newer one only when that one is for
// the same key, carries a version at least as new and (content rule) a loop over the old broadcast's
// content that can answer 'no' precedes every 'yes'.
func c06Invalidates(c *core.Ctx, pkg *packages.Package) {
	fn := an.FindFunc(pkg, "ringBroadcast.Invalidates")
	if fn == nil {
		c.Miss("R6", "func=ringBroadcast.Invalidates", "not found")
		return
	}
	c.Analysed(fn.String())
	g := fn.Graph()
	// returns that can answer true: `return true`, or `return <boolean expression>` (answers true when the expression does)
	var yes []an.Loc
	var yesRet []*ast.ReturnStmt
	for _, b := range g.Blocks {
		if r := an.ReturnOf(b); r != nil && len(r.Results) == 1 && fn.Canon(r.Results[0]) != "false" {
			yes = append(yes, g.Locate(r))
			yesRet = append(yesRet, r)
		}
	}
	if len(yes) == 0 {
		c.Undec("R6", "func=Invalidates:shape", fn.Pos(), "no return that can answer true")
		return
	}
	var bad, undec []string
	rows := 0
	for _, same := range []string{"T", "F"} {
		for _, key := range []string{"T", "F"} {
			for _, ver := range []string{"lt", "eq", "gt"} {
				rows++
				bd := &an.Binder{Fn: fn, Bool: map[string]string{"ok(p0)": "same", "ok(p0.(ringBroadcast))": "same"}, Eq: map[string]string{"recv.key|p0.key": "key", "p0.key|recv.key": "key"},
					Cmp: map[string]string{"recv.version|p0.version": "ver"}, Row: an.Row{"same": same, "key": key, "ver": ver}}
				ex := g.Exec(g.EntryLoc(), yes, bd.Leaf, an.ExecOpts{Unroll: 1})
				mayTrue := false
				for i, r := range yesRet {
					if !ex.May[i] {
						continue
					}
					if fn.Canon(r.Results[0]) == "true" {
						mayTrue = true
					} else if an.EvalCond(fn.Info(), r.Results[0], an.Store{}, bd.Leaf) != an.F {
						mayTrue = true
					}
				}
				if mayTrue && (same == "F" || key == "F" || ver == "lt") {
					bad = append(bad, fmt.Sprintf("{same=%s,key=%s,ver=%s} can answer true", same, key, ver))
				}
			}
		}
	}
	_ = undec
	c.Check(len(bad) == 0, "R6", "func=Invalidates:table", fn.Pos(), fmt.Sprintf("answers true only for a ringBroadcast of the same key whose version is not older: %d rows; mismatches: %v", rows, bad), rows)
	// content rule: a loop over the old content, containing a 'false' answer, dominates every 'true'
	okLoop := false
	for _, rs := range rangeLoops(fn, "p0.content") {
		hasNo := false
		ast.Inspect(rs.Body, func(n ast.Node) bool {
			if r, ok := n.(*ast.ReturnStmt); ok && len(r.Results) == 1 && fn.Canon(r.Results[0]) == "false" {
				hasNo = true
			}
			return true
		})
		h, _, _ := g.LoopBlocks(rs)
		dom := true
		for _, y := range yes {
			dom = dom && g.Dom(h, y.B) && !an.InNode(rs, y.B.Nodes[y.I])
		}
		if hasNo && dom {
			okLoop = true
		}
	}
	c.Check(okLoop, "R6", "func=Invalidates:content", fn.Pos(), "every 'true' answer is reached only after a loop over each name in the old broadcast's content that can answer 'false' (superset test)", 1)
}

// c06MergeOrigin (R7): whether an incoming entry replaces the stored one is decided by the same
// last-writer-wins table for local and for gossiped merges (shared analysis with C03.R1, the origin flag
// is a free atom there): a value accepted locally but refused by peers could never converge.
func c06MergeOrigin(c *core.Ctx) {
	if c.Prog.Pkg("ring") == nil {
		c.Miss("R7", "pkg=ring", "not loaded")
		return
	}
	fns := mergeFns(c, "R7")
	for _, sp := range lwwSpec {
		fn := fns[sp.Type]
		if fn == nil {
			c.Miss("R7", "type="+sp.Type, "no Mergeable implementation with that name in package ring")
			continue
		}
		c.Analysed(fn.String())
		analyseLWWLoop(c, fn, sp, lwwIDs{"R7", "", ""})
	}
}

func c06Input(c *core.Ctx, pkg *packages.Package) {
	// NotifyMsg
	if fn := an.FindFunc(pkg, "KV.NotifyMsg"); fn != nil {
		c.Analysed(fn.String())
		g := fn.Graph()
		enq := fn.CallsTo(false, "kv/memberlist", "(*KV).enqueueKeyUpdate")
		if len(enq) != 1 {
			c.Undec("R1", "NotifyMsg:enqueue", fn.Pos(), "enqueueKeyUpdate call not found")
		} else {
			t := an.Table{G: g, From: g.EntryLoc(), MayOnly: true,
				Atoms: []an.Atom{{Name: "parsed", Values: []string{"T", "F"}}, {Name: "keylen", Values: []string{"eq", "gt"}}, {Name: "codec", Values: []string{"T", "F"}}},
				Binder: &an.Binder{Fn: fn, Re: []an.ReRole{an.RE(`^(KeyValuePair\{\}|zero)\.Unmarshal\(p0\)$`, "UNMARSHAL"), an.RE(`^recv\.GetCodec\(.*\)$`, "CODEC"), an.RE(`^len\((KeyValuePair\{\}|zero)\.(Key|GetKey\(\))\)$`, "KEYLEN")},
					Eq: map[string]string{"UNMARSHAL|nil": "parsed", "CODEC|nil": "nocodec"}, Cmp: map[string]string{"KEYLEN|0": "keylen"}},
				Targets: []an.Loc{g.Locate(enq[0].Expr)}, Names: []string{"enqueueKeyUpdate"},
				Want: func(r an.Row, _ int) an.Tri {
					if r["parsed"] == "F" || r["keylen"] == "eq" {
						return an.F
					}
					return an.U
				}}
			// codec==nil row handled separately (Eq atom named nocodec must be enumerated)
			t.Atoms[2] = an.Atom{Name: "nocodec", Values: []string{"T", "F"}}
			t.Want = func(r an.Row, _ int) an.Tri {
				return an.FromBool(r["parsed"] == "T" && r["keylen"] == "gt" && r["nocodec"] == "F")
			}
			res := t.Run()
			c.Check(res.OK(), "R1", "NotifyMsg:enqueue", enq[0].Expr.Pos(), "a gossip message is handed to the merge worker ⇔ unmarshal ok ∧ key non-empty ∧ codec known: "+res.Summary(), res.Rows)
		}
	} else {
		c.Miss("R1", "func=KV.NotifyMsg", "not found")
	}
	// MergeRemoteState
	if fn := an.FindFunc(pkg, "KV.MergeRemoteState"); fn != nil {
		c.Analysed(fn.String())
		g := fn.Graph()
		merges := fn.CallsTo(false, "kv/memberlist", "(*KV).mergeBytesValueForKey")
		data := fn.Obj.Type().(*types.Signature).Params().At(0)
		// bounds rule
		type check struct {
			ifs   *ast.IfStmt
			bound string
		}
		var checks []check
		fn.InspectShallow(func(n ast.Node) bool {
			ifs, ok := n.(*ast.IfStmt)
			if !ok {
				return true
			}
			be, ok := ifs.Cond.(*ast.BinaryExpr)
			if !ok || be.Op != token.LSS {
				return true
			}
			call, ok := an.Unparen(be.X).(*ast.CallExpr)
			if !ok || !an.ObjIs(an.Callee(fn.Info(), call), "", "len") || fn.ObjOf(call.Args[0]) != data {
				return true
			}
			// the then-branch must leave the iteration (break/return/continue as last statement)
			if len(ifs.Body.List) == 0 {
				return true
			}
			switch ifs.Body.List[len(ifs.Body.List)-1].(type) {
			case *ast.BranchStmt, *ast.ReturnStmt:
				checks = append(checks, check{ifs, fn.Canon(be.Y)})
			}
			return true
		})
		var assigns []an.Loc
		var assignNodes []ast.Node
		fn.InspectShallow(func(n ast.Node) bool {
			if as, ok := n.(*ast.AssignStmt); ok {
				for _, l := range as.Lhs {
					if fn.ObjOf(l) == data {
						assigns = append(assigns, g.Locate(as))
						assignNodes = append(assignNodes, as)
					}
				}
			}
			return true
		})
		nSlices := 0
		fn.InspectShallow(func(n ast.Node) bool {
			var bound ast.Expr
			var at ast.Node
			switch x := n.(type) {
			case *ast.SliceExpr:
				if fn.ObjOf(x.X) != data {
					return true
				}
				at = x
				if x.High != nil {
					bound = x.High
				} else {
					bound = x.Low
				}
			case *ast.CallExpr:
				// fixed-width reads of the buffer: binary.BigEndian.Uint32(data) needs 4 bytes
				if s, ok := x.Fun.(*ast.SelectorExpr); ok && s.Sel.Name == "Uint32" && len(x.Args) == 1 && fn.ObjOf(x.Args[0]) == data {
					at = x
					bound = &ast.BasicLit{Kind: token.INT, Value: "4"}
				} else {
					return true
				}
			default:
				return true
			}
			if bound == nil {
				return true
			}
			nSlices++
			bc := fn.Canon(bound)
			ok := false
			why := "no dominating `len(data) < " + bc + "` check that leaves the iteration"
			for _, ck := range checks {
				if ck.bound != bc {
					continue
				}
				var done *cfg.Block
				for _, b := range g.G.Blocks {
					if b.Kind == cfg.KindIfDone && b.Stmt == ast.Stmt(ck.ifs) {
						done = b
					}
				}
				loc := g.Locate(at)
				if done == nil || !loc.Valid() || !g.Dom(done, loc.B) {
					continue
				}
				// no re-assignment of the buffer between the check and the use
				tg := append(append([]an.Loc{}, assigns...), loc)
				ex := g.Exec(an.Loc{B: done, I: 0}, tg, func(ast.Expr, an.Store) an.Tri { return an.U }, an.ExecOpts{Record: true})
				clean := true
				for _, tr := range ex.Traces {
					seenAssign := false
					for _, h := range tr {
						if h.Target < len(assigns) {
							if !an.InNode(assignNodes[h.Target], at) {
								seenAssign = true
							}
						} else if seenAssign {
							clean = false
						}
					}
				}
				if clean {
					ok = true
				} else {
					why = "the buffer is re-sliced between the length check and this use"
				}
			}
			c.Check(ok, "R1", fmt.Sprintf("MergeRemoteState:bounds#%d", nSlices), at.Pos(), fmt.Sprintf("%s needs len(data) ≥ %s: %s", types.ExprString(at.(ast.Expr)), bc, map[bool]string{true: "dominated by the matching length check with no re-assignment in between", false: why}[ok]), 1)
			return true
		})
		if nSlices < 3 {
			c.Undec("R1", "MergeRemoteState:bounds", fn.Pos(), fmt.Sprintf("only %d buffer accesses recognised", nSlices))
		}
		if len(merges) == 1 {
			loop := loopOf(fn, merges[0].Expr)
			h, b, _ := g.LoopBlocks(loop)
			t := an.Table{G: g, From: an.Loc{B: b, I: 0}, Opts: an.ExecOpts{Header: h, NoTrack: map[types.Object]bool{data: true}}, MayOnly: true,
				Atoms: []an.Atom{{Name: "parsed", Values: []string{"T", "F"}}, {Name: "nocodec", Values: []string{"T", "F"}}},
				Binder: &an.Binder{Fn: fn, Re: []an.ReRole{an.RE(`^(KeyValuePair\{\}|zero|[A-Za-z_]\w*)\.Unmarshal\(.*\)$`, "UNMARSHAL"), an.RE(`^recv\.GetCodec\(.*\)$`, "CODEC")},
					Eq: map[string]string{"UNMARSHAL|nil": "parsed", "CODEC|nil": "nocodec"}},
				Targets: []an.Loc{g.Locate(merges[0].Expr)},
				Want:    func(r an.Row, _ int) an.Tri { return an.FromBool(r["parsed"] == "T" && r["nocodec"] == "F") }}
			res := t.Run()
			c.Check(res.OK(), "R1", "MergeRemoteState:merge", merges[0].Expr.Pos(), "a pushed pair is merged only when it unmarshalled and its codec is known: "+res.Summary(), res.Rows)
		} else {
			c.Undec("R1", "MergeRemoteState:merge", fn.Pos(), "merge call not found")
		}
	} else {
		c.Miss("R1", "func=KV.MergeRemoteState", "not found")
	}
	// mergeBytesValueForKey
	if fn := an.FindFunc(pkg, "KV.mergeBytesValueForKey"); fn != nil {
		c.Analysed(fn.String())
		g := fn.Graph()
		ms := fn.CallsTo(false, "kv/memberlist", "(*KV).mergeValueForKey")
		if len(ms) == 1 {
			t := an.Table{G: g, From: g.EntryLoc(), MayOnly: true, Atoms: []an.Atom{{Name: "decoded", Values: []string{"T", "F"}}, {Name: "mergeable", Values: []string{"T", "F"}}},
				Binder: &an.Binder{Fn: fn, Re: []an.ReRole{an.RE(`^p2\.Decode\(.*\)#1$`, "DECODE#1"), an.RE(`^ok\(p2\.Decode\(.*\)#0\.\(Mergeable\)\)$`, "ISMERGEABLE")},
					Eq: map[string]string{"DECODE#1|nil": "decoded"}, Bool: map[string]string{"ISMERGEABLE": "mergeable"}},
				Targets: []an.Loc{g.Locate(ms[0].Expr)}, Want: func(r an.Row, _ int) an.Tri { return an.FromBool(r["decoded"] == "T" && r["mergeable"] == "T") }}
			res := t.Run()
			c.Check(res.OK(), "R1", "mergeBytesValueForKey", ms[0].Expr.Pos(), "received bytes are merged only after a successful decode and Mergeable assertion: "+res.Summary(), res.Rows)
		}
	}
	if fn := an.FindFunc(pkg, "KV.mergeValueForKey"); fn != nil {
		g := fn.Graph()
		var store *ast.AssignStmt
		fn.InspectShallow(func(n ast.Node) bool {
			if as, ok := n.(*ast.AssignStmt); ok && len(as.Lhs) == 1 && fn.Canon(as.Lhs[0]) == "recv.store[p0]" {
				store = as
			}
			return true
		})
		if store != nil {
			t := an.Table{G: g, From: g.EntryLoc(), MayOnly: true, Atoms: []an.Atom{{Name: "ok", Values: []string{"T", "F"}}},
				Binder:  &an.Binder{Fn: fn, Re: []an.ReRole{an.RE(`^computeNewValue\(.*\)#2$`, "COMPUTE#2")}, Eq: map[string]string{"COMPUTE#2|nil": "ok"}},
				Targets: []an.Loc{g.Locate(store)}, Want: func(r an.Row, _ int) an.Tri {
					if r["ok"] == "F" {
						return an.F
					}
					return an.U
				}}
			res := t.Run()
			c.Check(res.OK(), "R1", "mergeValueForKey:store", store.Pos(), "the store is not written when computing the merged value failed: "+res.Summary(), res.Rows)
		}
	}
}

var c06ReceiveRoots = []string{"KV.NotifyMsg", "KV.MergeRemoteState", "KV.processValueUpdate", "KV.LocalState", "KV.GetBroadcasts", "KV.NodeMeta"}

func c06Panics(c *core.Ctx, pkg *packages.Package) {
	var roots []*an.Fn
	for _, n := range c06ReceiveRoots {
		if f := an.FindFunc(pkg, n); f != nil {
			roots = append(roots, f)
		} else {
			c.Miss("R2", "func="+n, "not found")
		}
	}
	cone := coneOf(c, pkg, roots...)
	names := make([]string, 0, len(cone))
	for n := range cone {
		names = append(names, n)
	}
	sort.Strings(names)
	nPanic, nGenerated := 0, 0
	for _, n := range names {
		fn := cone[n]
		c.Analysed(fn.String())
		for _, call := range fn.CallsTo(true, "", "panic") {
			if !call.In.Graph().Locate(call.Expr).Valid() {
				continue // not in a live block of the control-flow graph
			}
			if strings.Contains(c.Prog.PosStr(call.Expr.Pos()), ".pb.go:") {
				// documented exception: protoc-gen-gogo emits `panic("unreachable")` after skipXxx's `for iNdEx < l` loop;
				// every call site passes a non-empty slice (index < len established by the caller's loop / varint read)
				nGenerated++
				continue
			}
			nPanic++
			c.Viol("R2", "panic:func="+n, call.Expr.Pos(), "explicit panic reachable from a memberlist delegate receive path (memberlist does not recover: the process would die on this input/state)")
		}
	}
	c.Check(nPanic == 0, "R2", "cone", pkg.Syntax[0].Pos(), fmt.Sprintf("%d functions of package memberlist statically reachable from %v; explicit panics: %d (+%d in generated *.pb.go skip functions, documented exception)", len(cone), c06ReceiveRoots, nPanic, nGenerated), len(cone))
	for _, r := range roots {
		c.HoldTrivial("R2", "root="+r.Name, r.Pos(), "root of the receive cone")
	}
}

func c06Notify(c *core.Ctx, pkg *packages.Package) {
	// call sites of the two merge functions
	for _, fn := range an.Funcs(pkg) {
		for _, lf := range append([]*an.Fn{fn}, fn.AllLits()...) {
			for _, call := range lf.Calls(false) {
				cf := call.Func()
				if cf == nil || (cf.Name() != "mergeValueForKey" && cf.Name() != "mergeBytesValueForKey") {
					continue
				}
				if lf.Name == "(*KV).mergeBytesValueForKey" || lf.Name == "(*KV).trySingleCas" {
					continue // forwards its results to its own caller (checked there: KV.CAS below)
				}
				g := lf.Graph()
				stmt := stmtOf(lf, call.Expr)
				MC := "MERGE"
				re := []an.ReRole{an.RE(`^recv\.merge(Bytes)?ValueForKey\(.*\)#(\d)$`, "MERGE#$2")}
				var notif, bcast *an.Call
				for _, c2 := range lf.Calls(false) {
					c2 := c2
					if c2.Func() != nil && c2.Func().Name() == "notifyWatchers" && c2.Expr.Pos() > call.Expr.Pos() {
						notif = &c2
					}
					if c2.Func() != nil && c2.Func().Name() == "broadcastNewValue" && c2.Expr.Pos() > call.Expr.Pos() {
						bcast = &c2
					}
				}
				key := "site:func=" + lf.Name
				if notif == nil || bcast == nil {
					c.Viol("R3", key, call.Expr.Pos(), "a merge into the store is not followed by notifyWatchers and broadcastNewValue")
					continue
				}
				loop := loopOf(lf, call.Expr)
				opts := an.ExecOpts{}
				if loop != nil {
					h, _, _ := g.LoopBlocks(loop)
					opts.Header = h
				}
				t := an.Table{G: g, From: g.Locate(stmt), Opts: opts,
					Atoms:   []an.Atom{{Name: "errnil", Values: []string{"T", "F"}}, {Name: "ver", Values: []string{"eq", "gt"}}},
					Binder:  &an.Binder{Fn: lf, Re: re, Eq: map[string]string{MC + "#4|nil": "errnil"}, Cmp: map[string]string{MC + "#1|0": "ver"}},
					Targets: []an.Loc{g.Locate(notif.Expr), g.Locate(bcast.Expr)}, Names: []string{"notifyWatchers", "broadcastNewValue"},
					Want: func(r an.Row, _ int) an.Tri { return an.FromBool(r["errnil"] == "T" && r["ver"] == "gt") }}
				res := t.Run()
				// identity of forwarded values
				bc := lf.Canon(bcast.Expr.Args[1])
				bv := lf.Canon(bcast.Expr.Args[2])
				mcanon := lf.Canon(call.Expr)
				idOK := bc == mcanon+"#0" && bv == mcanon+"#1" && lf.Canon(bcast.Expr.Args[0]) == lf.Canon(notif.Expr.Args[0])
				c.Check(res.OK() && idOK, "R3", key, call.Expr.Pos(), fmt.Sprintf("watchers notified and change re-gossiped ⇔ merge error nil ∧ new version > 0; broadcast carries the merge's own change (%v) and version (%v): %s", bc == mcanon+"#0", bv == mcanon+"#1", res.Summary()), res.Rows)
			}
		}
	}
	// KV.CAS: change != nil => notify + broadcast with trySingleCas results
	if fn := an.FindFunc(pkg, "KV.CAS"); fn != nil {
		g := fn.Graph()
		tcs := fn.CallsTo(false, "kv/memberlist", "(*KV).trySingleCas")
		ns := fn.CallsTo(false, "kv/memberlist", "(*KV).notifyWatchers")
		bs := fn.CallsTo(false, "kv/memberlist", "(*KV).broadcastNewValue")
		if len(tcs) == 1 && len(ns) == 1 && len(bs) == 1 {
			loop := loopOf(fn, tcs[0].Expr)
			h, _, _ := g.LoopBlocks(loop)
			t := an.Table{G: g, From: g.Locate(stmtOf(fn, tcs[0].Expr)), Opts: an.ExecOpts{Header: h},
				Atoms:   []an.Atom{{Name: "errnil", Values: []string{"T", "F"}}, {Name: "nochange", Values: []string{"T", "F"}}},
				Binder:  &an.Binder{Fn: fn, Re: []an.ReRole{an.RE(`^recv\.trySingleCas\(.*\)#(\d)$`, "CAS#$1")}, Eq: map[string]string{"CAS#5|nil": "errnil", "CAS#0|nil": "nochange"}},
				Targets: []an.Loc{g.Locate(ns[0].Expr), g.Locate(bs[0].Expr)},
				Want:    func(r an.Row, _ int) an.Tri { return an.FromBool(r["errnil"] == "T" && r["nochange"] == "F") }}
			res := t.Run()
			TC := fn.Canon(tcs[0].Expr)
			c.Check(res.OK() && fn.Canon(bs[0].Expr.Args[1]) == TC+"#0" && fn.Canon(bs[0].Expr.Args[2]) == TC+"#1", "R3", "site:func=(*KV).CAS", tcs[0].Expr.Pos(), "a successful local CAS with a change notifies watchers and broadcasts that change/version: "+res.Summary(), res.Rows)
		} else {
			c.Undec("R3", "site:func=(*KV).CAS", fn.Pos(), "unexpected shape of KV.CAS")
		}
	}
	// pending notifications: read and detach in one critical section
	kv := an.LookupType(pkg, "KV")
	fld := fieldOf(kv, "keyNotifications")
	if fld == nil {
		c.Miss("R3", "field=KV.keyNotifications", "not found")
		return
	}
	type removal struct {
		in  *an.Fn
		pos token.Pos
		how string
	}
	var removals []removal
	for _, a := range an.FieldAccesses(pkg, fld) {
		stmt := an.EnclosingStmt(a.In.Body(), a.Node)
		switch s := stmt.(type) {
		case *ast.AssignStmt:
			for _, l := range s.Lhs {
				if an.Unparen(l) == ast.Expr(a.Node.(ast.Expr)) {
					removals = append(removals, removal{a.In, s.Pos(), "replaced by a new map"})
				}
			}
		case *ast.ExprStmt:
			if call, ok := s.X.(*ast.CallExpr); ok {
				if o := an.Callee(a.In.Info(), call); an.ObjIs(o, "", "clear") || an.ObjIs(o, "", "delete") {
					removals = append(removals, removal{a.In, s.Pos(), o.Name() + "()"})
				}
			}
		}
	}
	n := 0
	for _, r := range removals {
		if r.in.Root().Name == "NewKV" {
			continue
		}
		n++
		// the same function body must hold notifMu throughout and hand the detached contents to the caller
		single := lockedThroughout(r.in, "recv.notifMu")
		snapshot := false
		r.in.InspectShallow(func(x ast.Node) bool {
			if as, ok := x.(*ast.AssignStmt); ok && len(as.Lhs) == 1 && len(as.Rhs) == 1 && as.Pos() < r.pos {
				if sel, ok := an.Unparen(as.Rhs[0]).(*ast.SelectorExpr); ok && an.FieldSel(r.in.Info(), sel, fld) {
					snapshot = true
				}
			}
			return true
		})
		c.Check(single && snapshot, "R3", "notifications:detach:func="+r.in.Name, r.pos, fmt.Sprintf("pending notifications %s in a function that holds notifMu from start to end (=%v) and reads the accumulated map before (=%v): a notification recorded concurrently is either in the delivered set or in the new accumulator, never lost", r.how, single, snapshot), 1)
	}
	if n == 0 {
		c.Undec("R3", "notifications:detach", pkg.Syntax[0].Pos(), "no site detaching the pending notifications found")
	}
}

func c06Locks(c *core.Ctx, pkg *packages.Package) {
	kv := an.LookupType(pkg, "KV")
	if kv == nil {
		c.Miss("R4", "type=KV", "not found")
		return
	}
	guards := []an.Guard{
		{Type: kv, Mutex: "storeMu", Fields: []string{"store"}},
		{Type: kv, Mutex: "watchersMu", Fields: []string{"watchers", "prefixWatchers"}},
		{Type: kv, Mutex: "notifMu", Fields: []string{"keyNotifications"}},
		{Type: kv, Mutex: "workersMu", Fields: []string{"workersChannels"}},
		{Type: kv, Mutex: "messagesMu", Fields: []string{"sentMessages", "sentMessagesSize", "receivedMessages", "receivedMessagesSize", "messageCounter"}},
	}
	rep := an.Lockset(pkg, guards, an.LockOpts{ExemptFuncs: map[string]string{"NewKV": "constructor: object not yet shared"},
		SyncCallbacks: map[string]bool{}})
	for _, f := range rep.Findings {
		acc := "read"
		if f.Write {
			acc = "write"
		}
		c.Viol("R4", "access:func="+f.Fn+":field="+f.Field, f.Pos, fmt.Sprintf("%s of KV.%s without %s (held %v; %s)", acc, f.Field, f.Need, f.Held, f.Reason))
	}
	for _, gd := range guards {
		n := 0
		for _, name := range gd.Fields {
			if f := fieldOf(kv, name); f != nil {
				n += len(an.FieldAccesses(pkg, f))
			} else {
				c.Miss("R4", "field=KV."+name, "guarded field no longer exists")
			}
		}
		c.Hold("R4", "mutex="+gd.Mutex, pkg.Syntax[0].Pos(), fmt.Sprintf("%d accesses to %v, all with %s held", n, gd.Fields, gd.Mutex), n)
	}
	c.Extra["lockset"] = map[string]any{"accesses": rep.Accesses, "protected": rep.Protected, "exempt": rep.Exempt, "requires_lock_helpers": rep.Requires}
	// worker channel sends under workersMu
	if fn := an.FindFunc(pkg, "KV.enqueueKeyUpdate"); fn != nil {
		c.Check(lockedThroughout(fn, "recv.workersMu"), "R4", "enqueueKeyUpdate:send-under-lock", fn.Pos(), "the send on a worker channel happens while workersMu is held from the first to the last statement (no send after stopKeyWorkers closed the channel)", 1)
	}
	if fn := an.FindFunc(pkg, "KV.stopKeyWorkers"); fn != nil {
		closes := fn.CallsTo(true, "", "close")
		c.Check(len(closes) >= 1 && lockedSection(fn, "recv.workersMu"), "R4", "stopKeyWorkers:close-under-lock", fn.Pos(), "worker channels are closed under workersMu", 1)
	}
}

func c06Delegate(c *core.Ctx, pkg *packages.Package) {
	fn := an.FindFunc(pkg, "KV.starting")
	if fn == nil {
		c.Miss("R5", "func=KV.starting", "not found")
		return
	}
	c.Analysed(fn.String())
	g := fn.Graph()
	var ready *an.Call
	for _, call := range fn.Calls(false) {
		call := call
		if s, ok := call.Expr.Fun.(*ast.SelectorExpr); ok && s.Sel.Name == "Store" && fn.Canon(s.X) == "recv.delegateReady" && fn.Canon(call.Expr.Args[0]) == "true" {
			ready = &call
		}
	}
	if ready == nil {
		c.Undec("R5", "starting:ready", fn.Pos(), "delegateReady.Store(true) not found")
		return
	}
	for _, f := range []string{"memberlist", "localBroadcasts", "gossipBroadcasts"} {
		ok := false
		fn.InspectShallow(func(n ast.Node) bool {
			if as, isAs := n.(*ast.AssignStmt); isAs && len(as.Lhs) == 1 && fn.Canon(as.Lhs[0]) == "recv."+f && g.NodeBefore(as, ready.Expr) {
				ok = true
			}
			return true
		})
		c.Check(ok, "R5", "starting:field="+f, ready.Expr.Pos(), "assignment of KV."+f+" dominates delegateReady.Store(true)", 1)
	}
	// readiness gate in delegate data methods
	kv := an.LookupType(pkg, "KV")
	for _, name := range []string{"KV.NotifyMsg", "KV.GetBroadcasts", "KV.LocalState", "KV.MergeRemoteState"} {
		m := an.FindFunc(pkg, name)
		if m == nil {
			c.Miss("R5", "func="+name, "not found")
			continue
		}
		mg := m.Graph()
		// every statement other than the gate is unreachable when Load() is false
		body := m.Body().List
		if len(body) < 2 {
			c.Undec("R5", "gate:func="+name, m.Pos(), "body too short")
			continue
		}
		second := mg.Locate(body[1])
		t := an.Table{G: mg, From: mg.EntryLoc(), MayOnly: true, Atoms: []an.Atom{{Name: "ready", Values: []string{"T", "F"}}},
			Binder: &an.Binder{Fn: m, Bool: map[string]string{"recv.delegateReady.Load()": "ready"}}, Targets: []an.Loc{second},
			Want: func(r an.Row, _ int) an.Tri { return an.FromBool(r["ready"] == "T") }}
		res := t.Run()
		// and no access to the gated fields in the first statement
		touches := false
		for _, f := range []string{"memberlist", "localBroadcasts", "gossipBroadcasts"} {
			if fld := fieldOf(kv, f); fld != nil {
				for _, a := range an.FieldAccesses(pkg, fld) {
					if a.Fn == m && an.InNode(body[0], a.Node) {
						touches = true
					}
				}
			}
		}
		c.Check(res.OK() && !touches, "R5", "gate:func="+name, m.Pos(), "everything after the first statement runs only when delegateReady.Load() is true: "+res.Summary(), res.Rows)
	}
}

// thoroughC06: whole-module receive cone through interface calls (class-hierarchy resolution over the loaded module):
// Codec.Decode and Mergeable implementations reachable from the receive paths must not contain explicit panics.
func thoroughC06(c *core.Ctx) {
	c.Rule("T1", "whole-module: no explicit panic in any implementation of the interfaces invoked on the receive paths (Mergeable, codec.Codec)", 3)
	ml := c.Prog.Pkg("kv/memberlist")
	cd := c.Prog.Pkg("kv/codec")
	if ml == nil || cd == nil {
		c.Miss("T1", "pkg", "kv/memberlist or kv/codec not loaded")
		return
	}
	ifaces := map[string]*types.Interface{"memberlist.Mergeable": an.LookupIface(ml, "Mergeable"), "codec.Codec": an.LookupIface(cd, "Codec")}
	methods := map[string][]string{"memberlist.Mergeable": {"Merge", "MergeContent", "RemoveTombstones", "Clone"}, "codec.Codec": {"Decode", "Encode", "CodecID"}}
	n := 0
	for path, pk := range c.Prog.ByPath {
		if !strings.HasPrefix(path, core.ModPath) || len(pk.Syntax) == 0 {
			continue
		}
		for _, nt := range an.NamedTypes(pk) {
			if _, isI := nt.Underlying().(*types.Interface); isI {
				continue
			}
			for iname, iface := range ifaces {
				if iface == nil || !an.Implements(nt, iface) {
					continue
				}
				for _, mname := range methods[iname] {
					fn := an.Method(c.Prog.ByPath, nt, mname)
					if fn == nil {
						continue
					}
					n++
					cone := coneOf(c, fn.Pkg, fn)
					bad := []string{}
					for _, f := range cone {
						for _, call := range f.CallsTo(true, "", "panic") {
							if !call.In.Graph().Locate(call.Expr).Valid() || strings.Contains(c.Prog.PosStr(call.Expr.Pos()), ".pb.go:") {
								continue
							}
							bad = append(bad, c.Prog.PosStr(call.Expr.Pos()))
						}
					}
					c.Check(len(bad) == 0, "T1", "impl="+strings.TrimPrefix(path, core.ModPath+"/")+"."+nt.Obj().Name()+"."+mname, fn.Pos(), fmt.Sprintf("%s implementation, %d functions in its package-local cone; explicit panics: %v", iname, len(cone), bad), len(cone))
				}
			}
		}
	}
	if n == 0 {
		c.Undec("T1", "impls", token.NoPos, "no implementations found")
	}
}

// c06Queues (R10): (a) a received update that was queued is processed: the only code that receives from
// a per-key worker channel (chan valueUpdate) is the worker loop processValueUpdate — nothing drains or
// discards the queue; (b) the watcher lists are edited by appending a channel or slicing the matching
// one out — no element of such a list is overwritten in place (a live watcher would silently stop
// being notified).
func c06Queues(c *core.Ctx, pkg *packages.Package) { c06QueuesAs(c, pkg, "R10") }

func c06QueuesAs(c *core.Ctx, pkg *packages.Package, R string) {
	isUpd := func(t types.Type) bool {
		ch, ok := t.Underlying().(*types.Chan)
		return ok && strings.HasSuffix(ch.Elem().String(), "memberlist.valueUpdate")
	}
	var recvSites []string
	nRecv := 0
	var pos token.Pos
	var stores []string
	for _, top := range an.Funcs(pkg) {
		for _, fn := range append([]*an.Fn{top}, top.AllLits()...) {
			fn := fn
			fn.InspectShallow(func(n ast.Node) bool {
				switch x := n.(type) {
				case *ast.UnaryExpr:
					if x.Op == token.ARROW {
						if t := fn.Info().TypeOf(x.X); t != nil && isUpd(t) {
							nRecv++
							if top.Name != "(*KV).processValueUpdate" {
								recvSites = append(recvSites, fn.Name+" at "+c.Prog.PosStr(x.Pos()))
								pos = x.Pos()
							}
						}
					}
				case *ast.RangeStmt:
					if t := fn.Info().TypeOf(x.X); t != nil && isUpd(t) {
						nRecv++
						if top.Name != "(*KV).processValueUpdate" {
							recvSites = append(recvSites, fn.Name+" at "+c.Prog.PosStr(x.Pos()))
							pos = x.Pos()
						}
					}
				case *ast.AssignStmt:
					for _, l := range x.Lhs {
						ix, ok := an.Unparen(l).(*ast.IndexExpr)
						if !ok {
							continue
						}
						if sl, ok := fn.Info().TypeOf(ix.X).Underlying().(*types.Slice); ok {
							if ch, ok := sl.Elem().Underlying().(*types.Chan); ok && ch.Elem().String() == "string" {
								stores = append(stores, fn.Name+" at "+c.Prog.PosStr(x.Pos()))
								pos = x.Pos()
							}
						}
					}
				}
				return true
			})
		}
	}
	c.Check(len(recvSites) == 0 && nRecv >= 1, R, "queue:receivers", pos, fmt.Sprintf("%d receive sites on worker channels, all inside processValueUpdate; others: %v", nRecv, recvSites), nRecv)
	c.Check(len(stores) == 0, R, "watchers:no-element-store", pos, fmt.Sprintf("no element of a watcher list ([]chan string) is overwritten in place: %v", stores), 1)
}

// c06Wakeups (R11): WatchKey / WatchPrefix own a buffered channel that collects "changed" notifications.
// A notification that arrives after the value was read refers to a newer value, so it must stay queued
// until the loop's select takes it and reads again: the channel is received from at exactly one place,
// the head of a select case, and that case reads the store before calling the callback.
func c06Wakeups(c *core.Ctx, pkg *packages.Package) {
	for _, name := range []string{"KV.WatchKey", "KV.WatchPrefix"} {
		fn := an.FindFunc(pkg, name)
		if fn == nil {
			c.Miss("R11", "func="+name, "not found")
			continue
		}
		c.Analysed(fn.String())
		// the watcher's own channel: the local made in this function and appended to the watcher lists
		var ch types.Object
		fn.InspectShallow(func(n ast.Node) bool {
			if as, ok := n.(*ast.AssignStmt); ok && as.Tok == token.DEFINE && len(as.Lhs) == 1 && len(as.Rhs) == 1 {
				if call, ok := as.Rhs[0].(*ast.CallExpr); ok {
					if id, ok := call.Fun.(*ast.Ident); ok && id.Name == "make" {
						if _, isChan := fn.Info().TypeOf(as.Rhs[0]).Underlying().(*types.Chan); isChan && ch == nil {
							ch = fn.ObjOf(as.Lhs[0])
						}
					}
				}
			}
			return true
		})
		if ch == nil {
			c.Undec("R11", "func="+name, fn.Pos(), "the watcher's own channel (a local made here) was not found")
			continue
		}
		var recvs []ast.Node
		inHead := 0
		readsThenCalls := false
		fn.InspectDeep(func(n ast.Node) bool {
			switch x := n.(type) {
			case *ast.UnaryExpr:
				if id, ok := an.Unparen(x.X).(*ast.Ident); ok && x.Op == token.ARROW && fn.ObjOf(id) == ch {
					recvs = append(recvs, x)
				}
			case *ast.RangeStmt:
				if id, ok := an.Unparen(x.X).(*ast.Ident); ok && fn.ObjOf(id) == ch {
					recvs = append(recvs, x)
				}
			case *ast.CommClause:
				if x.Comm == nil {
					return true
				}
				if e := commRecvExpr(x.Comm); e != nil {
					if id, ok := an.Unparen(e).(*ast.Ident); ok && fn.ObjOf(id) == ch {
						inHead++
						// the body reads the store (m.get) before it calls the callback parameter
						var get, cb ast.Node
						for _, st := range x.Body {
							ast.Inspect(st, func(m ast.Node) bool {
								if call, ok := m.(*ast.CallExpr); ok {
									if o := an.Callee(fn.Info(), call); o != nil {
										if fo, isFn := o.(*types.Func); isFn && an.PinnedName(fo) == "get" && get == nil {
											get = call
										}
										if v, isVar := o.(*types.Var); isVar && cb == nil && v == fn.Obj.Type().(*types.Signature).Params().At(3) {
											cb = call
										}
									}
								}
								return true
							})
						}
						if get != nil && cb != nil && get.Pos() < cb.Pos() {
							readsThenCalls = true
						}
					}
				}
			}
			return true
		})
		c.Check(len(recvs) == 1 && inHead == 1 && readsThenCalls, "R11", "func="+name, fn.Pos(), fmt.Sprintf("the watcher's channel is received from at %d place(s), %d of them a select case that reads the store and then calls the callback (=%v)", len(recvs), inHead, readsThenCalls), 1)
	}
}

// commRecvExpr returns the channel expression of a receive communication clause.
func commRecvExpr(s ast.Stmt) ast.Expr {
	var e ast.Expr
	switch x := s.(type) {
	case *ast.ExprStmt:
		e = x.X
	case *ast.AssignStmt:
		if len(x.Rhs) == 1 {
			e = x.Rhs[0]
		}
	}
	if u, ok := an.Unparen(e).(*ast.UnaryExpr); ok && u.Op == token.ARROW {
		return u.X
	}
	return nil
}

// c06FreshDecode (R13): generated protobuf Unmarshal MERGES into its receiver — scalar fields that are absent
// from the wire (proto3 omits zero values: deleted=false, update time 0) keep whatever the receiver held. Every
// Unmarshal of a message on the receive paths must therefore act on an empty message: the variable is declared
// inside the innermost loop around the call (or there is no loop) and this is its only Unmarshal, or a Reset() /
// zero-value assignment of that very variable dominates the call inside the same loop iteration.
func c06FreshDecode(c *core.Ctx, pkg *packages.Package) {
	n := 0
	for _, top := range an.Funcs(pkg) {
		if strings.HasSuffix(c.Prog.Fset.Position(top.Pos()).Filename, ".pb.go") {
			continue
		}
		for _, fn := range append([]*an.Fn{top}, top.AllLits()...) {
			g := fn.Graph()
			// loops of this function body
			var loops []ast.Stmt
			fn.InspectShallow(func(nd ast.Node) bool {
				switch nd.(type) {
				case *ast.ForStmt, *ast.RangeStmt:
					loops = append(loops, nd.(ast.Stmt))
				}
				return true
			})
			innermost := func(pos token.Pos) ast.Stmt {
				var best ast.Stmt
				for _, l := range loops {
					if l.Pos() <= pos && pos < l.End() && (best == nil || l.Pos() >= best.Pos()) {
						best = l
					}
				}
				return best
			}
			perVar := map[types.Object][]*ast.CallExpr{}
			for _, call := range fn.Calls(false) {
				sel, ok := call.Expr.Fun.(*ast.SelectorExpr)
				if !ok || sel.Sel.Name != "Unmarshal" {
					continue
				}
				f := call.Func()
				if f == nil {
					continue
				}
				sig := f.Type().(*types.Signature)
				if sig.Recv() == nil {
					continue
				}
				// a generated message: has Reset and ProtoMessage
				ms := types.NewMethodSet(sig.Recv().Type())
				if ms.Lookup(f.Pkg(), "Reset") == nil || ms.Lookup(f.Pkg(), "ProtoMessage") == nil {
					continue
				}
				obj := fn.ObjOf(sel.X)
				if obj == nil {
					n++
					c.Undec("R13", fmt.Sprintf("decode:func=%s:recv=%s", fn.Name, types.ExprString(sel.X)), call.Expr.Pos(), "Unmarshal on something that is not a plain variable: cannot tell whether the message is empty")
					continue
				}
				perVar[obj] = append(perVar[obj], call.Expr)
			}
			for obj, calls := range perVar {
				for i, call := range calls {
					n++
					key := fmt.Sprintf("decode:func=%s:var=%s#%d", fn.Name, obj.Name(), i+1)
					loop := innermost(call.Pos())
					declaredInside := loop == nil && !obj.(*types.Var).IsField() || loop != nil && loop.Pos() <= obj.Pos() && obj.Pos() < loop.End()
					for _, d := range fn.DefSites(obj) {
						if d.Param {
							declaredInside = false
						}
					}
					if declaredInside && len(calls) == 1 {
						c.Hold("R13", key, call.Pos(), fmt.Sprintf("%s is declared in the same iteration/function as its only Unmarshal: the message starts empty", obj.Name()), 1)
						continue
					}
					// otherwise: a reset of obj dominates the call inside the same loop
					okReset := false
					fn.InspectShallow(func(nd ast.Node) bool {
						var reset ast.Node
						switch x := nd.(type) {
						case *ast.ExprStmt:
							if rc, ok := x.X.(*ast.CallExpr); ok {
								if rs, ok := rc.Fun.(*ast.SelectorExpr); ok && rs.Sel.Name == "Reset" && fn.ObjOf(rs.X) == obj && len(rc.Args) == 0 {
									reset = x
								}
							}
						case *ast.AssignStmt:
							if len(x.Lhs) == 1 && len(x.Rhs) == 1 && fn.ObjOf(x.Lhs[0]) == obj {
								if cl, ok := an.Unparen(x.Rhs[0]).(*ast.CompositeLit); ok && len(cl.Elts) == 0 {
									reset = x
								}
							}
						}
						if reset == nil {
							return true
						}
						sameIter := innermost(reset.Pos()) == loop
						// no other Unmarshal of obj between the reset and this call
						between := false
						for _, other := range calls {
							if other != call && g.NodeBefore(reset, other) && g.NodeBefore(other, call) {
								between = true
							}
						}
						if sameIter && g.NodeBefore(reset, call) && !between {
							okReset = true
						}
						return true
					})
					c.Check(okReset, "R13", key, call.Pos(), fmt.Sprintf("%s is reused across iterations/calls: a Reset() (or zero-value assignment) of it dominates this Unmarshal inside the same iteration = %v — generated Unmarshal merges into the receiver, so fields absent from the wire (deleted=false, update time 0) would keep the previous message's values", obj.Name(), okReset), 1)
				}
			}
		}
	}
	if n == 0 {
		c.Undec("R13", "decode:count", pkg.Syntax[0].Pos(), "no protobuf Unmarshal call found in the package")
	}
}
