package props

import (
	"fmt"
	"go/ast"
	"go/constant"
	"go/token"
	"go/types"
	"regexp"
	"strings"

	"dsverif/internal/an"
	"dsverif/internal/core"
	"golang.org/x/tools/go/packages"
)

func init() {
	Registry["C19"] = Prop{
		Patterns: []string{"./cache"},
		Run:      runC19,
		Explanation: "Decides structural necessary conditions of 'cache wrappers never return wrong, deleted or expired data; placement is stable' for every type of package cache that implements Cache and wraps an inner Cache: (R1) each method forwards only to the same-named method of the inner cache; (R2) key/value transforms are uniform: the versioned wrapper passes every key through addVersion on the way in and removeVersion on the way out, with a '%d'+non-digit prefix; the compressing wrapper hands the inner cache a freshly allocated snappy encoding (dst nil) of the caller's value and returns only successfully decoded values; " +
			"(R3) the LRU layer: lock discipline on the LRU, a local entry is returned only if not expired and expired ones are removed, write-through before the local insert, Add inserts locally only on success, back-fill uses now+defaultTTL, Delete removes locally before the backend; (R4) memcached placement: the server list is assigned only from ResolveServers of a natural-sorted copy, PickServer indexes it with jumpHash(xxhash(key), len) under the lock, jumpHash's cone has no nondeterministic source. Also: (R5) wrappers never short-circuit a mutation: the inner same-named call is on every path. (R4 also) every return of jumpHash answers with the loop's last bucket (or 0 for a bucket count ≤ 1): no bucket count takes another route. NOT decided: equivalence with a map-with-expiry model over operation sequences; jump-hash's monotonicity.",
	}
}

func cacheWrappers(c *core.Ctx, pkg *packages.Package) map[string]string {
	iface := an.LookupIface(pkg, "Cache")
	out := map[string]string{}
	if iface == nil {
		return out
	}
	cacheT := pkg.Types.Scope().Lookup("Cache").Type()
	for _, nt := range an.NamedTypes(pkg) {
		st, ok := nt.Underlying().(*types.Struct)
		if !ok || !an.Implements(nt, iface) {
			continue
		}
		for i := 0; i < st.NumFields(); i++ {
			if types.Identical(st.Field(i).Type(), cacheT) && !st.Field(i).Embedded() {
				out[nt.Obj().Name()] = st.Field(i).Name()
			}
		}
	}
	return out
}

func runC19(c *core.Ctx) {
	c.Rule("R1", "wrappers forward each method only to the same-named inner method", 30)
	c.Rule("R2", "uniform key/value transforms (versioned keys with an injective prefix map, fresh snappy encodings, decoded-only results)", 14)
	c.Rule("R3", "LRU layer: lock, expiry check, write-through order, Add-on-success, default TTL back-fill, delete order", 10)
	c.Rule("R5", "wrappers never short-circuit a mutation: the inner same-named call is on every path", 18)
	c.Rule("R4", "memcached placement: natural-sorted resolved list, jump hash under lock, pure single-path hash", 4)
	pkg := c.Prog.Pkg("cache")
	if pkg == nil {
		c.Miss("R1", "pkg=cache", "not loaded")
		return
	}
	wr := cacheWrappers(c, pkg)
	methods := []string{"SetAsync", "SetMultiAsync", "Set", "Add", "GetMulti", "GetMultiWithError", "Delete", "Stop", "Name"}
	for _, tn := range keys(wr) {
		inner := "recv." + wr[tn]
		for _, m := range methods {
			fn := an.FindFunc(pkg, tn+"."+m)
			if fn == nil {
				c.Miss("R1", "type="+tn+":method="+m, "method not found")
				continue
			}
			c.Analysed(fn.String())
			var calls []string
			bad := []string{}
			for _, call := range fn.Calls(true) {
				if s, ok := call.Expr.Fun.(*ast.SelectorExpr); ok && call.In.Canon(s.X) == inner {
					calls = append(calls, s.Sel.Name)
					if s.Sel.Name != m {
						bad = append(bad, s.Sel.Name)
					}
				}
			}
			selfOK := true
			if len(calls) == 0 {
				// allowed: GetMulti delegating to the wrapper's own GetMultiWithError; Name computing a local name
				selfOK = false
				for _, call := range fn.Calls(true) {
					if s, ok := call.Expr.Fun.(*ast.SelectorExpr); ok && call.In.Canon(s.X) == "recv" && s.Sel.Name == m+"WithError" {
						selfOK = true
					}
				}
				if m == "Name" {
					selfOK = true
				}
			}
			c.Check(len(bad) == 0 && selfOK && len(calls) <= 1, "R1", "type="+tn+":method="+m, fn.Pos(), fmt.Sprintf("inner-cache calls: %v (only %s allowed, at most once; GetMulti may delegate to the wrapper's own GetMultiWithError)", calls, m), 1)
		}
	}
	if len(wr) < 3 {
		c.Undec("R1", "wrappers", pkg.Syntax[0].Pos(), fmt.Sprintf("expected ≥3 wrapper types, found %v", keys(wr)))
	}
	// R5: mutations are never short-circuited: the inner same-named call is executed on every path
	for _, tn := range keys(wr) {
		inner := "recv." + wr[tn]
		for _, m := range []string{"Delete", "Set", "SetAsync", "SetMultiAsync", "Add"} {
			fn := an.FindFunc(pkg, tn+"."+m)
			if fn == nil {
				continue
			}
			g := fn.Graph()
			var tgt []an.Loc
			for _, call := range fn.Calls(false) {
				if sel, ok := call.Expr.Fun.(*ast.SelectorExpr); ok && fn.Canon(sel.X) == inner && sel.Sel.Name == m {
					tgt = append(tgt, g.Locate(call.Expr))
				}
			}
			if len(tgt) != 1 {
				c.Undec("R5", "type="+tn+":method="+m, fn.Pos(), fmt.Sprintf("expected one inner %s call in the method body, found %d", m, len(tgt)))
				continue
			}
			ex := g.Exec(g.EntryLoc(), tgt, func(ast.Expr, an.Store) an.Tri { return an.U }, an.ExecOpts{IgnorePanic: true})
			c.Check(ex.Must[0], "R5", "type="+tn+":method="+m, fn.Pos(), fmt.Sprintf("the inner cache's %s is reached on every path of the wrapper's %s (a mutation — in particular a delete — is never answered from local knowledge alone): %d paths", m, m, ex.Paths), ex.Paths)
		}
	}
	c19Versioned(c, pkg)
	c19Snappy(c, pkg)
	c19LRU(c, pkg)
	c19Selector(c, pkg)
}

// argTransforms: for the single inner call of method m, verifies that the argument of the given type is produced by `want`.
func c19Versioned(c *core.Ctx, pkg *packages.Package) {
	tn := "Versioned"
	// the key transform is injective: prefix + key on every path, undone by TrimPrefix of the same prefix
	for _, d := range []struct{ name, want string }{{"Versioned.addVersion", "(recv.versionPrefix + p0)"}, {"Versioned.removeVersion", "strings.TrimPrefix(p0, recv.versionPrefix)"}} {
		fn := an.FindFunc(pkg, d.name)
		if fn == nil {
			c.Miss("R2", "func="+d.name, "not found")
			continue
		}
		c.Analysed(fn.String())
		var rets []string
		for _, b := range fn.Graph().Blocks {
			if r := an.ReturnOf(b); r != nil && len(r.Results) == 1 {
				rets = append(rets, fn.Canon(r.Results[0]))
			}
		}
		ok := len(rets) > 0
		for _, r := range rets {
			if r != d.want && r != strings.Trim(d.want, "()") {
				ok = false
			}
		}
		if !ok && d.name == "Versioned.removeVersion" {
			ok = c19IsTrimPrefix(fn)
		}
		c.Check(ok, "R2", "func="+d.name, fn.Pos(), fmt.Sprintf("every return is %s (returns: %v): distinct caller keys map to distinct backend keys within a version", d.want, rets), 1)
	}
	keyRe := regexp.MustCompile(`^recv\.addVersion\((p\d|each\(p\d\)|keyof\(p\d\))\)$`)
	for _, m := range []string{"SetAsync", "Set", "Add", "Delete"} {
		fn := an.FindFunc(pkg, tn+"."+m)
		if fn == nil {
			continue
		}
		for _, call := range fn.Calls(false) {
			if s, ok := call.Expr.Fun.(*ast.SelectorExpr); ok && fn.Canon(s.X) == "recv.cache" && s.Sel.Name == m {
				found := false
				for _, a := range call.Expr.Args {
					if t := fn.Info().TypeOf(a); t != nil && t.String() == "string" {
						found = true
						c.Check(keyRe.MatchString(fn.Canon(a)), "R2", "Versioned."+m+":key", call.Expr.Pos(), "key handed to the inner cache = "+fn.Canon(a)+" (must be addVersion(caller key))", 1)
					}
				}
				if !found {
					c.Undec("R2", "Versioned."+m+":key", call.Expr.Pos(), "no key argument found")
				}
			}
		}
	}
	// containers
	for _, m := range []string{"SetMultiAsync", "GetMultiWithError"} {
		fn := an.FindFunc(pkg, tn+"."+m)
		if fn == nil {
			continue
		}
		for _, call := range fn.Calls(false) {
			s, ok := call.Expr.Fun.(*ast.SelectorExpr)
			if !ok || fn.Canon(s.X) != "recv.cache" || s.Sel.Name != m {
				continue
			}
			// the container argument: a local filled in a loop
			for _, a := range call.Expr.Args {
				obj := fn.ObjOf(a)
				if obj == nil {
					continue
				}
				t := fn.Info().TypeOf(a).Underlying()
				_, isMap := t.(*types.Map)
				_, isSlice := t.(*types.Slice)
				if !isMap && !(isSlice && t.(*types.Slice).Elem().String() == "string") {
					continue
				}
				nStores, bad := 0, []string{}
				fn.InspectShallow(func(n ast.Node) bool {
					as, isAs := n.(*ast.AssignStmt)
					if !isAs || len(as.Lhs) != 1 {
						return true
					}
					ix, isIx := as.Lhs[0].(*ast.IndexExpr)
					if !isIx || fn.ObjOf(ix.X) != obj {
						return true
					}
					nStores++
					var keyExpr ast.Expr = ix.Index
					if isSlice {
						keyExpr = as.Rhs[0]
					}
					if !keyRe.MatchString(fn.Canon(keyExpr)) {
						bad = append(bad, fn.Canon(keyExpr))
					}
					return true
				})
				// passed directly = caller's container unversioned
				if fn.DefCount(obj) == 1 {
					if d := fn.DefSites(obj); len(d) == 1 && d[0].Param {
						bad = append(bad, "caller's container passed through without versioning")
					}
				}
				c.Check(nStores > 0 && len(bad) == 0, "R2", "Versioned."+m+":keys", call.Expr.Pos(), fmt.Sprintf("every key placed in the container handed to the inner cache is addVersion(caller key) (%d stores; offending %v)", nStores, bad), nStores)
			}
		}
	}
	// returned keys
	if fn := an.FindFunc(pkg, tn+".GetMultiWithError"); fn != nil {
		ok := false
		detail := ""
		fn.InspectShallow(func(n ast.Node) bool {
			if as, isAs := n.(*ast.AssignStmt); isAs && len(as.Lhs) == 1 {
				if ix, isIx := as.Lhs[0].(*ast.IndexExpr); isIx {
					kc := fn.Canon(ix.Index)
					if strings.HasPrefix(kc, "recv.removeVersion(keyof(recv.cache.GetMultiWithError(") {
						ok = fn.Canon(as.Rhs[0]) == strings.Replace(strings.TrimSuffix(strings.TrimPrefix(kc, "recv.removeVersion("), ")"), "keyof(", "each(", 1)
						detail = kc + " -> " + fn.Canon(as.Rhs[0])
					}
				}
			}
			return true
		})
		c.Check(ok, "R2", "Versioned.GetMultiWithError:result", fn.Pos(), "every returned entry is keyed by removeVersion(inner key) and carries that key's own value: "+detail, 1)
	}
	// prefix functions
	if f := an.FindFunc(pkg, tn+".addVersion"); f != nil {
		rc := ""
		for _, b := range f.Graph().Blocks {
			if r := an.ReturnOf(b); r != nil {
				rc = f.Canon(r.Results[0])
			}
		}
		c.Check(rc == "(recv.versionPrefix + p0)", "R2", "Versioned.addVersion", f.Pos(), "addVersion returns "+rc, 1)
	} else {
		c.Miss("R2", "Versioned.addVersion", "not found")
	}
	if f := an.FindFunc(pkg, tn+".removeVersion"); f != nil {
		rc := ""
		for _, b := range f.Graph().Blocks {
			if r := an.ReturnOf(b); r != nil {
				rc = f.Canon(r.Results[0])
			}
		}
		c.Check(rc == "strings.TrimPrefix(p0, recv.versionPrefix)" || c19IsTrimPrefix(f), "R2", "Versioned.removeVersion", f.Pos(), "removeVersion returns "+rc+" (strips exactly the prefix addVersion adds; the HasPrefix+slice and CutPrefix spellings are evaluated as a table)", 1)
	}
	if f := an.FindFunc(pkg, "NewVersioned"); f != nil {
		okP := false
		detail := ""
		f.InspectShallow(func(n ast.Node) bool {
			if kv, isKV := n.(*ast.KeyValueExpr); isKV {
				if id, isId := kv.Key.(*ast.Ident); isId && id.Name == "versionPrefix" {
					if call, isCall := an.Unparen(kv.Value).(*ast.CallExpr); isCall && an.ObjIs(an.Callee(f.Info(), call), "fmt", "Sprintf") && len(call.Args) == 2 {
						if tv, okc := f.Info().Types[call.Args[0]]; okc && tv.Value != nil {
							format := constant.StringVal(tv.Value)
							detail = fmt.Sprintf("%q of %s", format, f.Canon(call.Args[1]))
							okP = regexp.MustCompile(`^%d[^0-9%]+$`).MatchString(format) && f.Canon(call.Args[1]) == "p1"
						}
					}
				}
			}
			return true
		})
		c.Check(okP, "R2", "Versioned.prefix", f.Pos(), "version prefix = Sprintf("+detail+"): decimal version followed by a non-digit delimiter, so prefixes of different versions are never prefixes of one another", 1)
	}
}

func c19Snappy(c *core.Ctx, pkg *packages.Package) {
	tn := "SnappyCache"
	encRe := regexp.MustCompile(`^snappy\.Encode\(nil, (p\d|each\(p\d\))\)$`)
	for _, m := range []string{"SetAsync", "Set", "Add"} {
		fn := an.FindFunc(pkg, tn+"."+m)
		if fn == nil {
			continue
		}
		for _, call := range fn.Calls(false) {
			if s, ok := call.Expr.Fun.(*ast.SelectorExpr); ok && fn.Canon(s.X) == "recv.next" && s.Sel.Name == m {
				for _, a := range call.Expr.Args {
					if t := fn.Info().TypeOf(a); t != nil && t.String() == "[]byte" {
						ac := canonAtPath(fn, a, call.Expr)
						c.Check(encRe.MatchString(ac), "R2", "SnappyCache."+m+":value", call.Expr.Pos(), "value handed to the inner cache = "+ac+" (must be a freshly allocated encoding: snappy.Encode(nil, caller value); the inner cache may retain the slice)", 1)
					}
				}
			}
		}
		// no buffer reuse: nothing in the method returns memory to a pool
		for _, call := range fn.Calls(true) {
			if call.Callee != nil && call.Callee.Name() == "Put" && call.Callee.Pkg() != nil && call.Callee.Pkg().Path() == "sync" {
				c.Viol("R2", "SnappyCache."+m+":pool", call.Expr.Pos(), "an encoding buffer is returned to a sync.Pool although the inner cache may still reference it")
			}
		}
	}
	if fn := an.FindFunc(pkg, tn+".SetMultiAsync"); fn != nil {
		bad, n := []string{}, 0
		fn.InspectShallow(func(nd ast.Node) bool {
			if as, ok := nd.(*ast.AssignStmt); ok && len(as.Lhs) == 1 {
				if ix, ok := as.Lhs[0].(*ast.IndexExpr); ok {
					if _, isMap := fn.Info().TypeOf(ix.X).Underlying().(*types.Map); isMap {
						n++
						if !encRe.MatchString(fn.Canon(as.Rhs[0])) || !strings.HasPrefix(fn.Canon(ix.Index), "keyof(p0)") {
							bad = append(bad, fn.Canon(ix.Index)+" -> "+fn.Canon(as.Rhs[0]))
						}
					}
				}
			}
			return true
		})
		c.Check(n > 0 && len(bad) == 0, "R2", "SnappyCache.SetMultiAsync:values", fn.Pos(), fmt.Sprintf("every map entry handed on is key -> snappy.Encode(nil, that key's value); offending %v", bad), n)
	}
	if fn := an.FindFunc(pkg, tn+".GetMultiWithError"); fn != nil {
		g := fn.Graph()
		var store *ast.AssignStmt
		var loop *ast.RangeStmt
		fn.InspectShallow(func(nd ast.Node) bool {
			if rs, ok := nd.(*ast.RangeStmt); ok {
				loop = rs
			}
			if as, ok := nd.(*ast.AssignStmt); ok && len(as.Lhs) == 1 {
				if _, ok := as.Lhs[0].(*ast.IndexExpr); ok {
					store = as
				}
			}
			return true
		})
		if store == nil || loop == nil {
			c.Undec("R2", "SnappyCache.GetMultiWithError:decode", fn.Pos(), "result store not found")
		} else {
			header, body, _ := g.LoopBlocks(loop)
			src := fn.Canon(loop.X)
			vc := fn.Canon(store.Rhs[0])
			kc := fn.Canon(store.Lhs[0].(*ast.IndexExpr).Index)
			okv := vc == "snappy.Decode(nil, each("+src+"))#0" && kc == "keyof("+src+")" && strings.HasPrefix(src, "recv.next.GetMultiWithError(")
			t := an.Table{G: g, From: an.Loc{B: body, I: 0}, Opts: an.ExecOpts{Header: header}, FreeUnknown: true, Atoms: []an.Atom{{Name: "ok", Values: []string{"T", "F"}}},
				Binder:  &an.Binder{Fn: fn, Eq: map[string]string{"snappy.Decode(nil, each(" + src + "))#1|nil": "ok"}},
				Targets: []an.Loc{g.Locate(store)}, Want: func(r an.Row, _ int) an.Tri { return an.FromBool(r["ok"] == "T") }}
			res := t.Run()
			c.Check(okv && res.OK(), "R2", "SnappyCache.GetMultiWithError:decode", store.Pos(), fmt.Sprintf("result[%s] = %s stored ⇔ decode error is nil: %s", kc, vc, res.Summary()), res.Rows)
		}
	}
}

func c19LRU(c *core.Ctx, pkg *packages.Package) {
	lt := an.LookupType(pkg, "LRUCache")
	if lt == nil {
		c.Miss("R3", "type=LRUCache", "not found")
		return
	}
	rep := an.Lockset(pkg, []an.Guard{{Type: lt, Mutex: "mtx", Fields: []string{"lru"}}}, an.LockOpts{ExemptFuncs: map[string]string{"WrapWithLRUCache": "constructor"}})
	for _, f := range rep.Findings {
		c.Viol("R3", "lock:func="+f.Fn, f.Pos, fmt.Sprintf("LRUCache.lru accessed without %s (held %v)", f.Need, f.Held))
	}
	c.Check(len(rep.Findings) == 0 && rep.Accesses >= 7, "R3", "lock", pkg.Syntax[0].Pos(), fmt.Sprintf("%d accesses to LRUCache.lru, all under mtx", rep.Accesses), rep.Accesses)
	// write-through order
	for _, m := range []string{"SetAsync", "SetMultiAsync", "Set", "Add"} {
		fn := an.FindFunc(pkg, "LRUCache."+m)
		if fn == nil {
			c.Miss("R3", "LRUCache."+m, "not found")
			continue
		}
		g := fn.Graph()
		var inner, local *an.Call
		for _, call := range fn.Calls(false) {
			call := call
			if s, ok := call.Expr.Fun.(*ast.SelectorExpr); ok {
				if fn.Canon(s.X) == "recv.c" && s.Sel.Name == m {
					inner = &call
				}
				if fn.Canon(s.X) == "recv.lru" && s.Sel.Name == "Add" {
					local = &call
				}
			}
		}
		if inner == nil || local == nil {
			c.Viol("R3", "LRUCache."+m+":write-through", fn.Pos(), "expected a call of the inner cache and a local insert")
			continue
		}
		order := g.NodeBefore(inner.Expr, local.Expr)
		// local entry = caller's key/value with expiry now+ttl
		lit := fn.Canon(local.Expr.Args[1])
		valOK := strings.Contains(lit, "ExpiresAt: time.Now().Add(p") && strings.Contains(lit, "Data: ")
		c.Check(order && valOK, "R3", "LRUCache."+m+":write-through", local.Expr.Pos(), fmt.Sprintf("backend %s precedes the local insert (=%v); local item = %s", m, order, lit), 1)
		if m == "Add" {
			IC := fn.Canon(inner.Expr)
			t := an.Table{G: g, From: g.EntryLoc(), FreeUnknown: true, Atoms: []an.Atom{{Name: "ok", Values: []string{"T", "F"}}},
				Binder: &an.Binder{Fn: fn, Eq: map[string]string{IC + "|nil": "ok"}}, Targets: []an.Loc{g.Locate(local.Expr)},
				Want: func(r an.Row, _ int) an.Tri { return an.FromBool(r["ok"] == "T") }}
			res := t.Run()
			c.Check(res.OK(), "R3", "LRUCache.Add:on-success", local.Expr.Pos(), "Add inserts locally ⇔ the backend Add returned nil, under no other condition (a stale local copy must be replaced): "+res.Summary(), res.Rows)
		} else {
			ex := g.Exec(g.EntryLoc(), []an.Loc{g.Locate(local.Expr)}, func(ast.Expr, an.Store) an.Tri { return an.U }, an.ExecOpts{Unroll: 0})
			uncond := ex.Must[0] || loopOf(fn, local.Expr) != nil
			c.Check(uncond, "R3", "LRUCache."+m+":unconditional", local.Expr.Pos(), "the local insert happens on every path (for every entry)", ex.Paths)
		}
	}
	// read path
	if fn := an.FindFunc(pkg, "LRUCache.GetMultiWithError"); fn != nil {
		g := fn.Graph()
		var loop *ast.RangeStmt
		fn.InspectShallow(func(n ast.Node) bool {
			if rs, ok := n.(*ast.RangeStmt); ok && fn.Canon(rs.X) == "p1" {
				loop = rs
			}
			return true
		})
		if loop == nil {
			c.Undec("R3", "LRUCache.Get:expiry", fn.Pos(), "loop over the requested keys not found")
		} else {
			header, body, _ := g.LoopBlocks(loop)
			var hit *ast.AssignStmt
			var remove *an.Call
			ast.Inspect(loop.Body, func(n ast.Node) bool {
				if as, ok := n.(*ast.AssignStmt); ok && len(as.Lhs) == 1 {
					if _, ok := as.Lhs[0].(*ast.IndexExpr); ok && strings.HasSuffix(fn.Canon(as.Rhs[0]), ".Data") {
						hit = as
					}
				}
				return true
			})
			for _, call := range fn.Calls(false) {
				call := call
				if s, ok := call.Expr.Fun.(*ast.SelectorExpr); ok && fn.Canon(s.X) == "recv.lru" && s.Sel.Name == "Remove" && an.InNode(loop, call.Expr) {
					remove = &call
				}
			}
			if hit == nil || remove == nil {
				c.Viol("R3", "LRUCache.Get:expiry", loop.Pos(), "local hit store / removal of expired entries not found")
			} else {
				item := "recv.lru.Get(each(p1))"
				t := an.Table{G: g, From: an.Loc{B: body, I: 0}, Opts: an.ExecOpts{Header: header}, FreeUnknown: true,
					Atoms:   []an.Atom{{Name: "present", Values: []string{"T", "F"}}, {Name: "fresh", Values: []string{"T", "F"}}},
					Binder:  &an.Binder{Fn: fn, Bool: map[string]string{item + "#1": "present", item + "#0.ExpiresAt.After(time.Now())": "fresh"}},
					Targets: []an.Loc{g.Locate(hit), g.Locate(remove.Expr)}, Names: []string{"return local value", "remove expired"},
					Want: func(r an.Row, i int) an.Tri {
						if i == 0 {
							return an.FromBool(r["present"] == "T" && r["fresh"] == "T")
						}
						return an.FromBool(r["present"] == "T" && r["fresh"] == "F")
					}}
				res := t.Run()
				valOK := fn.Canon(hit.Rhs[0]) == item+"#0.Data" && fn.Canon(hit.Lhs[0].(*ast.IndexExpr).Index) == "each(p1)"
				c.Check(res.OK() && valOK, "R3", "LRUCache.Get:expiry", hit.Pos(), "a locally cached value is returned ⇔ present ∧ ExpiresAt.After(now); an expired entry is removed: "+res.Summary(), res.Rows)
				// census: the data of a local entry is read nowhere else in the LRU layer (no path around the expiry test)
				var elsewhere []string
				reads := 0
				for _, f := range an.Funcs(pkg) {
					if !strings.HasPrefix(f.Name, "(*LRUCache).") {
						continue
					}
					f.InspectDeep(func(n ast.Node) bool {
						sel, ok := n.(*ast.SelectorExpr)
						if !ok || sel.Sel.Name != "Data" {
							return true
						}
						if t := f.Info().TypeOf(sel.X); t == nil || !strings.HasSuffix(t.String(), "cache.Item") {
							return true
						}
						reads++
						if !an.InNode(hit, sel) {
							elsewhere = append(elsewhere, fmt.Sprintf("%s line %d", f.Name, c.Prog.Fset.Position(sel.Pos()).Line))
						}
						return true
					})
				}
				c.Check(len(elsewhere) == 0 && reads > 0, "R3", "LRUCache:data-reads", hit.Pos(), fmt.Sprintf("the data of a local entry is read at %d site(s), only the one guarded by the expiry test; elsewhere: %v", reads, elsewhere), reads)
			}
			// back-fill
			okBF := false
			detail := ""
			for _, call := range fn.Calls(false) {
				if s, ok := call.Expr.Fun.(*ast.SelectorExpr); ok && fn.Canon(s.X) == "recv.lru" && s.Sel.Name == "Add" {
					detail = fn.Canon(call.Expr.Args[1])
					okBF = strings.Contains(detail, "ExpiresAt: time.Now().Add(recv.defaultTTL)") && strings.HasPrefix(fn.Canon(call.Expr.Args[0]), "keyof(recv.c.GetMultiWithError(")
				}
			}
			c.Check(okBF, "R3", "LRUCache.Get:backfill", fn.Pos(), "values fetched from the backend are cached locally under their own key with expiry now+defaultTTL: "+detail, 1)
		}
	}
	if fn := an.FindFunc(pkg, "LRUCache.Delete"); fn != nil {
		g := fn.Graph()
		var rm, del *an.Call
		for _, call := range fn.Calls(false) {
			call := call
			if s, ok := call.Expr.Fun.(*ast.SelectorExpr); ok {
				if fn.Canon(s.X) == "recv.lru" && s.Sel.Name == "Remove" {
					rm = &call
				}
				if fn.Canon(s.X) == "recv.c" && s.Sel.Name == "Delete" {
					del = &call
				}
			}
		}
		ok := rm != nil && del != nil && g.NodeBefore(rm.Expr, del.Expr) && fn.Canon(rm.Expr.Args[0]) == "p1" && fn.Canon(del.Expr.Args[1]) == "p1"
		c.Check(ok, "R3", "LRUCache.Delete:order", fn.Pos(), "the local copy of the key is removed before the backend delete is issued (a deleted key cannot be served from the local layer afterwards)", 1)
	}
}

func c19Selector(c *core.Ctx, pkg *packages.Package) {
	st := an.LookupType(pkg, "MemcachedJumpHashSelector")
	if st == nil {
		c.Miss("R4", "type=MemcachedJumpHashSelector", "not found")
		return
	}
	rep := an.Lockset(pkg, []an.Guard{{Type: st, Mutex: "mu", Fields: []string{"addrs"}}}, an.LockOpts{})
	for _, f := range rep.Findings {
		c.Viol("R4", "lock:func="+f.Fn, f.Pos, fmt.Sprintf("addrs accessed without %s (held %v)", f.Need, f.Held))
	}
	c.Check(len(rep.Findings) == 0 && rep.Accesses >= 5, "R4", "lock", pkg.Syntax[0].Pos(), fmt.Sprintf("%d accesses to addrs, all under mu", rep.Accesses), rep.Accesses)
	if fn := an.FindFunc(pkg, "MemcachedJumpHashSelector.SetServers"); fn != nil {
		c.Analysed(fn.String())
		g := fn.Graph()
		var asg *ast.AssignStmt
		fn.InspectShallow(func(n ast.Node) bool {
			if as, ok := n.(*ast.AssignStmt); ok && len(as.Lhs) == 1 && fn.Canon(as.Lhs[0]) == "recv.addrs" {
				asg = as
			}
			return true
		})
		res := fn.CallsTo(false, "memcache", "ResolveServers")
		var srt *an.Call
		for _, call := range fn.Calls(false) {
			call := call
			if call.Callee != nil && call.Callee.Pkg() != nil && strings.HasSuffix(call.Callee.Pkg().Path(), "natsort") && call.Callee.Name() == "Sort" {
				srt = &call
			}
		}
		ok := asg != nil && len(res) == 1 && srt != nil
		detail := "assignment / ResolveServers / natsort.Sort not all found"
		if ok {
			list := fn.ObjOf(res[0].Expr.Args[0])
			copied := false
			for _, call := range fn.CallsTo(false, "", "copy") {
				if fn.ObjOf(call.Expr.Args[0]) == list && fn.Canon(call.Expr.Args[1]) == "p0" && g.NodeBefore(call.Expr, srt.Expr) {
					copied = true
				}
			}
			// other spellings of "a fresh copy of the argument": slices.Clone(p0), append([]string(nil), p0...)
			if v, ok := list.(*types.Var); ok {
				if d, ok := fn.SingleDefExpr(v); ok {
					dc := fn.Canon(d)
					if dc == "slices.Clone(p0)" || dc == "append(nil, p0)" || dc == "append([]string{}, p0)" {
						copied = true
					}
				}
			}
			ok = list != nil && fn.ObjOf(srt.Expr.Args[0]) == list && g.NodeBefore(srt.Expr, res[0].Expr) && copied && fn.Canon(asg.Rhs[0]) == fn.Canon(res[0].Expr)+"#0"
			detail = fmt.Sprintf("addrs = %s; natural sort of the copied list dominates resolution=%v; list is a copy of the argument=%v", fn.Canon(asg.Rhs[0]), g.NodeBefore(srt.Expr, res[0].Expr), copied)
		}
		c.Check(ok, "R4", "SetServers", fn.Pos(), "the server list is assigned only from ResolveServers of a natural-sorted copy of the argument: "+detail, 1)
	} else {
		c.Miss("R4", "func=SetServers", "not found")
	}
	if fn := an.FindFunc(pkg, "MemcachedJumpHashSelector.PickServer"); fn != nil {
		c.Analysed(fn.String())
		ok := false
		detail := ""
		for _, b := range fn.Graph().Blocks {
			if r := an.ReturnOf(b); r != nil && len(r.Results) == 2 {
				rc := fn.Canon(r.Results[0])
				if strings.Contains(rc, "jumpHash(") {
					detail = rc
					ok = rc == "recv.addrs[jumpHash(xxhash.Sum64String(p0), len(recv.addrs))]"
				}
			}
		}
		c.Check(ok, "R4", "PickServer", fn.Pos(), "picked server = "+detail+" (a function of the key and the sorted list only)", 1)
	}
	if fn := an.FindFunc(pkg, "jumpHash"); fn != nil {
		c.Analysed(fn.String())
		bad := []string{}
		for _, call := range fn.Calls(true) {
			if call.Callee != nil && call.Callee.Pkg() != nil {
				p := call.Callee.Pkg().Path()
				if p == "time" || strings.HasPrefix(p, "math/rand") || p == "os" {
					bad = append(bad, p+"."+call.Callee.Name())
				}
			}
		}
		fn.InspectDeep(func(n ast.Node) bool {
			if rs, ok := n.(*ast.RangeStmt); ok {
				if _, isMap := fn.Info().TypeOf(rs.X).Underlying().(*types.Map); isMap {
					bad = append(bad, "range over map")
				}
			}
			if id, ok := n.(*ast.Ident); ok {
				if v, ok := fn.Info().Uses[id].(*types.Var); ok && v.Pkg() != nil && v.Parent() == v.Pkg().Scope() {
					bad = append(bad, "package variable "+v.Name())
				}
			}
			// a float expression of the fusable form x*y±z may be compiled to FMA on some architectures (different rounding)
			if be, ok := n.(*ast.BinaryExpr); ok && (be.Op == token.ADD || be.Op == token.SUB) {
				if bt, ok := fn.Info().TypeOf(be).Underlying().(*types.Basic); ok && bt.Info()&types.IsFloat != 0 {
					for _, op := range []ast.Expr{be.X, be.Y} {
						if m, ok := an.Unparen(op).(*ast.BinaryExpr); ok && m.Op == token.MUL {
							bad = append(bad, "fusable float expression "+types.ExprString(be))
						}
					}
				}
			}
			return true
		})
		c.Check(len(bad) == 0, "R4", "jumpHash:pure", fn.Pos(), fmt.Sprintf("jumpHash reads only its arguments (no clock, randomness, map iteration or package state): %v", bad), 1)
		// one algorithm for every bucket count: a key keeps its bucket when buckets are appended only because the
		// same jump sequence is cut at a later point, so no bucket count may take another route to a result.
		// Every return is (a) the loop's last bucket — a local whose non-constant definitions all lie inside the one
		// loop — or (b) the constant 0 behind a test that bounds the bucket count by 1 (the loop answers 0 there too);
		// the parameters are not reassigned outside the loop.
		var loops []ast.Node
		fn.InspectDeep(func(n ast.Node) bool {
			switch n.(type) {
			case *ast.ForStmt, *ast.RangeStmt:
				loops = append(loops, n)
			}
			return true
		})
		inLoop := func(pos token.Pos) bool {
			for _, l := range loops {
				if l.Pos() <= pos && pos < l.End() {
					return true
				}
			}
			return false
		}
		stripConv := func(e ast.Expr) ast.Expr {
			for {
				e = an.Unparen(e)
				call, ok := e.(*ast.CallExpr)
				if !ok || len(call.Args) != 1 {
					return e
				}
				if tv, ok := fn.Info().Types[call.Fun]; !ok || !tv.IsType() {
					return e
				}
				e = call.Args[0]
			}
		}
		intConst := func(e ast.Expr) (int64, bool) {
			if tv, ok := fn.Info().Types[e]; ok && tv.Value != nil && tv.Value.Kind() == constant.Int {
				return constant.Int64Val(tv.Value)
			}
			return 0, false
		}
		var params []types.Object
		if ft := fn.FuncType(); ft != nil && ft.Params != nil {
			for _, fld := range ft.Params.List {
				for _, nm := range fld.Names {
					params = append(params, fn.Info().Defs[nm])
				}
			}
		}
		isParam := func(o types.Object) bool {
			for _, p := range params {
				if p == o && o != nil {
					return true
				}
			}
			return false
		}
		// upper bound on the bucket count (second parameter) implied by cond being true; ok=false if none
		var boundOf func(cond ast.Expr) (int64, bool)
		boundOf = func(cond ast.Expr) (int64, bool) {
			be, ok := an.Unparen(cond).(*ast.BinaryExpr)
			if !ok {
				return 0, false
			}
			if be.Op == token.LAND {
				b1, ok1 := boundOf(be.X)
				b2, ok2 := boundOf(be.Y)
				switch {
				case ok1 && ok2:
					return min(b1, b2), true
				case ok1:
					return b1, true
				case ok2:
					return b2, true
				}
				return 0, false
			}
			x, y, op := stripConv(be.X), stripConv(be.Y), be.Op
			if _, isC := intConst(x); isC {
				x, y = y, x
				switch op {
				case token.LSS:
					op = token.GTR
				case token.LEQ:
					op = token.GEQ
				case token.GTR:
					op = token.LSS
				case token.GEQ:
					op = token.LEQ
				}
			}
			cv, isC := intConst(y)
			if !isC || len(params) < 2 || fn.ObjOf(x) != params[1] {
				return 0, false
			}
			switch op {
			case token.LEQ, token.EQL:
				return cv, true
			case token.LSS:
				return cv - 1, true
			}
			return 0, false
		}
		loopRets, shortcutRets := 0, 0
		var badRets []string
		fn.InspectDeep(func(n ast.Node) bool {
			rs, ok := n.(*ast.ReturnStmt)
			if !ok {
				return true
			}
			if len(rs.Results) != 1 {
				badRets = append(badRets, "return with other than one result")
				return true
			}
			r := stripConv(rs.Results[0])
			if cv, isC := intConst(r); isC {
				// constant answer: needs an enclosing if whose condition bounds the bucket count by 1
				okc := false
				fn.InspectDeep(func(m ast.Node) bool {
					if is, ok := m.(*ast.IfStmt); ok && is.Init == nil && is.Body.Pos() <= rs.Pos() && rs.End() <= is.Body.End() {
						if b, ok := boundOf(is.Cond); ok && b <= 1 && (cv == 0 || b <= 0) {
							okc = true
						}
					}
					return true
				})
				if okc {
					shortcutRets++
				} else {
					badRets = append(badRets, fmt.Sprintf("constant answer %d not behind a test bounding the bucket count by 1", cv))
				}
				return true
			}
			obj := fn.ObjOf(r)
			if obj == nil || isParam(obj) {
				badRets = append(badRets, "answer "+types.ExprString(rs.Results[0])+" is not the loop's bucket variable")
				return true
			}
			okv, someLoop := true, false
			for _, d := range fn.DefSites(obj) {
				if d.Zero {
					continue
				}
				if d.Expr != nil {
					if _, isC := intConst(d.Expr); isC {
						continue
					}
				}
				if inLoop(d.Pos) {
					someLoop = true
					continue
				}
				okv = false
			}
			if okv && someLoop && len(loops) == 1 && !inLoop(rs.Pos()) && rs.Pos() >= loops[0].End() {
				loopRets++
			} else {
				badRets = append(badRets, "answer "+types.ExprString(rs.Results[0])+" has a definition outside the one loop (or the return is not behind it)")
			}
			return true
		})
		for _, p := range params {
			for _, d := range fn.DefSites(p) {
				if !d.Param && !inLoop(d.Pos) {
					badRets = append(badRets, "parameter "+p.Name()+" reassigned outside the loop")
				}
			}
		}
		c.Check(len(loops) == 1 && loopRets >= 1 && len(badRets) == 0, "R4", "jumpHash:one-path", fn.Pos(), fmt.Sprintf("%d loop(s), %d return(s) of the loop's last bucket, %d constant shortcut(s) for a bucket count ≤ 1, other routes to an answer: %v — every bucket count runs the same jump sequence (append-stability needs it)", len(loops), loopRets, shortcutRets, badRets), 1)
	}
}

// c19IsTrimPrefix: fn(k) computes strings.TrimPrefix(k, recv.versionPrefix) in one of its equivalent spellings:
// every return is TrimPrefix itself, the first result of strings.CutPrefix(k, prefix) (which is k when the prefix is
// absent), k[len(prefix):] reachable only when strings.HasPrefix(k, prefix) holds, or k itself reachable only when it
// does not hold. Decided by abstract execution over the one atom "has the prefix".
func c19IsTrimPrefix(fn *an.Fn) bool {
	g := fn.Graph()
	type ret struct {
		loc  an.Loc
		kind string
	}
	var rets []ret
	for _, b := range g.Blocks {
		r := an.ReturnOf(b)
		if r == nil {
			continue
		}
		if len(r.Results) != 1 {
			return false
		}
		switch fn.Canon(r.Results[0]) {
		case "strings.TrimPrefix(p0, recv.versionPrefix)", "strings.CutPrefix(p0, recv.versionPrefix)#0":
			rets = append(rets, ret{g.Locate(r), "any"})
		case "p0[len(recv.versionPrefix):]":
			rets = append(rets, ret{g.Locate(r), "has"})
		case "p0":
			rets = append(rets, ret{g.Locate(r), "hasnot"})
		default:
			return false
		}
	}
	if len(rets) == 0 {
		return false
	}
	var locs []an.Loc
	for _, r := range rets {
		locs = append(locs, r.loc)
	}
	for _, v := range []string{"T", "F"} {
		b := &an.Binder{Fn: fn, Bool: map[string]string{"strings.HasPrefix(p0, recv.versionPrefix)": "hp", "strings.CutPrefix(p0, recv.versionPrefix)#1": "hp"}, Row: an.Row{"hp": v}, Unknown: map[string]bool{}}
		ex := g.Exec(g.EntryLoc(), locs, b.Leaf, an.ExecOpts{})
		if ex.Overflow || len(b.Unknown) > 0 {
			return false
		}
		for i, r := range rets {
			if ex.May[i] && (r.kind == "has" && v == "F" || r.kind == "hasnot" && v == "T") {
				return false
			}
		}
	}
	return true
}
