package props

import (
	"fmt"
	"go/ast"
	"go/constant"
	"go/token"
	"go/types"
	"regexp"
	"sort"
	"strings"

	"dsverif/internal/an"
	"dsverif/internal/core"
	"golang.org/x/tools/go/packages"
)

func init() {
	Registry["C01"] = Prop{
		Patterns: []string{"./ring", "./loser"},
		Run:      runC01,
		Explanation: "Decides structural necessary conditions of 'key lookup returns the consistent-hash replica set with its exact quorum slack': (R1) the Operation bitmap: NewOp's extension loop covers every declared InstanceState, encode and decode use the same shifts, the two halves cannot overlap, allStatesRingOperation has every state healthy and no extension bit; (R2) Get and GetWithOptions both return getReplicationSetForKey, whose result is exactly Filter(findInstancesForKey(key, op, …), op, …) under one read-lock hold; " +
			"(R3) the walk's bookkeeping: a newly seen instance is appended ⇔ the caller's filter (if any) includes it — under no other condition — and the set is extended ⇔ the operation declares that instance's state as extending; the instance examined is the owner of the current token; zone exhaustion counts all instances of the zone; (R4) the default strategy computes the quorum before removing unhealthy instances, over max(RF, walked), fails ⇔ healthy < quorum and returns slack = healthy − quorum. R2 also requires the replication factor given to Filter to be the caller's or the configured value on every path (never a derived quantity); R4 also requires an instance to stay in the set ⇔ InstanceDesc.IsHealthy(op, timeout, now), which is state-accepted ∧ heartbeat-fresh. Also: (R5) the token→owner index is rebuilt from the descriptor on every topology change and never modified (shared with C13.R7); (R6) every token of the ring reaches the sorted lists the walk searches: the merges that build them drop nothing, 2^32-1 included (shared with C14.R3 and C14.R7). (R7 also) every access to the walk's per-zone counters is indexed by the zone's position in this ring's own zone list, never by a position stored in the token→owner entry it shares with its subrings. NOT decided: the successor search, walk termination and zone counters arithmetic, the majority formula's value, the consequence for added/removed instances.",
	}
}

func instanceStates(pkg *packages.Package) map[string]int64 {
	out := map[string]int64{}
	t := an.LookupType(pkg, "InstanceState")
	if t == nil {
		return out
	}
	sc := pkg.Types.Scope()
	for _, n := range sc.Names() {
		if k, ok := sc.Lookup(n).(*types.Const); ok && types.Identical(k.Type(), t) {
			if v, exact := constant.Int64Val(k.Val()); exact {
				out[n] = v
			}
		}
	}
	return out
}

func runC01(c *core.Ctx) {
	c.Rule("R1", "Operation bitmap: exhaustive states, agreeing shifts, disjoint halves", 5)
	c.Rule("R2", "single lookup implementation: Filter ∘ findInstancesForKey under one lock hold, RF passed on unchanged", 5)
	c.Rule("R3", "walk bookkeeping: append ⇔ filter includes; extend ⇔ operation extends on the state; per-zone totals count all instances; early stop ⇔ every zone satisfied or exhausted", 5)
	c.Rule("R5", "the token→owner index is rebuilt from the descriptor on every topology change and never modified (shared with C13.R7)", 1)
	c.Rule("R6", "every token of the ring reaches the sorted lists the walk searches: the merges that build them drop nothing, 2^32-1 included, and their inputs are sorted by the producers (shared with C14.R3, C14.R5 and C14.R7)", 2)
	c.Rule("R7", "the walk's per-zone counters are separate storage: each counter slice is a prefix of its own array or a fresh allocation", 1)
	c.Rule("R8", "successor search: the index after an exact match, the insertion point otherwise, index 0 past the last token — nothing else", 1)
	c.Rule("R4", "default strategy: quorum computed before filtering over max(RF, walked); keep ⇔ IsHealthy (state ∧ one-sided heartbeat age ≤ timeout); slack = healthy − quorum", 6)
	pkg := c.Prog.Pkg("ring")
	if pkg == nil {
		c.Miss("R1", "pkg=ring", "not loaded")
		return
	}
	states := instanceStates(pkg)
	if len(states) < 5 {
		c.Miss("R1", "enum=InstanceState", fmt.Sprintf("only %d constants found", len(states)))
		return
	}
	// ---- R1
	if fn := an.FindFunc(pkg, "NewOp"); fn != nil {
		c.Analysed(fn.String())
		// healthy encode: op |= (1 << s) in a range over p0
		var healthyShift, extendShift string
		extendStates := map[string]bool{}
		fn.InspectShallow(func(n ast.Node) bool {
			as, ok := n.(*ast.AssignStmt)
			if !ok || as.Tok != token.OR_ASSIGN || len(as.Rhs) != 1 {
				return true
			}
			be, ok := an.Unparen(as.Rhs[0]).(*ast.BinaryExpr)
			if !ok || be.Op != token.SHL {
				return true
			}
			base := types.ExprString(be.X)
			loop, _ := loopOf(fn, as).(*ast.RangeStmt)
			if loop == nil {
				return true
			}
			if fn.Canon(loop.X) == "p0" {
				healthyShift = base
			} else if cl, ok := loop.X.(*ast.CompositeLit); ok {
				extendShift = base
				for _, el := range cl.Elts {
					extendStates[fn.ConstName(el)] = true
				}
				// guarded by the caller's predicate on the same state
			}
			return true
		})
		missing := []string{}
		for s := range states {
			if !extendStates[s] {
				missing = append(missing, s)
			}
		}
		sort.Strings(missing)
		c.Check(len(missing) == 0 && len(extendStates) == len(states), "R1", "NewOp:states", fn.Pos(), fmt.Sprintf("the extension loop iterates %v; declared InstanceState constants %v; missing: %v (a missing state can never extend the replica set)", keys(extendStates), keys(states), missing), len(states))
		// decode
		dec := map[string]string{}
		for _, m := range []string{"Operation.IsInstanceInStateHealthy", "Operation.ShouldExtendReplicaSetOnState"} {
			if f := an.FindFunc(pkg, m); f != nil {
				c.Analysed(f.String())
				f.InspectShallow(func(n ast.Node) bool {
					if be, ok := n.(*ast.BinaryExpr); ok && be.Op == token.SHL {
						dec[m] = types.ExprString(be.X)
					}
					return true
				})
			} else {
				c.Miss("R1", "func="+m, "not found")
			}
		}
		c.Check(healthyShift == "1" && dec["Operation.IsInstanceInStateHealthy"] == "1", "R1", "bitmap:healthy", fn.Pos(), fmt.Sprintf("healthy states encoded with %s<<s and decoded with %s<<s", healthyShift, dec["Operation.IsInstanceInStateHealthy"]), 1)
		c.Check(extendShift == "0x10000" && dec["Operation.ShouldExtendReplicaSetOnState"] == "0x10000", "R1", "bitmap:extend", fn.Pos(), fmt.Sprintf("extension states encoded with %s<<s and decoded with %s<<s", extendShift, dec["Operation.ShouldExtendReplicaSetOnState"]), 1)
		maxv := int64(0)
		for _, v := range states {
			if v > maxv {
				maxv = v
			}
		}
		c.Check(maxv < 16, "R1", "bitmap:disjoint", fn.Pos(), fmt.Sprintf("largest state value %d < 16, so 1<<s and 0x10000<<s never overlap", maxv), 1)
		if v, ok := pkg.Types.Scope().Lookup("allStatesRingOperation").(*types.Var); ok {
			_ = v
			val := int64(-1)
			for _, f := range pkg.Syntax {
				ast.Inspect(f, func(n ast.Node) bool {
					if vs, ok := n.(*ast.ValueSpec); ok {
						for i, nm := range vs.Names {
							if nm.Name == "allStatesRingOperation" && i < len(vs.Values) {
								if call, ok := vs.Values[i].(*ast.CallExpr); ok && len(call.Args) == 1 {
									if tv, ok := pkg.TypesInfo.Types[call.Args[0]]; ok && tv.Value != nil {
										val, _ = constant.Int64Val(constant.ToInt(tv.Value))
									}
								}
							}
						}
					}
					return true
				})
			}
			all := int64(0)
			for _, s := range states {
				all |= 1 << s
			}
			c.Check(val >= 0 && val&all == all && val&^0xffff == 0, "R1", "allStatesRingOperation", fn.Pos(), fmt.Sprintf("value %#x: every state healthy (needs %#x) and no extension bit", val, all), 1)
		}
	} else {
		c.Miss("R1", "func=NewOp", "not found")
	}
	// ---- R2
	for _, m := range []string{"Ring.Get", "Ring.GetWithOptions"} {
		f := an.FindFunc(pkg, m)
		if f == nil {
			c.Miss("R2", "func="+m, "not found")
			continue
		}
		c.Analysed(f.String())
		ok := false
		var other []string
		for _, b := range f.Graph().Blocks {
			if r := an.ReturnOf(b); r != nil && len(r.Results) == 1 {
				if v := f.Canon(r.Results[0]); strings.HasPrefix(v, "recv.getReplicationSetForKey(p0, p1, ") {
					ok = true
				} else {
					other = append(other, v)
				}
			}
		}
		c.Check(ok && len(other) == 0, "R2", "func="+m, f.Pos(), fmt.Sprintf("every return is getReplicationSetForKey(key, op, …) unchanged (no second lookup path): %v", other), 1)
	}
	// the quorum strategy is consulted at one place only, the analysed composition
	{
		var sites []string
		for _, f := range an.Funcs(pkg) {
			for _, call := range f.Calls(true) {
				if sel, ok := call.Expr.Fun.(*ast.SelectorExpr); ok && sel.Sel.Name == "Filter" && call.In.Canon(sel.X) == "recv.strategy" {
					sites = append(sites, an.FuncDisplay(f.Obj))
				}
			}
		}
		c.Check(len(sites) == 1 && sites[0] == "(*Ring).getReplicationSetForKey", "R2", "census:strategy.Filter", pkg.Syntax[0].Pos(), fmt.Sprintf("Ring.strategy.Filter is called from %v only", sites), 1)
	}
	if f := an.FindFunc(pkg, "Ring.getReplicationSetForKey"); f != nil {
		c.Analysed(f.String())
		finds := f.CallsTo(false, "ring", "(*Ring).findInstancesForKey")
		var filt *an.Call
		for _, call := range f.Calls(false) {
			call := call
			if call.Func() != nil && call.Func().Name() == "Filter" {
				filt = &call
			}
		}
		ok := len(finds) == 1 && filt != nil
		detail := ""
		if ok {
			FC, FI := f.Canon(filt.Expr), f.Canon(finds[0].Expr)
			ok = f.Canon(filt.Expr.Args[0]) == FI+"#0" && f.Canon(filt.Expr.Args[1]) == "p1" && f.Canon(finds[0].Expr.Args[0]) == "p0" && f.Canon(finds[0].Expr.Args[1]) == "p1" && f.Canon(finds[0].Expr.Args[5]) == "nil"
			// the returned literal
			lit := ""
			for _, b := range f.Graph().Blocks {
				if r := an.ReturnOf(b); r != nil && len(r.Results) == 2 && f.Canon(r.Results[1]) == "nil" {
					lit = f.Canon(r.Results[0])
				}
			}
			ok = ok && lit == "ReplicationSet{Instances: "+FC+"#0, MaxErrors: "+FC+"#1}"
			detail = lit
			// same replication factor to both
			ok = ok && types.ExprString(finds[0].Expr.Args[4]) == types.ExprString(filt.Expr.Args[2])
		}
		c.Check(ok, "R2", "func=getReplicationSetForKey:compose", f.Pos(), "result = ReplicationSet{Instances, MaxErrors} of strategy.Filter(findInstancesForKey(key, op, …, no filter), op, same RF, …): "+detail, 1)
		// the replication factor handed to the walk and to the strategy is the caller's or the configured one, nothing else
		if filt != nil && len(filt.Expr.Args) > 2 {
			if rfObj := f.ObjOf(filt.Expr.Args[2]); rfObj != nil {
				ex := f.Graph().Exec(f.Graph().EntryLoc(), []an.Loc{f.Graph().Locate(filt.Expr)}, func(ast.Expr, an.Store) an.Tri { return an.U }, an.ExecOpts{Watch: rfObj})
				vals := keys(ex.Vals[0])
				okv := len(vals) > 0
				for _, v := range vals {
					if v != "<entry>" && v != "recv.cfg.ReplicationFactor" {
						okv = false
					}
				}
				c.Check(okv, "R2", "func=getReplicationSetForKey:rf", filt.Expr.Pos(), fmt.Sprintf("the replication factor given to Filter (the base of the majority) is the caller's value or the configured one on every path, never a derived quantity: %v", vals), len(vals))
			} else {
				c.Undec("R2", "func=getReplicationSetForKey:rf", filt.Expr.Pos(), "replication-factor argument of Filter is not a variable: "+f.Canon(filt.Expr.Args[2]))
			}
		}
		c.Check(rlockedThroughout(f, "recv.mtx"), "R2", "func=getReplicationSetForKey:snapshot", f.Pos(), "search, walk and filter run under one read-lock hold of Ring.mtx", 1)
	} else {
		c.Miss("R2", "func=getReplicationSetForKey", "not found")
	}
	// ---- R3
	c01Walk(c, pkg)
	c01Stop(c, pkg)
	// R5: token owners are resolved through an index rebuilt from the descriptor on every topology change (shared with C13.R7)
	c13ImmutableIndex(c, pkg, "R5")
	c14ExtremumAs(c, pkg, "R6")
	c14MergeMarkerAs(c, pkg, "R6")
	c.As("R5", "R6", func() { c14SortedInputs(c, pkg) })
	c01Counters(c, pkg)
	c01SearchTokenAs(c, pkg, "R8")
	// ---- R4
	c01Filter(c, pkg)
}

// c01Stop (R3): the walk may stop early only when every zone is satisfied or exhausted: in the loop of
// canStopLooking a zone that is neither (found < target ∧ examined < total) answers "keep looking" on
// every path, whatever else is tested — no zone (in particular not the zone-less "" entry that keeps the
// walk going for instances without a zone) is skipped.
func c01Stop(c *core.Ctx, pkg *packages.Package) {
	fn := an.FindFunc(pkg, "Ring.canStopLooking")
	if fn == nil {
		c.Miss("R3", "func=canStopLooking", "not found")
		return
	}
	c.Analysed(fn.String())
	g := fn.Graph()
	loops := rangeLoops(fn, "p0")
	if len(loops) != 1 {
		c.Undec("R3", "walk:stop", fn.Pos(), "expected one loop over the per-zone totals")
		return
	}
	header, body, _ := g.LoopBlocks(loops[0])
	var no, yesInLoop []an.Loc
	for _, b := range g.Blocks {
		if r := an.ReturnOf(b); r != nil && len(r.Results) == 1 && an.InNode(loops[0], r) {
			if fn.Canon(r.Results[0]) == "false" {
				no = append(no, g.Locate(r))
			} else {
				yesInLoop = append(yesInLoop, g.Locate(r))
			}
		}
	}
	if len(no) != 1 || len(yesInLoop) != 0 {
		c.Undec("R3", "walk:stop", loops[0].Pos(), fmt.Sprintf("expected one `return false` and no other return inside the loop, found %d/%d", len(no), len(yesInLoop)))
		return
	}
	t := an.Table{G: g, From: an.Loc{B: body, I: 0}, Opts: an.ExecOpts{Header: header}, FreeUnknown: true,
		Atoms:   []an.Atom{{Name: "found", Values: []string{"lt", "eq", "gt"}}, {Name: "examined", Values: []string{"lt", "eq", "gt"}}},
		Binder:  &an.Binder{Fn: fn, Cmp: map[string]string{"p1[keyof(p0)]|p3": "found", "p2[keyof(p0)]|each(p0)": "examined"}},
		Targets: no, Names: []string{"keep looking"},
		Want: func(r an.Row, _ int) an.Tri { return an.FromBool(r["found"] == "lt" && r["examined"] == "lt") }}
	res := t.Run()
	c.Check(res.OK(), "R3", "walk:stop", loops[0].Pos(), "for every zone: keep looking ⇔ found < target ∧ examined < total, on nothing else (no zone is skipped): "+res.Summary(), res.Rows)
}

func rlockedThroughout(fn *an.Fn, mu string) bool {
	body := fn.Body().List
	if len(body) < 2 {
		return false
	}
	es, ok := body[0].(*ast.ExprStmt)
	if !ok {
		return false
	}
	call, ok := es.X.(*ast.CallExpr)
	if !ok {
		return false
	}
	s, ok := call.Fun.(*ast.SelectorExpr)
	if !ok || (s.Sel.Name != "RLock" && s.Sel.Name != "Lock") || fn.Canon(s.X) != mu {
		return false
	}
	ds, ok := body[1].(*ast.DeferStmt)
	if !ok {
		return false
	}
	s2, ok := ds.Call.Fun.(*ast.SelectorExpr)
	if !ok || (s2.Sel.Name != "RUnlock" && s2.Sel.Name != "Unlock") || fn.Canon(s2.X) != mu {
		return false
	}
	n := 0
	fn.InspectDeep(func(x ast.Node) bool {
		if c, ok := x.(*ast.CallExpr); ok {
			if s, ok := c.Fun.(*ast.SelectorExpr); ok && (s.Sel.Name == "RUnlock" || s.Sel.Name == "Unlock") && fn.Canon(s.X) == mu {
				n++
			}
		}
		return true
	})
	return n == 1
}

func c01Walk(c *core.Ctx, pkg *packages.Package) {
	fn := an.FindFunc(pkg, "Ring.findInstancesForKey")
	if fn == nil {
		c.Miss("R3", "func=findInstancesForKey", "not found")
		return
	}
	c.Analysed(fn.String())
	g := fn.Graph()
	// the walk loop: ForStmt containing the append of an InstanceDesc
	var app *ast.AssignStmt
	var inc *ast.IncDecStmt
	fn.InspectShallow(func(n ast.Node) bool {
		switch x := n.(type) {
		case *ast.AssignStmt:
			if len(x.Rhs) == 1 {
				if call, ok := x.Rhs[0].(*ast.CallExpr); ok && an.ObjIs(an.Callee(fn.Info(), call), "", "append") && len(call.Args) == 2 {
					if t := fn.Info().TypeOf(call.Args[1]); t != nil && strings.HasSuffix(t.String(), "ring.InstanceDesc") {
						app = x
					}
				}
			}
		case *ast.IncDecStmt:
			if x.Tok == token.INC && types.ExprString(x.X) == "replicaSetSize" {
				inc = x
			}
		}
		return true
	})
	if app == nil || inc == nil {
		c.Undec("R3", "walk:shape", fn.Pos(), "append of the examined instance / replicaSetSize++ not found")
		return
	}
	loop := loopOf(fn, app)
	header, body, _ := g.LoopBlocks(loop)
	// identity of the instance: owner of the current token
	instExpr := app.Rhs[0].(*ast.CallExpr).Args[1]
	ic := fn.Canon(instExpr)
	wantInst := "recv.ringDesc.Ingesters[recv.ringInstanceByToken[recv.ringTokens[i]]#0.InstanceID]"
	idOK := ic == wantInst || strings.HasPrefix(ic, "recv.ringDesc.Ingesters[recv.ringInstanceByToken[recv.ringTokens[")
	c.Check(idOK, "R3", "walk:instance", app.Pos(), "the instance appended is "+ic+" (the ring entry of the owner of the current token)", 1)
	// from the point where the instance became 'distinct' (distinctHosts.add) : append ⇔ filter includes
	var addCall *ast.CallExpr
	for _, call := range fn.Calls(false) {
		if s, ok := call.Expr.Fun.(*ast.SelectorExpr); ok && s.Sel.Name == "add" && types.ExprString(s.X) == "distinctHosts" {
			addCall = call.Expr
		}
	}
	if addCall == nil {
		c.Undec("R3", "walk:append", app.Pos(), "distinctHosts.add call not found")
		return
	}
	t := an.Table{G: g, From: g.Locate(addCall), Opts: an.ExecOpts{Header: header}, FreeUnknown: true,
		Atoms:   []an.Atom{{Name: "nofilter", Values: []string{"T", "F"}}, {Name: "include", Values: []string{"T", "F"}}},
		Binder:  &an.Binder{Fn: fn, Re: []an.ReRole{an.RE(`^p5\(.*\)#0$`, "FILTER#0")}, Eq: map[string]string{"p5|nil": "nofilter"}, Bool: map[string]string{"FILTER#0": "include"}},
		Targets: []an.Loc{g.Locate(app)}, Names: []string{"append(instances, instance)"},
		Want: func(r an.Row, _ int) an.Tri { return an.FromBool(r["nofilter"] == "T" || r["include"] == "T") }}
	res := t.Run()
	c.Check(res.OK(), "R3", "walk:append", app.Pos(), "a newly examined instance is added to the walked set ⇔ no caller filter ∨ the filter includes it — independent of state, health or any other condition (the strategy needs extending instances for the quorum size): "+res.Summary(), res.Rows)
	// extend ⇔ op.ShouldExtendReplicaSetOnState(instance.State)
	t2 := an.Table{G: g, From: g.Locate(addCall), Opts: an.ExecOpts{Header: header}, FreeUnknown: true,
		Atoms:   []an.Atom{{Name: "extends", Values: []string{"T", "F"}}},
		Binder:  &an.Binder{Fn: fn, Re: []an.ReRole{an.RE(`^p1\.ShouldExtendReplicaSetOnState\(recv\.ringDesc\.Ingesters\[.*\]\.State\)$`, "EXTENDS")}, Bool: map[string]string{"EXTENDS": "extends"}},
		Targets: []an.Loc{g.Locate(inc)}, Names: []string{"replicaSetSize++"},
		Want: func(r an.Row, _ int) an.Tri { return an.FromBool(r["extends"] == "T") }}
	res2 := t2.Run()
	c.Check(res2.OK(), "R3", "walk:extend", inc.Pos(), "the replica set is extended by one ⇔ the operation declares the examined instance's state as extending: "+res2.Summary(), res2.Rows)
	_ = body
	// per-zone totals
	tot := ""
	fn.InspectShallow(func(n ast.Node) bool {
		if as, ok := n.(*ast.AssignStmt); ok && len(as.Lhs) == 1 {
			if ix, ok := as.Lhs[0].(*ast.IndexExpr); ok && types.ExprString(ix.X) == "totalHostsPerZone" {
				tot = fn.Canon(as.Rhs[0])
			}
		}
		return true
	})
	c.Check(tot == "recv.instancesCountPerZone[each(recv.ringZones)]", "R3", "walk:zone-total", fn.Pos(), "a zone is exhausted when all its instances were examined: totalHostsPerZone[z] = "+tot+" (must count every instance of the zone, also read-only ones and ones without tokens)", 1)
}

func c01Filter(c *core.Ctx, pkg *packages.Package) {
	fn := an.FindFunc(pkg, "defaultReplicationStrategy.Filter")
	if fn == nil {
		c.Miss("R4", "func=defaultReplicationStrategy.Filter", "not found")
		return
	}
	c.Analysed(fn.String())
	g := fn.Graph()
	var minDef *ast.AssignStmt
	var loop *ast.ForStmt
	var adjust *ast.AssignStmt
	fn.InspectShallow(func(n ast.Node) bool {
		switch x := n.(type) {
		case *ast.AssignStmt:
			if len(x.Lhs) == 1 && types.ExprString(x.Lhs[0]) == "minSuccess" {
				minDef = x
			}
			if len(x.Lhs) == 1 && x.Tok == token.ASSIGN && fn.ObjOf(x.Lhs[0]) == fn.Obj.Type().(*types.Signature).Params().At(2) {
				adjust = x
			}
		case *ast.ForStmt:
			loop = x
		}
		return true
	})
	if minDef == nil || loop == nil {
		c.Undec("R4", "filter:shape", fn.Pos(), "minSuccess definition / filtering loop not found")
		return
	}
	formula := types.ExprString(minDef.Rhs[0])
	c.Check(g.NodeBefore(minDef, loop.Cond) && formula == "(replicationFactor / 2) + 1", "R4", "filter:quorum-before-filtering", minDef.Pos(), "the quorum "+formula+" is computed before unhealthy instances are removed (they still count towards the quorum size)", 1)
	okAdj := false
	if adjust != nil {
		t := an.Table{G: g, From: g.EntryLoc(), Atoms: []an.Atom{{Name: "cmp", Values: []string{"lt", "eq", "gt"}}},
			Binder: &an.Binder{Fn: fn, Cmp: map[string]string{"len(p0)|replicationFactor": "cmp", "len(p0)|p2": "cmp", "len(instances)|replicationFactor": "cmp", "len(instances)|p2": "cmp"}}, Targets: []an.Loc{g.Locate(adjust)},
			Opts: an.ExecOpts{NoTrack: map[types.Object]bool{fn.ObjOf(adjust.Lhs[0]): true}},
			Want: func(r an.Row, _ int) an.Tri { return an.FromBool(r["cmp"] == "gt") }}
		res := t.Run()
		okAdj = res.OK() && (fn.Canon(adjust.Rhs[0]) == "len(p0)" || fn.Canon(adjust.Rhs[0]) == "len(instances)") && !g.NodeBefore(minDef, adjust) && adjust.Pos() < minDef.Pos()
	}
	if adjust != nil && !okAdj {
		// the same adjustment written with the builtin: replicationFactor = max(replicationFactor, len(instances)), on every path before the quorum
		rc := fn.Canon(adjust.Rhs[0])
		rf := fn.Obj.Type().(*types.Signature).Params().At(2).Name()
		forms := map[string]bool{}
		for _, l := range []string{"len(p0)", "len(instances)"} {
			for _, r := range []string{"p2", rf} {
				forms["max("+r+", "+l+")"] = true
				forms["max("+l+", "+r+")"] = true
			}
		}
		ex := g.Exec(g.EntryLoc(), []an.Loc{g.Locate(adjust)}, func(ast.Expr, an.Store) an.Tri { return an.U }, an.ExecOpts{IgnorePanic: true})
		okAdj = forms[rc] && ex.Must[0] && adjust.Pos() < minDef.Pos() && g.NodeBefore(adjust, minDef)
	}
	c.Check(okAdj, "R4", "filter:max-rf-walked", fn.Pos(), "the quorum is taken over max(replication factor, number of walked instances): RF replaced by len(instances) ⇔ len(instances) > RF, before the quorum is computed", 3)
	// keep ⇔ IsHealthy(op, timeout, now): the decision of the filtering loop
	{
		header, body, _ := g.LoopBlocks(loop)
		var keep ast.Node
		var drop ast.Node
		fn.InspectShallow(func(n ast.Node) bool {
			if !an.InNode(loop.Body, n) {
				return true
			}
			switch x := n.(type) {
			case *ast.IncDecStmt:
				if x.Tok == token.INC {
					keep = x
				}
			case *ast.AssignStmt:
				if len(x.Lhs) == 1 && fn.ObjOf(x.Lhs[0]) == fn.Obj.Type().(*types.Signature).Params().At(0) {
					drop = x
				}
			}
			return true
		})
		if keep == nil || drop == nil {
			c.Undec("R4", "filter:health", loop.Pos(), "keep (index++) / drop (instances = …) statements of the filtering loop not found")
		} else {
			inst := fn.Obj.Type().(*types.Signature).Params().At(0)
			t := an.Table{G: g, From: an.Loc{B: body, I: 0}, Opts: an.ExecOpts{Header: header, NoTrack: map[types.Object]bool{inst: true}}, FreeUnknown: true,
				Atoms:   []an.Atom{{Name: "healthy", Values: []string{"T", "F"}}},
				Binder:  &an.Binder{Fn: fn, Re: []an.ReRole{an.RE(`^(p0|instances)\[\w+\]\.IsHealthy\(p1, p3, time\.Now\(\)\)$`, "HEALTHY")}, Bool: map[string]string{"HEALTHY": "healthy"}},
				Targets: []an.Loc{g.Locate(keep), g.Locate(drop)}, Names: []string{"keep", "drop"},
				Want: func(r an.Row, i int) an.Tri { return an.FromBool((r["healthy"] == "T") == (i == 0)) }}
			res := t.Run()
			c.Check(res.OK(), "R4", "filter:health", loop.Pos(), "an instance stays in the set ⇔ InstanceDesc.IsHealthy(op, heartbeatTimeout, now) — the same predicate every other ring query uses — and on nothing else: "+res.Summary(), res.Rows)
		}
		if ih := an.FindFunc(pkg, "InstanceDesc.IsHealthy"); ih != nil {
			c.Analysed(ih.String())
			// truth table over the two conjuncts, whatever the control structure (conjunction, early return …)
			ig := ih.Graph()
			var rets []*ast.ReturnStmt
			var locs []an.Loc
			for _, b := range ig.Blocks {
				if r := an.ReturnOf(b); r != nil && len(r.Results) == 1 {
					rets = append(rets, r)
					locs = append(locs, ig.Locate(r))
				}
			}
			bad := []string{}
			for _, st := range []string{"T", "F"} {
				for _, hb := range []string{"T", "F"} {
					bd := &an.Binder{Fn: ih, Bool: map[string]string{"p0.IsInstanceInStateHealthy(recv.State)": "state", "recv.IsHeartbeatHealthy(p1, p2)": "hb"}, Row: an.Row{"state": st, "hb": hb}}
					ex := ig.Exec(ig.EntryLoc(), locs, bd.Leaf, an.ExecOpts{})
					mayT, mayF := false, false
					for i, r := range rets {
						if !ex.May[i] {
							continue
						}
						switch an.EvalCond(ih.Info(), r.Results[0], an.Store{}, bd.Leaf) {
						case an.T:
							mayT = true
						case an.F:
							mayF = true
						default:
							mayT, mayF = true, true
						}
					}
					want := st == "T" && hb == "T"
					if (want && mayF) || (!want && mayT) || (!mayT && !mayF) {
						bad = append(bad, fmt.Sprintf("{state=%s,heartbeat=%s}: may answer true=%v false=%v", st, hb, mayT, mayF))
					}
				}
			}
			okh := len(bad) == 0 && len(rets) > 0
			conj := map[string]bool{"rows": true}
			_ = conj
			if !okh {
				conj = map[string]bool{}
				for _, b := range bad {
					conj[b] = true
				}
			}
			c.Check(okh, "R4", "func=InstanceDesc.IsHealthy", ih.Pos(), fmt.Sprintf("healthy ⇔ state accepted by the operation ∧ heartbeat within the timeout, on all 4 rows, whatever the control structure: %v", keys(conj)), 4)
		} else {
			c.Miss("R4", "func=InstanceDesc.IsHealthy", "not found")
		}
		// heartbeat freshness is one-sided: age = now − heartbeat compared with the timeout by ≤ (a heartbeat
		// stamped in the future by a skewed clock is fresh). Only recognised spellings of that comparison hold;
		// anything else (an absolute value, a second bound, a strict <) is reported.
		if hh := an.FindFunc(pkg, "InstanceDesc.IsHeartbeatHealthy"); hh != nil {
			c.Analysed(hh.String())
			age := "p1.Sub(time.Unix(recv.Timestamp, 0))"
			forms := map[string]bool{
				"(" + age + " <= p0)": true, "(p0 >= " + age + ")": true,
				"!(" + age + " > p0)": true, "!(p0 < " + age + ")": true,
				"!p1.After(time.Unix(recv.Timestamp, 0).Add(p0))":  true,
				"(time.Since(time.Unix(recv.Timestamp, 0)) <= p0)": false,
			}
			var rets []string
			okf := true
			for _, b := range hh.Graph().Blocks {
				if r := an.ReturnOf(b); r != nil && len(r.Results) == 1 {
					rc := hh.Canon(r.Results[0])
					rets = append(rets, rc)
					if !forms[rc] {
						okf = false
					}
				}
			}
			if okf && len(rets) == 1 {
				c.Hold("R4", "func=InstanceDesc.IsHeartbeatHealthy", hh.Pos(), "heartbeat is fresh ⇔ now − heartbeat ≤ timeout (one comparison, one-sided): "+rets[0], 1)
			} else {
				c.Undec("R4", "func=InstanceDesc.IsHeartbeatHealthy", hh.Pos(), fmt.Sprintf("the freshness predicate is not one of the recognised spellings of `now − heartbeat ≤ timeout`: %v", rets))
			}
		} else {
			c.Miss("R4", "func=InstanceDesc.IsHeartbeatHealthy", "not found")
		}
	}
	// outcome: error ⇔ healthy < quorum; slack = healthy - quorum
	var okRet, errRet []*ast.ReturnStmt
	for _, b := range g.Blocks {
		if r := an.ReturnOf(b); r != nil && len(r.Results) == 3 {
			if fn.Canon(r.Results[2]) == "nil" {
				okRet = append(okRet, r)
			} else {
				errRet = append(errRet, r)
			}
		}
	}
	if len(okRet) != 1 || len(errRet) == 0 {
		c.Undec("R4", "filter:outcome", fn.Pos(), "expected one success return and at least one error return")
		return
	}
	_, _, done := g.LoopBlocks(loop)
	inst := fn.Obj.Type().(*types.Signature).Params().At(0)
	t := an.Table{G: g, From: an.Loc{B: done, I: 0}, Opts: an.ExecOpts{NoTrack: map[types.Object]bool{inst: true}}, MayOnly: true,
		Atoms:   []an.Atom{{Name: "cmp", Values: []string{"lt", "eq", "gt"}}},
		Binder:  &an.Binder{Fn: fn, Cmp: map[string]string{"len(instances)|minSuccess": "cmp", "len(p0)|((p2 / 2) + 1)": "cmp", "len(instances)|((p2 / 2) + 1)": "cmp", "len(instances)|((replicationFactor / 2) + 1)": "cmp"}},
		Targets: targetsOf(g, okRet[0], errRet), Names: []string{"success", "error"},
		Want: func(r an.Row, i int) an.Tri {
			if i == 0 {
				return an.FromBool(r["cmp"] != "lt")
			}
			if r["cmp"] != "lt" {
				return an.F // no error return is reachable when enough healthy instances remain
			}
			return an.U // which of several error texts is returned does not matter
		}}
	res := t.Run()
	slack := types.ExprString(okRet[0].Results[1])
	c.Check(res.OK() && slack == "len(instances) - minSuccess" && types.ExprString(okRet[0].Results[0]) == "instances", "R4", "filter:outcome", okRet[0].Pos(), "fails ⇔ healthy instances < quorum; otherwise returns the healthy instances with MaxErrors = "+slack+": "+res.Summary(), res.Rows)
}

// conjuncts splits e at top-level && operators.
func conjuncts(e ast.Expr) []ast.Expr {
	e = an.Unparen(e)
	if b, ok := e.(*ast.BinaryExpr); ok && b.Op == token.LAND {
		return append(conjuncts(b.X), conjuncts(b.Y)...)
	}
	return []ast.Expr{e}
}

func targetsOf(g *an.Graph, first *ast.ReturnStmt, rest []*ast.ReturnStmt) []an.Loc {
	out := []an.Loc{g.Locate(first)}
	for _, r := range rest {
		out = append(out, g.Locate(r))
	}
	return out
}

// c01Counters (R7): findInstancesForKey keeps three per-zone counters (total / examined / found hosts)
// in integer slices indexed by zone. The stop and skip decisions of R3 read them, so they must not
// overlap: every definition of such a slice is `buf[:n]` of an array no other slice uses, or make(…).
func c01Counters(c *core.Ctx, pkg *packages.Package) { c01CountersAs(c, pkg, "R7") }

func c01CountersAs(c *core.Ctx, pkg *packages.Package, R string) {
	fn := an.FindFunc(pkg, "Ring.findInstancesForKey")
	if fn == nil {
		c.Miss(R, "func=findInstancesForKey", "not found")
		return
	}
	bases := map[types.Object][]string{} // slice variable -> storage bases of its definitions
	var bad []string
	fn.InspectShallow(func(n ast.Node) bool {
		as, ok := n.(*ast.AssignStmt)
		if !ok || len(as.Lhs) != len(as.Rhs) {
			return true
		}
		for i, l := range as.Lhs {
			id, ok := l.(*ast.Ident)
			if !ok {
				continue
			}
			o := fn.ObjOf(id)
			sl, isSlice := fn.Info().TypeOf(l).(*types.Slice)
			if o == nil || !isSlice {
				continue
			}
			if b, ok := sl.Elem().(*types.Basic); !ok || b.Kind() != types.Int {
				continue
			}
			switch r := an.Unparen(as.Rhs[i]).(type) {
			case *ast.SliceExpr:
				base, isID := an.Unparen(r.X).(*ast.Ident)
				if !isID || r.Low != nil {
					bad = append(bad, fmt.Sprintf("%s = %s (not a prefix of a named buffer)", id.Name, types.ExprString(r)))
					continue
				}
				bases[o] = append(bases[o], "buf:"+base.Name)
			case *ast.CallExpr:
				if f, ok := r.Fun.(*ast.Ident); ok && f.Name == "make" {
					bases[o] = append(bases[o], fmt.Sprintf("make@%d", c.Prog.Fset.Position(r.Pos()).Line*1000+c.Prog.Fset.Position(r.Pos()).Column))
				} else {
					bad = append(bad, fmt.Sprintf("%s = %s", id.Name, types.ExprString(r)))
				}
			default:
				bad = append(bad, fmt.Sprintf("%s = %s", id.Name, types.ExprString(as.Rhs[i])))
			}
		}
		return true
	})
	owner := map[string]types.Object{}
	for o, bs := range bases {
		for _, b := range bs {
			if prev, ok := owner[b]; ok && prev != o {
				bad = append(bad, fmt.Sprintf("%s and %s share %s", prev.Name(), o.Name(), b))
			}
			owner[b] = o
		}
	}
	sort.Strings(bad)
	c.Check(len(bases) >= 3 && len(bad) == 0, R, "func=findInstancesForKey:counters", fn.Pos(), fmt.Sprintf("%d integer counter slices, each on storage of its own: %v", len(bases), bad), len(bases))
	// the counters are indexed by the position of a zone in THIS ring's zone list: the index is the key of a range over
	// recv.ringZones, or a variable whose definitions are constants and slices.Index(recv.ringZones, <entry>.Zone).
	// (An index precomputed for another ring — the parent whose token→owner map a subring shares — addresses another
	// zone, or lies outside the list, once the subring has lost a zone.)
	var badIdx []string
	nIdx := 0
	zoneIdxRe := regexp.MustCompile(`^slices\.Index\(recv\.ringZones, .*\.Zone\)$`)
	fn.InspectShallow(func(n ast.Node) bool {
		ie, ok := n.(*ast.IndexExpr)
		if !ok {
			return true
		}
		if o := fn.ObjOf(ie.X); o == nil || bases[o] == nil {
			return true
		}
		nIdx++
		io := fn.ObjOf(ie.Index)
		if io == nil {
			if tv, ok := fn.Info().Types[ie.Index]; ok && tv.Value != nil {
				return true
			}
			badIdx = append(badIdx, types.ExprString(ie))
			return true
		}
		for _, d := range fn.DefSites(io) {
			switch {
			case d.Canon == "keyof(recv.ringZones)":
			case d.Expr != nil && fn.Info().Types[d.Expr].Value != nil:
			case zoneIdxRe.MatchString(d.Canon):
			default:
				// any other spelling of "look the zone up in this ring's list" (a hand-written search, a helper) is
				// accepted as long as the value is not read out of the shared token→owner entry: the entry may be
				// consulted for its Zone / InstanceID only
				if d.Expr != nil && !readsOwnerEntryPosition(fn, d.Expr) && !strings.Contains(d.Canon, "ringInstanceByToken") || d.Expr == nil && !strings.Contains(d.Canon, "ringInstanceByToken") {
					continue
				}
				badIdx = append(badIdx, fmt.Sprintf("%s with %s = %s", types.ExprString(ie), io.Name(), d.Canon))
			}
		}
		return true
	})
	c.Check(len(badIdx) == 0 && nIdx >= 3, R, "func=findInstancesForKey:counter-index", fn.Pos(), fmt.Sprintf("%d accesses to the per-zone counters, each indexed by the zone's position in this ring's own zone list (range key of recv.ringZones or slices.Index(recv.ringZones, entry.Zone)); others: %v", nIdx, badIdx), nIdx)
}

// c01SearchTokenAs: every lookup (instances and partitions) starts at searchToken(tokens, key), "the first
// token strictly after the key". Decided on the function's shape: the index comes from
// slices.BinarySearch(tokens, key); it is advanced by one ⇔ the key was found; it is reset to 0 ⇔ it is
// ≥ len(tokens); those are the only assignments and the index is what is returned.
func c01SearchTokenAs(c *core.Ctx, pkg *packages.Package, R string) {
	fn := an.FindFunc(pkg, "searchToken")
	if fn == nil {
		c.Miss(R, "func=searchToken", "not found")
		return
	}
	c.Analysed(fn.String())
	g := fn.Graph()
	// the index variable: first result of the binary search
	var idx types.Object
	var initOK bool
	fn.InspectShallow(func(n ast.Node) bool {
		if as, ok := n.(*ast.AssignStmt); ok && len(as.Lhs) == 2 && len(as.Rhs) == 1 && as.Tok == token.DEFINE {
			if fn.Canon(as.Rhs[0]) == "slices.BinarySearch(p0, p1)" {
				idx = fn.ObjOf(as.Lhs[0])
				initOK = true
			}
		}
		return true
	})
	if idx == nil {
		c.Undec(R, "func=searchToken", fn.Pos(), "the index is not defined by `i, found := slices.BinarySearch(tokens, key)` (another search is not recognised)")
		return
	}
	var inc, reset []an.Loc
	var other []string
	fn.InspectShallow(func(n ast.Node) bool {
		switch x := n.(type) {
		case *ast.AssignStmt:
			if x.Tok == token.DEFINE {
				return true
			}
			for i, l := range x.Lhs {
				if id, ok := l.(*ast.Ident); ok && fn.ObjOf(id) == idx && i < len(x.Rhs) {
					switch rhs := types.ExprString(x.Rhs[i]); {
					case x.Tok == token.ASSIGN && (rhs == id.Name+" + 1" || rhs == "1 + "+id.Name), x.Tok == token.ADD_ASSIGN && rhs == "1":
						inc = append(inc, g.Locate(x))
					case x.Tok == token.ASSIGN && rhs == "0":
						reset = append(reset, g.Locate(x))
					default:
						other = append(other, types.ExprString(l)+" "+x.Tok.String()+" "+rhs)
					}
				}
			}
		case *ast.IncDecStmt:
			if id, ok := x.X.(*ast.Ident); ok && fn.ObjOf(id) == idx {
				if x.Tok == token.INC {
					inc = append(inc, g.Locate(x))
				} else {
					other = append(other, id.Name+"--")
				}
			}
		}
		return true
	})
	retOK := true
	for _, b := range g.Blocks {
		if r := an.ReturnOf(b); r != nil {
			id, ok := an.Unparen(r.Results[0]).(*ast.Ident)
			if !ok || fn.ObjOf(id) != idx {
				retOK = false
			}
		}
	}
	if len(inc) != 1 || len(reset) != 1 || len(other) > 0 || !retOK || !initOK {
		c.Check(false, R, "func=searchToken", fn.Pos(), fmt.Sprintf("expected one `i+1`, one `i = 0`, no other assignment of the index, and the index returned: %d/%d/%v/returned=%v", len(inc), len(reset), other, retOK), 1)
		return
	}
	t := an.Table{G: g, From: g.EntryLoc(), FreeUnknown: true, Opts: an.ExecOpts{NoTrack: map[types.Object]bool{idx: true}},
		Atoms:   []an.Atom{{Name: "found", Values: []string{"T", "F"}}, {Name: "end", Values: []string{"lt", "eq", "gt"}}},
		Binder:  &an.Binder{Fn: fn, Bool: map[string]string{"slices.BinarySearch(p0, p1)#1": "found"}, Cmp: map[string]string{idx.Name() + "|len(p0)": "end"}},
		Targets: []an.Loc{inc[0], reset[0]}, Names: []string{"i+1", "i=0"},
		Want: func(r an.Row, i int) an.Tri {
			if i == 0 {
				return an.FromBool(r["found"] == "T")
			}
			return an.FromBool(r["end"] != "lt")
		}}
	res := t.Run()
	c.Check(res.OK() && g.Before(inc[0], reset[0]) || res.OK() && !g.Before(reset[0], inc[0]), R, "func=searchToken", fn.Pos(), "i = BinarySearch(tokens, key); i+1 ⇔ found; then i = 0 ⇔ i ≥ len(tokens); i returned: "+res.Summary(), res.Rows)
}

// readsOwnerEntryPosition: e selects, from a value of the token→owner entry type (instanceInfo), a field other
// than Zone / InstanceID.
func readsOwnerEntryPosition(fn *an.Fn, e ast.Expr) bool {
	found := false
	ast.Inspect(e, func(n ast.Node) bool {
		sel, ok := n.(*ast.SelectorExpr)
		if !ok {
			return true
		}
		t := fn.Info().TypeOf(sel.X)
		if t == nil {
			return true
		}
		if p, isPtr := t.(*types.Pointer); isPtr {
			t = p.Elem()
		}
		if nt, isNamed := t.(*types.Named); isNamed && nt.Obj().Name() == "instanceInfo" && sel.Sel.Name != "Zone" && sel.Sel.Name != "InstanceID" {
			found = true
		}
		return true
	})
	return found
}
