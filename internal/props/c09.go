package props

import (
	"fmt"
	"go/ast"
	"go/constant"
	"go/token"
	"go/types"
	"sort"
	"strings"

	"dsverif/internal/an"
	"dsverif/internal/core"
)

func init() {
	Registry["C09"] = Prop{
		Patterns: []string{"./ring"},
		Run:      runC09,
		Explanation: "Decides structural necessary conditions of crash/fault recovery of the lifecyclers: (R1) the tokens file is replaced atomically: all writes go to a freshly truncated '<path>.tmp', the only operation creating the final path is os.Rename(tmp, path), reached only when marshal, write and close all succeeded; no other file-writing call exists in package ring; a failed load never aborts start-up; " +
			"(R2) when the own entry is missing at a heartbeat the lifecycler re-registers with its remembered tokens and state, and when the entry exists the heartbeat keeps the tokens recorded in the ring (it never overwrites them with the in-memory copy); (R3) on restart with an existing entry the local tokens/state/registration time are taken from the ring entry. " +
			"(R4) every request to the token generator asks for target−len(held) tokens and appends the result to the held list, so tokens recorded in the ring or the tokens file survive a restart or a top-up unchanged; (R5) Lifecycler.changeState sets the local state once, to the requested state, before the store write and never rolls it back, so a rejected write is re-published by a later heartbeat. " +
			" Also: (R6) restart from a tokens file goes ACTIVE only with a complete token set; (R7) the wait for permission to join fails only with the caller's own context error (store faults are retried or ignored); (R8) the tokens file is written whenever tokens are set and a path is configured, whatever the state (tokens obtained while JOINING are the ones a restart must find); (R9) a failed token pick ends the lifecycler: autoJoin may have changed local state before its store write failed, so the loop must not carry on with it. NOT decided: behaviour under a crash between any two writes (crash points), fault windows, reaching ACTIVE with the full token count. Registration-time handling is decided under C08.R3.",
	}
}

func runC09(c *core.Ctx) {
	c.Rule("R1", "tokens file: write tmp (truncated) then rename, rename only after successful write+close; no other writer; load errors tolerated", 5)
	c.Rule("R2", "heartbeat: entry missing => re-register with remembered tokens/state in the CAS descriptor; entry present => keep the ring's tokens", 6)
	c.Rule("R3", "restart with existing entry adopts tokens and state from the ring entry", 2)
	c.Rule("R4", "token top-up: request (target − held) tokens and append them to the held list", 5)
	c.Rule("R6", "restart from a tokens file goes ACTIVE only with a complete token set", 1)
	c.Rule("R7", "the wait for permission to join fails only with the caller's own context error (store faults are retried or ignored)", 1)
	c.Rule("R8", "the tokens file is written whenever tokens are set and a path is configured, whatever the state (tokens obtained while JOINING are the ones a restart must find)", 1)
	c.Rule("R9", "a failed token pick ends the lifecycler: autoJoin may have changed local state before its store write failed, so the loop must not carry on with it", 1)
	c.Rule("R5", "a requested state change is remembered even when the store write fails", 1)
	pkg := c.Prog.Pkg("ring")
	if pkg == nil {
		c.Miss("R1", "pkg=ring", "not loaded")
		return
	}
	// ---- R1
	st := an.FindFunc(pkg, "Tokens.StoreToFile")
	if st == nil {
		c.Miss("R1", "func=Tokens.StoreToFile", "not found")
	} else {
		c.Analysed(st.String())
		g := st.Graph()
		var create, rename *an.Call
		others := []string{}
		for _, call := range st.Calls(true) {
			call := call
			if call.Callee == nil || call.Callee.Pkg() == nil || call.Callee.Pkg().Path() != "os" {
				continue
			}
			switch call.Callee.Name() {
			case "Create", "OpenFile":
				create = &call
			case "Rename":
				rename = &call
			default:
				if f := call.Func(); f != nil && f.Type().(*types.Signature).Recv() == nil {
					others = append(others, call.Callee.Name())
				}
			}
		}
		if create == nil || rename == nil {
			c.Viol("R1", "func=StoreToFile:shape", st.Pos(), "expected os.Create/OpenFile of a temporary file and os.Rename onto the final path")
		} else {
			tmpOK := st.Canon(create.Expr.Args[0]) == `(p0 + ".tmp")`
			truncOK := create.Callee.Name() == "Create"
			if create.Callee.Name() == "OpenFile" && len(create.Expr.Args) >= 2 {
				if tv, ok := st.Info().Types[create.Expr.Args[1]]; ok && tv.Value != nil {
					if v, ok := constant.Int64Val(tv.Value); ok {
						// os.O_TRUNC and os.O_CREATE and a write mode
						truncOK = v&0x200 != 0 && v&0x40 != 0 && (v&0x1 != 0 || v&0x2 != 0)
					}
				}
			}
			c.Check(tmpOK && truncOK, "R1", "func=StoreToFile:tmp", create.Expr.Pos(), fmt.Sprintf("temporary file %s opened by os.%s, truncated on open=%v (a leftover of an interrupted write must not leak into the new content)", st.Canon(create.Expr.Args[0]), create.Callee.Name(), truncOK), 1)
			renOK := strings.HasSuffix(st.Canon(rename.Expr.Args[0]), "#0.Name()") && st.Canon(rename.Expr.Args[1]) == "p0"
			// rename ⇔ marshal, write, close all succeeded
			t := an.Table{G: g, From: g.Locate(stmtOf(st, create.Expr)),
				Atoms: []an.Atom{{Name: "createOK", Values: []string{"T", "F"}}, {Name: "marshalOK", Values: []string{"T", "F"}}, {Name: "writeOK", Values: []string{"T", "F"}}, {Name: "closeOK", Values: []string{"T", "F"}}},
				Binder: &an.Binder{Fn: st, Re: []an.ReRole{an.RE(`^os\.(Create|OpenFile)\([^#]*\)#1$`, "CREATE#1"), an.RE(`^recv\.Marshal\(\)#1$`, "MARSHAL#1"), an.RE(`^.*\.Write\(.*\)#1$`, "WRITE#1"), an.RE(`^.*#0\.Close\(\)$`, "CLOSE")},
					Eq: map[string]string{"CREATE#1|nil": "createOK", "MARSHAL#1|nil": "marshalOK", "WRITE#1|nil": "writeOK", "CLOSE|nil": "closeOK"}},
				Targets: []an.Loc{g.Locate(rename.Expr)}, Names: []string{"os.Rename"},
				Want: func(r an.Row, _ int) an.Tri {
					return an.FromBool(r["createOK"] == "T" && r["marshalOK"] == "T" && r["writeOK"] == "T" && r["closeOK"] == "T")
				}}
			res := t.Run()
			c.Check(res.OK() && renOK && len(others) == 0, "R1", "func=StoreToFile:rename", rename.Expr.Pos(), fmt.Sprintf("os.Rename(tmp, path) is the only operation creating the final file (args ok=%v, other os calls %v) and executes ⇔ create, marshal, write and close succeeded: %s", renOK, others, res.Summary()), res.Rows)
			// all writes go to the tmp handle
			wOK := true
			for _, call := range st.Calls(true) {
				if s, ok := call.Expr.Fun.(*ast.SelectorExpr); ok && (s.Sel.Name == "Write" || s.Sel.Name == "WriteString") {
					if !strings.HasPrefix(st.Canon(s.X), "os."+create.Callee.Name()+"(") {
						wOK = false
					}
				}
			}
			c.Check(wOK, "R1", "func=StoreToFile:writes", st.Pos(), "every Write goes to the handle of the temporary file", 1)
		}
	}
	// census of file-writing calls in package ring
	writers := map[string][]string{}
	for _, fn := range an.Funcs(pkg) {
		for _, call := range fn.Calls(true) {
			if call.Callee == nil || call.Callee.Pkg() == nil {
				continue
			}
			p, n := call.Callee.Pkg().Path(), call.Callee.Name()
			if (p == "os" && (n == "Create" || n == "OpenFile" || n == "WriteFile" || n == "Rename" || n == "Truncate" || n == "CreateTemp")) || (p == "io/ioutil" && (n == "WriteFile" || n == "TempFile")) {
				writers[fn.Name] = append(writers[fn.Name], p+"."+n)
			}
		}
	}
	okW := true
	for fn := range writers {
		if fn != "(Tokens).StoreToFile" {
			okW = false
		}
	}
	c.Check(okW && len(writers) == 1, "R1", "pkg=ring:file-writers", pkg.Syntax[0].Pos(), fmt.Sprintf("file-creating/writing calls in package ring: %v (only Tokens.StoreToFile may write files)", writers), len(writers))
	// load errors tolerated
	for _, fn := range an.Funcs(pkg) {
		for _, lf := range append([]*an.Fn{fn}, fn.AllLits()...) {
			for _, call := range lf.CallsTo(false, "ring", "LoadTokensFromFile") {
				if strings.HasSuffix(c.Prog.PosStr(call.Expr.Pos()), "_test.go") {
					continue
				}
				g := lf.Graph()
				// no return statement is control dependent on the load error: every return reachable from the load is also reachable when the error is nil
				stmt := stmtOf(lf, call.Expr)
				LC := lf.Canon(call.Expr)
				var rets []an.Loc
				for _, b := range g.Blocks {
					if r := an.ReturnOf(b); r != nil {
						rets = append(rets, g.Locate(r))
					}
				}
				reach := map[string][]bool{}
				for _, v := range []string{"T", "F"} {
					bd := &an.Binder{Fn: lf, Eq: map[string]string{LC + "#1|nil": "ok"}, Row: an.Row{"ok": v}}
					ex := g.Exec(g.Locate(stmt), rets, bd.Leaf, an.ExecOpts{})
					reach[v] = ex.May
				}
				// every exit reachable only when the load failed must delegate to the next handler (never abort start-up)
				bad := []string{}
				for i, loc := range rets {
					if reach["F"][i] && !reach["T"][i] {
						r := an.ReturnOf(loc.B)
						deleg := false
						for _, res := range r.Results {
							if strings.Contains(lf.Canon(res), ".next.OnRingInstanceRegister(") {
								deleg = true
							}
						}
						if !deleg {
							bad = append(bad, c.Prog.PosStr(r.Pos()))
						}
					}
				}
				c.Check(len(bad) == 0, "R1", "load:func="+lf.Name, call.Expr.Pos(), fmt.Sprintf("a failing tokens-file load never aborts start-up: exits reachable only on load failure delegate to the next handler; offending: %v", bad), len(rets)*2)
			}
		}
	}

	// ---- R2 heartbeat re-registration
	c09Heartbeat(c)
	// ---- R3
	c09Restart(c)
	c09TopUpAs(c, "R4")
	c09ChangeState(c, "R5")
	c09WaitJoin(c, "R7")
	c09SetTokens(c, "R8")
	c09JoinFailure(c, "R9")
}

func c09Heartbeat(c *core.Ctx) { c09HeartbeatAs(c, "R2") }

// c09HeartbeatAs runs the heartbeat re-registration rule under the given rule id (shared with C08.R8).
func c09HeartbeatAs(c *core.Ctx, R string) {
	pkg := c.Prog.Pkg("ring")
	type site struct {
		fn, own          string
		tokensArg, stArg int
	}
	for _, s := range []site{{"Lifecycler.updateConsul", "recv.ID", 3, 4}, {"BasicLifecycler.updateInstance", "recv.cfg.ID", 3, 4}} {
		fn := an.FindFunc(pkg, s.fn)
		if fn == nil {
			c.Miss(R, "func="+s.fn, "not found")
			continue
		}
		c.Analysed(fn.String())
		for _, lf := range fn.AllLits() {
			adds := lf.CallsTo(false, "ring", "(*Desc).AddIngester")
			if len(adds) != 1 {
				continue
			}
			add := adds[0]
			g := lf.Graph()
			var existsCanon, entryCanon string
			lf.InspectShallow(func(n ast.Node) bool {
				if as, ok := n.(*ast.AssignStmt); ok && len(as.Lhs) == 2 && len(as.Rhs) == 1 {
					if ix, ok := an.Unparen(as.Rhs[0]).(*ast.IndexExpr); ok && isDescIngesters(lf, ix.X) && lf.Canon(ix.Index) == s.own {
						existsCanon = "ok(" + lf.Canon(ix) + ")"
						entryCanon = lf.Canon(ix)
					}
				}
				return true
			})
			if existsCanon == "" {
				c.Undec(R, "func="+lf.Name, lf.Pos(), "own-entry lookup not found")
				continue
			}
			vals := map[string][]string{}
			for _, ex := range []string{"T", "F"} {
				bd := &an.Binder{Fn: lf, Bool: map[string]string{existsCanon: "exists"}, Row: an.Row{"exists": ex}}
				arg := add.Expr.Args[s.tokensArg]
				if obj := lf.ObjOf(arg); obj != nil && lf.DefCount(obj) > 1 {
					r := g.Exec(g.EntryLoc(), []an.Loc{g.Locate(add.Expr)}, bd.Leaf, an.ExecOpts{Watch: obj})
					if !r.May[0] {
						vals[ex] = []string{"<unreachable>"}
					}
					for v := range r.Vals[0] {
						vals[ex] = append(vals[ex], v)
					}
				} else {
					r := g.Exec(g.EntryLoc(), []an.Loc{g.Locate(add.Expr)}, bd.Leaf, an.ExecOpts{})
					if r.May[0] {
						vals[ex] = []string{lf.Canon(arg)}
					} else {
						vals[ex] = []string{"<unreachable>"}
					}
				}
				sort.Strings(vals[ex])
			}
			remembered := map[string]bool{"recv.getTokens()": true, "recv.GetTokens()": true}
			okMissing := len(vals["F"]) == 1 && remembered[vals["F"][0]]
			okPresent := len(vals["T"]) == 1 && (vals["T"][0] == "<unreachable>" || vals["T"][0] == entryCanon+".Tokens")
			c.Check(okMissing, R, "func="+lf.Name+":missing", add.Expr.Pos(), fmt.Sprintf("own entry missing: AddIngester tokens ∈ %v (must be the lifecycler's remembered tokens)", vals["F"]), 1)
			c.Check(okPresent, R, "func="+lf.Name+":present", add.Expr.Pos(), fmt.Sprintf("own entry present: AddIngester tokens ∈ %v (must be the tokens recorded in the ring entry %s.Tokens, or no AddIngester at all)", vals["T"], entryCanon), 1)
			if sel, ok := add.Expr.Fun.(*ast.SelectorExpr); ok {
				rc := lf.Canon(sel.X)
				c.Check(strings.HasPrefix(rc, "GetOrCreateRingDesc("), R, "func="+lf.Name+":into", add.Expr.Pos(), "the re-registration is made in the descriptor the CAS works on ("+rc+"), before anything else looks at it", 1)
			}
			stc := lf.Canon(add.Expr.Args[s.stArg])
			c.Check(stc == "recv.GetState()", R, "func="+lf.Name+":state", add.Expr.Pos(), "state re-published = "+stc+" (the lifecycler's remembered state)", 1)
		}
	}
}

func c09Restart(c *core.Ctx) {
	pkg := c.Prog.Pkg("ring")
	fn := an.FindFunc(pkg, "Lifecycler.initRing")
	if fn == nil {
		c.Miss("R3", "func=Lifecycler.initRing", "not found")
		return
	}
	for _, lf := range fn.AllLits() {
		sets := lf.CallsTo(false, "ring", "(*Lifecycler).setTokens")
		if len(sets) == 0 {
			continue
		}
		g := lf.Graph()
		var existsCanon, entryCanon string
		lf.InspectShallow(func(n ast.Node) bool {
			if as, ok := n.(*ast.AssignStmt); ok && len(as.Lhs) == 2 && len(as.Rhs) == 1 {
				if ix, ok := an.Unparen(as.Rhs[0]).(*ast.IndexExpr); ok && isDescIngesters(lf, ix.X) {
					existsCanon = "ok(" + lf.Canon(ix) + ")"
					entryCanon = lf.Canon(ix)
				}
			}
			return true
		})
		// the setTokens reached when the entry exists and is not LEAVING gets the ring's tokens unchanged
		for _, call := range sets {
			obj := lf.ObjOf(call.Expr.Args[0])
			bd := &an.Binder{Fn: lf, Bool: map[string]string{existsCanon: "exists"}, Enum: map[string]string{entryCanon + ".State": "state"}, Row: an.Row{"exists": "T", "state": "ACTIVE"}}
			var r an.ExecResult
			if obj != nil && lf.DefCount(obj) > 1 {
				r = g.Exec(g.EntryLoc(), []an.Loc{g.Locate(call.Expr)}, bd.Leaf, an.ExecOpts{Watch: obj})
			} else {
				r = g.Exec(g.EntryLoc(), []an.Loc{g.Locate(call.Expr)}, bd.Leaf, an.ExecOpts{})
			}
			if !r.May[0] {
				continue // this setTokens belongs to the entry-missing branch
			}
			vals := []string{}
			if r.Vals[0] != nil {
				for v := range r.Vals[0] {
					vals = append(vals, v)
				}
			} else {
				vals = []string{lf.Canon(call.Expr.Args[0])}
			}
			c.Check(len(vals) == 1 && vals[0] == entryCanon+".Tokens", "R3", "initRing:tokens", call.Expr.Pos(), fmt.Sprintf("restart with an existing ACTIVE entry: local tokens ∈ %v (must be the ring entry's tokens %s.Tokens)", vals, entryCanon), 1)
		}
		// R6: going ACTIVE straight from a tokens file requires a complete token set (otherwise the instance
		// stays PENDING with the file's tokens and auto-join tops them up)
		for _, call := range lf.CallsTo(false, "ring", "(*Lifecycler).setState") {
			if lf.ConstName(call.Expr.Args[0]) != "ACTIVE" {
				continue
			}
			// the tokens published in that branch
			var tok types.Object
			for _, st := range sets {
				r := g.Exec(g.Locate(call.Expr), []an.Loc{g.Locate(st.Expr)}, func(ast.Expr, an.Store) an.Tri { return an.U }, an.ExecOpts{})
				if r.May[0] {
					tok = lf.ObjOf(st.Expr.Args[0])
				}
			}
			if tok == nil {
				c.Undec("R6", "initRing:file-active", call.Expr.Pos(), "the tokens published together with the ACTIVE state were not found")
				continue
			}
			bad := []string{}
			for _, ord := range []string{"lt", "eq", "gt"} {
				leaf := func(e ast.Expr, _ an.Store) an.Tri {
					be, ok := an.Unparen(e).(*ast.BinaryExpr)
					if !ok {
						return an.U
					}
					isLen := func(x ast.Expr) bool {
						cl, ok := an.Unparen(x).(*ast.CallExpr)
						return ok && an.ObjIs(an.Callee(lf.Info(), cl), "", "len") && len(cl.Args) == 1 && lf.ObjOf(cl.Args[0]) == tok
					}
					isCfg := func(x ast.Expr) bool { return lf.Canon(x) == "recv.cfg.NumTokens" }
					switch {
					case isLen(be.X) && isCfg(be.Y):
						return an.CmpTri(be.Op, ord)
					case isCfg(be.X) && isLen(be.Y):
						return an.CmpTri(be.Op, map[string]string{"lt": "gt", "eq": "eq", "gt": "lt"}[ord])
					}
					return an.U
				}
				r := g.Exec(g.EntryLoc(), []an.Loc{g.Locate(call.Expr)}, leaf, an.ExecOpts{})
				if ord == "lt" && r.May[0] {
					bad = append(bad, "reachable with fewer tokens than configured")
				}
				if ord != "lt" && !r.May[0] {
					bad = append(bad, "unreachable with a complete token set ("+ord+")")
				}
			}
			c.Check(len(bad) == 0, "R6", "initRing:file-active", call.Expr.Pos(), fmt.Sprintf("without a ring entry the instance goes ACTIVE from the tokens file ⇔ len(%s) ≥ configured token count %v", tok.Name(), bad), 3)
		}
		for _, call := range lf.CallsTo(false, "ring", "(*Lifecycler).setState") {
			a := lf.Canon(call.Expr.Args[0])
			if strings.HasSuffix(a, ".State") {
				c.Check(a == entryCanon+".State", "R3", "initRing:state", call.Expr.Pos(), "restart: local state = "+a+" (the ring entry's state after the restart rewrites)", 1)
			}
		}
	}
}

// c09TopUpAs: wherever a lifecycler asks its token generator for tokens, it asks for exactly the
// difference between a target count and the tokens it already holds (len(T)), and the generated
// tokens are appended to that same list T — inherited tokens are never replaced or dropped by a
// top-up (shared by C09.R4 and C08.R9).
func c09TopUpAs(c *core.Ctx, R string) {
	pkg := c.Prog.Pkg("ring")
	for _, top := range an.Funcs(pkg) {
		for _, call := range top.Calls(true) {
			f := call.Func()
			if f == nil || f.Name() != "GenerateTokens" {
				continue
			}
			sig, _ := f.Type().(*types.Signature)
			if sig == nil || sig.Recv() == nil || !types.IsInterface(sig.Recv().Type()) {
				continue // concrete generators called directly are not lifecycler top-ups
			}
			fn := call.In
			key := "topup:func=" + fn.Name
			c.Analysed(fn.String())
			// (a) requested count = X - len(T)
			cnt := an.Unparen(call.Expr.Args[0])
			for depth := 0; depth < 4; depth++ {
				if _, isBin := cnt.(*ast.BinaryExpr); isBin {
					break
				}
				obj := fn.ObjOf(cnt)
				if obj == nil {
					break
				}
				e, ok := fn.SingleDefExpr(obj)
				if !ok {
					break
				}
				cnt = an.Unparen(e)
			}
			var held types.Object
			if b, ok := cnt.(*ast.BinaryExpr); ok && b.Op == token.SUB {
				y := an.Unparen(b.Y)
				for depth := 0; depth < 3; depth++ { // `existing := len(held)` through single-definition locals
					id, isID := y.(*ast.Ident)
					if !isID {
						break
					}
					e, ok := fn.SingleDefExpr(fn.ObjOf(id))
					if !ok {
						break
					}
					y = an.Unparen(e)
				}
				if lc, ok := y.(*ast.CallExpr); ok && an.ObjIs(an.Callee(fn.Info(), lc), "", "len") && len(lc.Args) == 1 {
					held = fn.ObjOf(lc.Args[0])
				}
			}
			if held == nil {
				c.Viol(R, key, call.Expr.Pos(), "the number of tokens requested from the generator is "+fn.Canon(call.Expr.Args[0])+", not ‹target count› − len(‹tokens already held›): tokens recorded in the ring or the tokens file would be over-provisioned or replaced")
				continue
			}
			// (b) the generated tokens are appended to the held list
			var gen types.Object
			if as, ok := stmtOf(fn, call.Expr).(*ast.AssignStmt); ok && len(as.Lhs) == 1 && len(as.Rhs) == 1 && an.Unparen(as.Rhs[0]) == call.Expr {
				gen = fn.ObjOf(as.Lhs[0])
			}
			appended := false
			fn.InspectShallow(func(n ast.Node) bool {
				as, ok := n.(*ast.AssignStmt)
				if !ok || len(as.Lhs) != 1 || len(as.Rhs) != 1 || fn.ObjOf(as.Lhs[0]) != held {
					return true
				}
				ap, ok := an.Unparen(as.Rhs[0]).(*ast.CallExpr)
				if !ok || !an.ObjIs(an.Callee(fn.Info(), ap), "", "append") || len(ap.Args) != 2 || !ap.Ellipsis.IsValid() {
					return true
				}
				if fn.ObjOf(ap.Args[0]) == held && gen != nil && fn.ObjOf(ap.Args[1]) == gen && fn.Graph().NodeBefore(call.Expr, as) {
					appended = true
				}
				if fn.ObjOf(ap.Args[0]) == held && an.Unparen(ap.Args[1]) == ast.Expr(call.Expr) {
					appended = true // generated tokens passed straight into the append
				}
				return true
			})
			c.Check(appended, R, key, call.Expr.Pos(), fmt.Sprintf("requests %s tokens and appends them to the held list %s (inherited tokens kept as they are)", fn.Canon(call.Expr.Args[0]), held.Name()), 1)
		}
	}
}

// c09ChangeState: the classic lifecycler remembers the requested state even when the store rejects
// the write, so that a later heartbeat re-publishes it: changeState sets the local state exactly once,
// to the requested state, before the store update, and never afterwards.
func c09ChangeState(c *core.Ctx, R string) {
	pkg := c.Prog.Pkg("ring")
	fn := an.FindFunc(pkg, "Lifecycler.changeState")
	if fn == nil {
		c.Miss(R, "func=Lifecycler.changeState", "not found")
		return
	}
	c.Analysed(fn.String())
	sets := fn.CallsTo(true, "ring", "(*Lifecycler).setState")
	upd := fn.CallsTo(true, "ring", "(*Lifecycler).updateConsul")
	ok := len(sets) == 1 && len(upd) == 1 && sets[0].In == fn && upd[0].In == fn && fn.Canon(sets[0].Expr.Args[0]) == "p1" && fn.Graph().NodeBefore(sets[0].Expr, upd[0].Expr)
	args := []string{}
	for _, s := range sets {
		args = append(args, s.In.Canon(s.Expr.Args[0]))
	}
	c.Check(ok, R, "func=Lifecycler.changeState:remember", fn.Pos(), fmt.Sprintf("local state set once, to the requested state, before the store write and never rolled back (setState args: %v; updateConsul calls: %d) — a rejected write is retried by the next heartbeat from the remembered state", args, len(upd)), 1)
}

// c09WaitJoin (R7): waitBeforeJoining is on the path every (re)joining instance takes to ACTIVE and its
// error ends the lifecycler. Its returns must therefore be nil or the error of the caller's own
// context — a store read that fails during the wait is retried or, at the deadline, ignored.
func c09WaitJoin(c *core.Ctx, R string) {
	pkg := c.Prog.Pkg("ring")
	fn := an.FindFunc(pkg, "Lifecycler.waitBeforeJoining")
	if fn == nil {
		c.Miss(R, "func=Lifecycler.waitBeforeJoining", "not found")
		return
	}
	c.Analysed(fn.String())
	g := fn.Graph()
	var bad []string
	n := 0
	for _, b := range g.Blocks {
		r := an.ReturnOf(b)
		if r == nil {
			continue
		}
		n++
		if len(r.Results) != 1 {
			bad = append(bad, "bare return")
			continue
		}
		if v := fn.Canon(r.Results[0]); v != "nil" && v != "p0.Err()" && v != "context.Cause(p0)" {
			bad = append(bad, fmt.Sprintf("%s at line %d", v, c.Prog.Fset.Position(r.Pos()).Line))
		}
	}
	c.Check(n > 0 && len(bad) == 0, R, "func=Lifecycler.waitBeforeJoining:returns", fn.Pos(), fmt.Sprintf("%d returns, each nil or the caller's context error; others: %v", n, bad), n)
}

// c09SetTokens (R8): setTokens persists ⇔ a tokens file is configured — no other condition.
func c09SetTokens(c *core.Ctx, R string) {
	pkg := c.Prog.Pkg("ring")
	fn := an.FindFunc(pkg, "Lifecycler.setTokens")
	if fn == nil {
		c.Miss(R, "func=Lifecycler.setTokens", "not found")
		return
	}
	c.Analysed(fn.String())
	g := fn.Graph()
	var stores []an.Call
	for _, call := range fn.Calls(false) {
		if call.Func() != nil && call.Func().Name() == "StoreToFile" {
			stores = append(stores, call)
		}
	}
	if len(stores) != 1 {
		c.Undec(R, "func=Lifecycler.setTokens", fn.Pos(), fmt.Sprintf("expected one StoreToFile call, found %d", len(stores)))
		return
	}
	t := an.Table{G: g, From: g.EntryLoc(), FreeUnknown: true, Atoms: []an.Atom{{Name: "nopath", Values: []string{"T", "F"}}},
		Binder: &an.Binder{Fn: fn, Eq: map[string]string{"recv.cfg.TokensFilePath|\"\"": "nopath"}}, Targets: []an.Loc{g.Locate(stores[0].Expr)}, Names: []string{"StoreToFile"},
		Want: func(r an.Row, _ int) an.Tri { return an.FromBool(r["nopath"] == "F") }}
	res := t.Run()
	recvOK := false
	if sel, ok := stores[0].Expr.Fun.(*ast.SelectorExpr); ok {
		rc := fn.Canon(sel.X)
		recvOK = (rc == "recv.tokens" || rc == "p0") && fn.Canon(stores[0].Expr.Args[0]) == "recv.cfg.TokensFilePath"
	}
	c.Check(res.OK() && recvOK, R, "func=Lifecycler.setTokens", fn.Pos(), "the new tokens are written to the configured file ⇔ a path is configured: "+res.Summary(), res.Rows)
}

// c09JoinFailure (R9): in Lifecycler.loop every branch taken when autoJoin fails ends in a return.
func c09JoinFailure(c *core.Ctx, R string) {
	pkg := c.Prog.Pkg("ring")
	fn := an.FindFunc(pkg, "Lifecycler.loop")
	if fn == nil {
		c.Miss(R, "func=Lifecycler.loop", "not found")
		return
	}
	c.Analysed(fn.String())
	var returns func(list []ast.Stmt) bool
	returns = func(list []ast.Stmt) bool {
		if len(list) == 0 {
			return false
		}
		switch x := list[len(list)-1].(type) {
		case *ast.ReturnStmt:
			return true
		case *ast.IfStmt:
			if x.Else == nil {
				return false
			}
			eb, ok := x.Else.(*ast.BlockStmt)
			return ok && returns(x.Body.List) && returns(eb.List)
		case *ast.BlockStmt:
			return returns(x.List)
		}
		return false
	}
	n := 0
	for _, call := range fn.CallsTo(true, "ring", "(*Lifecycler).autoJoin") {
		var guard *ast.IfStmt
		fn.InspectDeep(func(x ast.Node) bool {
			if is, ok := x.(*ast.IfStmt); ok {
				if as, ok := is.Init.(*ast.AssignStmt); ok && len(as.Rhs) == 1 && an.Unparen(as.Rhs[0]) == ast.Expr(call.Expr) {
					guard = is
				}
			}
			return true
		})
		n++
		key := fmt.Sprintf("func=Lifecycler.loop:autoJoin#%d", n)
		if guard == nil {
			c.Undec(R, key, call.Expr.Pos(), "the autoJoin call is not of the form `if err := i.autoJoin(…); err != nil { … }`")
			continue
		}
		be, _ := an.Unparen(guard.Cond).(*ast.BinaryExpr)
		c.Check(be != nil && be.Op == token.NEQ && returns(guard.Body.List), R, key, call.Expr.Pos(), "every path of the error branch ends in a return (the lifecycler fails and is restarted from the ring's record)", 1)
	}
	if n == 0 {
		c.Undec(R, "func=Lifecycler.loop:autoJoin", fn.Pos(), "no autoJoin call found")
	}
}
