#!/bin/sh
# usage: ./run.sh Cxx quick|thorough     (cwd=/verif)
# Decides property Cxx from the current working tree of /repo by static analysis.
cd "$(dirname "$0")" || exit 2
. ./env.sh
REPO="${VERIF_REPO:-/repo}"
if [ ! -x bin/dsv ] || [ -n "$(find cmd internal go.mod -newer bin/dsv -print -quit 2>/dev/null)" ]; then
  ./setup.sh || exit 2
fi
exec bin/dsv -property "$1" -tier "${2:-quick}" -repo "$REPO" -verif "$(pwd)" ${VERIF_OUT:+-out "$VERIF_OUT"}
