#!/bin/sh
# usage: ./run.sh Cxx quick|thorough     (cwd=/verif)
# Decides property Cxx from the current working tree of /repo by static analysis.
#   quick    : the property's packages, all rules.
#   thorough : whole-module load (./..., every package type-checked from source), all rules plus module-wide rules,
#              then the sensitivity self-test (every stored mutant / seeded change of the property must be reported in a
#              scratch worktree). Exit 1 + VIOLATION line only for findings on /repo; a missed mutant exits 3 (check broken).
cd "$(dirname "$0")" || exit 2
. ./env.sh
REPO="${VERIF_REPO:-/repo}"
BIN="${VERIF_BIN:-bin/dsv}"   # VERIF_BIN: a frozen checker binary (used when testing patches while sources are being edited)
if [ -n "${VERIF_BIN:-}" ]; then :; elif [ ! -x bin/dsv ] || [ -n "$(find cmd internal go.mod -newer bin/dsv -print -quit 2>/dev/null)" ]; then
  ./setup.sh || exit 2
fi
TIER="${2:-quick}"
"$BIN" -property "$1" -tier "$TIER" -repo "$REPO" -verif "$(pwd)" ${VERIF_OUT:+-out "$VERIF_OUT"}
rc=$?
if [ "$TIER" = thorough ] && [ $rc -eq 0 ] && [ -z "${VERIF_NO_SELFTEST:-}" ] && [ "$REPO" = /repo ]; then
  out=$(VERIF_SELFTEST=1 tools/selftest.sh "$1" 2>&1); src=$?
  echo "$out" | sed 's/^/  selftest: /'
  det=$(echo "$out" | grep -c '^detected'); skip=$(echo "$out" | grep -c '^SKIPPED'); miss=$(echo "$out" | grep -c '^MISSED')
  # record the self-test in the evidence file
  if [ -f "evidence/$1.json" ] && command -v jq >/dev/null 2>&1; then
    tmp=$(mktemp) && jq --argjson d "$det" --argjson s "$skip" --argjson m "$miss" '.coverage.selftest = {mutants_detected: $d, mutants_skipped: $s, mutants_missed: $m}' "evidence/$1.json" > "$tmp" && mv "$tmp" "evidence/$1.json"
  fi
  if [ $miss -gt 0 ]; then
    echo "SELFTEST-BROKEN property=$1: $miss stored mutant(s) are no longer reported by the check (check is broken, not /repo)"
    exit 3
  fi
fi
exit $rc
