// dsv decides one dskit property from the current source of /repo by static analysis.
package main

import (
	"encoding/json"
	"flag"
	"fmt"
	"os"
	"runtime/debug"

	"dsverif/internal/core"
	"dsverif/internal/props"
)

func main() {
	prop := flag.String("property", "", "property id (C01..C20)")
	tier := flag.String("tier", "quick", "quick|thorough")
	repo := flag.String("repo", "/repo", "repository root")
	verif := flag.String("verif", "/verif", "verif root")
	out := flag.String("out", "", "directory for evidence/ and replay/ (default: verif root)")
	explain := flag.Bool("explain", false, "print the registry's explanations as JSON and exit")
	flag.Parse()
	if *explain {
		out := map[string]map[string]any{}
		for id, p := range props.Registry {
			out[id] = map[string]any{"explanation": p.Explanation, "assumptions": p.Assumptions, "patterns": p.Patterns}
		}
		b, _ := json.MarshalIndent(out, "", " ")
		fmt.Println(string(b))
		return
	}
	p, ok := props.Registry[*prop]
	if !ok {
		fmt.Fprintf(os.Stderr, "unknown property %q\n", *prop)
		os.Exit(2)
	}
	if *tier != "quick" && *tier != "thorough" {
		fmt.Fprintf(os.Stderr, "unknown tier %q\n", *tier)
		os.Exit(2)
	}
	c := core.NewCtx(*prop, *tier, *repo, *verif)
	c.Out = *out
	c.Expl = p.Explanation
	c.Assume = p.Assumptions
	code := func() (code int) {
		defer func() {
			if r := recover(); r != nil {
				c.Fatal = append(c.Fatal, fmt.Sprintf("checker panic: %v\n%s", r, debug.Stack()))
				code = c.Finish()
			}
		}()
		pats := p.Patterns
		whole := false
		if *tier == "thorough" {
			pats = []string{"./..."}
			whole = true
		}
		prog, err := core.Load(*repo, whole, pats...)
		if err != nil {
			c.Fatal = append(c.Fatal, err.Error())
			return c.Finish()
		}
		c.Prog = prog
		props.RunWithFallback(c, p, *tier == "thorough")
		return c.Finish()
	}()
	os.Exit(code)
}
