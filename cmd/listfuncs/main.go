// listfuncs prints "<package dir>:<function>" for every function declared in non-test Go files of a
// repository tree. Its output on the pinned tree is frozen in internal/props/known_funcs.txt: helper
// inlining (an.Inline) is applied only to functions that are not in that list, i.e. to helpers that a
// later change extracted.
package main

import (
	"fmt"
	"go/ast"
	"go/parser"
	"go/token"
	"os"
	"path/filepath"
	"sort"
	"strings"

	"dsverif/internal/an"
)

func main() {
	root := os.Args[1]
	var out []string
	filepath.Walk(root, func(p string, fi os.FileInfo, err error) error {
		if err != nil {
			return nil
		}
		if fi.IsDir() && (strings.HasPrefix(fi.Name(), ".") && p != root || fi.Name() == "vendor" || fi.Name() == "testdata") {
			return filepath.SkipDir
		}
		if fi.IsDir() || !strings.HasSuffix(p, ".go") || strings.HasSuffix(p, "_test.go") {
			return nil
		}
		f, err := parser.ParseFile(token.NewFileSet(), p, nil, parser.SkipObjectResolution)
		if err != nil {
			return nil
		}
		rel, _ := filepath.Rel(root, filepath.Dir(p))
		for _, d := range f.Decls {
			if fd, ok := d.(*ast.FuncDecl); ok {
				name := fd.Name.Name
				if fd.Recv != nil && len(fd.Recv.List) == 1 {
					t := fd.Recv.List[0].Type
					if s, ok := t.(*ast.StarExpr); ok {
						t = s.X
					}
					switch x := t.(type) {
					case *ast.IndexExpr:
						t = x.X
					case *ast.IndexListExpr:
						t = x.X
					}
					if id, ok := t.(*ast.Ident); ok {
						name = id.Name + "." + name
					}
				}
				out = append(out, rel+":"+name+"\t"+an.SigText(fd.Type)+"#"+an.ShapeHash(fd.Body))
			}
		}
		return nil
	})
	sort.Strings(out)
	for _, s := range out {
		fmt.Println(s)
	}
}
