// u32census lists arithmetic (+, -, ++, --, +=, -=) on uint32-typed operands in a package (discovery aid for C14.R3).
package main

import (
	"fmt"
	"go/ast"
	"go/token"
	"go/types"
	"os"

	"dsverif/internal/core"
)

func main() {
	prog, err := core.Load(os.Args[1], false, os.Args[2:]...)
	if err != nil {
		fmt.Println(err)
		os.Exit(2)
	}
	for _, pkg := range prog.Pkgs {
		for _, f := range pkg.Syntax {
			ast.Inspect(f, func(n ast.Node) bool {
				isU32 := func(e ast.Expr) bool {
					t := pkg.TypesInfo.TypeOf(e)
					if t == nil {
						return false
					}
					b, ok := t.Underlying().(*types.Basic)
					return ok && b.Kind() == types.Uint32
				}
				switch x := n.(type) {
				case *ast.BinaryExpr:
					if (x.Op == token.ADD || x.Op == token.SUB) && isU32(x) && pkg.TypesInfo.Types[x].Value == nil {
						fmt.Printf("%s: %s\n", prog.PosStr(x.Pos()), types.ExprString(x))
					}
				case *ast.IncDecStmt:
					if isU32(x.X) {
						fmt.Printf("%s: %s%s\n", prog.PosStr(x.Pos()), types.ExprString(x.X), x.Tok)
					}
				case *ast.AssignStmt:
					if (x.Tok == token.ADD_ASSIGN || x.Tok == token.SUB_ASSIGN) && isU32(x.Lhs[0]) {
						fmt.Printf("%s: %s %s %s\n", prog.PosStr(x.Pos()), types.ExprString(x.Lhs[0]), x.Tok, types.ExprString(x.Rhs[0]))
					}
				}
				return true
			})
		}
	}
}
